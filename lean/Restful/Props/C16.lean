/-
C16 — entities survive write-then-read, also compressed, whatever came before.

`readEntity C cfg pool req` (Model/Entity.lean) is the model of `Request.ReadEntity`; it is tied to
/repo by the correspondence stream `entity` (harness/internal/entity).  Everything below is proved
for an ARBITRARY `L : CodecLaws Value`: that encoding/json, encoding/xml, compress/gzip and
compress/zlib satisfy those laws is standard-library behaviour and enters as hypotheses (no axiom);
`Toy.laws` shows the hypotheses are satisfiable, and the harness validates each law on every value
and body it uses.  This property is therefore PARTIAL by nature: the theorems are about the glue.

Two deviations of the code from the property as written were found; both are repaired:
  F62  (REPAIRED by 8b400b4) a Content-Type containing two registered keys (`application/xml;
       x="application/json"`) used to select a reader by Go map iteration order.  The reverse lookup
       of `accessorAt` is now a function of the value: among the registered keys that occur in it
       the one whose first occurrence is earliest wins, the longer of two that start at the same
       position (`Str.firstLongest`).  The media type of a Content-Type stands before its
       parameters, so the registered key that IS the media type always wins
       (`C16_select_media`).  Nothing below assumes the class `Entity.f62` any more:
       `C16_selected_round` and `C16_spec` are the full statements (they were `…_partial` with the
       hypothesis `f62 = false`), `C16_lookup_function` says the lookup has one answer on
       every registry and value (the former class included), `C16_reverse_lookup_spec` which one,
       `C16_F62_fixed` is the former witness as a regression (`decide`d);
  F61  (REPAIRED by 75d0593) a gzip/deflate body whose stream breaks AFTER a complete document was
       delivered (bad CRC/Adler checksum, cut trailer, garbage after the member) used to be read
       without error — possibly to a wrong value — because `ReadEntity` never read the stream to
       its end.  It now drains a compressed body after a successful entity read and returns the
       error the stream ends with (`Entity.drain`).  Nothing below assumes the class `Entity.f61`
       any more: `C16_broken_coding` is the full statement, `C16_value_from_clean_stream` is its
       converse (a value is only ever returned from a stream that ended cleanly),
       `C16_former_F61_class` says what the former class yields now, `C16_F61_fixed` is the former
       witness as a regression (`decide`d), and the predicate theorem `C16_spec` carries no class
       hypothesis at all.  The laws `json_dirty` / `xml_dirty` that the partial theorem needed
       are gone from `CodecLaws`.
-/
import Restful.Lemmas.Entity
import Restful.Lemmas.EntityToy
import Restful.Lemmas.StateShape
namespace Restful
namespace Props
open Entity Str Spec.C16
variable {Value : Type}

/-! ## round trip -/

/-- Whatever either writer mode produced for `v`, sent back plain, gzip- or deflate-coded and
    declared so, under any Content-Type spelling for which the lookup yields the writer's reader, is
    read back as exactly `v` — from ANY pool state (any provider, any reader objects, whatever they
    were used for before). -/
theorem C16_round (L : CodecLaws Value) (cfg : Cfg) (hu : cfg.useNumber = true) (pool : Pool)
    (k : Kind) (pretty : Bool) (v : Value) (ct : Str) (c : Coding) (hsel : accessorsFor cfg ct = [k]) :
    (readEntity L.toCodec cfg pool (requestOf L.toCodec k pretty v ct c)).results = [.ok v] := by
  rw [readEntity_results]
  have hread : lookupAndRead L.toCodec cfg ct ⟨writeEntity L.toCodec k pretty v, true⟩ = [.ok v] := by
    unfold lookupAndRead
    rw [hsel]
    cases k <;> simp [entityRead, writeEntity, hu, L.json_round, L.xml_round]
  cases c with
  | identity =>
    simp [readPure, declaredStream, requestOf, Coding.header, encodeBody, nil_ne_gzip.symm, nil_ne_deflate.symm, hread, drain]
  | gzip =>
    simp [readPure, declaredStream, requestOf, Coding.header, encodeBody, L.gz_round, hread, drain]
  | deflate =>
    simp [readPure, declaredStream, requestOf, Coding.header, encodeBody, deflate_ne_gzip, L.zl_round, hread, drain]

/-- non-vacuity of `C16_round`: the built-in registry, `; charset=utf-8`, a gzip-coded pretty JSON
    body, read through a bounded provider whose only reader was last used on a broken body -/
example :
    let cfg := Cfg.asIs
    let ct := "application/json; charset=utf-8".toList
    let dirty : Pool := { provider := .bounded 1, idle := [{ id := 0, src := "Gxx".toList, residue := "Gxx".toList }], nextId := 1 }
    cfg.useNumber = true ∧ accessorsFor cfg ct = [.json] ∧
      (readEntity Toy.codec cfg dirty (requestOf Toy.codec .json true .big1 ct .gzip)).results = [.ok .big1] := by
  decide

/-- `UseNumber` is what the round trip of big integers hangs on: the same read with the flag off
    returns a different value (the toy's `big1 ↦ big` is float64's 2^53+1 ↦ 2^53) -/
example :
    (readEntity Toy.codec { Cfg.asIs with useNumber := false } (Pool.fresh Toy.codec .syncPool)
      (requestOf Toy.codec .json false .big1 MIME_JSON .identity)).results = [.ok .big] := by
  decide

/-! ## accessor selection -/

/-- A Content-Type that is a registered key `m` followed by anything (`; charset=utf-8`, blanks …),
    in which no OTHER registered key occurs, selects exactly `m`'s reader. -/
theorem C16_select (reg : List (Str × Kind)) (hnd : (reg.map (·.1)).Nodup) (m params ct : Str) (k : Kind)
    (hm : (m, k) ∈ reg) (hct : ct = m ++ params)
    (hu : ∀ e ∈ reg, containsSub e.1 ct = true → e.1 = m) :
    accessorAt reg ct = [k] := by
  subst hct
  exact accessorAt_unique reg m (m ++ params) k hnd hm (containsSub_append m params) hu

/-- non-vacuity of `C16_select` on the built-in registry -/
example :
    let ct := "application/xml;charset=UTF-8".toList
    (builtinRegistry.map (·.1)).Nodup ∧ (MIME_XML, Kind.xml) ∈ builtinRegistry ∧
      ct = MIME_XML ++ ";charset=UTF-8".toList ∧
      (∀ e ∈ builtinRegistry, containsSub e.1 ct = true → e.1 = MIME_XML) ∧ accessorAt builtinRegistry ct = [.xml] := by
  decide

/-- what the lookup does with other spellings (all `decide`d on the model; the harness sees the same) -/
example : accessorsFor Cfg.asIs "APPLICATION/JSON".toList = [] ∧                    -- case-sensitive: 400
    accessorsFor Cfg.asIs " application/json ".toList = [.json] ∧                    -- blanks around: substring
    accessorsFor Cfg.asIs "application/jsonx".toList = [.json] ∧                     -- any superstring
    accessorsFor Cfg.asIs [] = [] ∧ accessorsFor Cfg.asIs "*/*".toList = [] ∧         -- 400 without a default
    accessorsFor (Cfg.asIs MIME_XML) [] = [.xml] ∧                                   -- default fallback
    accessorsFor (Cfg.asIs MIME_XML) "text/plain".toList = [.xml] ∧                  -- also for a foreign type
    accessorsFor (Cfg.asIs "application/json; charset=utf-8".toList) [] = [.json] := by  -- the default itself goes through the substring search
  decide

/-- The registered key that is the MEDIA TYPE of the Content-Type — the value starts with it, and
    what follows starts with `;` or a blank — selects its reader, whatever other registered keys
    occur further on in the value (in a parameter, say): it occurs at position 0, and no key that
    also starts there is longer (it would contain the `;` or the blank, which no key of a
    well-formed registry does).  Before 8b400b4 this held only when no other key occurred (F62). -/
theorem C16_select_media (cfg : Cfg) (hwf : cfg.wf = true) (ct : Str) (k : Kind)
    (hm : mediaSelects cfg.registry ct k = true) : accessorAt cfg.registry ct = [k] :=
  accessorAt_of_mediaSelects hwf hm

/-- The lookup is a FUNCTION of the value on every registry that is a map (distinct keys; no
    other assumption on the keys or on the value): never two possible readers, and `ReadEntity`
    has exactly one result — the order in which Go iterates over the map cannot show. -/
theorem C16_lookup_function (C : Codec Value) (cfg : Cfg) (hnd : (cfg.registry.map (·.1)).Nodup) (pool : Pool) (req : RequestIn) :
    (accessorAt cfg.registry req.contentType).length ≤ 1 ∧ (accessorsFor cfg req.contentType).length ≤ 1 ∧
      (readEntity C cfg pool req).results.length = 1 :=
  ⟨accessorAt_length_le_one hnd _, accessorsFor_length_le_one hnd _, readEntity_results_length C hnd pool req⟩

/-- …and WHICH key answers when there is no exact one: it occurs in the value, no registered key
    occurs earlier, none that starts at the same position is longer; as soon as some registered key
    occurs there is such a key, and there is only one (the specification of `Str.firstLongest`,
    i.e. of the loop entity_accessors.go:78-90, by `strings.Index` alone). -/
theorem C16_reverse_lookup_spec (keys : List Str) (v : Str) :
    (∀ k, firstLongest keys v k = true ↔
      ∃ i, indexSub k v = some i ∧ ∀ k' ∈ keys, ∀ j, indexSub k' v = some j → i < j ∨ (i = j ∧ k'.length ≤ k.length)) ∧
    ((∃ k ∈ keys, containsSub k v = true) → ∃ k ∈ keys, firstLongest keys v k = true) ∧
    (∀ k ∈ keys, ∀ k' ∈ keys, firstLongest keys v k = true → firstLongest keys v k' = true → k = k') :=
  ⟨fun _ => firstLongest_iff, firstLongest_exists, fun _ hk _ hk' h h' => firstLongest_unique hk hk' h h'⟩

/-- non-vacuity of `C16_select_media` / `C16_lookup_function` / `C16_reverse_lookup_spec`: the two
    Content-Types of the former class F62 on the built-in registry, a key inside a longer key that
    starts at the same position (the longer wins), a key that occurs earlier than the media type
    (it wins: the value does not START with a registered key) -/
example :
    let reg3 : List (Str × Kind) := [(MIME_JSON, .json), (MIME_XML, .xml), ("application/x".toList, .json)]
    Cfg.asIs.wf = true ∧ mediaSelects builtinRegistry "application/xml; x=\"application/json\"".toList .xml = true ∧
      accessorAt builtinRegistry "application/xml; x=\"application/json\"".toList = [.xml] ∧
      accessorAt builtinRegistry "application/json; x=\"application/xml\"".toList = [.json] ∧
      (reg3.map (·.1)).Nodup ∧ accessorAt reg3 "application/xml;charset=utf-8".toList = [.xml] ∧
      accessorAt reg3.reverse "application/xml;charset=utf-8".toList = [.xml] ∧
      accessorAt reg3 "application/xhtml+xml".toList = [.json] ∧
      accessorAt builtinRegistry "x-application/json+application/xml".toList = [.json] ∧
      firstLongest (reg3.map (·.1)) "application/xml;charset=utf-8".toList MIME_XML = true ∧
      firstLongest (reg3.map (·.1)) "application/xml;charset=utf-8".toList "application/x".toList = false := by
  decide

/-- The reader selected by the Content-Type's media type (or, without a Content-Type, by the
    default request content type) reads back what its writer wrote.  FULL statement (until 8b400b4
    it held only outside the class `Entity.f62`: finding F62, `C16_selected_round_partial`). -/
theorem C16_selected_round (L : CodecLaws Value) (cfg : Cfg) (hwf : cfg.wf = true) (hu : cfg.useNumber = true)
    (pool : Pool) (k : Kind) (pretty : Bool) (v : Value) (ct : Str) (c : Coding)
    (hsel : selected cfg ct k = true) :                     -- ct = registered key of k's writer (+ parameters), or absent with that default
    (readEntity L.toCodec cfg pool (requestOf L.toCodec k pretty v ct c)).results = [.ok v] :=
  C16_round L cfg hu pool k pretty v ct c (accessorsFor_of_selected hwf hsel)

/-- The former witness of F62 as a regression, on the model, with nothing but the built-in JSON
    and XML keys: a faithful XML body under `application/xml; x="application/json"` — both keys
    occur, the lookup before 8b400b4 could answer with either reader (`accessorAtAnyOrder`), the
    request is in the former class — is read by the XML reader, the one result is the value
    written (before: `[.err .badSyntax, .ok .small]`, whichever the map iteration met first); the
    mirrored Content-Type goes to the JSON reader; the predicate of the check holds on what the
    model does with both, and still rejects what the unrepaired code could answer. -/
theorem C16_F62_fixed :
    let ct := "application/xml; x=\"application/json\"".toList
    let ct' := "application/json; x=\"application/xml\"".toList
    let obs := observe Toy.codec Cfg.asIs (fun v => [v.ch]) .syncPool (Pool.fresh Toy.codec .syncPool)
      [{ req := requestOf Toy.codec .xml false .small ct .identity, kind := .xml, v := .small, faithful := true },
       { req := requestOf Toy.codec .json false .small ct' .gzip, kind := .json, v := .small, faithful := true }]
    selected Cfg.asIs ct .xml = true ∧ Entity.f62 Cfg.asIs ct = true ∧ accessorAtAnyOrder builtinRegistry ct = [.json, .xml] ∧
      accessorAt builtinRegistry ct = [.xml] ∧
      (readEntity Toy.codec Cfg.asIs (Pool.fresh Toy.codec .syncPool) (requestOf Toy.codec .xml false .small ct .identity)).results
        = [.ok .small] ∧
      selected Cfg.asIs ct' .json = true ∧ Entity.f62 Cfg.asIs ct' = true ∧ accessorAt builtinRegistry ct' = [.json] ∧
      obs.map (·.real) = [.ok ['s'], .ok ['s']] ∧ Spec.c16Holds Cfg.asIs obs = true ∧
      Spec.c16Holds Cfg.asIs (obs.map fun o => { o with real := .err, alone := .err }) = false := by
  decide

/-! ## history independence -/

/-- Under the `Reset` law the result of a read does not depend on the pool it runs on: not on the
    provider, not on which objects are idle, not on what those objects were used for before.  (This
    also covers everything `sync.Pool` is allowed to do — hand out any object put back earlier or a
    new one, drop objects at any time: whichever pool state results, the read is the same.) -/
theorem C16_pool_irrelevant (L : CodecLaws Value) (cfg : Cfg) (pool pool' : Pool) (req : RequestIn) :
    (readEntity L.toCodec cfg pool req).results = (readEntity L.toCodec cfg pool' req).results := by
  rw [readEntity_results, readEntity_results]

/-- For every sequence of requests — well-formed, truncated, corrupt, in any order — read one
    after the other on one provider starting from any pool state, the i-th result is the result of
    reading the i-th request alone on a provider fresh from its constructor. -/
theorem C16_history (L : CodecLaws Value) (cfg : Cfg) (prov : Provider) (pool : Pool) (reqs : List RequestIn) :
    (readSeq L.toCodec cfg pool reqs).map (·.results) = reqs.map (readOne L.toCodec cfg prov) := by
  induction reqs generalizing pool with
  | nil => rfl
  | cons r rs ih =>
    simp only [readSeq, List.map_cons, ih, readOne]
    rw [C16_pool_irrelevant L cfg pool (Pool.fresh L.toCodec prov) r]

/-- non-vacuity of `C16_history`: bounded provider of capacity 1 (the one reader object is reused
    by every gzip read), a good gzip body, a truncated one, garbage declared gzip, a broken deflate
    body, one whose trailer is cut after a complete document (the reader is read on to that error
    and goes back to the pool), then the good one again: errors in the middle, the same value
    before and after -/
example :
    let good := requestOf Toy.codec .json false .big1 MIME_JSON .gzip
    let reqs : List RequestIn := [good, { good with body := "G{".toList }, { good with body := "xx".toList },
      { good with contentEncoding := ENCODING_DEFLATE, body := "Q".toList }, { good with body := "G{c}\n".toList }, good]
    (readSeq Toy.codec Cfg.asIs (Pool.fresh Toy.codec (.bounded 1)) reqs).map (fun o => (o.results, o.reader)) =
      [([.ok .big1], some 0), ([.err .badEncoding], some 0), ([.err .badEncoding], some 0), ([.err .badEncoding], none),
       ([.err .badEncoding], some 0), ([.ok .big1], some 0)] ∧
    (readSeq Toy.codec Cfg.asIs (Pool.fresh Toy.codec (.bounded 1)) reqs).map (·.results) = reqs.map (readOne Toy.codec Cfg.asIs (.bounded 1)) := by
  decide

/-- the `Reset` law is what history independence hangs on: with a reader object that remembers
    having been used, the second of two identical good requests fails -/
example :
    let good := requestOf Toy.stickyCodec .json false .small MIME_JSON .gzip
    (readSeq Toy.stickyCodec Cfg.asIs (Pool.fresh Toy.stickyCodec (.bounded 1)) [good, good]).map (·.results) =
      [[.ok .small], [.err .badEncoding]] := by
  decide

/-! ## errors, never a panic -/

/-- `ReadEntity` in the model is total and its result type has no panic: on EVERY input (any codec,
    no law needed, any configuration, pool, headers and body) it yields at least one result and each
    is a value or an error.

    Panic sources of the real code and where they stand: (a) `Request.Body == nil` (a hand-made
    `http.Request`; a server always supplies a non-nil body): nil dereference in the decoder or in
    `Reset` — outside the quantifier (no body at all is not a "body"), the harness never builds it;
    (b) a nil or non-pointer `entityPointer`: encoding/json and encoding/xml return an error, no
    panic (probed); (c) a custom `CompressorProvider` returning nil — outside ("both compressor
    providers"); (d) `zlib.NewReader`'s error is checked (request.go:91), `Reset`'s is not, but a
    `gzip.Reader` whose `Reset` failed keeps the error and returns it from every `Read` — an error,
    not a panic; this is part of `reset_law` (`ungz` of a body without a gzip header is the stream
    `⟨[], false⟩`) and is validated by the harness on every such body. -/
theorem C16_error_no_panic (C : Codec Value) (cfg : Cfg) (pool : Pool) (req : RequestIn) :
    (readEntity C cfg pool req).results ≠ [] ∧
      ∀ r ∈ (readEntity C cfg pool req).results, (∃ v, r = .ok v) ∨ (∃ k, r = .err k) := by
  refine ⟨?_, fun r _ => by cases r with | ok v => exact Or.inl ⟨v, rfl⟩ | err k => exact Or.inr ⟨k, rfl⟩⟩
  unfold readEntity
  by_cases hg : req.contentEncoding = ENCODING_GZIP
  · simp only [hg, if_true]
    simpa using lookupAndRead_ne_nil _ _ _ _
  · simp only [hg, if_false]
    by_cases hd : req.contentEncoding = ENCODING_DEFLATE
    · simp only [hd, if_true]
      cases C.unzl req.body with
      | none => simp
      | some s => simpa using lookupAndRead_ne_nil _ _ _ _
    · simp only [hd, if_false]
      exact lookupAndRead_ne_nil _ _ _ _

/-- A body that is not what its declared coding says (no gzip/zlib header, truncated, corrupt,
    empty, trailer cut or damaged, garbage after the member) yields an error from every reader the
    lookup can select — WHEREVER the stream breaks, also after a complete document was delivered:
    the entity decoder stops at the end of the first document, `ReadEntity` reads on to the end of
    the stream and returns what it ends with (request.go:111-117).  Full statement (until 75d0593 it
    held only outside the class `Entity.f61`: finding F61). -/
theorem C16_broken_coding (L : CodecLaws Value) (cfg : Cfg) (pool : Pool) (req : RequestIn)
    (hbroken : ∀ s, declaredStream L.toCodec req = some s → s.clean = false) :
    ∀ r ∈ (readEntity L.toCodec cfg pool req).results, r.isErr = true := by
  rw [readEntity_results]
  unfold readPure
  cases hs : declaredStream L.toCodec req with
  | none => simp [Result.isErr]
  | some s =>
    simp only [List.mem_map, forall_exists_index, and_imp]
    intro r r' _ hr
    rw [← hr]
    exact drain_dirty (hbroken s hs) r'

/-- non-vacuity of `C16_broken_coding`: trailer cut after a complete document (gzip and deflate),
    cut inside the document, no header at all, empty body — the hypothesis holds and every result
    is an error; the last conjunct: an UNDECLARED body is not drained, what follows its first
    document is never looked at -/
example :
    let bodies : List (Str × Str) := [(ENCODING_GZIP, "G{c}\n".toList), (ENCODING_DEFLATE, "Z{c}\n".toList), (ENCODING_GZIP, "G{".toList),
      (ENCODING_GZIP, "xx".toList), (ENCODING_DEFLATE, "Q".toList), (ENCODING_GZIP, [])]
    (∀ b ∈ bodies, (∀ s, declaredStream Toy.codec ⟨MIME_JSON, b.1, b.2⟩ = some s → s.clean = false) ∧
      (readEntity Toy.codec Cfg.asIs (Pool.fresh Toy.codec (.bounded 1)) ⟨MIME_JSON, b.1, b.2⟩).results = [.err .badEncoding]) ∧
    (readEntity Toy.codec Cfg.asIs (Pool.fresh Toy.codec (.bounded 1)) ⟨MIME_JSON, [], "{c}\nG#".toList⟩).results = [.ok .big1] := by
  decide

/-- …and which error: the one of the broken coding, unless no reader is registered for the
    Content-Type (the 400 comes first: nothing has been read then) -/
theorem C16_broken_coding_kind (L : CodecLaws Value) (cfg : Cfg) (pool : Pool) (req : RequestIn)
    (hbroken : ∀ s, declaredStream L.toCodec req = some s → s.clean = false) :
    ∀ r ∈ (readEntity L.toCodec cfg pool req).results, r = .err .badEncoding ∨ r = .err .noReader400 := by
  rw [readEntity_results]
  unfold readPure
  cases hs : declaredStream L.toCodec req with
  | none => simp
  | some s =>
    have hc : s.clean = false := hbroken s hs
    unfold lookupAndRead
    cases accessorsFor cfg req.contentType with
    | nil => simp [drain]
    | cons a as =>
      simp only [List.map_map, List.mem_map, Function.comp_apply, forall_exists_index, and_imp]
      intro r k _ hr
      left
      rw [← hr]
      unfold entityRead
      cases k <;> simp only <;> split <;> simp [drain, hc]

/-- Conversely, a VALUE is only ever returned from a stream that was read to its clean end, and it
    is the value a reader the lookup allows finds in that stream: no value — in particular no wrong
    value (the former F61: i64 9007199254740993 read as 1007199254740993 from a body whose CRC did
    not match) — comes out of a stream that is cut or corrupt anywhere. -/
theorem C16_value_from_clean_stream (L : CodecLaws Value) (cfg : Cfg) (pool : Pool) (req : RequestIn) (v : Value)
    (h : Result.ok v ∈ (readEntity L.toCodec cfg pool req).results) :
    ∃ s k, declaredStream L.toCodec req = some s ∧ s.clean = true ∧ k ∈ accessorsFor cfg req.contentType ∧
      entityRead L.toCodec cfg k s = .ok v := by
  rw [readEntity_results] at h
  unfold readPure at h
  cases hs : declaredStream L.toCodec req with
  | none => rw [hs] at h; simp at h
  | some s =>
    rw [hs] at h
    simp only [List.mem_map] at h
    obtain ⟨r', hr', hd⟩ := h
    cases r' with
    | err k => simp [drain] at hd
    | ok v' =>
      by_cases hc : s.clean = true
      · simp only [drain, hc, if_true, Result.ok.injEq] at hd
        subst hd
        unfold lookupAndRead at hr'
        cases ha : accessorsFor cfg req.contentType with
        | nil => rw [ha] at hr'; simp at hr'
        | cons a as =>
          rw [ha] at hr'
          simp only [List.mem_map] at hr'
          obtain ⟨k, hk, hk'⟩ := hr'
          exact ⟨s, k, rfl, hc, hk, hk'⟩
      · simp [drain, hc] at hd

/-- non-vacuity of `C16_value_from_clean_stream` -/
example :
    let req := requestOf Toy.codec .json true .big1 "application/json; charset=utf-8".toList .deflate
    Result.ok Toy.V.big1 ∈ (readEntity Toy.codec Cfg.asIs (Pool.fresh Toy.codec .syncPool) req).results ∧
      declaredStream Toy.codec req = some ⟨"  {c}\n".toList, true⟩ ∧ Kind.json ∈ accessorsFor Cfg.asIs req.contentType ∧
      entityRead Toy.codec Cfg.asIs .json ⟨"  {c}\n".toList, true⟩ = .ok .big1 := by
  decide

/-- What the class of the repaired finding F61 yields now — the declared coding's stream breaks
    after it delivered a complete document for a selectable reader: the error of the broken coding,
    from every reader the lookup can select. -/
theorem C16_former_F61_class (L : CodecLaws Value) (cfg : Cfg) (pool : Pool) (req : RequestIn)
    (hclass : Entity.f61 L.toCodec cfg req = true) :
    ∀ r ∈ (readEntity L.toCodec cfg pool req).results, r = .err .badEncoding := by
  unfold Entity.f61 at hclass
  cases hs : declaredStream L.toCodec req with
  | none => rw [hs] at hclass; simp at hclass
  | some s =>
    rw [hs] at hclass
    simp only [Bool.and_eq_true, Bool.not_eq_true', List.any_eq_true] at hclass
    obtain ⟨hc, k, hk, _⟩ := hclass
    intro r hr
    rcases C16_broken_coding_kind L cfg pool req (fun s' hs' => by rw [hs] at hs'; cases hs'; exact hc) r hr with h | h
    · exact h
    · exfalso
      rw [readEntity_results] at hr
      unfold readPure at hr
      rw [hs] at hr
      unfold lookupAndRead at hr
      cases ha : accessorsFor cfg req.contentType with
      | nil => rw [ha] at hk; cases hk
      | cons a as =>
        rw [ha] at hr
        simp only [List.map_map, List.mem_map, Function.comp_apply] at hr
        obtain ⟨k', _, hk'⟩ := hr
        rw [h] at hk'
        unfold entityRead at hk'
        revert hk'
        cases k' <;> simp only <;> split <;> simp [drain, hc]

/-- The former witness of F61 as a regression, on the model: a gzip body cut before its trailer
    (the toy's `#`) after a complete document — a broken stream, in the former class — is now
    answered with the error of the broken coding (before 75d0593: `[.ok .big1]`), and so is its
    deflate twin; the predicate of the check holds on what the model does with it, and still rejects
    what the unrepaired code answered. -/
theorem C16_F61_fixed :
    let req : RequestIn := { contentType := MIME_JSON, contentEncoding := ENCODING_GZIP, body := "G{c}\n".toList }
    let zreq : RequestIn := { contentType := MIME_JSON, contentEncoding := ENCODING_DEFLATE, body := "Z{c}\n".toList }
    let obs := observe Toy.codec Cfg.asIs (fun v => [v.ch]) .syncPool (Pool.fresh Toy.codec .syncPool)
      [{ req := req, kind := .json, v := .big1, faithful := false }, { req := zreq, kind := .json, v := .big1, faithful := false }]
    (declaredStream Toy.codec req).map (·.clean) = some false ∧ Entity.f61 Toy.codec Cfg.asIs req = true ∧
      (readEntity Toy.codec Cfg.asIs (Pool.fresh Toy.codec .syncPool) req).results = [.err .badEncoding] ∧
      (declaredStream Toy.codec zreq).map (·.clean) = some false ∧ Entity.f61 Toy.codec Cfg.asIs zreq = true ∧
      (readEntity Toy.codec Cfg.asIs (Pool.fresh Toy.codec .syncPool) zreq).results = [.err .badEncoding] ∧
      obs.map (·.real) = [.err, .err] ∧ Spec.c16Holds Cfg.asIs obs = true ∧
      Spec.c16Holds Cfg.asIs (obs.map fun o => { o with real := .ok ['c'], alone := .ok ['c'] }) = false := by
  decide

/-- Bytes that decode cleanly under the declared coding but are not a document for the selected
    reader yield a syntax error. -/
theorem C16_broken_syntax (L : CodecLaws Value) (cfg : Cfg) (pool : Pool) (req : RequestIn) (s : Stream) (k : Kind)
    (hs : declaredStream L.toCodec req = some s) (hc : s.clean = true) (hsel : accessorsFor cfg req.contentType = [k])
    (hdoc : docFor L.toCodec cfg k s.data = false) :
    (readEntity L.toCodec cfg pool req).results = [.err .badSyntax] := by
  rw [readEntity_results]
  unfold readPure lookupAndRead
  rw [hs, hsel]
  have hsd : s = ⟨s.data, true⟩ := by cases s; simp_all
  unfold docFor at hdoc
  unfold entityRead
  rw [hsd]
  cases k with
  | json =>
    simp only [Option.isSome_eq_false_iff, Option.isNone_iff_eq_none] at hdoc
    simp [hdoc, drain]
  | xml =>
    simp only [Option.isSome_eq_false_iff, Option.isNone_iff_eq_none] at hdoc
    simp [hdoc, drain]

/-- no reader, no default: the 400, whatever the body and its coding (except that a refused zlib
    header is reported first) -/
theorem C16_no_reader (C : Codec Value) (cfg : Cfg) (pool : Pool) (req : RequestIn)
    (hnone : accessorsFor cfg req.contentType = []) (hz : req.contentEncoding = ENCODING_DEFLATE → C.unzl req.body ≠ none) :
    (readEntity C cfg pool req).results = [.err .noReader400] := by
  unfold readEntity
  by_cases hg : req.contentEncoding = ENCODING_GZIP
  · simp [hg, lookupAndRead, hnone, drain]
  · simp only [hg, if_false]
    by_cases hd : req.contentEncoding = ENCODING_DEFLATE
    · simp only [hd, if_true]
      cases hu : C.unzl req.body with
      | none => exact absurd hu (hz hd)
      | some s => simp [lookupAndRead, hnone, drain]
    · simp [hd, lookupAndRead, hnone]

/-! ## the pooled reader: released on every path, never lost -/

/-- The deferred release runs whatever the read returns: the ledger of every read is empty or
    acquire–use–release, and a bounded provider that is full (as its constructor leaves it) is full
    again after every read — good, truncated, corrupt or without a reader. -/
theorem C16_release_always (C : Codec Value) (cfg : Cfg) (cap : Nat) (pool : Pool) (req : RequestIn)
    (hp : pool.provider = .bounded cap) (hfull : pool.idle.length = cap) :
    ledgerOK (readEntity C cfg pool req).events = true ∧
      (readEntity C cfg pool req).pool.provider = .bounded cap ∧
      (readEntity C cfg pool req).pool.idle.length = cap := by
  refine ⟨?_, ?_⟩
  · rcases readEntity_events C cfg pool req with h | h <;> rw [h] <;> decide
  · unfold readEntity
    by_cases hg : req.contentEncoding = ENCODING_GZIP
    · simp only [hg, if_true]
      unfold Pool.acquire
      cases hi : pool.idle with
      | nil =>
        simp only [Pool.release, hp]
        rw [hi] at hfull
        simp only [List.length_nil] at hfull
        subst hfull
        simp
      | cons r rest =>
        rw [hi] at hfull
        simp only [List.length_cons] at hfull
        simp only [Pool.release, hp]
        have : rest.length < cap := by omega
        simp [this]
        omega
    · simp only [hg, if_false]
      by_cases hd : req.contentEncoding = ENCODING_DEFLATE
      · simp only [hd, if_true]
        cases C.unzl req.body <;> exact ⟨hp, hfull⟩
      · simp only [hd, if_false]
        exact ⟨hp, hfull⟩

/-- the state in which the pooled reader goes back (`readerAfter`; the toy marks "read to the end"
    with `$`): read to the end after a successful entity read — also when that end is an error —,
    as the entity decoder left it when that failed, untouched on the 400 path; and, the `Reset` law
    holding, without any effect on the reads that follow on the same object -/
example :
    let good := requestOf Toy.codec .json false .small MIME_JSON .gzip
    let reqs : List RequestIn := [good, { good with body := "G{s}\n".toList }, { good with body := "G{".toList },
      { good with contentType := "text/plain".toList }, good]
    (readSeq Toy.codec Cfg.asIs (Pool.fresh Toy.codec (.bounded 1)) reqs).map (fun o => (o.results, o.reader, o.pool.idle.map (·.residue))) =
      [([.ok .small], some 0, ["$G{s}\n#".toList]), ([.err .badEncoding], some 0, ["$G{s}\n".toList]),
       ([.err .badEncoding], some 0, ["G{".toList]), ([.err .noReader400], some 0, ["G{".toList]),
       ([.ok .small], some 0, ["$G{s}\n#".toList])] := by
  decide

/-! ## the predicate of the check holds on everything the model does -/

/-- `Spec.c16Holds` — the very predicate the driver evaluates on what the real code did — holds on
    every history of the model: any codec satisfying the laws, any well-formed registry, any default,
    any provider and starting pool, any sequence of requests whose `faithful` flags are honest —
    bodies broken anywhere included, Content-Types naming several registered keys included: neither
    the class of the repaired F61 nor (since 8b400b4) the class of the repaired F62 is excluded any
    more.  FULL statement (it was `C16_spec_partial`). -/
theorem C16_spec (L : CodecLaws Value) (cfg : Cfg) (hwf : cfg.wf = true) (hu : cfg.useNumber = true)
    (canon : Value → Str) (prov : Provider) (pool : Pool) (items : List (Item Value))
    (hsound : ∀ it ∈ items, it.sound L.toCodec) :
    Spec.c16Holds cfg (observe L.toCodec cfg canon prov pool items) = true := by
  unfold Spec.c16Holds
  induction items generalizing pool with
  | nil => rfl
  | cons it its ih =>
    simp only [observe, List.all_cons, Bool.and_eq_true]
    refine ⟨?_, ih _ (fun i hi => hsound i (List.mem_cons_of_mem _ hi))⟩
    have hs := hsound it (List.mem_cons_self ..)
    unfold readHolds
    simp only [Bool.and_eq_true]
    refine ⟨⟨⟨⟨⟨?_, ?_⟩, ?_⟩, ?_⟩, ?_⟩, ?_⟩
    · -- no panic
      simpa using pick_ne_panic canon _
    · -- round trip
      unfold roundTripOK
      simp only [Bool.or_eq_true, Bool.not_eq_true', Bool.and_eq_false_iff, beq_iff_eq]
      by_cases hf : it.faithful = true
      · by_cases hsel : selected cfg it.req.contentType it.kind = true
        · right
          obtain ⟨pretty, c, hreq⟩ := hs hf
          have := C16_selected_round L cfg hwf hu pool it.kind pretty it.v it.req.contentType c hsel
          rw [← hreq] at this
          simp [this, pick, toObs]
        · left; right; simpa using hsel
      · left; left; simpa using hf
    · -- broken coding
      unfold brokenCodingOK
      simp only [Bool.or_eq_true]
      by_cases hc : (factsOf L.toCodec cfg it.req).clean = true
      · exact Or.inl hc
      · right
        apply pick_isErr
        apply C16_broken_coding L cfg pool it.req
        intro s hds
        unfold factsOf at hc
        rw [hds] at hc
        simpa using hc
    · -- broken syntax
      unfold brokenSyntaxOK
      simp only [List.all_cons, List.all_nil, Bool.and_true, Bool.and_eq_true, Bool.or_eq_true, Bool.not_eq_true',
        Bool.and_eq_false_iff, Bool.not_eq_false']
      have key : ∀ k, (((factsOf L.toCodec cfg it.req).clean = false ∨ selected cfg it.req.contentType k = false) ∨
          (factsOf L.toCodec cfg it.req).doc k = true) ∨ (pick canon (readEntity L.toCodec cfg pool it.req).results).isErr = true := by
        intro k
        by_cases hc : (factsOf L.toCodec cfg it.req).clean = true
        · by_cases hsel : selected cfg it.req.contentType k = true
          · by_cases hd : (factsOf L.toCodec cfg it.req).doc k = true
            · exact Or.inl (Or.inr hd)
            · right
              unfold factsOf at hc hd
              cases hds : declaredStream L.toCodec it.req with
              | none => rw [hds] at hc; simp at hc
              | some s =>
                rw [hds] at hc hd
                simp only at hc
                have hdoc : docFor L.toCodec cfg k s.data = false := by
                  cases k <;> simpa [Facts.doc] using hd
                have := C16_broken_syntax L cfg pool it.req s k hds hc (accessorsFor_of_selected hwf hsel) hdoc
                rw [this]
                rfl
          · exact Or.inl (Or.inl (Or.inr (by simpa using hsel)))
        · exact Or.inl (Or.inl (Or.inl (by simpa using hc)))
      exact ⟨key .json, key .xml⟩
    · -- history independence
      simp only [beq_iff_eq, readOne]
      rw [C16_pool_irrelevant L cfg pool (Pool.fresh L.toCodec prov) it.req]
    · -- ledger
      rcases readEntity_events L.toCodec cfg pool it.req with h | h <;> rw [h] <;> decide

/-- non-vacuity of `C16_spec`: a history on the toy codec with good and broken bodies — among them
    one of the former class F61 (gzip trailer cut after a complete document) and one of the former
    class F62 (a faithful XML body under a Content-Type that also names the JSON key) — all
    hypotheses checked, and the predicate evaluated to true -/
example :
    let good (k : Kind) (ct : Str) (c : Coding) : Item Toy.V := { req := requestOf Toy.codec k true .big1 ct c, kind := k, v := .big1, faithful := true }
    let items : List (Item Toy.V) := [good .json "application/json; charset=utf-8".toList .gzip,
      { req := { contentType := MIME_JSON, contentEncoding := ENCODING_GZIP, body := "G{".toList }, kind := .json, v := .small, faithful := false },
      good .xml MIME_XML .deflate, good .json [] .identity,
      { req := { contentType := MIME_XML, contentEncoding := [], body := "<s".toList }, kind := .xml, v := .small, faithful := false },
      { req := { contentType := MIME_JSON, contentEncoding := ENCODING_GZIP, body := "G{c}\n".toList }, kind := .json, v := .big1, faithful := false },
      good .json MIME_JSON .gzip, good .xml "application/xml; x=\"application/json\"".toList .gzip]
    let cfg := Cfg.asIs MIME_JSON
    cfg.wf = true ∧ (items.map fun it => Entity.f62 cfg it.req.contentType) = [false, false, false, false, false, false, false, true] ∧
      (items.map fun it => Entity.f61 Toy.codec cfg it.req) = [false, false, false, false, false, true, false, false] ∧
      (observe Toy.codec cfg (fun v => [v.ch]) (.bounded 1) (Pool.fresh Toy.codec (.bounded 1)) items).map (·.real) =
        [.ok ['c'], .err, .ok ['c'], .ok ['c'], .err, .err, .ok ['c'], .ok ['c']] ∧
      Spec.c16Holds cfg (observe Toy.codec cfg (fun v => [v.ch]) (.bounded 1) (Pool.fresh Toy.codec (.bounded 1)) items) = true := by
  decide

/-- the predicate is not trivially true: it rejects the read of the former F61 (an ok where the coding is broken),
    a panic, a value that differs from what was written, a result that differs from the read alone,
    and a reader released before it is used -/
example :
    let base : ReadObs :=
      { ct := MIME_JSON, ce := ENCODING_GZIP, kind := .json, written := "1".toList, faithful := true,
        facts := ⟨true, true, false⟩, real := .ok "1".toList, alone := .ok "1".toList, events := [.acquire, .use, .release] }
    Spec.c16Holds Cfg.asIs [base] = true ∧
      Spec.c16Holds Cfg.asIs [{ base with faithful := false, facts := ⟨false, true, false⟩ }] = false ∧
      Spec.c16Holds Cfg.asIs [{ base with real := .panic, alone := .panic }] = false ∧
      Spec.c16Holds Cfg.asIs [{ base with real := .ok "2".toList, alone := .ok "2".toList }] = false ∧
      Spec.c16Holds Cfg.asIs [{ base with alone := .err }] = false ∧
      Spec.c16Holds Cfg.asIs [{ base with events := [.acquire, .release, .use] }] = false := by
  decide

/-! The frame condition (Lemmas/StateShape.lean): the code has exactly the state this property's model
    accounts for — no further package-level variable, struct type or field; constants as modelled. -/
-- also: Restful.StateShape.globals_shape
-- also: Restful.StateShape.consts_shape
-- also: Restful.StateShape.entity_shape
-- also: Restful.StateShape.compress_shape

end Props
end Restful
