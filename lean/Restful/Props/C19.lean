/-
C19 — serving a request is a pure function of configuration and request.

In the model the only thing carried from one request to the next is the compressor ledger, and no
response depends on it (`C19_seq`); the model has no trace switch at all.  That the CODE has no
other cross-request state on the request path, and that tracing only logs, are facts read off the
sources on every run (`C19_frame`): no serving entry point reaches a write to the registration
state; every `if trace { … }` block consists of `traceLogger.Print*` calls only; the CORS filter has
a value receiver (its computed methods land on a per-call copy).  Histories, tracing twins and
concurrent batches on the real code are the correspondence side (harness, `CheckPurity`).
-/
import Restful.Model.Serve
import Restful.Model.Conc
import Restful.Gen.Facts
import Restful.Lemmas.Panic
import Restful.Lemmas.StateShape
import Restful.Lemmas.TieImpFilters
import Restful.Lemmas.TieImpFiltersDefault
namespace Restful
namespace Props
open Gen Conc

/-- every response in a sequence is the response a fresh container gives to that request -/
theorem C19_seq (E : ReEnv) (cfg : Serve.Cfg) (e : Serve.Entry) (w : Serve.World) (reqs : List Serve.SReq) :
    (Serve.serveSeq E cfg e w reqs).map (fun r => (r.rc, r.log, r.escaped, r.recoverCalls)) =
      reqs.map (fun r => let x := Serve.serve E cfg e {} r; (x.rc, x.log, x.escaped, x.recoverCalls)) :=
  C10_usable_aux E cfg e w reqs
where
  C10_usable_aux (E : ReEnv) (cfg : Serve.Cfg) (e : Serve.Entry) :
      ∀ (w : Serve.World) (reqs : List Serve.SReq),
      (Serve.serveSeq E cfg e w reqs).map (fun r => (r.rc, r.log, r.escaped, r.recoverCalls)) =
        reqs.map (fun r => let x := Serve.serve E cfg e {} r; (x.rc, x.log, x.escaped, x.recoverCalls))
    | _, [] => rfl
    | w, r :: rs => by
      simp only [Serve.serveSeq, List.map_cons]
      rw [C10_usable_aux E cfg e _ rs]
      rfl

def c19serving : Analysis := analysis fnNames items servingEntries

/-- frame facts regenerated from the sources: serving never writes the registration state
    and never builds a slice that may alias a shared one (the filter chain is a fresh allocation); trace
    blocks only log (and there are some); the CORS filter's `Filter` has a value receiver -/
theorem C19_frame :
    reachableWrites c19serving = [] ∧ reachableAliasAppends c19serving = [] ∧ c19serving.fixpoint = true ∧
    traceBlockOther = [] ∧ traceBlockCount ≥ 10 ∧
    fnRecvPointer.getD (fnId fnNames "CrossOriginResourceSharing.Filter") true = false := by
  decide +kernel

/-- the deferred functions of `dispatch` in source order: close-compressor first, recover second —
    so recover runs first and the recover handler can still write to the coding writer (C10) —,
    and the read lock around route selection is released by `defer` (a panicking If-condition
    cannot leak it) -/
theorem C19_dispatch_defers :
    (factsOf fnNames items "Container.dispatch").filter (fun o => match o with
      | .deferCall _ => true
      | .deferRel _ _ => true
      | .acq _ _ => true
      | _ => false) =
      [.deferCall "closeCompressor", .deferCall "recover", .acq 0 .R, .deferRel 0 .R] := by
  decide +kernel

/-! ### non-vacuity (audit)

`C19_seq` on a history of five requests (encoded, panicking and recovered, unroutable, repeated)
from a used ledger: the answers are those of fresh containers although the one piece of
cross-request state — the ledger — does change along the history (so the projection in the
statement hides nothing else, and the equation is about something).  `C19_frame` is about
something too: the same analysis finds writes from the mutator entry points and on seeded facts. -/
namespace C19Example

def E0 : ReEnv := ⟨fun _ _ => true, fun _ _ => true⟩
def cfg : Serve.Cfg :=
  { routing := { router := .curly, services := [{ id := 0, root := "/a".toList, routes :=
      [{ id := 7, method := "GET".toList, relPath := "/{i}".toList, consumes := [], produces := [], conds := [], noct := [] },
       { id := 8, method := "GET".toList, relPath := "/boom".toList, consumes := [], produces := [], conds := [], noct := [] }] }] }
    cfilters := [{ id := 1, pre := [.setAttr "k".toList "v".toList], kind := .pass, post := [] }]
    routes := [{ id := 7, script := [.write "x".toList] }, { id := 8, script := [.write "y".toList, .panic "p".toList] }]
    encoding := true
    recover := true
    recoverScript := some [.write "r".toList] }
def rq (p ae : String) : Serve.SReq := { req := { method := "GET".toList, path := p.toList }, acceptEncoding := ae.toList }
def history : List Serve.SReq := [rq "/a/1" "gzip", rq "/a/boom" "gzip", rq "/b" "", rq "/a/2" "", rq "/a/1" "gzip"]

example := C19_seq E0 cfg .serveDispatch ⟨3, 3⟩ history

/-- along the history the ledger moves (3 → 4 → 5 → 5 → 5 → 6 acquisitions), path parameters differ
    from request to request, the second request panics and is recovered, the third is a 404 — and the
    first and the last answer are identical -/
example :
    (Serve.serveSeq E0 cfg .serveDispatch ⟨3, 3⟩ history).map (·.world.acquired) = [4, 5, 5, 5, 6] ∧
    (Serve.serveSeq E0 cfg .serveDispatch ⟨3, 3⟩ history).map (fun r => (r.rc.status, r.recoverCalls, r.rc.comp.map (·.payload))) =
      [(some 200, 0, some "x".toList), (some 200, 1, some "yr".toList), (some 404, 0, none), (some 200, 0, none),
       (some 200, 0, some "x".toList)] ∧
    (Serve.serveSeq E0 cfg .serveDispatch ⟨3, 3⟩ history).map (fun r => r.log.head?.map (·.params)) =
      [some [("i".toList, "1".toList)], some [], some [], some [("i".toList, "2".toList)], some [("i".toList, "1".toList)]] := by
  decide

/-- the frame analysis does find writes and aliasing appends when they are there: from the mutator
    entry points of the real facts, and on seeded facts reachable through a call -/
example : reachableWrites (analysis fnNames items mutatorEntries) ≠ [] := by decide +kernel
example :
    reachableWrites (analysis ["serve", "helper"] [⟨0, .call [1], 0, false, false⟩, ⟨1, .write 0, 0, false, false⟩] ["serve"]) =
      [⟨1, .write 0, 0, false, false⟩] ∧
    reachableAliasAppends (analysis ["serve", "helper"] [⟨0, .call [1], 0, false, false⟩, ⟨1, .aliasAppend "fs", 0, false, false⟩] ["serve"]) =
      [⟨1, .aliasAppend "fs", 0, false, false⟩] ∧
    reachableWrites (analysis ["serve", "helper"] [⟨1, .write 0, 0, false, false⟩] ["serve"]) = [] := by
  decide

end C19Example

/-! The frame condition (Lemmas/StateShape.lean): the code has exactly the state this property's model
    accounts for — no further package-level variable, struct type or field; constants as modelled. -/
-- also: Restful.StateShape.globals_shape
-- also: Restful.StateShape.consts_shape
-- also: Restful.StateShape.container_shape
-- also: Restful.StateShape.response_shape
-- also: Restful.StateShape.cors_shape
-- also: Restful.StateShape.compress_shape
-- also: Restful.StateShape.entity_shape
-- also: Restful.StateShape.state_shape

end Props
end Restful

-- the imperative functions this property's model rests on, tied to their statement-by-statement
-- translation (tools/goimp, Gen/Imp.lean, regenerated on every run):
-- also: Restful.TieImp.cors_filter
-- also: Restful.TieImp.cors_filter_default_container
