/-
C05 — the written entity's media type is produced by the route and best for Accept.

`Mime.entityWriter a P reg d` is the model of `Response.EntityWriter` (response.go:84) for a request
whose raw Accept header value is `a` ("" when absent), on a route that Produces `P`, with the
registry keys `reg` and `DefaultResponseMimeType = d`; it returns the writer as a list: `[]` means
406, otherwise any two elements are equal (`C05_function` — since 8b400b4 the reverse lookup of
`accessorAt` is a function of the value: the registered key that occurs first in it, the longest of
those that start there, whatever the iteration order of the Go map).  It is tied to /repo by
the correspondence stream `mime`.  `Spec.best` / `Spec.c05Holds` are the property; the same
`c05Holds` is evaluated by the driver on what the real code answered.

Quantifier (`Spec.wfMime P reg`): `P` non-empty, every produced type has a registered writer, media
types are non-empty, free of `,` `;` space and tab, and are not `*/*`.  `Mime.routerAdmits a P` is
the router's own Accept test (`detectRoute` + `matchesAccept`): a handler only ever writes an
entity for a request that passed it.

ONE class of requests on which the CURRENT code violates the property (the hypothesis the proofs
force; witnesses below, replayed on the real code by the check on every run):

  F07b  `Spec.F07b a P reg`  : non-empty header that the router admits although none of its
                               well-formed ranges is satisfiable; by `C05_F07b_class` that means: an
                               element the router admitted on carries an unparsable q (the router
                               ignores q, `sortedMimes` drops the range).  What the code does there
                               is, since 8b400b4, a FUNCTION of the request (`C05_function`,
                               `C05_F07b_inside`), and still not what the property demands:
                               (1) `accessorAt(<raw header>)` answers with the registered key that
                                   occurs FIRST in the raw header value (the longest of those that
                                   start there) — produced or not: `application/xml,application/json;q=x`
                                   on a JSON-only route is answered application/xml
                                   (`C05_F07b_witness`); when that key happens to be produced the
                                   property holds (`C05_F07b_key_produced`; the former witness
                                   `application/json;q=x,application/xml`, which the unrepaired
                                   lookup answered in map iteration order, is such a request:
                                   `C05_F07b_order_fixed`);
                               (2) when no registered key occurs in the header (`*/*;q=x`) the
                                   default type answers (response.go:107-131) — possibly not
                                   produced, or without a writer (406): `C05_F07b_witness_default`,
                                   `C05_F07b_witness_zip`, unchanged by 8b400b4.

  (F07 — no Accept header ∧ DefaultResponseMimeType ∈ {JSON, XML, ZIP}: the default overrode
  Produces — was repaired by d89a7d4: `EntityWriter` ranks a missing header as `*/*`, as the router
  does.  The hypothesis `Spec.F07 a d = false` is gone from every theorem; `C05_absent_accept` is the
  general statement of the repaired behaviour, `C05_F07_fixed` the former witnesses, now answered as
  the property demands.  `Spec.F07` survives as a coverage class of the check only.)

The full statements, false today only because of F07b (witnesses `C05_F07b_witness…`):
  theorem C05_member   : wfMime P reg → routerAdmits a P → ∀ m ∈ entityWriter a P reg d, m ∈ P ∧ m ∈ reg
  theorem C05_best     : wfMime P reg → routerAdmits a P → ∃ b, best a P reg = some b ∧ entityWriter a P reg d = [b]
Proved here:
  C05_member_partial, C05_best_partial,
  C05_no406_partial                        under ¬F07b, nothing else (no assumption on the default type)
  C05_function                             FULL since 8b400b4 (it was `C05_function_partial`, under ¬F07b): every
                                           header, route, registry, default — one answer
  C05_F07b_inside                          what the code answers inside F07b
  C05_F07b_key_produced                    the part of F07b on which the property holds nevertheless
  C05_absent_accept                        FULL: no Accept header ⇒ the first produced type, whatever the default
  C05_no406                                FULL, for every header, inside F07b as well (needs only: the default
                                           type, when set, has a writer — false for MIME_ZIP on a stock
                                           registry, see `C05_F07b_witness_zip`)
  C05_ows                                  FULL, every pair of headers: `sortedMimes` factors through `dropOWS`
  C05_ows_writer                           same writer whenever the walk decides (both headers present, or both absent)
  C05_ows_writer_admitted                  … in particular for two spellings the router admits
  C05_holds_partial                        the above as `Spec.c05Holds` on every answer sequence the model allows
  C05_F07b_class                           what F07b consists of
Nothing is left unproved; no statement of this file is assumed.
-/
import Restful.Lemmas.Mime
import Restful.Lemmas.MimeOWS
import Restful.Lemmas.MimeClass
import Restful.Lemmas.StateShape
import Restful.Lemmas.TieMime
import Restful.Lemmas.TieImpNegotiate
namespace Restful
namespace Props
open Str Mime

/-- what `EntityWriter` returns outside F07b: exactly the representation the property demands -/
theorem C05_best_partial (a : Str) (P reg : List Str) (d : Str)
    (hwf : Spec.wfMime P reg = true) (hadm : routerAdmits a P = true)
    (h07b : Spec.F07b a P reg = false) :
    ∃ b, Spec.best a P reg = some b ∧ entityWriter a P reg d = [b] := by
  have h := wf_of hwf
  obtain ⟨b, hb⟩ := best_isSome_of h hadm h07b
  exact ⟨b, hb, (entityWriter_of_best h hb).1⟩

/-- the Content-Type is a produced type that has a registered writer -/
theorem C05_member_partial (a : Str) (P reg : List Str) (d : Str)
    (hwf : Spec.wfMime P reg = true) (hadm : routerAdmits a P = true)
    (h07b : Spec.F07b a P reg = false) :
    ∀ m ∈ entityWriter a P reg d, m ∈ P ∧ m ∈ reg := by
  have h := wf_of hwf
  obtain ⟨b, hb⟩ := best_isSome_of h hadm h07b
  obtain ⟨hw, hmem⟩ := entityWriter_of_best (d := d) h hb
  intro m hm
  rw [hw, List.mem_singleton] at hm
  subst hm
  exact ⟨hmem, h.sub m hmem⟩

/-- no Accept header (which the router admits on every route): the writer is the first produced
    type, whatever `DefaultResponseContentType` says, and that is what the property demands
    (`*/*`).  This is the repaired F07, for every route of the quantifier. -/
theorem C05_absent_accept (P reg : List Str) (d : Str) (hwf : Spec.wfMime P reg = true) :
    routerAdmits [] P = true ∧ Spec.best [] P reg = P.head? ∧ entityWriter [] P reg d = P.head?.toList := by
  have h := wf_of hwf
  have hb := best_nil h
  have hw := entityWriter_nil h d
  cases P with
  | nil => exact absurd rfl h.ne
  | cons p ps =>
    have h1 : split ',' starStar = [starStar] := by decide
    have h2 : mediaOf starStar = starStar := by decide
    exact ⟨by simp [routerAdmits, h1, acceptLoop, h2], hb, hw⟩

/-- the entity writer never answers 406 on a route of the quantifier (a fortiori not for a request
    the router admitted on Accept grounds) — holds inside F07b as well -/
theorem C05_no406 (a : Str) (P reg : List Str) (d : Str)
    (hwf : Spec.wfMime P reg = true) (hd : Spec.defaultOK reg d = true) :
    entityWriter a P reg d ≠ [] := by
  have h := wf_of hwf
  by_cases hw : walk reg P (sortedMimes (if a.isEmpty then starStar else a)) = []
  · by_cases hk : accessorAt reg a = []
    · rw [entityWriter_fallback d hw hk]
      by_cases hs : defaultSet d = true
      · rw [default_singleton hd hs]; simp
      · rw [default_unset (by simpa using hs), firstProduced_eq _ h.sub]
        cases P with
        | nil => exact absurd rfl h.ne
        | cons p ps => simp
    · unfold entityWriter entityWriterTagged
      simp only [hw, List.isEmpty_nil, Bool.not_true, Bool.false_eq_true, if_false]
      have : (!(accessorAt reg a).isEmpty) = true := by
        cases hacc : accessorAt reg a with
        | nil => exact absurd hacc hk
        | cons x xs => rfl
      simpa [this] using hk
  · rw [entityWriter_of_walk rfl hw]
    exact hw

/-- with `routerAdmits` as in the statement of the property -/
theorem C05_no406_admitted (a : Str) (P reg : List Str) (d : Str)
    (hwf : Spec.wfMime P reg = true) (hd : Spec.defaultOK reg d = true) (_hadm : routerAdmits a P = true) :
    entityWriter a P reg d ≠ [] := C05_no406 a P reg d hwf hd

/-- The same request always gets the same representation: whatever the iteration order of the
    registry map, there is one possible writer.  FULL statement since 8b400b4 — every header (inside
    F07b as well), every Produces list and registry (no well-formedness needed), every default;
    until then it held outside F07b only (`C05_function_partial`). -/
theorem C05_function (a : Str) (P reg : List Str) (d : Str) :
    ∀ m ∈ entityWriter a P reg d, ∀ m' ∈ entityWriter a P reg d, m = m' :=
  entityWriter_function a P reg d

/-- What the code answers inside F07b: the registered key that the reverse lookup finds in the raw
    header value — it occurs there, no registered key occurs earlier, none that starts at the same
    position is longer (`Str.firstLongest`; an exact key cannot be: a header inside F07b has a `;`)
    —, and, when no registered key occurs in the header at all, the default type's writer (406 if
    it has none), the first produced type if no default is set. -/
theorem C05_F07b_inside (a : Str) (P reg : List Str) (d : Str) (hwf : Spec.wfMime P reg = true)
    (h07b : Spec.F07b a P reg = true) :
    (accessorAt reg a ≠ [] → entityWriter a P reg d = accessorAt reg a) ∧
    (accessorAt reg a = [] →
      entityWriter a P reg d = if defaultSet d = true then accessorAt reg d else [P.headD []]) ∧
    (∀ k ∈ reg, containsSub k a = true → accessorAt reg a ≠ []) ∧
    (a ∉ reg → ∀ k ∈ accessorAt reg a, k ∈ reg ∧ firstLongest reg a k = true) := by
  have h := wf_of hwf
  refine ⟨entityWriter_of_F07b_key d h h07b, entityWriter_of_F07b_no_key d h h07b,
    fun k hk hc => accessorAt_ne_nil_of_contains hk hc, ?_⟩
  intro ha k hk
  unfold accessorAt at hk
  rw [if_neg (by simpa using ha)] at hk
  exact List.mem_filter.mp hk

/-- … hence the property HOLDS on the part of F07b where the key that occurs first in the raw
    header is a produced type (no well-formed range being satisfiable, the property demands no more
    than a produced type with a writer, the same on every dispatch) -/
theorem C05_F07b_key_produced (a : Str) (P reg : List Str) (d : Str) (hwf : Spec.wfMime P reg = true)
    (h07b : Spec.F07b a P reg = true) (k : Str) (hk : k ∈ accessorAt reg a) (hP : k ∈ P)
    (obs : List Spec.MimeObs) (hobs : ∀ o ∈ obs, ∃ m ∈ entityWriter a P reg d, o = .ct m) :
    Spec.c05Holds a P reg obs = true := by
  have h := wf_of hwf
  have hne : accessorAt reg a ≠ [] := fun hn => by rw [hn] at hk; cases hk
  have hw := entityWriter_of_F07b_key d h h07b hne
  have hall : ∀ o ∈ obs, o = .ct k := by
    intro o ho
    obtain ⟨m, hm, rfl⟩ := hobs o ho
    rw [hw] at hm
    rw [accessorAt_function reg a m hm k hk]
  have hbest : Spec.best a P reg = none := by
    simp only [Spec.F07b, Bool.and_eq_true, Option.isNone_iff_eq_none] at h07b
    exact h07b.2
  unfold Spec.c05Holds
  simp only [Bool.and_eq_true, List.all_eq_true]
  constructor
  · intro o ho
    rw [hall o ho]
    simp [Spec.c05ObsOK, hbest, hP, h.sub k hP]
  · cases obs with
    | nil => rfl
    | cons o os =>
      simp only [List.all_eq_true, beq_iff_eq]
      intro x hx
      rw [hall x (List.mem_cons_of_mem _ hx), hall o List.mem_cons_self]

/-- optional whitespace next to `,` `;` and a parameter's `=` is irrelevant: the ranked list of ranges
    is a function of the whitespace-free normal form of the header (all headers, no hypothesis) -/
theorem C05_ows (a a' : Str) (h : dropOWS a = dropOWS a') : sortedMimes a = sortedMimes a' := by
  rw [← sortedMimes_dropOWS a, ← sortedMimes_dropOWS a', h]

/-- … hence the same writer, whenever the walk over the ranges decides (i.e. outside the fallback
    `accessorAt(<raw header>)`, which F07b is about).  A missing header is ranked as `*/*`, a header of
    blanks is not: the two headers are both present or both absent. -/
theorem C05_ows_writer (a a' : Str) (P reg : List Str) (d : Str) (h : dropOWS a = dropOWS a')
    (hE : a.isEmpty = a'.isEmpty)
    (hdec : walk reg P (sortedMimes (if a.isEmpty then starStar else a)) ≠ []) :
    entityWriter a P reg d = entityWriter a' P reg d := by
  have he : sortedMimes (if a.isEmpty then starStar else a) = sortedMimes (if a'.isEmpty then starStar else a') := by
    rw [← hE]
    by_cases hn : a.isEmpty = true
    · simp [hn]
    · simpa [hn] using C05_ows a a' h
  have hdec' : walk reg P (sortedMimes (if a'.isEmpty then starStar else a')) ≠ [] := by rw [← he]; exact hdec
  rw [entityWriter_of_walk rfl hdec, entityWriter_of_walk rfl hdec', he]

/-- two spellings of one header that the router both admits get the same writer whenever the walk
    decides: an admitted header is never a string of blanks, so both are present or both absent -/
theorem C05_ows_writer_admitted (a a' : Str) (P reg : List Str) (d : Str)
    (hwf : Spec.wfMime P reg = true) (hadm : routerAdmits a P = true) (hadm' : routerAdmits a' P = true)
    (h : dropOWS a = dropOWS a')
    (hdec : walk reg P (sortedMimes (if a.isEmpty then starStar else a)) ≠ []) :
    entityWriter a P reg d = entityWriter a' P reg d :=
  C05_ows_writer a a' P reg d h (isEmpty_eq_of_admitted (wf_of hwf) hadm hadm' h) hdec

/-- the theorems above in the form the driver evaluates: whatever sequence of answers the model
    allows for repeated dispatches satisfies `Spec.c05Holds` -/
theorem C05_holds_partial (a : Str) (P reg : List Str) (d : Str)
    (hwf : Spec.wfMime P reg = true) (hadm : routerAdmits a P = true)
    (h07b : Spec.F07b a P reg = false)
    (obs : List Spec.MimeObs) (hobs : ∀ o ∈ obs, ∃ m ∈ entityWriter a P reg d, o = .ct m) :
    Spec.c05Holds a P reg obs = true := by
  obtain ⟨b, hb, hw⟩ := C05_best_partial a P reg d hwf hadm h07b
  have hmem := C05_member_partial a P reg d hwf hadm h07b b (by rw [hw]; simp)
  have hall : ∀ o ∈ obs, o = .ct b := by
    intro o ho
    obtain ⟨m, hm, rfl⟩ := hobs o ho
    rw [hw, List.mem_singleton] at hm
    rw [hm]
  unfold Spec.c05Holds
  simp only [Bool.and_eq_true, List.all_eq_true]
  constructor
  · intro o ho
    rw [hall o ho]
    simp [Spec.c05ObsOK, hb, hmem.1, hmem.2]
  · cases obs with
    | nil => rfl
    | cons o os =>
      simp only [List.all_eq_true, beq_iff_eq]
      intro x hx
      rw [hall x (List.mem_cons_of_mem _ hx), hall o List.mem_cons_self]

/-- no 406 outside F07b, without assuming that the default type has a writer -/
theorem C05_no406_partial (a : Str) (P reg : List Str) (d : Str)
    (hwf : Spec.wfMime P reg = true) (hadm : routerAdmits a P = true)
    (h07b : Spec.F07b a P reg = false) :
    entityWriter a P reg d ≠ [] := by
  obtain ⟨b, _, hw⟩ := C05_best_partial a P reg d hwf hadm h07b
  rw [hw]; simp

/-! ### F07 is repaired; F07b is real: witnesses on the model

The registry of the witnesses is the one the harness sets up (built-in JSON and XML plus four custom
registrations), so the check replays exactly these cases on the real code. -/

/-- the former witnesses of F07, now answered as the property demands.  No Accept header, default
    JSON, route produces only XML: the writer is XML (was JSON — not produced); default ZIP without a
    zip writer, route produces only JSON: the writer is JSON (was 406).  Both requests are outside
    F07b, i.e. they meet every hypothesis of the partial theorems. -/
theorem C05_F07_fixed :
    let reg := harnessReg
    (Spec.wfMime [mimeXML] reg = true ∧ routerAdmits [] [mimeXML] = true ∧ Spec.F07b [] [mimeXML] reg = false ∧
      Spec.best [] [mimeXML] reg = some mimeXML ∧
      entityWriter [] [mimeXML] reg mimeJSON = [mimeXML] ∧
      Spec.c05Holds [] [mimeXML] reg [.ct mimeXML, .ct mimeXML, .ct mimeXML] = true ∧
      Spec.c05Holds [] [mimeXML] reg [.ct mimeJSON, .ct mimeJSON, .ct mimeJSON] = false) ∧
    (Spec.wfMime [mimeJSON] reg = true ∧ Spec.defaultOK reg mimeZIP = false ∧ routerAdmits [] [mimeJSON] = true ∧
      Spec.F07b [] [mimeJSON] reg = false ∧
      entityWriter [] [mimeJSON] reg mimeZIP = [mimeJSON] ∧
      Spec.c05Holds [] [mimeJSON] reg [.ct mimeJSON] = true ∧
      Spec.c05Holds [] [mimeJSON] reg [.notAcceptable] = false) := by
  decide

/-- F07b: `Accept: application/xml,application/json;q=x` on a JSON-only route: the router admits it
    on its second element (it ignores q), that element — the only satisfiable one — is dropped for
    its unparsable q, and the writer is the registered key that occurs first in the raw header
    (`application/xml`, at position 0; `application/x` starts there too and is shorter;
    `application/json` occurs later): a type the route does not produce, on every dispatch -/
theorem C05_F07b_witness :
    let a := "application/xml,application/json;q=x".toList
    let P := [mimeJSON]; let reg := harnessReg
    Spec.wfMime P reg = true ∧ Spec.defaultOK reg [] = true ∧ routerAdmits a P = true ∧
      Spec.F07b a P reg = true ∧ accessorAt reg a = [mimeXML] ∧
      entityWriter a P reg [] = [mimeXML] ∧ mimeXML ∉ P ∧
      Spec.c05Holds a P reg [.ct mimeXML, .ct mimeXML, .ct mimeXML] = false := by
  decide

/-- The FORMER first witness of F07b as a regression: `Accept: application/json;q=x,application/xml`
    on a JSON-only route.  Still inside F07b (the only satisfiable range is dropped), but the
    raw-header lookup — which answered with `application/json`, `application/xml` or `application/x`
    in map iteration order before 8b400b4, two dispatches differing — now finds
    `application/json`, the key that occurs first: produced, the same on every dispatch, the
    predicate holds; it still rejects what the unrepaired code could answer. -/
theorem C05_F07b_order_fixed :
    let a := "application/json;q=x,application/xml".toList
    let P := [mimeJSON]; let reg := harnessReg
    Spec.wfMime P reg = true ∧ routerAdmits a P = true ∧ Spec.F07b a P reg = true ∧
      (reg.filter (fun k => containsSub k a)) = [mimeJSON, mimeXML, "application/x".toList] ∧
      accessorAt reg a = [mimeJSON] ∧ entityWriter a P reg [] = [mimeJSON] ∧
      Spec.c05Holds a P reg [.ct mimeJSON, .ct mimeJSON, .ct mimeJSON] = true ∧
      Spec.c05Holds a P reg [.ct mimeXML, .ct mimeXML, .ct mimeXML] = false ∧
      Spec.c05Holds a P reg [.ct "application/x".toList] = false ∧
      Spec.c05Holds a P reg [.ct mimeJSON, .ct mimeXML, .ct mimeJSON] = false := by
  decide

/-- inside F07b the default type still overrides Produces (`*/*;q=x`, default JSON, XML-only route):
    what the repair of F07 did for a missing header is not done for a wildcard with an unparsable q -/
theorem C05_F07b_witness_default :
    let a := "*/*;q=x".toList
    let P := [mimeXML]; let reg := harnessReg
    Spec.wfMime P reg = true ∧ Spec.defaultOK reg mimeJSON = true ∧ routerAdmits a P = true ∧ Spec.F07b a P reg = true ∧
      entityWriter a P reg mimeJSON = [mimeJSON] ∧ mimeJSON ∉ P ∧
      Spec.c05Holds a P reg [.ct mimeJSON, .ct mimeJSON, .ct mimeJSON] = false := by
  decide

/-- inside F07b with `DefaultResponseContentType(MIME_ZIP)` and no zip writer registered the entity
    writer even answers 406 to a request the router admitted (why `C05_no406` assumes `defaultOK`) -/
theorem C05_F07b_witness_zip :
    let a := "*/*;q=x".toList
    let P := [mimeJSON]; let reg := harnessReg
    Spec.wfMime P reg = true ∧ Spec.defaultOK reg mimeZIP = false ∧ routerAdmits a P = true ∧
      Spec.F07b a P reg = true ∧ entityWriter a P reg mimeZIP = [] ∧
      Spec.c05Holds a P reg [.notAcceptable] = false := by
  decide

/-- what the class F07b consists of: the header has an element on which the router admits the request
    (its media type is `*/*` or produced) whose quality does not parse, so `sortedMimes` drops it.
    A header all of whose q-values are decimal numbers is never in F07b. -/
theorem C05_F07b_class (a : Str) (P reg : List Str) (hwf : Spec.wfMime P reg = true)
    (h07b : Spec.F07b a P reg = true) :
    ∃ piece ∈ split ',' a, (mediaOf piece = starStar ∨ mediaOf piece ∈ P) ∧ rangeOf piece = none := by
  have h := wf_of hwf
  simp only [Spec.F07b, Bool.and_eq_true, Bool.not_eq_true', Option.isNone_iff_eq_none] at h07b
  obtain ⟨⟨hne, hacc⟩, hbest⟩ := h07b
  have ha : (if a.isEmpty = true then starStar else a) = a := by simp [hne]
  unfold Spec.acceptOK at hacc
  simp only [ha, List.any_eq_true, Bool.or_eq_true, beq_iff_eq] at hacc
  obtain ⟨piece, hp, hm⟩ := hacc
  have hm' : mediaOf piece = starStar ∨ mediaOf piece ∈ P := by
    rcases hm with hm | ⟨p, hpP, hp' | hp'⟩
    · exact Or.inl hm
    · exact absurd (hp' ▸ hpP) h.star_not_mem
    · exact Or.inr (hp' ▸ hpP)
  refine ⟨piece, hp, hm', ?_⟩
  cases hr : rangeOf piece with
  | none => rfl
  | some m =>
    exfalso
    have hmedia : m.media = mediaOf piece := by
      apply rangeOf_media hr
      · rcases hm' with e | e
        · rw [e]; decide
        · exact wfMedia_ne_nil (h.pMedia _ e)
      · rcases hm' with e | e
        · rw [e]; exact star_no_ows
        · exact wfMedia_no_ows (h.pMedia _ e)
    have hsat : satB P m = true := by
      unfold satB
      rw [hmedia]
      rcases hm' with e | e
      · simp [e]
      · simp [e]
    have hmem : m ∈ ((split ',' a).filterMap rangeOf).filter (satB P) := by
      rw [List.mem_filter]
      exact ⟨List.mem_filterMap.mpr ⟨piece, hp, hr⟩, hsat⟩
    rw [best_eq h, ha, find?_sortedMimes] at hbest
    cases hmf : Spec.C05.maxFirst (((split ',' a).filterMap rangeOf).filter (satB P)) with
    | none => rw [maxFirst_eq_none hmf] at hmem; simp at hmem
    | some r => rw [hmf] at hbest; simp at hbest

/-! ### non-vacuity -/

/-- a request meeting every hypothesis of the partial theorems, with ranking, parameters before q,
    optional whitespace and a wildcard at work: XML (q=0.9) beats `*/*` (q=0.8) and JSON (q=0.5) -/
example :
    let a := "application/json ; level=1 ; q=0.5,\t*/* ;q= 0.8 , application/xml;q = 0.9".toList
    let P := [mimeJSON, mimeXML]; let reg := [mimeJSON, mimeXML, "text/csv".toList]
    Spec.wfMime P reg = true ∧ Spec.defaultOK reg mimeJSON = true ∧ routerAdmits a P = true ∧
      Spec.F07b a P reg = false ∧
      Spec.best a P reg = some mimeXML ∧ entityWriter a P reg mimeJSON = [mimeXML] := by
  decide

/-- no Accept header and a default type that is produced, but not first: the first produced type
    (hypotheses of all partial theorems and of `C05_absent_accept`) -/
example :
    let P := [mimeXML, mimeJSON]; let reg := [mimeJSON, mimeXML]
    Spec.wfMime P reg = true ∧ routerAdmits [] P = true ∧ Spec.F07b [] P reg = false ∧
      entityWriter [] P reg [] = [mimeXML] ∧ entityWriter [] P reg mimeJSON = [mimeXML] := by
  decide

/-- C05_ows / C05_ows_writer(_admitted) are not vacuous: two different spellings of one header with one
    normal form, both present, both admitted, the walk decides -/
example :
    let a := "application/xml;q=0.2,application/json".toList
    let a' := " application/xml ;\tq = 0.2 ,  application/json\t".toList
    let P := [mimeXML, mimeJSON]; let reg := [mimeJSON, mimeXML]
    a ≠ a' ∧ dropOWS a = dropOWS a' ∧ a.isEmpty = a'.isEmpty ∧ Spec.wfMime P reg = true ∧
      routerAdmits a P = true ∧ routerAdmits a' P = true ∧
      walk reg P (sortedMimes (if a.isEmpty then starStar else a)) ≠ [] := by
  decide

/-- the side condition of C05_ows_writer is needed: the absent header and a header of one blank have
    the same normal form and (with a default set) different writers — but the router rejects the blank one -/
example :
    let P := [mimeXML]; let reg := [mimeJSON, mimeXML]
    dropOWS [] = dropOWS [' '] ∧ walk reg P (sortedMimes starStar) ≠ [] ∧
      entityWriter [] P reg mimeJSON = [mimeXML] ∧ entityWriter [' '] P reg mimeJSON = [mimeJSON] ∧
      routerAdmits [' '] P = false := by
  decide

/-! ### non-vacuity (audit): the theorems themselves on the instances above, and the predicate falsified -/
namespace C05Example

/-- three ranges with weights, parameters and optional whitespace; two produced types; three writers -/
def a : Str := "application/json ; level=1 ; q=0.5,\t*/* ;q= 0.8 , application/xml;q = 0.9".toList
def P : List Str := [mimeJSON, mimeXML]
def reg : List Str := [mimeJSON, mimeXML, "text/csv".toList]

theorem hwf : Spec.wfMime P reg = true := by decide
theorem hadm : routerAdmits a P = true := by decide
theorem h07b : Spec.F07b a P reg = false := by decide

example : (split ',' a).length = 3 ∧ (Spec.C05.ranges a).length = 3 ∧ Spec.defaultOK reg mimeJSON = true ∧
    entityWriter a P reg mimeJSON = [mimeXML] := by
  decide

example : ∃ b, Spec.best a P reg = some b ∧ entityWriter a P reg mimeJSON = [b] :=
  C05_best_partial a P reg mimeJSON hwf hadm h07b
example : ∀ m ∈ entityWriter a P reg mimeJSON, m ∈ P ∧ m ∈ reg :=
  C05_member_partial a P reg mimeJSON hwf hadm h07b
example : ∀ m ∈ entityWriter a P reg mimeJSON, ∀ m' ∈ entityWriter a P reg mimeJSON, m = m' :=
  C05_function a P reg mimeJSON
example : entityWriter a P reg mimeJSON ≠ [] := C05_no406 a P reg mimeJSON hwf (by decide)
example : entityWriter a P reg mimeJSON ≠ [] := C05_no406_admitted a P reg mimeJSON hwf (by decide) hadm
example : entityWriter a P reg mimeZIP ≠ [] := C05_no406_partial a P reg mimeZIP hwf hadm h07b
example : routerAdmits [] P = true ∧ Spec.best [] P reg = P.head? ∧ entityWriter [] P reg mimeXML = P.head?.toList :=
  C05_absent_accept P reg mimeXML hwf

/-- `C05_holds_partial` on three dispatches, each answered by the model's only possible writer -/
example : Spec.c05Holds a P reg [.ct mimeXML, .ct mimeXML, .ct mimeXML] = true :=
  C05_holds_partial a P reg mimeJSON hwf hadm h07b [.ct mimeXML, .ct mimeXML, .ct mimeXML] (by decide)

/-- on the same request (outside F07b) the predicate is falsified by: a produced type with a writer
    that is not the best one (JSON, q=0.5); a registered type that is not produced; a 406; anything
    else; two dispatches that differ -/
example :
    Spec.c05Holds a P reg [.ct mimeJSON] = false ∧
    Spec.c05Holds a P reg [.ct "text/csv".toList] = false ∧
    Spec.c05Holds a P reg [.notAcceptable] = false ∧
    Spec.c05Holds a P reg [.other] = false ∧
    Spec.c05Holds a P reg [.ct mimeXML, .ct mimeJSON] = false ∧
    Spec.c05Holds a P reg [.ct mimeXML, .ct mimeXML, .notAcceptable] = false := by
  decide

/-- two spellings of one header (see the example above) -/
def b : Str := "application/xml;q=0.2,application/json".toList
def b' : Str := " application/xml ;\tq = 0.2 ,  application/json\t".toList

example : b ≠ b' ∧ sortedMimes b = sortedMimes b' ∧ (sortedMimes b).length = 2 :=
  ⟨by decide, C05_ows b b' (by decide), by decide⟩
example : entityWriter b [mimeXML, mimeJSON] [mimeJSON, mimeXML] [] = entityWriter b' [mimeXML, mimeJSON] [mimeJSON, mimeXML] [] :=
  C05_ows_writer b b' _ _ [] (by decide) (by decide) (by decide)
example : entityWriter b [mimeXML, mimeJSON] [mimeJSON, mimeXML] [] = entityWriter b' [mimeXML, mimeJSON] [mimeJSON, mimeXML] [] :=
  C05_ows_writer_admitted b b' _ _ [] (by decide) (by decide) (by decide) (by decide) (by decide)
/-- … and the common writer is JSON (q=1 beats q=0.2), not the first produced type -/
example : entityWriter b' [mimeXML, mimeJSON] [mimeJSON, mimeXML] [] = [mimeJSON] := by decide

/-- `C05_F07b_class` on the header of `C05_F07b_witness` (its hypothesis `F07b = true` is satisfiable) -/
example : ∃ piece ∈ split ',' "application/xml,application/json;q=x".toList,
    (mediaOf piece = starStar ∨ mediaOf piece ∈ [mimeJSON]) ∧ rangeOf piece = none :=
  C05_F07b_class _ [mimeJSON] harnessReg (by decide) (by decide)

/-- `C05_F07b_inside` on the headers of the witnesses (a key occurs / none does), and
    `C05_F07b_key_produced` on the former first witness (all hypotheses satisfiable) -/
example : entityWriter "application/xml,application/json;q=x".toList [mimeJSON] harnessReg [] =
    accessorAt harnessReg "application/xml,application/json;q=x".toList :=
  (C05_F07b_inside _ [mimeJSON] harnessReg [] (by decide) (by decide)).1 (by decide)
example : entityWriter "*/*;q=x".toList [mimeXML] harnessReg mimeJSON =
    if defaultSet mimeJSON = true then accessorAt harnessReg mimeJSON else [[mimeXML].headD []] :=
  (C05_F07b_inside _ [mimeXML] harnessReg mimeJSON (by decide) (by decide)).2.1 (by decide)
example : Spec.c05Holds "application/json;q=x,application/xml".toList [mimeJSON] harnessReg [.ct mimeJSON, .ct mimeJSON] = true :=
  C05_F07b_key_produced _ [mimeJSON] harnessReg [] (by decide) (by decide) mimeJSON (by decide) (by decide) _ (by decide)

end C05Example

/-! The frame condition (Lemmas/StateShape.lean): the code has exactly the state this property's model
    accounts for — no further package-level variable, struct type or field; constants as modelled. -/
-- also: Restful.StateShape.globals_shape
-- also: Restful.StateShape.consts_shape
-- also: Restful.StateShape.response_shape
-- also: Restful.StateShape.entity_shape

/-! The regenerated tie (tools/gotrans → Gen/Translated.lean, Lemmas/Tie*.lean): `trimOWS` of this
    property's model IS the one translated from mime.go on this run (`strings.Trim` with the cutset
    `" \t"`). -/
-- also: Restful.Tie.mime_trim_ows

end Props
end Restful

-- the imperative functions this property's model rests on, tied to their statement-by-statement
-- translation (tools/goimp, Gen/Imp.lean, regenerated on every run):
-- also: Restful.TieImp.insert_mime
-- also: Restful.TieImp.sorted_mimes
-- also: Restful.TieImp.entity_writer
