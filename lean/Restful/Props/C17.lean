/-
C17 — Allow headers tell the truth about which methods are routable.

"For every URL, the set of methods listed in the Allow header of a 405 response, and the set listed
by the OPTIONS filter (Allow and Access-Control-Allow-Methods), equals the set of methods for which
a request to that same URL is not answered 404 or 405.  The OPTIONS filter answers OPTIONS requests
itself without invoking a route function and leaves every other method untouched."

What is proved:
  * `C17_405`              the Allow list of a 405 is EXACT — both routers, every table, every
                           request, no hypothesis (neither router reads the method before
                           `detectRoute`; `Restful.Allow.route_staged`)
  * `C17_filter_options`,  the OPTIONS filter answers OPTIONS itself (never passes on) with Allow =
    `C17_filter_other`     Access-Control-Allow-Methods = `computeAllowedMethods`, and does nothing
                           at all to any other method
  * `C17_options_lists_routable_jsr` / `_curly`
                           every routable method IS listed by `computeAllowedMethods` (RouterJSR311:
                           every table that compiles; CurlyRouter: the common fragment, through C18)
  * `C17_options_jsr_partial`, `C17_options_curly_partial`
                           listed ⇔ routable, when at most one WebService root matches the URL and
                           no If-condition fails
  * `C17_holds_jsr_partial`, `C17_holds_curly_partial`
                           `Spec.c17Holds` — the predicate the driver evaluates on every REAL
                           observation — holds of the observation the MODEL produces
                           (`Spec.modelObs`: the probes from `route`, the filter's lists, "no route
                           function ran for OPTIONS" and "other methods untouched" from
                           `Options.optionsOut`), for every probed method list that contains
                           OPTIONS and every declared method; same hypotheses (F14, If-conditions;
                           CurlyRouter: common fragment and normal path — F15, F16, F20), on tables
                           on which dispatch cannot panic, and no probe IS a panic
  * `C17_holds_jsr_wire_partial`, `C17_holds_curly_wire_partial`
                           the same of `Spec.modelObsWire`, whose two lists are DECODED from the
                           comma-joined header values the way the harness decodes them; forces
                           "declared methods are tokens" (`C17_wire_witness`: a method `A,B`)
  * `C17_filter_ignores_request_method`, `C17_preflight_filter`,
    `C17_holds_jsr_preflights_partial`, `C17_holds_curly_preflights_partial`
                           OPTIONS requests that carry Access-Control-Request-Method (browser
                           preflights, any value): the filter model answers them exactly as the bare
                           OPTIONS request (options_filter.go never reads that header), so
                           `Spec.c17HoldsAll` — `c17Holds` plus, for every preflight probe the harness
                           sent, "Allow and Access-Control-Allow-Methods both list the routable
                           methods, no route function ran" (`Spec.pfHolds`) — holds of the model's
                           observation and the model's preflight answers (`Spec.modelPreflight`) for
                           EVERY list of requested-method values; same hypotheses as above
  * `C17_routable_served`, `C17_405_served`
                           panics: `Spec.routable` is "status ≠ 404, 405" and a panic has status 500
                           (model and harness alike), so on a malformed table `C17_405` may call a
                           method routable whose dispatch panics.  The lemma: where dispatch cannot
                           panic (the hypotheses of `C02_total`) routable ⇔ a route function runs, or
                           415, or 406; `C17_405_served` is `C17_405` in that form.  `Spec.routable`
                           itself is unchanged (the driver's evaluation on real observations too)

Full statement for the OPTIONS filter (FALSE on the current code, finding F14):
  theorem C17_options (hc : computeAllowedMethods E tbl.services req.path = some ms) … :
      m ∈ ms ↔ Spec.routable E tbl req m = true
`computeAllowedMethods` unions the methods of ALL services whose root matches the URL, dispatch
uses the best one: `C17_F14_witness` (`/a` with `PUT /{p}/{q}`, `/a/b` with `GET /{x}`: OPTIONS
`/a/b/x` lists PUT, GET; `PUT /a/b/x` is a 405 under both routers).  `Spec.severalRootsMatch` is
that class; outside it (and when no If-condition — user code `computeAllowedMethods` never
consults — fails: `C17_conds_witness`) the listed methods are exactly the routable ones.
-/
import Restful.Lemmas.Allow
import Restful.Lemmas.AllowHolds
import Restful.Lemmas.StateShape
import Restful.Lemmas.TieImpTemplate
import Restful.Lemmas.TieImpAllowed
import Restful.Lemmas.TieImpDetect
import Restful.Lemmas.TieImpFilters
namespace Restful
namespace Props
open Str

/-! ### (1) the Allow header of a 405 -/

/-- the `allowedLoop` of `detectRoute` collects exactly the methods of the routes it is given -/
theorem C17_allowedMethods_mem (m : Str) (l : List Route) (acc : List Str) :
    m ∈ allowedMethods l acc ↔ m ∈ acc ∨ ∃ r ∈ l, r.method = m :=
  Restful.mem_allowedMethods m l acc

/-- **C17, 405**: whenever a request is answered 405, the methods in its Allow header are exactly
    the methods for which a request to the same URL (same headers, same If-condition values) is not
    answered 404 or 405.  Both routers, every route table, every request: no hypothesis. -/
theorem C17_405 (E : ReEnv) (cfg : Config) (req : Req) (allow : List Str)
    (h : route E cfg req = .error 405 (some allow)) (m : Str) :
    m ∈ allow ↔ Spec.routable E cfg req m = true :=
  Allow.allow_405_exact E cfg req allow h m

/-! ### (2) the OPTIONS filter -/

/-- **C17, filter on OPTIONS**: the filter does not pass the request on (no later filter, no route
    function runs) and adds Allow, Access-Control-Allow-Origin, Access-Control-Allow-Headers and
    Access-Control-Allow-Methods; Allow and Access-Control-Allow-Methods both carry the
    comma-joined list of `computeAllowedMethods` for the URL -/
theorem C17_filter_options (E : ReEnv) (tbl : Config) (rq : Options.OptReq) (h : rq.method = Cors.sOPTIONS)
    (out : Options.Out) (ho : Options.optionsOut E tbl rq = some out) :
    out.passOn = false ∧ ∃ ms, Cors.computeAllowedMethods E tbl.services rq.path = some ms ∧
      out.added = [("Allow".toList, Str.join Cors.sComma ms), (Cors.hAllowOrigin, rq.origin),
        (Cors.hAllowHeaders, rq.acrh), (Cors.hAllowMethods, Str.join Cors.sComma ms)] := by
  unfold Options.optionsOut at ho
  rw [h] at ho
  simp only [bne_self_eq_false, Bool.false_eq_true, if_false] at ho
  cases hc : Cors.computeAllowedMethods E tbl.services rq.path with
  | none => rw [hc] at ho; cases ho
  | some ms =>
    rw [hc] at ho
    simp only [Option.some.injEq] at ho
    subst ho
    exact ⟨rfl, ms, rfl, rfl⟩

/-- **C17, filter on any other method**: nothing is added and the request is passed on -/
theorem C17_filter_other (E : ReEnv) (tbl : Config) (rq : Options.OptReq) (h : rq.method ≠ Cors.sOPTIONS) :
    Options.optionsOut E tbl rq = some ⟨[], true⟩ := by
  unfold Options.optionsOut
  rw [if_pos]
  simpa using h

/-! ### (3) RouterJSR311: the computed methods and the routable methods -/

/-- every routable method is listed (RouterJSR311; any nesting of roots, any If-conditions): if a
    request with method `m` is not answered 404/405, `computeAllowedMethods` lists `m` -/
theorem C17_options_lists_routable_jsr (E : ReEnv) (tbl : Config) (hk : tbl.router = .jsr) (path : Str)
    (ms : List Str) (hc : Cors.computeAllowedMethods E tbl.services path = some ms)
    (req : Req) (hpath : req.path = path) (m : Str) (hr : Spec.routable E tbl req m = true) :
    m ∈ ms :=
  Allow.routable_listed_jsr E tbl path ms hc { req with method := m } hpath
    ((Allow.routable_jsr_iff E tbl hk req m).mp hr)

/-- **C17, OPTIONS list under RouterJSR311** (partial: F14 excluded).  When at most one WebService
    root matches the URL and no If-condition of the table fails for the request, the methods
    `computeAllowedMethods` lists are exactly those not answered 404/405.  Content-Type and Accept
    play no role (they produce 415/406).  `hconds` is stated for `req` itself: `passesConds` does
    not read the method (`Restful.Allow.passesConds_setMethod`). -/
theorem C17_options_jsr_partial (E : ReEnv) (tbl : Config) (hk : tbl.router = .jsr) (path : Str) (ms : List Str)
    (hc : Cors.computeAllowedMethods E tbl.services path = some ms)
    (hF14 : Spec.severalRootsMatch E tbl path = false)
    (req : Req) (hpath : req.path = path)
    (hconds : ∀ s ∈ tbl.services, ∀ r ∈ s.built, passesConds r req = true) (m : Str) :
    m ∈ ms ↔ Spec.routable E tbl req m = true := by
  rw [Allow.routable_jsr_iff E tbl hk]
  exact Allow.listed_iff_routable_jsr E tbl path ms hc hF14 req hpath hconds m

/-- the same with the hypothesis on If-conditions in the form "for every method" -/
theorem C17_options_jsr_partial' (E : ReEnv) (tbl : Config) (hk : tbl.router = .jsr) (path : Str) (ms : List Str)
    (hc : Cors.computeAllowedMethods E tbl.services path = some ms)
    (hF14 : Spec.severalRootsMatch E tbl path = false)
    (req : Req) (hpath : req.path = path)
    (hconds : ∀ s ∈ tbl.services, ∀ r ∈ s.built, ∀ m, passesConds r { req with method := m } = true) (m : Str) :
    m ∈ ms ↔ Spec.routable E tbl req m = true :=
  C17_options_jsr_partial E tbl hk path ms hc hF14 req hpath (fun s hs r hr => hconds s hs r hr req.method) m

/-- the filter's answer and the router together: the Allow and Access-Control-Allow-Methods values
    of the OPTIONS answer are the comma-joined list of exactly the routable methods -/
theorem C17_filter_options_jsr_partial (E : ReEnv) (tbl : Config) (hk : tbl.router = .jsr)
    (rq : Options.OptReq) (h : rq.method = Cors.sOPTIONS) (out : Options.Out)
    (ho : Options.optionsOut E tbl rq = some out)
    (hF14 : Spec.severalRootsMatch E tbl rq.path = false)
    (req : Req) (hpath : req.path = rq.path)
    (hconds : ∀ s ∈ tbl.services, ∀ r ∈ s.built, passesConds r req = true) :
    out.passOn = false ∧ ∃ ms, (∀ m, m ∈ ms ↔ Spec.routable E tbl req m = true) ∧
      out.added = [("Allow".toList, Str.join Cors.sComma ms), (Cors.hAllowOrigin, rq.origin),
        (Cors.hAllowHeaders, rq.acrh), (Cors.hAllowMethods, Str.join Cors.sComma ms)] := by
  obtain ⟨hp, ms, hc, hadd⟩ := C17_filter_options E tbl rq h out ho
  exact ⟨hp, ms, fun m => C17_options_jsr_partial E tbl hk rq.path ms hc hF14 req hpath hconds m, hadd⟩

/-! ### (4) CurlyRouter on the common fragment, through C18 -/

/-- on the common fragment and a normal path a method is routable under CurlyRouter iff it is under
    RouterJSR311 (the status agreement of C18 does not need `ranksAgree` nor `routeIdsDistinct`) -/
theorem C17_routable_agrees (E : ReEnv) (tbl : Config) (hwf : Spec.wfCommon tbl = true)
    (hroots : Spec.rootsDistinct tbl = true) (hclean : Spec.rootsClean tbl = true)
    (req : Req) (hp : Spec.normalPath req.path = true) (m : Str) :
    Spec.routable E (Spec.withRouter tbl .curly) req m = Spec.routable E (Spec.withRouter tbl .jsr) req m := by
  unfold Spec.routable
  rw [route_withRouter_curly, route_withRouter_jsr,
    Allow.status_agrees E tbl hwf hroots hclean { req with method := m } hp]

/-- every routable method is listed (CurlyRouter, common fragment, normal path; any nesting of
    literal roots, any If-conditions) -/
theorem C17_options_lists_routable_curly (E : ReEnv) (tbl : Config) (hwf : Spec.wfCommon tbl = true)
    (hroots : Spec.rootsDistinct tbl = true) (hclean : Spec.rootsClean tbl = true)
    (path : Str) (hp : Spec.normalPath path = true) (ms : List Str)
    (hc : Cors.computeAllowedMethods E tbl.services path = some ms)
    (req : Req) (hpath : req.path = path) (m : Str)
    (hr : Spec.routable E (Spec.withRouter tbl .curly) req m = true) : m ∈ ms := by
  rw [C17_routable_agrees E tbl hwf hroots hclean req (hpath ▸ hp) m] at hr
  exact C17_options_lists_routable_jsr E (Spec.withRouter tbl .jsr) rfl path ms hc req hpath m hr

/-- **C17, OPTIONS list under CurlyRouter** (partial: F14 excluded).  On the common fragment
    (`wfCommon`, pairwise different clean roots) and a normal path, when at most one root matches
    the URL and no If-condition fails, the methods `computeAllowedMethods` lists are exactly those
    CurlyRouter does not answer 404/405.  (`routeIdsDistinct` and `ranksAgree` of C18 are not
    needed: only the status is compared.) -/
theorem C17_options_curly_partial (E : ReEnv) (tbl : Config) (hwf : Spec.wfCommon tbl = true)
    (hroots : Spec.rootsDistinct tbl = true) (hclean : Spec.rootsClean tbl = true)
    (path : Str) (hp : Spec.normalPath path = true) (ms : List Str)
    (hc : Cors.computeAllowedMethods E tbl.services path = some ms)
    (hF14 : Spec.severalRootsMatch E tbl path = false)
    (req : Req) (hpath : req.path = path)
    (hconds : ∀ s ∈ tbl.services, ∀ r ∈ s.built, passesConds r req = true) (m : Str) :
    m ∈ ms ↔ Spec.routable E (Spec.withRouter tbl .curly) req m = true := by
  rw [C17_routable_agrees E tbl hwf hroots hclean req (hpath ▸ hp) m]
  exact C17_options_jsr_partial E (Spec.withRouter tbl .jsr) rfl path ms hc hF14 req hpath hconds m

/-! ### (5) panics -/

/-- **C17 and panics.**  `Spec.routable` is "status ≠ 404, 405" and a model panic has status 500 (so
    has a real one: the harness records the recover handler's answer).  On every table on which
    dispatch cannot panic (the hypotheses of `C02_total`) a method is routable exactly when a route
    function runs for it or it is answered 415 or 406: `Spec.routable` never sees a panic there. -/
theorem C17_routable_served (E : ReEnv) (cfg : Config) (hwf : cfg.wfTemplates = true)
    (hrootsJ : cfg.router = .jsr → Jsr.rootsRead cfg = true)
    (hrootsC : cfg.router = .curly → Curly.rootsRead cfg = true) (req : Req) (m : Str) :
    Spec.routable E cfg req m = true ↔
      ((∃ s r ps, route E cfg { req with method := m } = .selected s r ps) ∨
        route E cfg { req with method := m } = .error 415 none ∨
        route E cfg { req with method := m } = .error 406 none) :=
  Allow.routable_iff_served E cfg req m (C02_total E cfg hwf hrootsJ hrootsC _)

/-- `C17_405` on tables on which dispatch cannot panic: the Allow list of a 405 is exactly the set of
    methods for which a route function runs or the answer is 415 or 406 -/
theorem C17_405_served (E : ReEnv) (cfg : Config) (hwf : cfg.wfTemplates = true)
    (hrootsJ : cfg.router = .jsr → Jsr.rootsRead cfg = true)
    (hrootsC : cfg.router = .curly → Curly.rootsRead cfg = true) (req : Req) (allow : List Str)
    (h : route E cfg req = .error 405 (some allow)) (m : Str) :
    m ∈ allow ↔
      ((∃ s r ps, route E cfg { req with method := m } = .selected s r ps) ∨
        route E cfg { req with method := m } = .error 415 none ∨
        route E cfg { req with method := m } = .error 406 none) :=
  (C17_405 E cfg req allow h m).trans (C17_routable_served E cfg hwf hrootsJ hrootsC req m)

/-- a 405 never comes without its Allow list (both routers, every table, every request) -/
theorem C17_405_has_allow (E : ReEnv) (cfg : Config) (req : Req) (a : Option (List Str))
    (h : route E cfg req = .error 405 a) : ∃ al, a = some al :=
  Allow.route_405_some E cfg req a h

/-! ### (6) the driver's predicate on the model's observation

`Spec.modelObs E tbl req methods` (Spec/Options.lean) is the record the harness would send if the
implementation were the model: `probes` = `Spec.probeOf` of every method (status by `Spec.statusOf`,
the Allow list of a 405) — exactly the `(p …)` items `Driver/Options.lean` prints; `optAllow`,
`optACAM` = the list `Options.optionsOut` joins into the two headers of its OPTIONS answer;
`optHandlerRan` = "the filter passed OPTIONS on and a route was selected"; `othersUntouched` = "for
every other probed method the filter returned `⟨[], true⟩`".  What the filter model returns in the
two cases is `C17_filter_options` / `C17_filter_other` (`Spec.filtered E tbl req m` is
`Options.optionsOut E tbl ⟨m, req.path, [], []⟩` by definition), so the last two fields COMPUTE to
`false` and `true` (`Allow.modelObs_eq`).

Two hypotheses come with the observation, not with the code: OPTIONS is probed (else the harness
never asks the filter and both lists stay empty), and every declared method is probed (`c17Holds`
requires every listed method to be a probed one; the harness probes a fixed list that contains
every method its generator declares). -/

/-- **C17 as the driver evaluates it, RouterJSR311** (partial: F14).  Hypotheses: the table is one on
    which dispatch cannot panic (`C02_total`: `wfTemplates`, `Jsr.rootsRead`) — which also makes
    `computeAllowedMethods` answer —, at most one root matches the URL, the If-conditions hold.
    Tail wildcards and regex variables are allowed (F20 concerns CurlyRouter).  Conclusion: the
    predicate holds of the model's observation, and no probe is a panic (status 500). -/
theorem C17_holds_jsr_partial (E : ReEnv) (tbl : Config) (hk : tbl.router = .jsr)
    (hwf : tbl.wfTemplates = true) (hroots : Jsr.rootsRead tbl = true)
    (req : Req) (hF14 : Spec.severalRootsMatch E tbl req.path = false)
    (hconds : ∀ s ∈ tbl.services, ∀ r ∈ s.built, passesConds r req = true)
    (methods : List Str) (hO : Cors.sOPTIONS ∈ methods)
    (hcover : ∀ s ∈ tbl.services, ∀ rd ∈ s.routes, rd.method ∈ methods) :
    Spec.c17Holds (Spec.modelObs E tbl req methods) = true ∧
    ∀ p ∈ (Spec.modelObs E tbl req methods).probes, p.2.1 ∈ [200, 404, 405, 415, 406] := by
  obtain ⟨ms, hc⟩ := Allow.computed_of_wf_jsr E tbl hk hwf hroots req.path
  refine ⟨Allow.c17Holds_modelObs E tbl req methods ms hO hc
    (fun m => C17_options_jsr_partial E tbl hk req.path ms hc hF14 req rfl hconds m) ?_, ?_⟩
  · intro m hm
    obtain ⟨s, hs, rd, hrd, rfl⟩ := Allow.computed_declared E tbl.services req.path ms hc m hm
    exact hcover s hs rd hrd
  · intro p hp
    obtain ⟨m, _, rfl⟩ := List.mem_map.mp hp
    exact Allow.probe_status E tbl req m
      (C02_total E tbl hwf (fun _ => hroots) (fun h => by rw [hk] at h; cases h) _)

/-- **C17 as the driver evaluates it, CurlyRouter** (partial: F14; F15/F16 — normal path; F20 — the
    common fragment has no tail wildcard).  Exactly the hypotheses of `C17_options_curly_partial`;
    the common fragment lies inside the hypotheses of `C02_total`, so no probe is a panic. -/
theorem C17_holds_curly_partial (E : ReEnv) (tbl : Config) (hwf : Spec.wfCommon tbl = true)
    (hroots : Spec.rootsDistinct tbl = true) (hclean : Spec.rootsClean tbl = true)
    (req : Req) (hp : Spec.normalPath req.path = true)
    (hF14 : Spec.severalRootsMatch E tbl req.path = false)
    (hconds : ∀ s ∈ tbl.services, ∀ r ∈ s.built, passesConds r req = true)
    (methods : List Str) (hO : Cors.sOPTIONS ∈ methods)
    (hcover : ∀ s ∈ tbl.services, ∀ rd ∈ s.routes, rd.method ∈ methods) :
    Spec.c17Holds (Spec.modelObs E (Spec.withRouter tbl .curly) req methods) = true ∧
    ∀ p ∈ (Spec.modelObs E (Spec.withRouter tbl .curly) req methods).probes, p.2.1 ∈ [200, 404, 405, 415, 406] := by
  obtain ⟨ms, hc⟩ := Allow.computed_of_wfCommon E tbl hwf hclean req.path
  refine ⟨Allow.c17Holds_modelObs E (Spec.withRouter tbl .curly) req methods ms hO hc
    (fun m => C17_options_curly_partial E tbl hwf hroots hclean req.path hp ms hc hF14 req rfl hconds m) ?_, ?_⟩
  · intro m hm
    obtain ⟨s, hs, rd, hrd, rfl⟩ := Allow.computed_declared E tbl.services req.path ms hc m hm
    exact hcover s hs rd hrd
  · intro p hp'
    obtain ⟨m, _, rfl⟩ := List.mem_map.mp hp'
    exact Allow.probe_status E _ req m (Allow.no_panic_wfCommon_curly E tbl hwf hclean _)

/-- what the filter model contributes to the observation: on OPTIONS it answers itself with the two
    headers carrying the comma-joined lists of `modelObs`, for every other probed method it adds
    nothing and passes on — so the fields `optHandlerRan` / `othersUntouched` are computed, not assumed -/
theorem C17_modelObs_filter (E : ReEnv) (tbl : Config) (req : Req) (methods ms : List Str)
    (hO : Cors.sOPTIONS ∈ methods) (hc : Cors.computeAllowedMethods E tbl.services req.path = some ms) :
    let o := Spec.modelObs E tbl req methods
    Options.optionsOut E tbl { method := Cors.sOPTIONS, path := req.path } = some
      ⟨[("Allow".toList, Str.join Cors.sComma o.optAllow), (Cors.hAllowOrigin, []), (Cors.hAllowHeaders, []),
        (Cors.hAllowMethods, Str.join Cors.sComma o.optACAM)], false⟩ ∧
    (∀ m, m ≠ Cors.sOPTIONS → Options.optionsOut E tbl { method := m, path := req.path } = some ⟨[], true⟩) ∧
    o.optHandlerRan = false ∧ o.othersUntouched = true := by
  simp only [Allow.modelObs_eq E tbl req methods ms hO hc]
  exact ⟨Allow.filtered_options E tbl req ms hc, fun m hm => Allow.filtered_other E tbl req m hm, trivial, trivial⟩

/-! #### the same with the lists decoded from the header values

Full statement (FALSE: `C17_wire_witness`): `C17_holds_*_partial` with `Spec.modelObsWire`.  A declared
method that is not a token (contains a comma, a space at an end, or is empty) does not survive
`strings.Join(…, ",")` followed by the reader's split: the header then names other methods than the
table declares.  `Spec.methodToken` of every declared method is the hypothesis the proof forces. -/

theorem C17_holds_jsr_wire_partial (E : ReEnv) (tbl : Config) (hk : tbl.router = .jsr)
    (hwf : tbl.wfTemplates = true) (hroots : Jsr.rootsRead tbl = true)
    (req : Req) (hF14 : Spec.severalRootsMatch E tbl req.path = false)
    (hconds : ∀ s ∈ tbl.services, ∀ r ∈ s.built, passesConds r req = true)
    (methods : List Str) (hO : Cors.sOPTIONS ∈ methods)
    (hcover : ∀ s ∈ tbl.services, ∀ rd ∈ s.routes, rd.method ∈ methods)
    (htok : ∀ s ∈ tbl.services, ∀ rd ∈ s.routes, Spec.methodToken rd.method = true) :
    Spec.c17Holds (Spec.modelObsWire E tbl req methods) = true := by
  obtain ⟨ms, hc⟩ := Allow.computed_of_wf_jsr E tbl hk hwf hroots req.path
  rw [Allow.modelObsWire_eq E tbl req methods ms hO hc (fun m hm => by
    obtain ⟨s, hs, rd, hrd, rfl⟩ := Allow.computed_declared E tbl.services req.path ms hc m hm
    exact htok s hs rd hrd)]
  exact (C17_holds_jsr_partial E tbl hk hwf hroots req hF14 hconds methods hO hcover).1

theorem C17_holds_curly_wire_partial (E : ReEnv) (tbl : Config) (hwf : Spec.wfCommon tbl = true)
    (hroots : Spec.rootsDistinct tbl = true) (hclean : Spec.rootsClean tbl = true)
    (req : Req) (hp : Spec.normalPath req.path = true)
    (hF14 : Spec.severalRootsMatch E tbl req.path = false)
    (hconds : ∀ s ∈ tbl.services, ∀ r ∈ s.built, passesConds r req = true)
    (methods : List Str) (hO : Cors.sOPTIONS ∈ methods)
    (hcover : ∀ s ∈ tbl.services, ∀ rd ∈ s.routes, rd.method ∈ methods)
    (htok : ∀ s ∈ tbl.services, ∀ rd ∈ s.routes, Spec.methodToken rd.method = true) :
    Spec.c17Holds (Spec.modelObsWire E (Spec.withRouter tbl .curly) req methods) = true := by
  obtain ⟨ms, hc⟩ := Allow.computed_of_wfCommon E tbl hwf hclean req.path
  rw [Allow.modelObsWire_eq E (Spec.withRouter tbl .curly) req methods ms hO hc (fun m hm => by
    obtain ⟨s, hs, rd, hrd, rfl⟩ := Allow.computed_declared E tbl.services req.path ms hc m hm
    exact htok s hs rd hrd)]
  exact (C17_holds_curly_partial E tbl hwf hroots hclean req hp hF14 hconds methods hO hcover).1

/-! #### OPTIONS probes that carry Access-Control-Request-Method

The property speaks of the set "listed by the OPTIONS filter (Allow and Access-Control-Allow-Methods)"
for every URL — for every OPTIONS request the filter answers, a browser's preflight (which names the
method of the call to come) included.  The harness sends such probes too; `Spec.c17HoldsAll` demands of
each answer what `c17Holds` demands of the bare one. -/

/-- the filter model does not read Access-Control-Request-Method (options_filter.go:13-27 reads
    Origin and Access-Control-Request-Headers only) -/
theorem C17_filter_ignores_request_method (E : ReEnv) (tbl : Config) (rq : Options.OptReq) (a : Str) :
    Options.optionsOut E tbl { rq with acrm := a } = Options.optionsOut E tbl rq := rfl

/-- what the filter model answers to a preflight probe: the headers of the bare OPTIONS answer,
    carrying the comma-joined lists of `Spec.modelPreflight`; not passed on -/
theorem C17_preflight_filter (E : ReEnv) (tbl : Config) (req : Req) (ms : List Str) (a : Str)
    (hc : Cors.computeAllowedMethods E tbl.services req.path = some ms) :
    let p := Spec.modelPreflight E tbl req a
    Options.optionsOut E tbl (Spec.optReqPf req a) = some
      ⟨[("Allow".toList, Str.join Cors.sComma p.allow), (Cors.hAllowOrigin, []), (Cors.hAllowHeaders, []),
        (Cors.hAllowMethods, Str.join Cors.sComma p.acam)], false⟩ ∧ p.acrm = a ∧ p.handlerRan = false := by
  simp only [Allow.modelPreflight_eq E tbl req ms a hc]
  exact ⟨Allow.filtered_preflight E tbl req ms a hc, trivial, trivial⟩

/-- **C17 as the driver evaluates it, with preflight probes, RouterJSR311** (partial: F14): the
    hypotheses of `C17_holds_jsr_partial`; every list of Access-Control-Request-Method values -/
theorem C17_holds_jsr_preflights_partial (E : ReEnv) (tbl : Config) (hk : tbl.router = .jsr)
    (hwf : tbl.wfTemplates = true) (hroots : Jsr.rootsRead tbl = true)
    (req : Req) (hF14 : Spec.severalRootsMatch E tbl req.path = false)
    (hconds : ∀ s ∈ tbl.services, ∀ r ∈ s.built, passesConds r req = true)
    (methods : List Str) (hO : Cors.sOPTIONS ∈ methods)
    (hcover : ∀ s ∈ tbl.services, ∀ rd ∈ s.routes, rd.method ∈ methods) (acrms : List Str) :
    Spec.c17HoldsAll (Spec.modelObs E tbl req methods) (acrms.map (Spec.modelPreflight E tbl req)) = true := by
  obtain ⟨ms, hc⟩ := Allow.computed_of_wf_jsr E tbl hk hwf hroots req.path
  exact Allow.c17HoldsAll_model E tbl req methods ms hO hc
    (C17_holds_jsr_partial E tbl hk hwf hroots req hF14 hconds methods hO hcover).1 acrms

/-- **the same, CurlyRouter** (partial: F14, F15/F16, F20): the hypotheses of `C17_holds_curly_partial` -/
theorem C17_holds_curly_preflights_partial (E : ReEnv) (tbl : Config) (hwf : Spec.wfCommon tbl = true)
    (hroots : Spec.rootsDistinct tbl = true) (hclean : Spec.rootsClean tbl = true)
    (req : Req) (hp : Spec.normalPath req.path = true)
    (hF14 : Spec.severalRootsMatch E tbl req.path = false)
    (hconds : ∀ s ∈ tbl.services, ∀ r ∈ s.built, passesConds r req = true)
    (methods : List Str) (hO : Cors.sOPTIONS ∈ methods)
    (hcover : ∀ s ∈ tbl.services, ∀ rd ∈ s.routes, rd.method ∈ methods) (acrms : List Str) :
    Spec.c17HoldsAll (Spec.modelObs E (Spec.withRouter tbl .curly) req methods)
      (acrms.map (Spec.modelPreflight E (Spec.withRouter tbl .curly) req)) = true := by
  obtain ⟨ms, hc⟩ := Allow.computed_of_wfCommon E tbl hwf hclean req.path
  exact Allow.c17HoldsAll_model E (Spec.withRouter tbl .curly) req methods ms hO hc
    (C17_holds_curly_partial E tbl hwf hroots hclean req hp hF14 hconds methods hO hcover).1 acrms

/-! The frame condition (Lemmas/StateShape.lean): the code has exactly the state this property's model
    accounts for — no further package-level variable, struct type or field; constants as modelled. -/
-- also: Restful.StateShape.globals_shape
-- also: Restful.StateShape.consts_shape
-- also: Restful.StateShape.container_shape

end Props
end Restful

/-! ### witnesses -/
namespace Restful.C17Witness
open Restful.Props

def E0 : ReEnv := ⟨fun _ _ => true, fun _ _ => true⟩

def rt (id : Nat) (m p : String) : RouteDecl :=
  { id := id, method := m.toList, relPath := p.toList, consumes := [], produces := [], conds := [], noct := [] }

/-- nested literal roots: `/a` with `PUT /{p}/{q}`, `/a/b` with `GET /{x}` -/
def nested (k : RouterKind) : Config :=
  { router := k, services := [
      { id := 0, root := "/a".toList, routes := [rt 0 "PUT" "/{p}/{q}"] },
      { id := 1, root := "/a/b".toList, routes := [rt 1 "GET" "/{x}"] }] }

/-- **F14**: with nested roots the OPTIONS list is not the routable set.  OPTIONS `/a/b/x` lists
    PUT and GET (both roots match: `severalRootsMatch`), but `PUT /a/b/x` is dispatched to `/a/b`
    alone and answered 405 (Allow: GET) — under both routers.  The table is in the common fragment
    and the path normal: only `severalRootsMatch = false` fails of `C17_options_*_partial`. -/
theorem C17_F14_witness :
    let path := "/a/b/x".toList
    let req : Req := { method := "OPTIONS".toList, path := path }
    Cors.computeAllowedMethods E0 (nested .jsr).services path = some ["PUT".toList, "GET".toList] ∧
    Spec.severalRootsMatch E0 (nested .jsr) path = true ∧
    Spec.wfCommon (nested .jsr) = true ∧ Spec.rootsDistinct (nested .jsr) = true ∧
    Spec.rootsClean (nested .jsr) = true ∧ Spec.normalPath path = true ∧
    route E0 (nested .jsr) { req with method := "PUT".toList } = .error 405 (some ["GET".toList]) ∧
    route E0 (nested .curly) { req with method := "PUT".toList } = .error 405 (some ["GET".toList]) ∧
    Spec.routable E0 (nested .jsr) req "PUT".toList = false ∧
    Spec.routable E0 (nested .curly) req "PUT".toList = false ∧
    Spec.routable E0 (nested .jsr) req "GET".toList = true ∧
    Spec.routable E0 (nested .curly) req "GET".toList = true := by
  decide

/-- why the hypothesis on If-conditions is needed: `/r` with `GET /x` guarded by an If-condition
    that is false for the request.  `computeAllowedMethods` (which never consults conditions) lists
    GET, one root matches, yet `GET /r/x` is answered 404 by both routers. -/
theorem C17_conds_witness :
    let tblc : RouterKind → Config := fun k => { router := k, services :=
      [{ id := 0, root := "/r".toList, routes := [{ rt 0 "GET" "/x" with conds := [0] }] }] }
    let req : Req := { method := "OPTIONS".toList, path := "/r/x".toList, conds := [false] }
    Cors.computeAllowedMethods E0 (tblc .jsr).services req.path = some ["GET".toList] ∧
    Spec.severalRootsMatch E0 (tblc .jsr) req.path = false ∧
    route E0 (tblc .jsr) { req with method := "GET".toList } = .error 404 none ∧
    route E0 (tblc .curly) { req with method := "GET".toList } = .error 404 none ∧
    Spec.routable E0 (tblc .jsr) req "GET".toList = false ∧
    Spec.routable E0 (tblc .curly) req "GET".toList = false := by
  decide

/-! non-vacuity of `C17_405`: GET and POST on one template, DELETE elsewhere; a PUT request -/

def tbl (k : RouterKind) : Config :=
  { router := k, services := [
      { id := 0, root := "/r".toList,
        routes := [rt 0 "GET" "/x/{id}", rt 1 "POST" "/x/{id}", rt 2 "DELETE" "/y"] }] }

def put : Req := { method := "PUT".toList, path := "/r/x/7".toList }

example : route E0 (tbl .curly) put = .error 405 (some ["GET".toList, "POST".toList]) ∧
    route E0 (tbl .jsr) put = .error 405 (some ["GET".toList, "POST".toList]) := by decide

/-- GET is in the Allow list and routable … -/
example : ("GET".toList ∈ ["GET".toList, "POST".toList] ↔ Spec.routable E0 (tbl .curly) put "GET".toList = true) ∧
    "GET".toList ∈ ["GET".toList, "POST".toList] ∧ Spec.routable E0 (tbl .curly) put "GET".toList = true :=
  ⟨C17_405 E0 (tbl .curly) put _ (by decide) _, by decide, by decide⟩

/-- … DELETE (routable only at another URL) is neither -/
example : ("DELETE".toList ∈ ["GET".toList, "POST".toList] ↔ Spec.routable E0 (tbl .jsr) put "DELETE".toList = true) ∧
    "DELETE".toList ∉ ["GET".toList, "POST".toList] ∧ Spec.routable E0 (tbl .jsr) put "DELETE".toList = false :=
  ⟨C17_405 E0 (tbl .jsr) put _ (by decide) _, by decide, by decide⟩

/-! non-vacuity of (2)-(4): the same table, the OPTIONS filter and both routers -/

def optReq : Options.OptReq := { method := Cors.sOPTIONS, path := "/r/x/7".toList, origin := "http://o".toList }

example : Options.optionsOut E0 (tbl .jsr) optReq = some
    ⟨[("Allow".toList, "GET,POST".toList), (Cors.hAllowOrigin, "http://o".toList), (Cors.hAllowHeaders, []),
      (Cors.hAllowMethods, "GET,POST".toList)], false⟩ := by decide

example (m : Str) : m ∈ ["GET".toList, "POST".toList] ↔ Spec.routable E0 (tbl .jsr) put m = true :=
  C17_options_jsr_partial E0 (tbl .jsr) rfl put.path _ (by decide) (by decide) put rfl (by decide) m

example (m : Str) : m ∈ ["GET".toList, "POST".toList] ↔ Spec.routable E0 (Spec.withRouter (tbl .jsr) .curly) put m = true :=
  C17_options_curly_partial E0 (tbl .jsr) (by decide) (by decide) (by decide) put.path (by decide) _ (by decide)
    (by decide) put rfl (by decide) m

end Restful.C17Witness

/-! ### non-vacuity (audit): the remaining theorems with all their hypotheses, on a table with two
    (not nested) services, one of whose routes carries an If-condition that holds for the request -/
namespace Restful.C17Audit
open Restful.Props Restful.C17Witness

/-- `/r` with GET `/x/{id}`, POST `/x/{id}` (If-condition 0), DELETE `/y`; `/s` with PUT `/x/{id}` -/
def tbl2 (k : RouterKind) : Config :=
  { router := k, services := [
      { id := 0, root := "/r".toList,
        routes := [rt 0 "GET" "/x/{id}", { rt 1 "POST" "/x/{id}" with conds := [0] }, rt 2 "DELETE" "/y"] },
      { id := 1, root := "/s".toList, routes := [rt 3 "PUT" "/x/{id}"] }] }

def put2 : Req := { method := "PUT".toList, path := "/r/x/7".toList, conds := [true] }
def opt2 : Options.OptReq := { method := Cors.sOPTIONS, path := "/r/x/7".toList, origin := "http://o".toList, acrh := "X-A".toList }
def out2 : Options.Out :=
  ⟨[("Allow".toList, "GET,POST".toList), (Cors.hAllowOrigin, "http://o".toList), (Cors.hAllowHeaders, "X-A".toList),
    (Cors.hAllowMethods, "GET,POST".toList)], false⟩

/-- what `computeAllowedMethods` lists at `/r/x/7` -/
def ms2 : List Str := ["GET".toList, "POST".toList]

/-- the hypotheses of the theorems below, all at once; PUT is answered 405 here and routed at `/s/x/7` -/
example :
    Spec.wfCommon (tbl2 .jsr) = true ∧ Spec.rootsDistinct (tbl2 .jsr) = true ∧ Spec.rootsClean (tbl2 .jsr) = true ∧
    Spec.normalPath put2.path = true ∧ Spec.severalRootsMatch E0 (tbl2 .jsr) put2.path = false ∧
    Cors.computeAllowedMethods E0 (tbl2 .jsr).services put2.path = some ["GET".toList, "POST".toList] ∧
    (∀ s ∈ (tbl2 .jsr).services, ∀ r ∈ s.built, passesConds r put2 = true) ∧
    Options.optionsOut E0 (tbl2 .jsr) opt2 = some out2 ∧
    route E0 (tbl2 .jsr) put2 = .error 405 (some ["GET".toList, "POST".toList]) ∧
    route E0 (tbl2 .curly) put2 = .error 405 (some ["GET".toList, "POST".toList]) ∧
    route E0 (tbl2 .curly) { put2 with path := "/s/x/7".toList } = .selected 1 3 [("id".toList, "7".toList)] ∧
    Spec.routable E0 (tbl2 .jsr) put2 "POST".toList = true ∧ Spec.routable E0 (tbl2 .jsr) put2 "PUT".toList = false := by
  decide

/-- `C17_405`, `C17_allowedMethods_mem` -/
example (m : Str) : m ∈ ["GET".toList, "POST".toList] ↔ Spec.routable E0 (tbl2 .curly) put2 m = true :=
  C17_405 E0 (tbl2 .curly) put2 _ (by decide) m
example := C17_allowedMethods_mem "POST".toList ((tbl2 .jsr).services.flatMap Service.built) []
/-- `C17_filter_options`, `C17_filter_other` -/
example := C17_filter_options E0 (tbl2 .jsr) opt2 rfl out2 (by decide)
example := C17_filter_other E0 (tbl2 .jsr) { opt2 with method := "GET".toList } (by decide)
/-- `C17_options_lists_routable_jsr` / `_curly` (hypothesis `hr`: POST is routable at the URL) -/
example : "POST".toList ∈ ["GET".toList, "POST".toList] :=
  C17_options_lists_routable_jsr E0 (tbl2 .jsr) rfl put2.path _ (by decide) put2 rfl _ (by decide)
example : "POST".toList ∈ ["GET".toList, "POST".toList] :=
  C17_options_lists_routable_curly E0 (tbl2 .jsr) (by decide) (by decide) (by decide) put2.path (by decide) _ (by decide)
    put2 rfl _ (by decide)
/-- `C17_routable_agrees` -/
example (m : Str) := C17_routable_agrees E0 (tbl2 .jsr) (by decide) (by decide) (by decide) put2 (by decide) m
/-- `C17_options_jsr_partial`, `…'`, `C17_options_curly_partial`, `C17_filter_options_jsr_partial` -/
example (m : Str) := C17_options_jsr_partial E0 (tbl2 .jsr) rfl put2.path ms2 (by decide) (by decide) put2 rfl (by decide) m
example (m : Str) := C17_options_jsr_partial' E0 (tbl2 .jsr) rfl put2.path ms2 (by decide) (by decide) put2 rfl
  (fun s hs r hr m' => by
    have h : ∀ s ∈ (tbl2 .jsr).services, ∀ r ∈ s.built, passesConds r put2 = true := by decide
    exact h s hs r hr) m
example (m : Str) := C17_options_curly_partial E0 (tbl2 .jsr) (by decide) (by decide) (by decide) put2.path (by decide) ms2
  (by decide) (by decide) put2 rfl (by decide) m
example := C17_filter_options_jsr_partial E0 (tbl2 .jsr) rfl opt2 rfl out2 (by decide) (by decide) put2 rfl (by decide)

/-- the equivalences are not trivially true: `Spec.routable` separates the methods at this URL, and
    with the If-condition false POST stops being routable while it is still listed (`C17_conds_witness`) -/
example :
    ["GET", "POST", "PUT", "DELETE", "OPTIONS"].map (fun m => Spec.routable E0 (tbl2 .curly) put2 m.toList) =
      [true, true, false, false, false] ∧
    Spec.routable E0 (tbl2 .curly) { put2 with conds := [false] } "POST".toList = false := by
  decide

/-! `Spec.c17Holds` (Spec/Options.lean) is the predicate the driver evaluates on every REAL observation
of C17; `C17_holds_jsr_partial` / `C17_holds_curly_partial` conclude it for the model's observation
`Spec.modelObs` (instantiated in `Restful.C17Holds` below).  Here, by evaluation: on the observation
the MODEL amounts to at `/r/x/7` — five probed methods, the OPTIONS filter's two lists — the
predicate holds under both routers, and it is falsified by wrong observations. -/

def methods2 : List String := ["GET", "POST", "PUT", "DELETE", "OPTIONS"]

/-- the observation the model amounts to: per probed method its status and (405) Allow list; the
    filter lists `computeAllowedMethods`, runs no route function and leaves other methods alone
    (`C17_filter_options`, `C17_filter_other`) -/
def obs2 (k : RouterKind) : Spec.AllowObs :=
  { probes := methods2.map (fun m =>
      match route E0 (tbl2 k) { put2 with method := m.toList } with
      | .error 405 (some al) => (m.toList, 405, some al)
      | out => (m.toList, Spec.statusOf out, none))
    optAllow := ms2, optACAM := ms2, optHandlerRan := false, othersUntouched := true }

example :
    (obs2 .curly).probes.map (·.2.1) = [200, 200, 405, 405, 405] ∧ (obs2 .jsr).probes.map (·.2.1) = [200, 200, 405, 405, 405] ∧
    Spec.c17Holds (obs2 .curly) = true ∧ Spec.c17Holds (obs2 .jsr) = true ∧
    -- the filter lists a method that is not routable / misses one that is / names one nobody probed
    Spec.c17Holds { obs2 .curly with optAllow := ms2 ++ ["PUT".toList], optACAM := ms2 ++ ["PUT".toList] } = false ∧
    Spec.c17Holds { obs2 .curly with optAllow := ["GET".toList], optACAM := ["GET".toList] } = false ∧
    Spec.c17Holds { obs2 .curly with optAllow := ms2 ++ ["PATCH".toList], optACAM := ms2 ++ ["PATCH".toList] } = false ∧
    -- Allow and Access-Control-Allow-Methods differ; a route function ran for OPTIONS; another method was touched
    Spec.c17Holds { obs2 .curly with optACAM := ["GET".toList] } = false ∧
    Spec.c17Holds { obs2 .curly with optHandlerRan := true } = false ∧
    Spec.c17Holds { obs2 .curly with othersUntouched := false } = false ∧
    -- a 405 whose Allow list misses POST, lists DELETE, or is absent
    Spec.c17Holds { obs2 .curly with probes := (obs2 .curly).probes.map (fun p =>
      if p.1 = "PUT".toList then (p.1, 405, some ["GET".toList]) else p) } = false ∧
    Spec.c17Holds { obs2 .curly with probes := (obs2 .curly).probes.map (fun p =>
      if p.1 = "PUT".toList then (p.1, 405, some (ms2 ++ ["DELETE".toList])) else p) } = false ∧
    Spec.c17Holds { obs2 .curly with probes := (obs2 .curly).probes.map (fun p =>
      if p.1 = "PUT".toList then (p.1, 405, none) else p) } = false := by
  decide

end Restful.C17Audit

/-! ### `Spec.c17Holds` on the model's observation: non-vacuity, and the witnesses for the hypotheses -/
namespace Restful.C17Holds
open Restful.Props Restful.C17Witness Restful.C17Audit

/-- the probed methods: GET, POST, PUT, DELETE, OPTIONS — every method `tbl2` declares, and OPTIONS -/
def probed : List Str := methods2.map String.toList

/-- `Spec.modelObs` at `/r/x/7` on the two-service table IS the hand-written `obs2` (GET, POST run a
    route function, PUT — routed at `/s/x/7` only —, DELETE and OPTIONS are 405 with Allow GET, POST;
    the filter lists GET, POST, runs no route function, leaves the others alone), and so is the
    observation decoded from the header values -/
example :
    Spec.modelObs E0 (tbl2 .jsr) put2 probed = obs2 .jsr ∧ Spec.modelObs E0 (tbl2 .curly) put2 probed = obs2 .curly ∧
    Spec.modelObsWire E0 (tbl2 .jsr) put2 probed = obs2 .jsr ∧ Spec.modelObsWire E0 (tbl2 .curly) put2 probed = obs2 .curly ∧
    (obs2 .jsr).probes = [("GET".toList, 200, none), ("POST".toList, 200, none), ("PUT".toList, 405, some ms2),
      ("DELETE".toList, 405, some ms2), ("OPTIONS".toList, 405, some ms2)] := by
  decide

/-- every hypothesis of the four theorems holds of that instance -/
example :
    (tbl2 .jsr).wfTemplates = true ∧ Jsr.rootsRead (tbl2 .jsr) = true ∧
    Spec.wfCommon (tbl2 .jsr) = true ∧ Spec.rootsDistinct (tbl2 .jsr) = true ∧ Spec.rootsClean (tbl2 .jsr) = true ∧
    Spec.normalPath put2.path = true ∧ Spec.severalRootsMatch E0 (tbl2 .jsr) put2.path = false ∧
    (∀ s ∈ (tbl2 .jsr).services, ∀ r ∈ s.built, passesConds r put2 = true) ∧
    Cors.sOPTIONS ∈ probed ∧ (∀ s ∈ (tbl2 .jsr).services, ∀ rd ∈ s.routes, rd.method ∈ probed) ∧
    (∀ s ∈ (tbl2 .jsr).services, ∀ rd ∈ s.routes, Spec.methodToken rd.method = true) := by
  decide

/-- `C17_holds_jsr_partial`, `C17_holds_curly_partial`, `C17_holds_*_wire_partial`, `C17_modelObs_filter` -/
example : Spec.c17Holds (Spec.modelObs E0 (tbl2 .jsr) put2 probed) = true :=
  (C17_holds_jsr_partial E0 (tbl2 .jsr) rfl (by decide) (by decide) put2 (by decide) (by decide) probed (by decide)
    (by decide)).1
example : Spec.c17Holds (Spec.modelObs E0 (Spec.withRouter (tbl2 .jsr) .curly) put2 probed) = true :=
  (C17_holds_curly_partial E0 (tbl2 .jsr) (by decide) (by decide) (by decide) put2 (by decide) (by decide) (by decide)
    probed (by decide) (by decide)).1
example : Spec.c17Holds (Spec.modelObsWire E0 (tbl2 .jsr) put2 probed) = true :=
  C17_holds_jsr_wire_partial E0 (tbl2 .jsr) rfl (by decide) (by decide) put2 (by decide) (by decide) probed (by decide)
    (by decide) (by decide)
example : Spec.c17Holds (Spec.modelObsWire E0 (Spec.withRouter (tbl2 .jsr) .curly) put2 probed) = true :=
  C17_holds_curly_wire_partial E0 (tbl2 .jsr) (by decide) (by decide) (by decide) put2 (by decide) (by decide) (by decide)
    probed (by decide) (by decide) (by decide)
example := C17_modelObs_filter E0 (tbl2 .jsr) put2 probed ms2 (by decide) (by decide)

/-- preflight probes: `C17_holds_*_preflights_partial`, `C17_preflight_filter`,
    `C17_filter_ignores_request_method` on the same table — requested methods GET (routable), PUT
    (not routable), `get`, junk, empty; the model's answer lists GET and POST each time -/
def acrms2 : List Str := ["GET".toList, "PUT".toList, "get".toList, "x y,".toList, []]
example : Spec.c17HoldsAll (Spec.modelObs E0 (tbl2 .jsr) put2 probed) (acrms2.map (Spec.modelPreflight E0 (tbl2 .jsr) put2)) = true :=
  C17_holds_jsr_preflights_partial E0 (tbl2 .jsr) rfl (by decide) (by decide) put2 (by decide) (by decide) probed (by decide)
    (by decide) acrms2
example : Spec.c17HoldsAll (Spec.modelObs E0 (Spec.withRouter (tbl2 .jsr) .curly) put2 probed)
    (acrms2.map (Spec.modelPreflight E0 (Spec.withRouter (tbl2 .jsr) .curly) put2)) = true :=
  C17_holds_curly_preflights_partial E0 (tbl2 .jsr) (by decide) (by decide) (by decide) put2 (by decide) (by decide) (by decide)
    probed (by decide) (by decide) acrms2
example : Spec.modelPreflight E0 (tbl2 .jsr) put2 "PUT".toList = ⟨"PUT".toList, ms2, ms2, false⟩ := by decide
example := C17_preflight_filter E0 (tbl2 .jsr) put2 ms2 "GET".toList (by decide)
example := C17_filter_ignores_request_method E0 (tbl2 .jsr) opt2 "GET".toList
/-- the preflight clause is falsified by an answer that confirms only the requested method in
    Access-Control-Allow-Methods (Allow complete), by one that lists nothing for a method that is not
    routable, by an incomplete Allow list, and by a route function that ran -/
example :
    let o := Spec.modelObs E0 (tbl2 .jsr) put2 probed
    Spec.pfHolds o ⟨"GET".toList, ms2, ms2, false⟩ = true ∧
    Spec.pfHolds o ⟨"GET".toList, ms2, ["GET".toList], false⟩ = false ∧
    Spec.pfHolds o ⟨"PUT".toList, ms2, [], false⟩ = false ∧
    Spec.pfHolds o ⟨"GET".toList, ["GET".toList], ["GET".toList], false⟩ = false ∧
    Spec.pfHolds o ⟨"GET".toList, ms2, ms2, true⟩ = false ∧
    Spec.c17HoldsAll o [⟨"GET".toList, ms2, ms2, false⟩, ⟨"GET".toList, ms2, ["GET".toList], false⟩] = false := by
  decide

/-- the predicate is falsified by wrong observations: the filter lists a method that is answered 405
    (PUT) / misses a routable one (POST) / the two headers differ / a route function ran for OPTIONS /
    another method was touched / a 405 whose Allow list misses POST; and by the model's own
    observation when a declared method (DELETE, say) is not among the probed ones — the reason for
    `hcover` — or OPTIONS is not (the filter is never asked, both lists stay empty: `hO`) -/
example :
    let o := Spec.modelObs E0 (tbl2 .jsr) put2 probed
    Spec.c17Holds o = true ∧
    Spec.c17Holds { o with optAllow := ms2 ++ ["PUT".toList], optACAM := ms2 ++ ["PUT".toList] } = false ∧
    Spec.c17Holds { o with optAllow := ["GET".toList], optACAM := ["GET".toList] } = false ∧
    Spec.c17Holds { o with optACAM := ["GET".toList] } = false ∧
    Spec.c17Holds { o with optHandlerRan := true } = false ∧
    Spec.c17Holds { o with othersUntouched := false } = false ∧
    Spec.c17Holds { o with probes := o.probes.map (fun p =>
      if p.1 = "PUT".toList then (p.1, 405, some ["GET".toList]) else p) } = false ∧
    Spec.c17Holds (Spec.modelObs E0 (tbl2 .jsr) { put2 with path := "/r/y".toList }
      ["GET".toList, "POST".toList, "OPTIONS".toList]) = false ∧
    Spec.c17Holds (Spec.modelObs E0 (tbl2 .jsr) put2 ["GET".toList, "POST".toList, "PUT".toList]) = false := by
  decide

/-- `C17_routable_served`, `C17_405_served`, `C17_405_has_allow` on the same instance: no method is
    "routable" by way of a panic — POST runs route 1 of service 0, PUT is a 405 -/
example (m : Str) := C17_routable_served E0 (tbl2 .curly) (by decide) (fun h => by cases h) (fun _ => by decide) put2 m
example (m : Str) := C17_405_served E0 (tbl2 .jsr) (by decide) (fun _ => by decide) (fun h => by cases h) put2 ms2 (by decide) m
example := C17_405_has_allow E0 (tbl2 .jsr) put2 (some ms2) (by decide)
example :
    route E0 (tbl2 .curly) { put2 with method := "POST".toList } = .selected 0 1 [("id".toList, "7".toList)] ∧
    Spec.routable E0 (tbl2 .curly) put2 "POST".toList = true ∧ Spec.routable E0 (tbl2 .curly) put2 "PUT".toList = false := by
  decide

/-- why `C17_routable_served` has hypotheses: on a table outside the grammar (`/{a:` as the root of
    a route-less service, `C02_roots_witness`) every dispatch is a model panic, and `Spec.routable`
    calls every method routable -/
theorem C17_panic_witness :
    let cfg : Config := { router := .jsr, services := [{ id := 0, root := "/{a:".toList, routes := [] }] }
    let req : Req := { method := "GET".toList, path := "/x".toList }
    cfg.wfTemplates = true ∧ Jsr.rootsRead cfg = false ∧
    route E0 cfg req = .panic "jsr.compile" ∧ Spec.routable E0 cfg req "GET".toList = true ∧
    (Spec.probeOf E0 cfg req "GET".toList).2.1 = 500 := by
  decide

/-- a declared method that is not a token: `A,B`.  Every hypothesis of `C17_holds_*_partial` holds
    and the predicate holds of `modelObs`; the header value `A,B` decodes to the two methods A and
    B, which nobody declared or probed: `c17Holds` fails of `modelObsWire` under both routers.
    Only `Spec.methodToken` fails of `C17_holds_*_wire_partial`. -/
def tblComma (k : RouterKind) : Config :=
  { router := k, services := [{ id := 0, root := "/r".toList, routes := [rt 0 "A,B" "/x"] }] }

theorem C17_wire_witness :
    let req : Req := { method := "OPTIONS".toList, path := "/r/x".toList }
    let ms : List Str := ["A,B".toList, "OPTIONS".toList]
    (tblComma .jsr).wfTemplates = true ∧ Jsr.rootsRead (tblComma .jsr) = true ∧ Spec.wfCommon (tblComma .jsr) = true ∧
    Spec.rootsDistinct (tblComma .jsr) = true ∧ Spec.rootsClean (tblComma .jsr) = true ∧ Spec.normalPath req.path = true ∧
    Spec.severalRootsMatch E0 (tblComma .jsr) req.path = false ∧
    (∀ s ∈ (tblComma .jsr).services, ∀ rd ∈ s.routes, rd.method ∈ ms) ∧
    Spec.methodToken "A,B".toList = false ∧
    Spec.c17Holds (Spec.modelObs E0 (tblComma .jsr) req ms) = true ∧
    Spec.c17Holds (Spec.modelObs E0 (tblComma .curly) req ms) = true ∧
    (Spec.modelObsWire E0 (tblComma .jsr) req ms).optAllow = ["A".toList, "B".toList] ∧
    Spec.c17Holds (Spec.modelObsWire E0 (tblComma .jsr) req ms) = false ∧
    Spec.c17Holds (Spec.modelObsWire E0 (tblComma .curly) req ms) = false := by
  decide

/-- **F20 on the driver's predicate** (the table of `C14_options_wildcard_witness`): root `/a` with
    `GET /{t:*}`, URL `/a/`.  CurlyRouter answers GET with 404 while the filter lists GET: the
    model's observation falsifies `c17Holds` although one root matches, the path is normal and no
    panic is possible — the table is outside the common fragment (`wfCommon = false`), which is why
    `C17_holds_curly_partial` keeps `wfCommon`.  Under RouterJSR311 the same table is covered by
    `C17_holds_jsr_partial` (GET runs the route). -/
def wild (k : RouterKind) : Config :=
  { router := k, services := [{ id := 0, root := "/a".toList, routes := [rt 1 "GET" "/{t:*}"] }] }

theorem C17_F20_witness :
    let req : Req := { method := "OPTIONS".toList, path := "/a/".toList }
    let ms : List Str := ["GET".toList, "OPTIONS".toList]
    (wild .curly).wfTemplates = true ∧ Curly.rootsRead (wild .curly) = true ∧ Spec.wfCommon (wild .curly) = false ∧
    Spec.rootsDistinct (wild .curly) = true ∧ Spec.rootsClean (wild .curly) = true ∧ Spec.normalPath req.path = true ∧
    Spec.severalRootsMatch E0 (wild .curly) req.path = false ∧
    (Spec.modelObs E0 (wild .curly) req ms).probes = [("GET".toList, 404, none), ("OPTIONS".toList, 404, none)] ∧
    (Spec.modelObs E0 (wild .curly) req ms).optAllow = ["GET".toList] ∧
    Spec.c17Holds (Spec.modelObs E0 (wild .curly) req ms) = false ∧
    (Spec.modelObs E0 (wild .jsr) req ms).probes = [("GET".toList, 200, none), ("OPTIONS".toList, 405, some ["GET".toList])] ∧
    Spec.c17Holds (Spec.modelObs E0 (wild .jsr) req ms) = true := by
  decide

/-- … and that last line is an instance of the theorem (tail wildcard, RouterJSR311) -/
example : Spec.c17Holds (Spec.modelObs E0 (wild .jsr) { method := "OPTIONS".toList, path := "/a/".toList }
    ["GET".toList, "OPTIONS".toList]) = true :=
  (C17_holds_jsr_partial E0 (wild .jsr) rfl (by decide) (by decide) _ (by decide) (by decide) _ (by decide) (by decide)).1

end Restful.C17Holds

-- the imperative functions this property's model rests on, tied to their statement-by-statement
-- translation (tools/goimp, Gen/Imp.lean, regenerated on every run):
-- also: Restful.TieImp.template_to_regex
-- also: Restful.TieImp.compute_allowed_methods
-- also: Restful.TieImp.detect_route
-- also: Restful.TieImp.options_filter
