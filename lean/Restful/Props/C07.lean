/-
C07 — encoded responses decode to exactly what was written, and are labelled so.

`Spec.c07Holds` (Spec/Serve.lean) evaluates the property on what was observed of one request: the
reference is the response of the SAME request with every content-coding switch off
(`Spec.noCoding cfg`, no Accept-Encoding) — "the bytes written by filters, handler, error writer or
panic handler, in order".  Here the observation is the model's own (`Spec.obsOf (Serve.serve …)`).
The proof (Lemmas/Coding.lean) is a simulation between the two runs: with a compressing writer
installed the uncoded body is the compressor's payload, the coding's `Content-Encoding` is the
first such entry of the header map and of the snapshot sent, and the compressor is open until the
function that installed it closes it; without one the two recorders are equal.

Statement first written down (false, two reasons):
  theorem C07 : Spec.c07Holds E cfg e sr (Spec.obsOf (Serve.serve E cfg e {} sr)) = true
  F09   through `ServeHTTP` the container's switch is consulted before routing: a route with
        `ContentEncodingEnabled(false)` is encoded anyway          (`Spec.f09Class`, `C07_F09_witness`)
  —     `c07Holds` demands of a response that is NOT encoded that it leaves with the
        `Content-Encoding` it arrived with; user code that sets the header itself
        (`Header().Add("Content-Encoding", …)` in a filter or handler) breaks that without the
        container adding anything                                  (`Serve.Enc.userCE`, `C07_userCE_witness`)
`C07_iff_partial` is the exact form outside F09: the property holds iff the response is encoded or
leaves with the `Content-Encoding` it arrived with; `C07_partial` puts the second alternative as a
condition on the configuration (no script adds that header) or on the request (the writer carried
one already, which then stays the first entry).  The parts of the property that need neither
hypothesis are separate theorems: `C07_label`, `C07_requested`, `C07_decodes`, `C07_plain`,
`C07_once`, `C07_prior`; `C07_enabled_partial` needs F09 only.

Since a0e838d (F18 of C10 repaired) the chain `HandleWithFilter` builds recovers from a panic like
`dispatch` does: the recover handler then writes through the compressing writer the closure of
`Handle` (or `ServeHTTP`) installed, before the deferred `Close`.  The simulation follows it
(`Serve.Enc.plainFilteredBody_sim`/`_inv`: the same panic unwinds in both runs, the recover handler
runs in both or in neither); no statement changed, and every theorem here speaks of all six entry
points.  The last example below is that path.
-/
import Restful.Lemmas.Coding
import Restful.Lemmas.StateShape
import Restful.Lemmas.TieImpWants
namespace Restful
namespace Props
open Serve Serve.Enc

/-- **C07** for every configuration, entry point (`Dispatch`, `ServeHTTP`, `Handle`,
    `HandleWithFilter`, with or without `ServeHTTP` in front) and request outside the F09 class,
    normal, error and recovered-panic responses alike — provided no user script sets a
    `Content-Encoding` header itself, or the writer carried one on arrival -/
theorem C07_partial (E : ReEnv) (cfg : Serve.Cfg) (e : Serve.Entry) (sr : Serve.SReq)
    (h09 : Spec.f09Class E cfg e sr = false)
    (hce : Serve.Enc.userCE cfg = false ∨ sr.priorEncoding.isEmpty = false) :
    Spec.c07Holds E cfg e sr (Spec.obsOf (Serve.serve E cfg e {} sr)) = true := by
  rw [c07Holds_iff E cfg e sr h09]
  cases hc : (serve E cfg e {} sr).rc.comp with
  | some c => exact Or.inl rfl
  | none => exact Or.inr (uncoded_ce hce.symm hc)

/-- **C07**, exact form outside the F09 class: the property holds iff the response is encoded or
    leaves with the `Content-Encoding` the writer had on arrival -/
theorem C07_iff_partial (E : ReEnv) (cfg : Serve.Cfg) (e : Serve.Entry) (sr : Serve.SReq)
    (h09 : Spec.f09Class E cfg e sr = false) :
    Spec.c07Holds E cfg e sr (Spec.obsOf (Serve.serve E cfg e {} sr)) = true ↔
      ((Spec.obsOf (Serve.serve E cfg e {} sr)).coded = true ∨
        (Spec.obsOf (Serve.serve E cfg e {} sr)).ce = sr.priorEncoding) :=
  c07Holds_iff E cfg e sr h09

/-- "the Content-Encoding header names gzip or deflate": an encoded response is sent with the name
    of the coding applied as its (first) `Content-Encoding`, whatever user code adds afterwards -/
theorem C07_label (E : ReEnv) (cfg : Serve.Cfg) (e : Serve.Entry) (w : Serve.World) (sr : Serve.SReq)
    (c : Serve.Comp) (hc : (Serve.serve E cfg e w sr).rc.comp = some c) :
    (Spec.obsOf (Serve.serve E cfg e w sr)).ce = c.coding.name ∧
      (c.coding.name = "gzip".toList ∨ c.coding.name = "deflate".toList) :=
  ⟨(coded_facts {} hc).2.2.2.2, coding_name_cases c.coding⟩

/-- "the request's Accept-Encoding mentioned that coding … nothing is encoded when the writer already
    carried a Content-Encoding on arrival": the coding is the one `wantsCompressedResponse` picks for
    the request as it arrived -/
theorem C07_requested (E : ReEnv) (cfg : Serve.Cfg) (e : Serve.Entry) (w : Serve.World) (sr : Serve.SReq)
    (c : Serve.Comp) (hc : (Serve.serve E cfg e w sr).rc.comp = some c) :
    Serve.wants (Serve.initial sr).rc sr.acceptEncoding = some c.coding ∧
      Str.containsSub c.coding.name sr.acceptEncoding = true ∧ sr.priorEncoding = [] := by
  have hw := (coded_facts {} hc).2.2.1
  have h := wants_some hw
  rw [getHeader_initial] at h
  exact ⟨hw, h⟩

/-- "encoding was enabled for that request (the route's own setting overriding the container's)" —
    outside the F09 class -/
theorem C07_enabled_partial (E : ReEnv) (cfg : Serve.Cfg) (e : Serve.Entry) (w : Serve.World)
    (sr : Serve.SReq) (h09 : Spec.f09Class E cfg e sr = false)
    (hc : (Serve.serve E cfg e w sr).rc.comp.isSome = true) : Spec.enabledFor E cfg e sr = true := by
  obtain ⟨c, hc⟩ := Option.isSome_iff_exists.mp hc
  exact (coded_facts {} hc).2.2.2.1 h09

/-- "decoding the complete body with that coding yields exactly the bytes written … in order, however
    they were chunked": the coded stream is complete (the compressor was closed by the function that
    installed it, also when a panic propagates) and carries the body of the same request served
    without codings; nothing reaches the recorder uncompressed besides -/
theorem C07_decodes (E : ReEnv) (cfg : Serve.Cfg) (e : Serve.Entry) (w : Serve.World) (sr : Serve.SReq)
    (c : Serve.Comp) (hc : (Serve.serve E cfg e w sr).rc.comp = some c) :
    c.closed = true ∧
      c.payload = (Serve.serve E (Spec.noCoding cfg) e {} { sr with acceptEncoding := [] }).rc.body :=
  ⟨(coded_facts {} hc).1, (coded_facts {} hc).2.1.symm⟩

/-- "otherwise the body is exactly those bytes and the container adds no Content-Encoding": a response
    that is not encoded is, status, headers and body, the response of the same request served
    without codings -/
theorem C07_plain (E : ReEnv) (cfg : Serve.Cfg) (e : Serve.Entry) (w : Serve.World) (sr : Serve.SReq)
    (hc : (Serve.serve E cfg e w sr).rc.comp = none) :
    (Serve.serve E cfg e w sr).rc =
      (Serve.serve E (Spec.noCoding cfg) e {} { sr with acceptEncoding := [] }).rc :=
  uncoded_facts {} hc

/-- "a response is never encoded twice": a request acquires at most one compressor, exactly one iff
    its response is encoded, and every compressor acquired is released -/
theorem C07_once (E : ReEnv) (cfg : Serve.Cfg) (e : Serve.Entry) (sr : Serve.SReq) :
    (Serve.serve E cfg e {} sr).world.acquired ≤ 1 ∧
      ((Serve.serve E cfg e {} sr).world.acquired = 1 ↔ (Serve.serve E cfg e {} sr).rc.comp.isSome = true) ∧
      (Serve.serve E cfg e {} sr).world.released = (Serve.serve E cfg e {} sr).world.acquired := by
  rw [serve_world]
  cases hc : (serve E cfg e {} sr).rc.comp with
  | none => simp [ledger, hc]
  | some c => simp [ledger, hc, serve_done E cfg e sr {} c hc]

/-- "nothing is encoded when the writer already carried a Content-Encoding on arrival", and the
    header is left as it was -/
theorem C07_prior (E : ReEnv) (cfg : Serve.Cfg) (e : Serve.Entry) (w : Serve.World) (sr : Serve.SReq)
    (hp : sr.priorEncoding ≠ []) :
    (Serve.serve E cfg e w sr).rc.comp = none ∧
      (Spec.obsOf (Serve.serve E cfg e w sr)).ce = sr.priorEncoding := by
  have hn : (serve E cfg e w sr).rc.comp = none := by
    cases hc : (serve E cfg e w sr).rc.comp with
    | none => rfl
    | some c => exact absurd (C07_requested E cfg e w sr c hc).2.2 hp
  refine ⟨hn, uncoded_ce (Or.inl ?_) hn⟩
  cases h : sr.priorEncoding with
  | nil => exact absurd h hp
  | cons a as => rfl

namespace C07Witness

def rd (id : Nat) (m p : String) : RouteDecl :=
  { id := id, method := m.toList, relPath := p.toList, consumes := [], produces := [], conds := [], noct := [] }

def Eany : ReEnv := ⟨fun _ _ => true, fun _ _ => true⟩

/-- one service `/a` with one GET route -/
def routing : Config := { router := .curly, services := [ { id := 0, root := "/a".toList, routes := [rd 0 "GET" ""] } ] }

def get (ae : String) : Serve.SReq :=
  { req := { method := "GET".toList, path := "/a".toList }, acceptEncoding := ae.toList }

/-! ### F09 -/

/-- the route switches encoding off for itself, the container has it on -/
def cfg09 : Serve.Cfg :=
  { routing := routing, routes := [ { id := 0, script := [.write "x".toList], enc := some false } ], encoding := true }

/-- F09: through `ServeHTTP` the response of a route with `ContentEncodingEnabled(false)` is gzipped
    all the same (through `Dispatch` it is not) -/
theorem _root_.Restful.Props.C07_F09_witness :
    Spec.f09Class Eany cfg09 .serveDispatch (get "gzip") = true ∧
    Serve.Enc.userCE cfg09 = false ∧
    (Serve.serve Eany cfg09 .serveDispatch {} (get "gzip")).rc.comp = some { coding := .gzip, payload := "x".toList, closed := true } ∧
    Spec.enabledFor Eany cfg09 .serveDispatch (get "gzip") = false ∧
    Spec.c07Holds Eany cfg09 .serveDispatch (get "gzip") (Spec.obsOf (Serve.serve Eany cfg09 .serveDispatch {} (get "gzip"))) = false ∧
    (Serve.serve Eany cfg09 .dispatch {} (get "gzip")).rc.comp = none ∧
    Spec.c07Holds Eany cfg09 .dispatch (get "gzip") (Spec.obsOf (Serve.serve Eany cfg09 .dispatch {} (get "gzip"))) = true := by
  decide

/-! ### user code that sets `Content-Encoding` itself -/

/-- the handler labels its own output; no encoding anywhere -/
def cfgU : Serve.Cfg :=
  { routing := routing, routes := [ { id := 0, script := [.addHeader "Content-Encoding".toList "br".toList, .write "x".toList] } ] }

/-- the second hypothesis of `C07_partial` cannot be dropped: nothing is encoded, the container adds
    nothing, and yet `c07Holds` is false, because the response leaves with a `Content-Encoding` it
    did not arrive with -/
theorem _root_.Restful.Props.C07_userCE_witness :
    Spec.f09Class Eany cfgU .dispatch (get "") = false ∧ Serve.Enc.userCE cfgU = true ∧
    (Serve.serve Eany cfgU .dispatch {} (get "")).rc.comp = none ∧
    (Spec.obsOf (Serve.serve Eany cfgU .dispatch {} (get ""))).ce = "br".toList ∧
    Spec.c07Holds Eany cfgU .dispatch (get "") (Spec.obsOf (Serve.serve Eany cfgU .dispatch {} (get ""))) = false := by
  decide

/-! ### non-vacuity -/

/-- a container filter writing 2 bytes, a handler writing 3 bytes in two chunks, encoding on -/
def cfgN : Serve.Cfg :=
  { routing := routing
    cfilters := [ { id := 1, pre := [.write "ab".toList], kind := .pass, post := [] } ]
    routes := [ { id := 0, script := [.write "c".toList, .write "de".toList] } ]
    encoding := true }

/-- the hypotheses of `C07_partial` hold, the response is encoded with the coding named first in
    Accept-Encoding, the compressor received the five bytes in order and was closed, and the
    property holds -/
example :
    Spec.f09Class Eany cfgN .dispatch (get "deflate, gzip") = false ∧ Serve.Enc.userCE cfgN = false ∧
    (Serve.serve Eany cfgN .dispatch {} (get "deflate, gzip")).rc.comp =
      some { coding := .deflate, payload := "abcde".toList, closed := true } ∧
    (Spec.obsOf (Serve.serve Eany cfgN .dispatch {} (get "deflate, gzip"))).ce = "deflate".toList ∧
    (Serve.serve Eany cfgN .dispatch {} (get "deflate, gzip")).world = { acquired := 1, released := 1 } ∧
    Spec.c07Holds Eany cfgN .dispatch (get "deflate, gzip")
      (Spec.obsOf (Serve.serve Eany cfgN .dispatch {} (get "deflate, gzip"))) = true := by
  decide

/-- the handler panics after its first chunk; recovery is on, with a custom recover handler -/
def cfgP : Serve.Cfg :=
  { cfgN with
    recover := true
    recoverScript := some [.write "!".toList]
    routes := [ { id := 0, script := [.write "c".toList, .panic "p".toList, .write "de".toList] } ] }

/-- the same through `ServeHTTP`, and with a handler that panics after its first chunk while
    recovery is on: the stream is still complete -/
example :
    (Serve.serve Eany cfgN .serveDispatch {} (get "gzip")).rc.comp =
      some { coding := .gzip, payload := "abcde".toList, closed := true } ∧
    Spec.c07Holds Eany cfgN .serveDispatch (get "gzip")
      (Spec.obsOf (Serve.serve Eany cfgN .serveDispatch {} (get "gzip"))) = true ∧
    (Serve.serve Eany cfgP .dispatch {} (get "gzip")).rc.comp =
      some { coding := .gzip, payload := "abc!".toList, closed := true } ∧
    Spec.c07Holds Eany cfgP .dispatch (get "gzip")
      (Spec.obsOf (Serve.serve Eany cfgP .dispatch {} (get "gzip"))) = true := by
  decide

/-- `HandleWithFilter`, encoding and recovery on, custom recover handler: the container filter
    writes two bytes, the plain handler one and then panics -/
def cfgHF : Serve.Cfg :=
  { routing := routing
    cfilters := [ { id := 1, pre := [.write "ab".toList], kind := .pass, post := [.write "z".toList] } ]
    plainScript := [.write "c".toList, .panic "p".toList, .write "de".toList]
    encoding := true
    recover := true
    recoverScript := some [.write "!".toList] }

/-- the recovered panic on the `HandleWithFilter` chain (through `ServeHTTP`, which installs the
    compressing writer, and through the mux alone, where the closure of `Handle` does): the recover
    handler's byte goes through the compressor after the three bytes written before the panic, the
    stream is complete, nothing escapes, and the property holds; the reference run without codings
    has the same four bytes as its body -/
example :
    Spec.f09Class Eany cfgHF .serveHandleF (get "gzip") = false ∧ Serve.Enc.userCE cfgHF = false ∧
    (Serve.serve Eany cfgHF .serveHandleF {} (get "gzip")).rc.comp =
      some { coding := .gzip, payload := "abc!".toList, closed := true } ∧
    (Serve.serve Eany cfgHF .serveHandleF {} (get "gzip")).escaped = none ∧
    (Serve.serve Eany (Spec.noCoding cfgHF) .serveHandleF {} (get "")).rc.body = "abc!".toList ∧
    Spec.c07Holds Eany cfgHF .serveHandleF (get "gzip")
      (Spec.obsOf (Serve.serve Eany cfgHF .serveHandleF {} (get "gzip"))) = true ∧
    (Serve.serve Eany cfgHF .muxHandleF {} (get "deflate")).rc.comp =
      some { coding := .deflate, payload := "abc!".toList, closed := true } ∧
    (Serve.serve Eany cfgHF .muxHandleF {} (get "deflate")).world = { acquired := 1, released := 1 } ∧
    Spec.c07Holds Eany cfgHF .muxHandleF (get "deflate")
      (Spec.obsOf (Serve.serve Eany cfgHF .muxHandleF {} (get "deflate"))) = true := by
  decide

/-! ### non-vacuity (audit): the remaining theorems instantiated; `Spec.c07Holds` falsified by wrong
    observations of a request that meets every hypothesis -/

/-- two codings offered; container filter + handler write five bytes in three chunks (`cfgN`) -/
def rq : Serve.SReq := get "deflate, gzip"
/-- the same request to a writer that already carries `Content-Encoding: br` -/
def rqPrior : Serve.SReq := { get "gzip" with priorEncoding := "br".toList }

/-- `C07_partial` on `cfgN` (first alternative of `hce`), and on `cfgU` — whose handler sets the
    header itself — with a prior encoding (second alternative) -/
example := C07_partial Eany cfgN .dispatch rq (by decide) (.inl (by decide))
example : Serve.Enc.userCE cfgU = true ∧ rqPrior.priorEncoding.isEmpty = false := by decide
example := C07_partial Eany cfgU .dispatch rqPrior (by decide) (.inr (by decide))
/-- `C07_iff_partial`, both sides true on `cfgN`, both sides false on `cfgU` (`C07_userCE_witness`) -/
example := (C07_iff_partial Eany cfgN .dispatch rq (by decide)).mpr (.inl (by decide))
example : ¬ ((Spec.obsOf (Serve.serve Eany cfgU .dispatch {} (get ""))).coded = true ∨
    (Spec.obsOf (Serve.serve Eany cfgU .dispatch {} (get ""))).ce = (get "").priorEncoding) := by decide

/-- `C07_label`, `C07_requested`, `C07_decodes`, `C07_enabled_partial`: an encoded response
    (hypothesis `hc`), from a used ledger -/
example := C07_label Eany cfgN .dispatch { acquired := 3, released := 3 } rq
  { coding := .deflate, payload := "abcde".toList, closed := true } (by decide)
example := C07_requested Eany cfgN .serveDispatch {} rq { coding := .deflate, payload := "abcde".toList, closed := true } (by decide)
example := C07_decodes Eany cfgP .dispatch {} (get "gzip") { coding := .gzip, payload := "abc!".toList, closed := true } (by decide)
example := C07_enabled_partial Eany cfgN .dispatch {} rq (by decide) (by decide)
/-- `C07_plain`: a response that is not encoded (no Accept-Encoding; encoding on) -/
example := C07_plain Eany cfgN .dispatch {} (get "") (by decide)
/-- `C07_prior`: gzip requested, encoding on, but the writer arrives with `Content-Encoding: br` -/
example : (Serve.serve Eany cfgN .serveDispatch {} rqPrior).rc.comp = none ∧
    (Spec.obsOf (Serve.serve Eany cfgN .serveDispatch {} rqPrior)).ce = "br".toList :=
  C07_prior Eany cfgN .serveDispatch {} rqPrior (by decide)
example : (Serve.serve Eany cfgN .serveDispatch {} rqPrior).rc.body = "abcde".toList := by decide

/-- what the model answers: encoded (deflate) / not encoded (no Accept-Encoding) -/
def oN : Spec.Obs := Spec.obsOf (Serve.serve Eany cfgN .dispatch {} rq)
def oPlain : Spec.Obs := Spec.obsOf (Serve.serve Eany cfgN .dispatch {} (get ""))

/-- `Spec.c07Holds` is not trivially true.  The encoded answer is falsified by: a decoded body that
    lost a byte; chunks out of order; an incomplete stream; a label that is not the coding; no label;
    two compressors (encoded twice); a coding the request did not mention; no Accept-Encoding at
    all; encoding not enabled; a writer that carried a Content-Encoding on arrival.  The answer that
    is not encoded is falsified by: an added Content-Encoding; other bytes; a compressor acquired. -/
example :
    Spec.c07Holds Eany cfgN .dispatch rq oN = true ∧
    Spec.c07Holds Eany cfgN .dispatch rq { oN with body := "abcd".toList } = false ∧
    Spec.c07Holds Eany cfgN .dispatch rq { oN with body := "cdeab".toList } = false ∧
    Spec.c07Holds Eany cfgN .dispatch rq { oN with complete := false } = false ∧
    Spec.c07Holds Eany cfgN .dispatch rq { oN with ce := "br".toList } = false ∧
    Spec.c07Holds Eany cfgN .dispatch rq { oN with ce := [] } = false ∧
    Spec.c07Holds Eany cfgN .dispatch rq { oN with acq := 2 } = false ∧
    Spec.c07Holds Eany cfgN .dispatch (get "gzip") oN = false ∧
    Spec.c07Holds Eany cfgN .dispatch (get "") oN = false ∧
    Spec.c07Holds Eany { cfgN with encoding := false } .dispatch rq oN = false ∧
    Spec.c07Holds Eany cfgN .dispatch { rq with priorEncoding := "br".toList } oN = false ∧
    Spec.c07Holds Eany cfgN .dispatch (get "") oPlain = true ∧
    Spec.c07Holds Eany cfgN .dispatch (get "") { oPlain with ce := "gzip".toList } = false ∧
    Spec.c07Holds Eany cfgN .dispatch (get "") { oPlain with body := "abcd".toList } = false ∧
    Spec.c07Holds Eany cfgN .dispatch (get "") { oPlain with acq := 1 } = false := by
  decide

end C07Witness

/-! The frame condition (Lemmas/StateShape.lean): the code has exactly the state this property's model
    accounts for — no further package-level variable, struct type or field; constants as modelled. -/
-- also: Restful.StateShape.globals_shape
-- also: Restful.StateShape.consts_shape
-- also: Restful.StateShape.container_shape
-- also: Restful.StateShape.response_shape
-- also: Restful.StateShape.compress_shape

end Props
end Restful

-- the imperative functions this property's model rests on, tied to their statement-by-statement
-- translation (tools/goimp, Gen/Imp.lean, regenerated on every run):
-- also: Restful.TieImp.wants_compressed
