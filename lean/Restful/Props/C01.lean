/-
C01 — a route function runs only for requests its declaration admits.

`route E cfg req` is the model of `RouteSelector.SelectRoute` + `ExtractParameters` (tied to
/repo by the correspondence stream `routing`).  `Spec.c01Holds` is the property as a predicate on
an outcome: if a route function ran, a declaration with its identity has the request's method,
admits the path position-wise (literals equal, regex variables satisfied, literal suffix present,
custom verb equal, same number of segments unless tail wildcard), consumes the Content-Type,
can satisfy Accept, and all its If-conditions hold.  The same predicate is evaluated by the
driver on every outcome observed from the real code.
-/
import Restful.Lemmas.RouteSelected
import Restful.Lemmas.CurlyMatch
import Restful.Lemmas.ReadTemplate
import Restful.Lemmas.JsrMatch
import Restful.Lemmas.StateShape
import Restful.Lemmas.RouteUnique
import Restful.Lemmas.SelPath
import Restful.Lemmas.TieRequest
import Restful.Lemmas.TieImpMatch
import Restful.Lemmas.TieImpCurlyTok
import Restful.Lemmas.TieImpPath
import Restful.Lemmas.TieImpMedia
import Restful.Lemmas.TieImpTemplate
import Restful.Lemmas.TieImpDetect
import Restful.Lemmas.TieImpCurlySel
import Restful.Lemmas.TieImpJsrSel
import Restful.Lemmas.TieImpSelect
import Restful.Lemmas.TieImpBuild
namespace Restful
namespace Props
variable (E : ReEnv)

/-- CurlyRouter: for every table whose templates are in the grammar and every request, whatever is
    selected is admitted by its declaration. -/
theorem C01_curly (cfg : Config) (hk : cfg.router = .curly) (hwf : cfg.wfTemplates = true) (req : Req) :
    Spec.c01Holds E cfg req (route E cfg req) = true := by
  unfold route routeTagged
  rw [hk]
  simp only
  cases ho : (routeCurly E cfg req).1 with
  | error c a => simp [Spec.c01Holds]
  | panic w => simp [Spec.c01Holds]
  | selected s r ps =>
    obtain ⟨svc, hsvc, rt, hrt, hs, hr, ⟨p, st, hmatch⟩, hc, hm, hct, hacc, _⟩ := routeCurly_selected E ho
    unfold Spec.c01Holds
    simp only [List.any_eq_true, Bool.and_eq_true, beq_iff_eq]
    refine ⟨svc, hsvc, hs, rt, hrt, hr, ?_⟩
    -- the template of the selected route reads as a structured template
    have hwf' : (Spec.templateOf cfg.router rt).isSome = true := by
      unfold Config.wfTemplates at hwf
      simp only [List.all_eq_true] at hwf
      exact hwf svc hsvc rt hrt
    rw [hk] at hwf'
    simp only [Spec.templateOf] at hwf'
    obtain ⟨ts, hts⟩ := Option.isSome_iff_exists.mp hwf'
    obtain ⟨hrender, htwf, hshape, hverb, _⟩ := readTemplate_facts hts
    obtain ⟨hparts, hhv⟩ := built_pathParts svc hrt
    have hadm : Spec.admits E .curly ts (tokenize req.path) = true := by
      have := Curly.matchTokens_spec E ts htwf hshape (tokenize req.path)
      rw [hrender, ← hparts, ← hverb, ← hhv, hmatch] at this
      by_cases ha : Spec.admits E .curly ts (tokenize req.path) = true
      · exact ha
      · rw [if_neg ha] at this
        cases this
    unfold Spec.admitsRequest
    simp only [Bool.and_eq_true, beq_iff_eq]
    refine ⟨⟨⟨⟨hm, ?_⟩, matchesContentType_sound rt _ hct⟩, matchesAccept_sound rt _ hacc⟩, hc⟩
    rw [hk]
    simp only [Spec.templateOf, hts, Spec.admittedSegments, hadm, if_true, Option.isSome_some]

/-- RouterJSR311, on the template forms it documents (literals, `{v}`, `{v:regex}`, tail wildcard):
    whatever is selected is admitted by its declaration. -/
theorem C01_jsr (cfg : Config) (hk : cfg.router = .jsr) (hwf : cfg.wfTemplates = true) (req : Req) :
    Spec.c01Holds E cfg req (route E cfg req) = true := by
  unfold route routeTagged
  rw [hk]
  simp only
  cases ho : (routeJsr E cfg req).1 with
  | error c a => simp [Spec.c01Holds]
  | panic w => simp [Spec.c01Holds]
  | selected s r ps =>
    obtain ⟨svc, hsvc, rt, hrt, hs, hr, ⟨wex, wc, final, rex, rc, f, hwex, hwm, hrex, hrm, hf, _⟩, hc, hm, hct, hacc⟩ :=
      routeJsr_selected E ho
    unfold Spec.c01Holds
    simp only [List.any_eq_true, Bool.and_eq_true, beq_iff_eq]
    refine ⟨svc, hsvc, hs, rt, hrt, hr, ?_⟩
    have hwf' : (Spec.templateOf cfg.router rt).isSome = true := by
      unfold Config.wfTemplates at hwf
      simp only [List.all_eq_true] at hwf
      exact hwf svc hsvc rt hrt
    rw [hk] at hwf'
    simp only [Spec.templateOf] at hwf'
    obtain ⟨ts, hts⟩ := Option.isSome_iff_exists.mp hwf'
    rw [Service.built_root svc hrt] at hts
    obtain ⟨segs, hseg, _⟩ := Jsr.match_sound E svc.rootPath rt.relPath req.path ts hts wex rex hwex hrex wc rc final f hwm hrm hf
    unfold Spec.admitsRequest
    simp only [Bool.and_eq_true, beq_iff_eq]
    refine ⟨⟨⟨⟨hm, ?_⟩, matchesContentType_sound rt _ hct⟩, matchesAccept_sound rt _ hacc⟩, hc⟩
    rw [hk]
    simp only [Spec.templateOf, Service.built_root svc hrt, hts, hseg, Option.isSome_some]

/-! ### the witness of the predicate is the route that ran

`Spec.c01Holds` names the route of a `.selected s r ps` outcome by its two ids and is satisfied as
soon as SOME declaration with these ids admits the request.  On a table whose ids identify
(`Spec.idsDistinct`: WebService ids pairwise distinct, route ids pairwise distinct within each
WebService — the driver reports it inside `WF`, the generator numbers services and routes
consecutively) there is exactly one such declaration, it is the route OBJECT the model's router
returned (`RouteRan`: the element of the sorted candidate list of the detected service that
`detectRoute` picked), and the clauses hold of it.  Without the hypothesis the predicate can be
satisfied by a namesake (`C01_ids_witness`, `C01_service_ids_witness`). -/

/-- both routers in one statement -/
theorem C01_holds (cfg : Config) (hwf : cfg.wfTemplates = true) (req : Req) :
    Spec.c01Holds E cfg req (route E cfg req) = true := by
  cases hk : cfg.router with
  | curly => exact C01_curly E cfg hk hwf req
  | jsr => exact C01_jsr E cfg hk hwf req

/-- the predicate, evaluated on an observation `.selected s r ps`, is the admission clause evaluated
    at THE declaration the ids stand for (`Spec.routeOfIds`); it is false when there is none -/
theorem C01_predicate_at (cfg : Config) (hids : Spec.idsDistinct cfg = true) (req : Req) (s r : Nat) (ps : Params) :
    Spec.c01Holds E cfg req (.selected s r ps) =
      (match Spec.routeOfIds cfg s r with
       | some (_, rt) => Spec.admitsRequest E cfg.router rt req
       | none => false) := by
  rw [Spec.c01Holds_selected, Spec.anyIds_eq hids]
  cases Spec.routeOfIds cfg s r with
  | none => rfl
  | some p => rfl

/-- … in particular no OTHER declaration can satisfy the predicate in the place of the one whose
    function was observed to run -/
theorem C01_predicate_unique (cfg : Config) (hids : Spec.idsDistinct cfg = true) (req : Req)
    (svc : Service) (hsvc : svc ∈ cfg.services) (rt : Route) (hrt : rt ∈ svc.built) (ps : Params) :
    Spec.c01Holds E cfg req (.selected svc.id rt.id ps) = Spec.admitsRequest E cfg.router rt req := by
  rw [Spec.c01Holds_selected, Spec.anyIds_of_mem hids _ hsvc hrt]
  rfl

/-- **C01 with a unique witness** (both routers): when the model selects `(s, r)`, exactly one
    WebService has id `s`, exactly one of its built routes has id `r`, that route is the object the
    router returned, and IT has the request's method, admits the path, consumes the Content-Type,
    can satisfy Accept and its conditions hold -/
theorem C01_holds_unique (cfg : Config) (hwf : cfg.wfTemplates = true) (hids : Spec.idsDistinct cfg = true)
    (req : Req) (s r : Nat) (ps : Params) (h : route E cfg req = .selected s r ps) :
    ∃ svc ∈ cfg.services, ∃ rt ∈ svc.built, RouteRan E cfg req svc rt ∧ svc.id = s ∧ rt.id = r ∧
      (∀ svc' ∈ cfg.services, svc'.id = s → svc' = svc) ∧
      (∀ svc' ∈ cfg.services, ∀ rt' ∈ svc'.built, svc'.id = s → rt'.id = r → rt' = rt) ∧
      Spec.admitsRequest E cfg.router rt req = true := by
  obtain ⟨svc, hsvc, rt, hrt, hran, hs, hr, _, hof, hu1, hu2⟩ := route_selected_unique E hids h
  refine ⟨svc, hsvc, rt, hrt, hran, hs, hr, hu1, hu2, ?_⟩
  have hp := C01_holds E cfg hwf req
  rw [h, C01_predicate_at E cfg hids, hof] at hp
  exact hp

/-- The ids in the outcome are read off the route object the router returned, for both routers and
    every table: that object is a built route of a declared WebService, its `Path` is the declared
    one (root path joined with the route's own path) and its method is the request's.
    (Replaces the former statement of this name, which was for CurlyRouter only and whose
    conclusion held of every built route.) -/
theorem C01_selected_is_declared (cfg : Config) (req : Req) (s r : Nat) (ps : Params)
    (h : route E cfg req = .selected s r ps) :
    ∃ svc ∈ cfg.services, ∃ rt ∈ svc.built, RouteRan E cfg req svc rt ∧ svc.id = s ∧ rt.id = r ∧
      rt.path = concatPath svc.rootPath rt.relPath ∧ req.method = rt.method := by
  obtain ⟨svc, hsvc, rt, hrt, hran, hs, hr, _⟩ := route_selected_ran E h
  exact ⟨svc, hsvc, rt, hrt, hran, hs, hr, svc.built_path hrt, (hran.stages E).2.2.2.1⟩

/-- **the selected path is the path of the route that runs** (both routers): on a table whose ids
    identify, the route `rt` the router returned is the only declaration with the ids of the
    outcome, its `Path` is the declared one, its method is the request's, and the path the serve
    model stores in the Request for filters and handler (`Request.SelectedRoutePath()`: looked up by
    these ids, `Serve.Chain.selPathOf`) is `rt.path` -/
theorem C01_selected_path (cfg : Config) (hids : Spec.idsDistinct cfg = true) (req : Req) (s r : Nat) (ps : Params)
    (h : route E cfg req = .selected s r ps) :
    ∃ svc ∈ cfg.services, ∃ rt ∈ svc.built, RouteRan E cfg req svc rt ∧ svc.id = s ∧ rt.id = r ∧
      Spec.routeOfIds cfg s r = some (svc, rt) ∧
      rt.path = concatPath svc.rootPath rt.relPath ∧ req.method = rt.method ∧
      Serve.Chain.selPathOf cfg s r = rt.path := by
  obtain ⟨svc, hsvc, rt, hrt, hran, hs, hr, _, hof, _⟩ := route_selected_unique E hids h
  refine ⟨svc, hsvc, rt, hrt, hran, hs, hr, hof, svc.built_path hrt, (hran.stages E).2.2.2.1, ?_⟩
  rw [← hs, ← hr]
  exact Serve.Chain.selPathOf_of_mem hids hsvc hrt

/-- **what every stage sees** (serve model, `Container.Dispatch` and `Container.ServeHTTP`): for a
    routed request the selected path recorded in every event of the log — container, service and
    route filters before and after, and the handler; the recover handler has no Request — is the
    path of the route the router returned, or none; none only inside a Request that a `replace`
    filter created (`restful.NewRequest`, which carries no selected route): with no such filter in the
    chain, every event carries the route's path; the outermost stage always does -/
theorem C01_selected_path_seen (cfg : Serve.Cfg) (hids : Spec.idsDistinct cfg.routing = true)
    (e : Serve.Entry) (he : e = .dispatch ∨ e = .serveDispatch) (w : Serve.World) (sr : Serve.SReq)
    (hcp : sr.condPanic = none) (s r : Nat) (ps : Params) (h : route E cfg.routing sr.req = .selected s r ps) :
    ∃ svc ∈ cfg.routing.services, ∃ rt ∈ svc.built, RouteRan E cfg.routing sr.req svc rt ∧ svc.id = s ∧ rt.id = r ∧
      (∀ ev ∈ (Serve.serve E cfg e w sr).log, ev.stage ≠ .recover → ev.selPath = rt.path ∨ ev.selPath = []) ∧
      ((∀ sf ∈ Serve.allFilters cfg s r, sf.2.kind ≠ .replace) →
        ∀ ev ∈ (Serve.serve E cfg e w sr).log, ev.stage ≠ .recover → ev.selPath = rt.path) ∧
      (∃ ev rest, (Serve.serve E cfg e w sr).log = ev :: rest ∧ ev.selPath = rt.path) := by
  obtain ⟨svc, hsvc, rt, hrt, hran, hs, hr, _, _, _, hsel⟩ := C01_selected_path E cfg.routing hids sr.req s r ps h
  have := Serve.Chain.serve_selPath E cfg e he w sr hcp h
  rw [hsel] at this
  exact ⟨svc, hsvc, rt, hrt, hran, hs, hr, this⟩

/-- non-vacuity: a table in the grammar on which a request is routed -/
example :
    let cfg : Config := { router := .curly, services := [{ id := 0, root := "/users".toList, routes :=
      [{ id := 7, method := "GET".toList, relPath := "/{id}/{file}.json:export".toList, consumes := [], produces := [],
         conds := [], noct := [] }] }] }
    cfg.wfTemplates = true ∧
      route ⟨fun _ _ => true, fun _ _ => true⟩ cfg { method := "GET".toList, path := "/users/42/report.json:export".toList } =
        .selected 0 7 [("id".toList, "42".toList), ("file".toList, "report".toList)] := by
  decide

/-! ### non-vacuity (audit): every hypothesis at once on a table with several candidates, both routers;
    the predicate is not trivially true -/
namespace C01Example

/-- an oracle that evaluates `[0-9]+` faithfully (search / whole segment), anything else as "matches" -/
def E1 : ReEnv :=
  ⟨fun e s => if e = "[0-9]+".toList then s.any Char.isDigit else true,
   fun e s => if e = "[0-9]+".toList then !s.isEmpty && s.all Char.isDigit else true⟩

def rd (id : Nat) (m p : String) (cons prod : List String) (conds : List Nat) : RouteDecl :=
  { id := id, method := m.toList, relPath := p.toList, consumes := cons.map String.toList,
    produces := prod.map String.toList, conds := conds, noct := [] }

/-- `/users`: GET `/{id:[0-9]+}`, GET `/me`, GET `/{name}` (If-condition 0), POST `/{id:[0-9]+}` consuming
    JSON; `/orgs/{org}`: GET `/things` -/
def services : List Service :=
  [ { id := 0, root := "/users".toList, routes :=
        [ rd 7 "GET" "/{id:[0-9]+}" [] ["application/json", "text/plain"] [],
          rd 8 "GET" "/me" [] ["application/json"] [],
          rd 9 "GET" "/{name}" [] ["text/plain"] [0],
          rd 10 "POST" "/{id:[0-9]+}" ["application/json"] ["application/json"] [] ] },
    { id := 1, root := "/orgs/{org}".toList, routes := [ rd 11 "GET" "/things" [] [] [] ] } ]

def cfgC : Config := { router := .curly, services := services }
def cfgJ : Config := { router := .jsr, services := services }

/-- GET /users/42, Accept with two ranges, If-condition 0 true: routes 7 and 9 both admit the path -/
def get42 : Req :=
  { method := "GET".toList, path := "/users/42".toList, accept := "text/html, text/plain;q=0.5".toList,
    conds := [true] }
/-- POST /users/42 with a JSON body -/
def post42 : Req :=
  { method := "POST".toList, path := "/users/42".toList, contentType := "application/json".toList,
    accept := "application/json".toList, clenHeader := "2".toList, contentLength := 2 }

/-- the hypotheses of `C01_curly` hold, two routes of the dispatched service admit the URL (7, 9),
    and a route function runs (the plain-variable route — same counts, greater path text; with its
    condition false, the regex route) -/
example :
    cfgC.router = .curly ∧ cfgC.wfTemplates = true ∧
    ((cfgC.services.flatMap Service.built).filter (fun rt => Spec.admitsRequest E1 .curly rt get42)).map (·.id) = [7, 9] ∧
    route E1 cfgC get42 = .selected 0 9 [("name".toList, "42".toList)] ∧
    route E1 cfgC { get42 with conds := [false] } = .selected 0 7 [("id".toList, "42".toList)] ∧
    route E1 cfgC post42 = .selected 0 10 [("id".toList, "42".toList)] := by
  decide

/-- `C01_curly` on that instance -/
example : Spec.c01Holds E1 cfgC get42 (route E1 cfgC get42) = true :=
  C01_curly E1 cfgC (by decide) (by decide) get42

/-- `C01_selected_is_declared`, `C01_holds_unique`, `C01_selected_path` on that instance, both routers
    (the hypotheses — ids identify, templates read, `route … = .selected …` — are met) -/
example : Spec.idsDistinct cfgC = true ∧ Spec.idsDistinct cfgJ = true := by decide
example := C01_selected_is_declared E1 cfgC get42 0 9 [("name".toList, "42".toList)] (by decide)
example := C01_selected_is_declared E1 cfgJ get42 0 9 [("name".toList, "42".toList)] (by decide)
example := C01_holds_unique E1 cfgC (by decide) (by decide) get42 0 9 [("name".toList, "42".toList)] (by decide)
example := C01_holds_unique E1 cfgJ (by decide) (by decide) post42 0 10 [("id".toList, "42".toList)] (by decide)
example := C01_selected_path E1 cfgC (by decide) get42 0 9 [("name".toList, "42".toList)] (by decide)
example := C01_selected_path E1 cfgJ (by decide) get42 0 9 [("name".toList, "42".toList)] (by decide)

/-- the declaration the ids (0, 9) stand for, and the path stored for filters and handler -/
example :
    (Spec.routeOfIds cfgC 0 9).map (fun p => (p.1.id, p.2.id, p.2.path)) = some (0, 9, "/users/{name}".toList) ∧
    Serve.Chain.selPathOf cfgC 0 9 = "/users/{name}".toList ∧ Spec.routeOfIds cfgC 0 99 = none ∧
    Spec.routeOfIds cfgC 1 9 = none := by
  decide

/-- `C01_predicate_at` / `C01_predicate_unique` on that instance: the predicate on the observation
    "route 8 ran" is the admission clause of route 8 (`/me`), which is false for `/users/42` -/
example : Spec.c01Holds E1 cfgC get42 (.selected 0 8 []) = false := by
  rw [C01_predicate_at E1 cfgC (by decide)]
  decide

/-- the serve model on that table: a container filter that passes on, a service filter that is an
    adapted middleware, a route filter (route 9: passes on; route 7: replaces the Request), the handler -/
def scfg : Serve.Cfg :=
  { routing := cfgC
    cfilters := [{ id := 1, pre := [], kind := .pass, post := [] }]
    svcs := [{ id := 0, filters := [{ id := 2, pre := [], kind := .middle, post := [] }] }]
    routes := [{ id := 9, filters := [{ id := 3, pre := [], kind := .pass, post := [] }], script := [.write "x".toList] },
               { id := 7, filters := [{ id := 4, pre := [], kind := .replace, post := [] }], script := [.write "y".toList] }] }

def sget42 : Serve.SReq := { req := get42 }
def sget42' : Serve.SReq := { req := { get42 with conds := [false] } }

/-- `C01_selected_path_seen` on that instance: through route 9 (no `replace` filter) every stage sees
    `/users/{name}`; through route 7 the stages outside the `replace` filter see `/users/{id:[0-9]+}`
    and the handler, inside the new Request, sees none -/
example := C01_selected_path_seen E1 scfg (by decide) .dispatch (.inl rfl) {} sget42 rfl 0 9
  [("name".toList, "42".toList)] (by decide)
example := C01_selected_path_seen E1 scfg (by decide) .serveDispatch (.inr rfl) {} sget42' rfl 0 7
  [("id".toList, "42".toList)] (by decide)
example :
    (Serve.serve E1 scfg .dispatch {} sget42).log.map (fun ev => (ev.stage, ev.post, ev.selPath)) =
      [ (.cfilter 1, false, "/users/{name}".toList), (.sfilter 2, false, "/users/{name}".toList),
        (.rfilter 3, false, "/users/{name}".toList), (.handler 9, false, "/users/{name}".toList),
        (.rfilter 3, true, "/users/{name}".toList), (.sfilter 2, true, "/users/{name}".toList),
        (.cfilter 1, true, "/users/{name}".toList) ] ∧
    (Serve.serve E1 scfg .dispatch {} sget42').log.map (fun ev => (ev.stage, ev.post, ev.selPath)) =
      [ (.cfilter 1, false, "/users/{id:[0-9]+}".toList), (.sfilter 2, false, "/users/{id:[0-9]+}".toList),
        (.rfilter 4, false, "/users/{id:[0-9]+}".toList), (.handler 7, false, []),
        (.rfilter 4, true, "/users/{id:[0-9]+}".toList), (.sfilter 2, true, "/users/{id:[0-9]+}".toList),
        (.cfilter 1, true, "/users/{id:[0-9]+}".toList) ] := by
  decide

/-- the hypotheses of `C01_jsr` hold on the same services, and a route function runs -/
example :
    cfgJ.router = .jsr ∧ cfgJ.wfTemplates = true ∧
    ((cfgJ.services.flatMap Service.built).filter (fun rt => Spec.admitsRequest E1 .jsr rt get42)).map (·.id) = [7, 9] ∧
    route E1 cfgJ get42 = .selected 0 9 [("name".toList, "42".toList)] ∧
    route E1 cfgJ post42 = .selected 0 10 [("id".toList, "42".toList)] := by
  decide

/-- `C01_jsr` on that instance -/
example : Spec.c01Holds E1 cfgJ get42 (route E1 cfgJ get42) = true :=
  C01_jsr E1 cfgJ (by decide) (by decide) get42

/-- the predicate is not trivially true.  It is falsified by an observation that runs: the POST route
    for a GET (method); the literal route `/me` for `/users/42` (literal segment); the regex route
    for `/users/bob` (regex variable); the conditional route when its If-condition is false; the POST route
    for an XML body (Content-Type not consumed); route 8 for an Accept it cannot satisfy; a route of
    the other service (path); a route that does not exist.  Under either router. -/
example :
    Spec.c01Holds E1 cfgC get42 (.selected 0 10 [("id".toList, "42".toList)]) = false ∧
    Spec.c01Holds E1 cfgC get42 (.selected 0 8 []) = false ∧
    Spec.c01Holds E1 cfgC { get42 with path := "/users/bob".toList } (.selected 0 7 [("id".toList, "bob".toList)]) = false ∧
    Spec.c01Holds E1 cfgC { get42 with conds := [false] } (.selected 0 9 [("name".toList, "42".toList)]) = false ∧
    Spec.c01Holds E1 cfgC { post42 with contentType := "application/xml".toList }
      (.selected 0 10 [("id".toList, "42".toList)]) = false ∧
    Spec.c01Holds E1 cfgC { get42 with path := "/users/me".toList, accept := "text/html".toList } (.selected 0 8 []) = false ∧
    Spec.c01Holds E1 cfgC get42 (.selected 1 11 [("org".toList, "42".toList)]) = false ∧
    Spec.c01Holds E1 cfgC get42 (.selected 0 99 []) = false ∧
    Spec.c01Holds E1 cfgJ get42 (.selected 0 10 [("id".toList, "42".toList)]) = false ∧
    Spec.c01Holds E1 cfgJ get42 (.selected 0 8 []) = false ∧
    Spec.c01Holds E1 cfgJ { get42 with path := "/users/bob".toList } (.selected 0 7 [("id".toList, "bob".toList)]) = false := by
  decide

/-! #### why `idsDistinct` is needed -/

/-- two routes of one WebService share id 7: `/me` and `/{id}` -/
def cfgDup : Config := { router := .curly, services :=
  [ { id := 0, root := "/users".toList, routes := [ rd 7 "GET" "/me" [] [] [], rd 7 "GET" "/{id}" [] [] [] ] } ] }

/-- two WebServices share id 0 (route ids are distinct within each: `routeIdsDistinct` holds) -/
def cfgDupSvc : Config := { router := .curly, services :=
  [ { id := 0, root := "/a".toList, routes := [ rd 1 "GET" "/x" [] [] [] ] },
    { id := 0, root := "/b".toList, routes := [ rd 1 "GET" "/y" [] [] [] ] } ] }

end C01Example

/-
Statement asked for (false of the model — and of the code, whose stages' view of the selected path
the C06/C01 streams compare with the model's):
  theorem C01_selected_path_seen_all : route E cfg.routing sr.req = .selected s r ps →
      ∀ ev ∈ (Serve.serve E cfg e w sr).log, ev.selPath = (the selected route).path
A filter that hands on a NEW Request (`restful.NewRequest`: kind `replace`) hands on one without a
selected route; the recover handler has no Request at all.  `C01_selected_path_seen` is the
statement with exactly these two exceptions; the witness for the first: -/

/-- GET /users/42 (If-condition false) runs route 7 behind a route filter that replaces the Request:
    the router selected `/users/{id:[0-9]+}`, the filters outside see that path, the handler sees none -/
theorem C01_selected_path_replace_witness :
    Spec.idsDistinct C01Example.scfg.routing = true ∧
    route C01Example.E1 C01Example.scfg.routing C01Example.sget42'.req = .selected 0 7 [("id".toList, "42".toList)] ∧
    Serve.Chain.selPathOf C01Example.scfg.routing 0 7 = "/users/{id:[0-9]+}".toList ∧
    ((Serve.serve C01Example.E1 C01Example.scfg .dispatch {} C01Example.sget42').log.filter
      (fun ev => ev.stage == .handler 7)).map (·.selPath) = [[]] ∧
    ((Serve.serve C01Example.E1 C01Example.scfg .dispatch {} C01Example.sget42').log.filter
      (fun ev => ev.stage == .rfilter 4)).map (·.selPath) = ["/users/{id:[0-9]+}".toList, "/users/{id:[0-9]+}".toList] := by
  decide

/-- without `idsDistinct` the predicate can be satisfied by a namesake: the table is well formed,
    the observation says "function 7 of service 0 ran" for `GET /users/42`, the first declaration
    with these ids (`/users/me`) does not admit the request, and the predicate holds all the same
    because the second declaration with id 7 does -/
theorem C01_ids_witness :
    C01Example.cfgDup.wfTemplates = true ∧ Spec.idsDistinct C01Example.cfgDup = false ∧
    Spec.c01Holds C01Example.E1 C01Example.cfgDup { method := "GET".toList, path := "/users/42".toList } (.selected 0 7 []) = true ∧
    (Spec.routeOfIds C01Example.cfgDup 0 7).map (fun p => (p.2.path,
      Spec.admitsRequest C01Example.E1 .curly p.2 { method := "GET".toList, path := "/users/42".toList })) =
        some ("/users/me".toList, false) := by
  decide

/-- `Spec.routeIdsDistinct` (route ids distinct within each WebService, the hypothesis of C18) is too
    weak for this purpose: two WebServices may share an id -/
theorem C01_service_ids_witness :
    C01Example.cfgDupSvc.wfTemplates = true ∧ Spec.routeIdsDistinct C01Example.cfgDupSvc = true ∧
    Spec.idsDistinct C01Example.cfgDupSvc = false ∧
    Spec.c01Holds C01Example.E1 C01Example.cfgDupSvc { method := "GET".toList, path := "/b/y".toList } (.selected 0 1 []) = true ∧
    (Spec.routeOfIds C01Example.cfgDupSvc 0 1).map (fun p => (p.2.path,
      Spec.admitsRequest C01Example.E1 .curly p.2 { method := "GET".toList, path := "/b/y".toList })) =
        some ("/a/x".toList, false) := by
  decide

/-! The frame condition (Lemmas/StateShape.lean): the code has exactly the state this property's model
    accounts for — no further package-level variable, struct type or field; constants as modelled. -/
-- also: Restful.route_selected_ran
-- also: Restful.route_of_ran
-- also: Restful.RouteRan_unique
-- also: Restful.route_selected_unique
-- also: Restful.Spec.anyIds_eq
-- also: Restful.Spec.routeOfIds_of_mem
-- also: Restful.Serve.Chain.selPathOf_of_mem
-- also: Restful.Serve.Chain.chainLog_selPath
-- also: Restful.Serve.Chain.chainLog_selPath_eq
-- also: Restful.Serve.Chain.serve_selPath
-- also: Restful.StateShape.globals_shape
-- also: Restful.StateShape.consts_shape
-- also: Restful.StateShape.routing_shape

/-! The regenerated tie (tools/gotrans → Gen/Translated.lean, Lemmas/Tie*.lean). -/
-- also: Restful.Tie.trim_space_cutset
-- also: Restful.Tie.selected_route_path

end Props
end Restful

-- the imperative functions this property's model rests on, tied to their statement-by-statement
-- translation (tools/goimp, Gen/Imp.lean, regenerated on every run):
-- also: Restful.TieImp.match_tokens
-- also: Restful.TieImp.T2.is_tail_wildcard
-- also: Restful.TieImp.T2.regular_matches
-- also: Restful.TieImp.T2.tokenize_path
-- also: Restful.TieImp.T2.concat_path
-- also: Restful.TieImp.T5.matches_accept
-- also: Restful.TieImp.T5.matches_content_type
-- also: Restful.TieImp.template_to_regex
-- also: Restful.TieImp.detect_route
-- also: Restful.TieImp.select_routes
-- also: Restful.TieImp.jsr_select_routes
-- also: Restful.TieImp.jsr_detect_dispatcher
-- also: Restful.TieImp.routeCurly_eq_sel
-- also: Restful.TieImp.curly_select_route
-- also: Restful.TieImp.jsr_select_route
-- also: Restful.TieImp.build_route
-- also: Restful.TieImp.copy_defaults
-- also: Restful.TieImp.build_route_no_function
