/-
C01 — a route function runs only for requests its declaration admits.

`route E cfg req` is the model of `RouteSelector.SelectRoute` + `ExtractParameters` (tied to
/repo by the correspondence stream `routing`).  `Spec.c01Holds` is the property as a predicate on
an outcome: if a route function ran, a declaration with its identity has the request's method,
admits the path position-wise (literals equal, regex variables satisfied, literal suffix present,
custom verb equal, same number of segments unless tail wildcard), consumes the Content-Type,
can satisfy Accept, and all its If-conditions hold.  The same predicate is evaluated by the
driver on every outcome observed from the real code.
-/
import Restful.Lemmas.RouteSelected
import Restful.Lemmas.CurlyMatch
import Restful.Lemmas.ReadTemplate
import Restful.Lemmas.JsrMatch
import Restful.Lemmas.StateShape
namespace Restful
namespace Props
variable (E : ReEnv)

/-- CurlyRouter: for every table whose templates are in the grammar and every request, whatever is
    selected is admitted by its declaration. -/
theorem C01_curly (cfg : Config) (hk : cfg.router = .curly) (hwf : cfg.wfTemplates = true) (req : Req) :
    Spec.c01Holds E cfg req (route E cfg req) = true := by
  unfold route routeTagged
  rw [hk]
  simp only
  cases ho : (routeCurly E cfg req).1 with
  | error c a => simp [Spec.c01Holds]
  | panic w => simp [Spec.c01Holds]
  | selected s r ps =>
    obtain ⟨svc, hsvc, rt, hrt, hs, hr, ⟨p, st, hmatch⟩, hc, hm, hct, hacc, _⟩ := routeCurly_selected E ho
    unfold Spec.c01Holds
    simp only [List.any_eq_true, Bool.and_eq_true, beq_iff_eq]
    refine ⟨svc, hsvc, hs, rt, hrt, hr, ?_⟩
    -- the template of the selected route reads as a structured template
    have hwf' : (Spec.templateOf cfg.router rt).isSome = true := by
      unfold Config.wfTemplates at hwf
      simp only [List.all_eq_true] at hwf
      exact hwf svc hsvc rt hrt
    rw [hk] at hwf'
    simp only [Spec.templateOf] at hwf'
    obtain ⟨ts, hts⟩ := Option.isSome_iff_exists.mp hwf'
    obtain ⟨hrender, htwf, hshape, hverb, _⟩ := readTemplate_facts hts
    obtain ⟨hparts, hhv⟩ := built_pathParts svc hrt
    have hadm : Spec.admits E .curly ts (tokenize req.path) = true := by
      have := Curly.matchTokens_spec E ts htwf hshape (tokenize req.path)
      rw [hrender, ← hparts, ← hverb, ← hhv, hmatch] at this
      by_cases ha : Spec.admits E .curly ts (tokenize req.path) = true
      · exact ha
      · rw [if_neg ha] at this
        cases this
    unfold Spec.admitsRequest
    simp only [Bool.and_eq_true, beq_iff_eq]
    refine ⟨⟨⟨⟨hm, ?_⟩, matchesContentType_sound rt _ hct⟩, matchesAccept_sound rt _ hacc⟩, hc⟩
    rw [hk]
    simp only [Spec.templateOf, hts, Spec.admittedSegments, hadm, if_true, Option.isSome_some]

/-- RouterJSR311, on the template forms it documents (literals, `{v}`, `{v:regex}`, tail wildcard):
    whatever is selected is admitted by its declaration. -/
theorem C01_jsr (cfg : Config) (hk : cfg.router = .jsr) (hwf : cfg.wfTemplates = true) (req : Req) :
    Spec.c01Holds E cfg req (route E cfg req) = true := by
  unfold route routeTagged
  rw [hk]
  simp only
  cases ho : (routeJsr E cfg req).1 with
  | error c a => simp [Spec.c01Holds]
  | panic w => simp [Spec.c01Holds]
  | selected s r ps =>
    obtain ⟨svc, hsvc, rt, hrt, hs, hr, ⟨wex, wc, final, rex, rc, f, hwex, hwm, hrex, hrm, hf, _⟩, hc, hm, hct, hacc⟩ :=
      routeJsr_selected E ho
    unfold Spec.c01Holds
    simp only [List.any_eq_true, Bool.and_eq_true, beq_iff_eq]
    refine ⟨svc, hsvc, hs, rt, hrt, hr, ?_⟩
    have hwf' : (Spec.templateOf cfg.router rt).isSome = true := by
      unfold Config.wfTemplates at hwf
      simp only [List.all_eq_true] at hwf
      exact hwf svc hsvc rt hrt
    rw [hk] at hwf'
    simp only [Spec.templateOf] at hwf'
    obtain ⟨ts, hts⟩ := Option.isSome_iff_exists.mp hwf'
    rw [Service.built_root svc hrt] at hts
    obtain ⟨segs, hseg, _⟩ := Jsr.match_sound E svc.rootPath rt.relPath req.path ts hts wex rex hwex hrex wc rc final f hwm hrm hf
    unfold Spec.admitsRequest
    simp only [Bool.and_eq_true, beq_iff_eq]
    refine ⟨⟨⟨⟨hm, ?_⟩, matchesContentType_sound rt _ hct⟩, matchesAccept_sound rt _ hacc⟩, hc⟩
    rw [hk]
    simp only [Spec.templateOf, Service.built_root svc hrt, hts, hseg, Option.isSome_some]

/-- The route that filters and the handler see as selected (its declared `Path`) is the one whose
    function runs: the model hands `dispatch` the very route object `detectRoute` returned, so the
    identity in the outcome and the selected path belong to one built route. -/
theorem C01_selected_is_declared (cfg : Config) (hk : cfg.router = .curly) (req : Req) (s r : Nat) (ps : Params)
    (h : route E cfg req = .selected s r ps) :
    ∃ svc ∈ cfg.services, ∃ rt ∈ svc.built, svc.id = s ∧ rt.id = r ∧ rt.path = concatPath svc.rootPath rt.relPath := by
  unfold route routeTagged at h
  rw [hk] at h
  obtain ⟨svc, hsvc, rt, hrt, hs, hr, _⟩ := routeCurly_selected E h
  refine ⟨svc, hsvc, rt, hrt, hs, hr, ?_⟩
  unfold Service.built at hrt
  simp only [List.mem_map] at hrt
  obtain ⟨rd, _, rfl⟩ := hrt
  rfl

/-- non-vacuity: a table in the grammar on which a request is routed -/
example :
    let cfg : Config := { router := .curly, services := [{ id := 0, root := "/users".toList, routes :=
      [{ id := 7, method := "GET".toList, relPath := "/{id}/{file}.json:export".toList, consumes := [], produces := [],
         conds := [], noct := [] }] }] }
    cfg.wfTemplates = true ∧
      route ⟨fun _ _ => true, fun _ _ => true⟩ cfg { method := "GET".toList, path := "/users/42/report.json:export".toList } =
        .selected 0 7 [("id".toList, "42".toList), ("file".toList, "report".toList)] := by
  decide

/-! The frame condition (Lemmas/StateShape.lean): the code has exactly the state this property's model
    accounts for — no further package-level variable, struct type or field; constants as modelled. -/
-- also: Restful.StateShape.globals_shape
-- also: Restful.StateShape.consts_shape
-- also: Restful.StateShape.routing_shape

end Props
end Restful
