/-
C01 — a route function runs only for requests its declaration admits.

`route E cfg req` is the model of `RouteSelector.SelectRoute` + `ExtractParameters` (tied to
/repo by the correspondence stream `routing`).  `Spec.c01Holds` is the property as a predicate on
an outcome: if a route function ran, a declaration with its identity has the request's method,
admits the path position-wise (literals equal, regex variables satisfied, literal suffix present,
custom verb equal, same number of segments unless tail wildcard), consumes the Content-Type,
can satisfy Accept, and all its If-conditions hold.  The same predicate is evaluated by the
driver on every outcome observed from the real code.
-/
import Restful.Lemmas.RouteSelected
import Restful.Lemmas.CurlyMatch
import Restful.Lemmas.ReadTemplate
import Restful.Lemmas.JsrMatch
import Restful.Lemmas.StateShape
namespace Restful
namespace Props
variable (E : ReEnv)

/-- CurlyRouter: for every table whose templates are in the grammar and every request, whatever is
    selected is admitted by its declaration. -/
theorem C01_curly (cfg : Config) (hk : cfg.router = .curly) (hwf : cfg.wfTemplates = true) (req : Req) :
    Spec.c01Holds E cfg req (route E cfg req) = true := by
  unfold route routeTagged
  rw [hk]
  simp only
  cases ho : (routeCurly E cfg req).1 with
  | error c a => simp [Spec.c01Holds]
  | panic w => simp [Spec.c01Holds]
  | selected s r ps =>
    obtain ⟨svc, hsvc, rt, hrt, hs, hr, ⟨p, st, hmatch⟩, hc, hm, hct, hacc, _⟩ := routeCurly_selected E ho
    unfold Spec.c01Holds
    simp only [List.any_eq_true, Bool.and_eq_true, beq_iff_eq]
    refine ⟨svc, hsvc, hs, rt, hrt, hr, ?_⟩
    -- the template of the selected route reads as a structured template
    have hwf' : (Spec.templateOf cfg.router rt).isSome = true := by
      unfold Config.wfTemplates at hwf
      simp only [List.all_eq_true] at hwf
      exact hwf svc hsvc rt hrt
    rw [hk] at hwf'
    simp only [Spec.templateOf] at hwf'
    obtain ⟨ts, hts⟩ := Option.isSome_iff_exists.mp hwf'
    obtain ⟨hrender, htwf, hshape, hverb, _⟩ := readTemplate_facts hts
    obtain ⟨hparts, hhv⟩ := built_pathParts svc hrt
    have hadm : Spec.admits E .curly ts (tokenize req.path) = true := by
      have := Curly.matchTokens_spec E ts htwf hshape (tokenize req.path)
      rw [hrender, ← hparts, ← hverb, ← hhv, hmatch] at this
      by_cases ha : Spec.admits E .curly ts (tokenize req.path) = true
      · exact ha
      · rw [if_neg ha] at this
        cases this
    unfold Spec.admitsRequest
    simp only [Bool.and_eq_true, beq_iff_eq]
    refine ⟨⟨⟨⟨hm, ?_⟩, matchesContentType_sound rt _ hct⟩, matchesAccept_sound rt _ hacc⟩, hc⟩
    rw [hk]
    simp only [Spec.templateOf, hts, Spec.admittedSegments, hadm, if_true, Option.isSome_some]

/-- RouterJSR311, on the template forms it documents (literals, `{v}`, `{v:regex}`, tail wildcard):
    whatever is selected is admitted by its declaration. -/
theorem C01_jsr (cfg : Config) (hk : cfg.router = .jsr) (hwf : cfg.wfTemplates = true) (req : Req) :
    Spec.c01Holds E cfg req (route E cfg req) = true := by
  unfold route routeTagged
  rw [hk]
  simp only
  cases ho : (routeJsr E cfg req).1 with
  | error c a => simp [Spec.c01Holds]
  | panic w => simp [Spec.c01Holds]
  | selected s r ps =>
    obtain ⟨svc, hsvc, rt, hrt, hs, hr, ⟨wex, wc, final, rex, rc, f, hwex, hwm, hrex, hrm, hf, _⟩, hc, hm, hct, hacc⟩ :=
      routeJsr_selected E ho
    unfold Spec.c01Holds
    simp only [List.any_eq_true, Bool.and_eq_true, beq_iff_eq]
    refine ⟨svc, hsvc, hs, rt, hrt, hr, ?_⟩
    have hwf' : (Spec.templateOf cfg.router rt).isSome = true := by
      unfold Config.wfTemplates at hwf
      simp only [List.all_eq_true] at hwf
      exact hwf svc hsvc rt hrt
    rw [hk] at hwf'
    simp only [Spec.templateOf] at hwf'
    obtain ⟨ts, hts⟩ := Option.isSome_iff_exists.mp hwf'
    rw [Service.built_root svc hrt] at hts
    obtain ⟨segs, hseg, _⟩ := Jsr.match_sound E svc.rootPath rt.relPath req.path ts hts wex rex hwex hrex wc rc final f hwm hrm hf
    unfold Spec.admitsRequest
    simp only [Bool.and_eq_true, beq_iff_eq]
    refine ⟨⟨⟨⟨hm, ?_⟩, matchesContentType_sound rt _ hct⟩, matchesAccept_sound rt _ hacc⟩, hc⟩
    rw [hk]
    simp only [Spec.templateOf, Service.built_root svc hrt, hts, hseg, Option.isSome_some]

/-- The route that filters and the handler see as selected (its declared `Path`) is the one whose
    function runs: the model hands `dispatch` the very route object `detectRoute` returned, so the
    identity in the outcome and the selected path belong to one built route. -/
theorem C01_selected_is_declared (cfg : Config) (hk : cfg.router = .curly) (req : Req) (s r : Nat) (ps : Params)
    (h : route E cfg req = .selected s r ps) :
    ∃ svc ∈ cfg.services, ∃ rt ∈ svc.built, svc.id = s ∧ rt.id = r ∧ rt.path = concatPath svc.rootPath rt.relPath := by
  unfold route routeTagged at h
  rw [hk] at h
  obtain ⟨svc, hsvc, rt, hrt, hs, hr, _⟩ := routeCurly_selected E h
  refine ⟨svc, hsvc, rt, hrt, hs, hr, ?_⟩
  unfold Service.built at hrt
  simp only [List.mem_map] at hrt
  obtain ⟨rd, _, rfl⟩ := hrt
  rfl

/-- non-vacuity: a table in the grammar on which a request is routed -/
example :
    let cfg : Config := { router := .curly, services := [{ id := 0, root := "/users".toList, routes :=
      [{ id := 7, method := "GET".toList, relPath := "/{id}/{file}.json:export".toList, consumes := [], produces := [],
         conds := [], noct := [] }] }] }
    cfg.wfTemplates = true ∧
      route ⟨fun _ _ => true, fun _ _ => true⟩ cfg { method := "GET".toList, path := "/users/42/report.json:export".toList } =
        .selected 0 7 [("id".toList, "42".toList), ("file".toList, "report".toList)] := by
  decide

/-! ### non-vacuity (audit): every hypothesis at once on a table with several candidates, both routers;
    the predicate is not trivially true -/
namespace C01Example

/-- an oracle that evaluates `[0-9]+` faithfully (search / whole segment), anything else as "matches" -/
def E1 : ReEnv :=
  ⟨fun e s => if e = "[0-9]+".toList then s.any Char.isDigit else true,
   fun e s => if e = "[0-9]+".toList then !s.isEmpty && s.all Char.isDigit else true⟩

def rd (id : Nat) (m p : String) (cons prod : List String) (conds : List Nat) : RouteDecl :=
  { id := id, method := m.toList, relPath := p.toList, consumes := cons.map String.toList,
    produces := prod.map String.toList, conds := conds, noct := [] }

/-- `/users`: GET `/{id:[0-9]+}`, GET `/me`, GET `/{name}` (If-condition 0), POST `/{id:[0-9]+}` consuming
    JSON; `/orgs/{org}`: GET `/things` -/
def services : List Service :=
  [ { id := 0, root := "/users".toList, routes :=
        [ rd 7 "GET" "/{id:[0-9]+}" [] ["application/json", "text/plain"] [],
          rd 8 "GET" "/me" [] ["application/json"] [],
          rd 9 "GET" "/{name}" [] ["text/plain"] [0],
          rd 10 "POST" "/{id:[0-9]+}" ["application/json"] ["application/json"] [] ] },
    { id := 1, root := "/orgs/{org}".toList, routes := [ rd 11 "GET" "/things" [] [] [] ] } ]

def cfgC : Config := { router := .curly, services := services }
def cfgJ : Config := { router := .jsr, services := services }

/-- GET /users/42, Accept with two ranges, If-condition 0 true: routes 7 and 9 both admit the path -/
def get42 : Req :=
  { method := "GET".toList, path := "/users/42".toList, accept := "text/html, text/plain;q=0.5".toList,
    conds := [true] }
/-- POST /users/42 with a JSON body -/
def post42 : Req :=
  { method := "POST".toList, path := "/users/42".toList, contentType := "application/json".toList,
    accept := "application/json".toList, clenHeader := "2".toList, contentLength := 2 }

/-- the hypotheses of `C01_curly` hold, two routes of the dispatched service admit the URL (7, 9),
    and a route function runs (the plain-variable route — same counts, greater path text; with its
    condition false, the regex route) -/
example :
    cfgC.router = .curly ∧ cfgC.wfTemplates = true ∧
    ((cfgC.services.flatMap Service.built).filter (fun rt => Spec.admitsRequest E1 .curly rt get42)).map (·.id) = [7, 9] ∧
    route E1 cfgC get42 = .selected 0 9 [("name".toList, "42".toList)] ∧
    route E1 cfgC { get42 with conds := [false] } = .selected 0 7 [("id".toList, "42".toList)] ∧
    route E1 cfgC post42 = .selected 0 10 [("id".toList, "42".toList)] := by
  decide

/-- `C01_curly` on that instance -/
example : Spec.c01Holds E1 cfgC get42 (route E1 cfgC get42) = true :=
  C01_curly E1 cfgC (by decide) (by decide) get42

/-- `C01_selected_is_declared` on that instance (its hypothesis `route … = .selected …` is met) -/
example : ∃ svc ∈ cfgC.services, ∃ rt ∈ svc.built, svc.id = 0 ∧ rt.id = 9 ∧
    rt.path = concatPath svc.rootPath rt.relPath :=
  C01_selected_is_declared E1 cfgC (by decide) get42 0 9 [("name".toList, "42".toList)] (by decide)

/-- the hypotheses of `C01_jsr` hold on the same services, and a route function runs -/
example :
    cfgJ.router = .jsr ∧ cfgJ.wfTemplates = true ∧
    ((cfgJ.services.flatMap Service.built).filter (fun rt => Spec.admitsRequest E1 .jsr rt get42)).map (·.id) = [7, 9] ∧
    route E1 cfgJ get42 = .selected 0 9 [("name".toList, "42".toList)] ∧
    route E1 cfgJ post42 = .selected 0 10 [("id".toList, "42".toList)] := by
  decide

/-- `C01_jsr` on that instance -/
example : Spec.c01Holds E1 cfgJ get42 (route E1 cfgJ get42) = true :=
  C01_jsr E1 cfgJ (by decide) (by decide) get42

/-- the predicate is not trivially true.  It is falsified by an observation that runs: the POST route
    for a GET (method); the literal route `/me` for `/users/42` (literal segment); the regex route
    for `/users/bob` (regex variable); the conditional route when its If-condition is false; the POST route
    for an XML body (Content-Type not consumed); route 8 for an Accept it cannot satisfy; a route of
    the other service (path); a route that does not exist.  Under either router. -/
example :
    Spec.c01Holds E1 cfgC get42 (.selected 0 10 [("id".toList, "42".toList)]) = false ∧
    Spec.c01Holds E1 cfgC get42 (.selected 0 8 []) = false ∧
    Spec.c01Holds E1 cfgC { get42 with path := "/users/bob".toList } (.selected 0 7 [("id".toList, "bob".toList)]) = false ∧
    Spec.c01Holds E1 cfgC { get42 with conds := [false] } (.selected 0 9 [("name".toList, "42".toList)]) = false ∧
    Spec.c01Holds E1 cfgC { post42 with contentType := "application/xml".toList }
      (.selected 0 10 [("id".toList, "42".toList)]) = false ∧
    Spec.c01Holds E1 cfgC { get42 with path := "/users/me".toList, accept := "text/html".toList } (.selected 0 8 []) = false ∧
    Spec.c01Holds E1 cfgC get42 (.selected 1 11 [("org".toList, "42".toList)]) = false ∧
    Spec.c01Holds E1 cfgC get42 (.selected 0 99 []) = false ∧
    Spec.c01Holds E1 cfgJ get42 (.selected 0 10 [("id".toList, "42".toList)]) = false ∧
    Spec.c01Holds E1 cfgJ get42 (.selected 0 8 []) = false ∧
    Spec.c01Holds E1 cfgJ { get42 with path := "/users/bob".toList } (.selected 0 7 [("id".toList, "bob".toList)]) = false := by
  decide

end C01Example

/-! The frame condition (Lemmas/StateShape.lean): the code has exactly the state this property's model
    accounts for — no further package-level variable, struct type or field; constants as modelled. -/
-- also: Restful.StateShape.globals_shape
-- also: Restful.StateShape.consts_shape
-- also: Restful.StateShape.routing_shape

end Props
end Restful
