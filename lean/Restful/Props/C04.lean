/-
C04 — path parameters are bound to exactly the URL text they stand for.

`Spec.c04Holds` on an outcome: exactly the declared variable names are bound; every variable is
bound to the URL segment at its position (minus literal suffix and custom verb), a tail wildcard
to the remaining segments joined by `/`; substituting the values back into the template gives the
URL's segments again.  Proved for the model's outcome on every table in the grammar and every
request, for both routers; evaluated by the driver on every real outcome.
-/
import Restful.Lemmas.RouteSelected
import Restful.Lemmas.CurlyMatch
import Restful.Lemmas.CurlyParams
import Restful.Lemmas.ReadTemplate
import Restful.Lemmas.JsrMatch
import Restful.Lemmas.JsrSlash
import Restful.Spec.Params
import Restful.Lemmas.StateShape
import Restful.Lemmas.RouteUnique
import Restful.Lemmas.TieImpParams
import Restful.Lemmas.TieImpUntok
import Restful.Lemmas.TieImpPath
import Restful.Lemmas.TieImpJsrParams
namespace Restful
namespace Props
variable (E : ReEnv)

/-- once the bound parameters are the expected ones, the three clauses of `c04Holds` follow -/
theorem c04_clauses (k : RouterKind) (ts : List TTok) (hwf : ∀ t ∈ ts, t.wf = true) (hshape : shapeOK ts = true)
    (hnd : (varNames ts).Nodup) (segs : List Str) (hslash : ∀ q ∈ segs, '/' ∉ q)
    (hadm : Spec.admits E k ts segs = true) :
    (decide (((Spec.expectedParams ts segs).map (·.1)).Perm (varNames ts)) &&
      (Spec.expectedParams ts segs).all (fun kv => Spec.lookup (Spec.expectedParams ts segs) kv.1 == some kv.2) &&
      (Spec.substitute (Spec.expectedParams ts segs) ts == some segs)) = true := by
  simp only [Bool.and_eq_true, decide_eq_true_eq, List.all_eq_true, beq_iff_eq]
  refine ⟨⟨?_, ?_⟩, ?_⟩
  · rw [Spec.expectedParams_names E k ts hshape segs hadm]
  · intro kv hkv
    exact Spec.lookup_expectedParams E k ts hshape hnd segs hadm kv hkv
  · exact Spec.substitute_expected E k ts hwf hshape hnd segs hslash hadm

theorem C04_curly (cfg : Config) (hk : cfg.router = .curly) (hwf : cfg.wfTemplates = true) (req : Req) :
    Spec.c04Holds E cfg req (route E cfg req) = true := by
  unfold route routeTagged
  rw [hk]
  simp only
  cases ho : (routeCurly E cfg req).1 with
  | error c a => simp [Spec.c04Holds]
  | panic w => simp [Spec.c04Holds]
  | selected s r ps =>
    obtain ⟨svc, hsvc, rt, hrt, hs, hr, ⟨p, st, hmatch⟩, _, _, _, _, hext⟩ := routeCurly_selected E ho
    unfold Spec.c04Holds
    simp only [List.any_eq_true, Bool.and_eq_true, beq_iff_eq]
    refine ⟨svc, hsvc, hs, rt, hrt, hr, ?_⟩
    have hwf' : (Spec.templateOf cfg.router rt).isSome = true := by
      unfold Config.wfTemplates at hwf
      simp only [List.all_eq_true] at hwf
      exact hwf svc hsvc rt hrt
    rw [hk] at hwf' ⊢
    simp only [Spec.templateOf] at hwf' ⊢
    obtain ⟨ts, hts⟩ := Option.isSome_iff_exists.mp hwf'
    obtain ⟨hrender, htwf, hshape, hverb, hnd⟩ := readTemplate_facts hts
    obtain ⟨hparts, hhv⟩ := built_pathParts svc hrt
    have hadm : Spec.admits E .curly ts (tokenize req.path) = true := by
      have := Curly.matchTokens_spec E ts htwf hshape (tokenize req.path)
      rw [hrender, ← hparts, ← hverb, ← hhv, hmatch] at this
      by_cases ha : Spec.admits E .curly ts (tokenize req.path) = true
      · exact ha
      · rw [if_neg ha] at this
        cases this
    have hps : ps = Spec.expectedParams ts (tokenize req.path) := by
      have := Params.extractWalk_spec E ts htwf hshape hnd (tokenize req.path) hadm
      unfold Params.extract at hext
      rw [hparts, hhv, ← hrender, hverb, this] at hext
      exact (Option.some.inj hext).symm
    simp only [hts, Spec.admittedSegments, hadm, if_true]
    rw [hps]
    have := c04_clauses E .curly ts htwf hshape hnd (tokenize req.path) (Jsr.not_mem_of_mem_tokenize req.path) hadm
    simpa only [Bool.and_eq_true, decide_eq_true_eq, List.all_eq_true, beq_iff_eq] using this

/-- segments that `admittedSegments` returns never contain a slash, and are admitted -/
theorem admittedSegments_facts (k : RouterKind) (ts : List TTok) (p : Str) (segs : List Str)
    (h : Spec.admittedSegments E k ts p = some segs) :
    Spec.admits E k ts segs = true ∧ ∀ q ∈ segs, '/' ∉ q := by
  unfold Spec.admittedSegments at h
  cases k with
  | curly =>
    simp only at h
    split at h
    · rename_i ha
      simp only [Option.some.injEq] at h
      subst h
      exact ⟨ha, Jsr.not_mem_of_mem_tokenize p⟩
    · simp at h
  | jsr =>
    simp only at h
    split at h
    · simp at h
    · rename_i raw hraw
      have hrawslash : ∀ q ∈ raw, '/' ∉ q := by
        unfold Spec.rawSegments at hraw
        split at hraw
        · simp only [Option.some.injEq] at hraw; subst hraw; simp
        · simp only [Option.some.injEq] at hraw; subst hraw
          exact Jsr.not_mem_of_mem_splitOn '/' _
        · simp at hraw
      split at h
      · rename_i ha
        simp only [Option.some.injEq] at h
        subst h
        exact ⟨ha, hrawslash⟩
      · split at h
        · rename_i hb
          simp only [Option.some.injEq] at h
          subst h
          simp only [Bool.and_eq_true] at hb
          exact ⟨hb.2, fun q hq => hrawslash q ((List.dropLast_sublist raw).subset hq)⟩
        · simp at h

theorem C04_jsr (cfg : Config) (hk : cfg.router = .jsr) (hwf : cfg.wfTemplates = true) (req : Req) :
    Spec.c04Holds E cfg req (route E cfg req) = true := by
  unfold route routeTagged
  rw [hk]
  simp only
  cases ho : (routeJsr E cfg req).1 with
  | error c a => simp [Spec.c04Holds]
  | panic w => simp [Spec.c04Holds]
  | selected s r ps =>
    obtain ⟨svc, hsvc, rt, hrt, hs, hr, ⟨wex, wc, final, rex, rc, f, hwex, hwm, hrex, hrm, hf, hps⟩, _⟩ :=
      routeJsr_selected E ho
    unfold Spec.c04Holds
    simp only [List.any_eq_true, Bool.and_eq_true, beq_iff_eq]
    refine ⟨svc, hsvc, hs, rt, hrt, hr, ?_⟩
    have hwf' : (Spec.templateOf cfg.router rt).isSome = true := by
      unfold Config.wfTemplates at hwf
      simp only [List.all_eq_true] at hwf
      exact hwf svc hsvc rt hrt
    rw [hk] at hwf' ⊢
    simp only [Spec.templateOf] at hwf' ⊢
    obtain ⟨ts, hts⟩ := Option.isSome_iff_exists.mp hwf'
    rw [Service.built_root svc hrt] at hts ⊢
    obtain ⟨segs, hseg, hbind⟩ := Jsr.match_sound E svc.rootPath rt.relPath req.path ts hts wex rex hwex hrex wc rc final f hwm hrm hf
    obtain ⟨a, b, ha, hb, hab, hshape, _, hnd⟩ := Jsr.readTemplateJ_spec hts
    have htwf : ∀ t ∈ ts, t.wf = true := by
      intro t ht
      rw [hab] at ht
      rcases List.mem_append.mp ht with h' | h'
      · exact (readToks_render ha).2 t h'
      · exact (readToks_render hb).2 t h'
    rw [← hab] at hshape hnd
    obtain ⟨hadm, hslash⟩ := admittedSegments_facts E .jsr ts req.path segs hseg
    simp only [hts, hseg]
    rw [hps, hbind]
    have := c04_clauses E .jsr ts htwf hshape hnd segs hslash hadm
    simpa only [Bool.and_eq_true, decide_eq_true_eq, List.all_eq_true, beq_iff_eq] using this

/-! ### the witness of the predicate is the route that ran

`Spec.c04Holds` names the route by its two ids.  On a table whose ids identify (`Spec.idsDistinct`,
reported by the driver inside `WF`) exactly one declaration carries them: the predicate is its
clause evaluated at THAT declaration's template, and for the model's outcome that declaration is
the route object the router returned (`RouteRan`), whose parameters the path processor extracted
(`paramsOf`).  Without the hypothesis a namesake with another template can satisfy it
(`C04_ids_witness`). -/

/-- both routers in one statement -/
theorem C04_holds (cfg : Config) (hwf : cfg.wfTemplates = true) (req : Req) :
    Spec.c04Holds E cfg req (route E cfg req) = true := by
  cases hk : cfg.router with
  | curly => exact C04_curly E cfg hk hwf req
  | jsr => exact C04_jsr E cfg hk hwf req

/-- the predicate, evaluated on an observation `.selected s r ps`, is its clause (`Spec.c04At`: names,
    values, substitution — against the template of one declaration) evaluated at THE declaration
    the ids stand for; false when there is none -/
theorem C04_predicate_at (cfg : Config) (hids : Spec.idsDistinct cfg = true) (req : Req) (s r : Nat) (ps : Params) :
    Spec.c04Holds E cfg req (.selected s r ps) =
      (match Spec.routeOfIds cfg s r with
       | some (svc, rt) => Spec.c04At E cfg req ps svc rt
       | none => false) := by
  rw [Spec.c04Holds_selected, Spec.anyIds_eq hids]
  cases Spec.routeOfIds cfg s r with
  | none => rfl
  | some p => rfl

/-- … in particular no OTHER declaration can satisfy the predicate in the place of the one whose
    function was observed to run -/
theorem C04_predicate_unique (cfg : Config) (hids : Spec.idsDistinct cfg = true) (req : Req)
    (svc : Service) (hsvc : svc ∈ cfg.services) (rt : Route) (hrt : rt ∈ svc.built) (ps : Params) :
    Spec.c04Holds E cfg req (.selected svc.id rt.id ps) = Spec.c04At E cfg req ps svc rt := by
  rw [Spec.c04Holds_selected, Spec.anyIds_of_mem hids _ hsvc hrt]

/-- **C04 with a unique witness** (both routers): when the model selects `(s, r)` with parameters
    `ps`, exactly one declaration has these ids, it is the object the router returned, `ps` is what
    the path processor extracts for it, and against ITS template the parameters are exactly the
    declared names, each bound to the text at its position, and substitution gives the admitted
    segments of the URL back -/
theorem C04_holds_unique (cfg : Config) (hwf : cfg.wfTemplates = true) (hids : Spec.idsDistinct cfg = true)
    (req : Req) (s r : Nat) (ps : Params) (h : route E cfg req = .selected s r ps) :
    ∃ svc ∈ cfg.services, ∃ rt ∈ svc.built, RouteRan E cfg req svc rt ∧ svc.id = s ∧ rt.id = r ∧
      (∀ svc' ∈ cfg.services, svc'.id = s → svc' = svc) ∧
      (∀ svc' ∈ cfg.services, ∀ rt' ∈ svc'.built, svc'.id = s → rt'.id = r → rt' = rt) ∧
      paramsOf E cfg req svc rt = some ps ∧
      ∃ ts segs, Spec.templateOf cfg.router rt = some ts ∧ Spec.admittedSegments E cfg.router ts req.path = some segs ∧
        (ps.map (·.1)).Perm (varNames ts) ∧
        (∀ kv ∈ Spec.expectedParams ts segs, Spec.lookup ps kv.1 = some kv.2) ∧
        Spec.substitute ps ts = some segs := by
  obtain ⟨svc, hsvc, rt, hrt, hran, hs, hr, hps, hof, hu1, hu2⟩ := route_selected_unique E hids h
  refine ⟨svc, hsvc, rt, hrt, hran, hs, hr, hu1, hu2, hps, ?_⟩
  have hp := C04_holds E cfg hwf req
  rw [h, C04_predicate_at E cfg hids, hof] at hp
  simp only [Spec.c04At] at hp
  split at hp
  · rename_i ts hts
    split at hp
    · rename_i segs hsegs
      simp only [Bool.and_eq_true, decide_eq_true_eq, List.all_eq_true, beq_iff_eq] at hp
      exact ⟨ts, segs, hts, hsegs, hp.1.1, hp.1.2, hp.2⟩
    · cases hp
  · cases hp

/-- non-vacuity: regex variable, literal, tail wildcard under RouterJSR311 -/
example :
    let cfg : Config := { router := .jsr, services := [{ id := 0, root := "/users".toList, routes :=
      [{ id := 3, method := "GET".toList, relPath := "/{id:[0-9]+}/x/{rest:*}".toList, consumes := [], produces := [],
         conds := [], noct := [] }] }] }
    cfg.wfTemplates = true ∧
      route ⟨fun _ _ => true, fun _ s => !s.isEmpty⟩ cfg { method := "GET".toList, path := "/users/42/x/a/b".toList } =
        .selected 0 3 [("id".toList, "42".toList), ("rest".toList, "a/b".toList)] := by
  decide

/-! ### non-vacuity (audit): every hypothesis at once, several candidate routes, both routers; the
    predicate is not trivially true -/
namespace C04Example

/-- an oracle that evaluates `[0-9]+` faithfully (search / whole segment) -/
def E1 : ReEnv :=
  ⟨fun e s => if e = "[0-9]+".toList then s.any Char.isDigit else true,
   fun e s => if e = "[0-9]+".toList then !s.isEmpty && s.all Char.isDigit else true⟩

def rd (id : Nat) (m p : String) : RouteDecl :=
  { id := id, method := m.toList, relPath := p.toList, consumes := [], produces := [], conds := [], noct := [] }

/-- root `/orgs/{org}` (a root variable) with a regex variable + `{v}suffix` + custom verb, two plain
    variables, a tail wildcard -/
def cfgC : Config := { router := .curly, services :=
  [ { id := 0, root := "/orgs/{org}".toList, routes :=
        [ rd 1 "GET" "/users/{id:[0-9]+}/{file}.json:export",
          rd 2 "GET" "/users/{id}/{name}",
          rd 3 "GET" "/static/{rest:*}" ] } ] }
/-- the same on the forms RouterJSR311 documents -/
def cfgJ : Config := { router := .jsr, services :=
  [ { id := 0, root := "/orgs/{org}".toList, routes :=
        [ rd 1 "GET" "/users/{id:[0-9]+}/x",
          rd 2 "GET" "/users/{id}/{name}",
          rd 3 "GET" "/static/{rest:*}" ] } ] }

def get (p : String) : Req := { method := "GET".toList, path := p.toList }
def reqC : Req := get "/orgs/acme/users/42/report.json:export"
def reqJ : Req := get "/orgs/acme/users/42/x"

/-- the hypotheses of `C04_curly` hold; TWO routes admit the first URL (1 and 2) and route 1 runs with
    root variable, regex variable and suffix variable bound; a trailing slash and a tail wildcard -/
example :
    cfgC.router = .curly ∧ cfgC.wfTemplates = true ∧
    ((cfgC.services.flatMap Service.built).filter (fun rt => Spec.admitsRequest E1 .curly rt reqC)).map (·.id) = [1, 2] ∧
    route E1 cfgC reqC = .selected 0 1
      [("org".toList, "acme".toList), ("id".toList, "42".toList), ("file".toList, "report".toList)] ∧
    route E1 cfgC (get "/orgs/acme/users/42/bob/") = .selected 0 2
      [("org".toList, "acme".toList), ("id".toList, "42".toList), ("name".toList, "bob".toList)] ∧
    route E1 cfgC (get "/orgs/acme/static/css/site.css") = .selected 0 3
      [("org".toList, "acme".toList), ("rest".toList, "css/site.css".toList)] := by
  decide
example : Spec.c04Holds E1 cfgC reqC (route E1 cfgC reqC) = true := C04_curly E1 cfgC (by decide) (by decide) reqC

/-- the hypotheses of `C04_jsr` hold; two routes admit the first URL and the literal one runs -/
example :
    cfgJ.router = .jsr ∧ cfgJ.wfTemplates = true ∧
    ((cfgJ.services.flatMap Service.built).filter (fun rt => Spec.admitsRequest E1 .jsr rt reqJ)).map (·.id) = [1, 2] ∧
    route E1 cfgJ reqJ = .selected 0 1 [("org".toList, "acme".toList), ("id".toList, "42".toList)] ∧
    route E1 cfgJ (get "/orgs/acme/users/42/bob/") = .selected 0 2
      [("org".toList, "acme".toList), ("id".toList, "42".toList), ("name".toList, "bob".toList)] ∧
    route E1 cfgJ (get "/orgs/acme/static/css/site.css") = .selected 0 3
      [("org".toList, "acme".toList), ("rest".toList, "css/site.css".toList)] := by
  decide
example : Spec.c04Holds E1 cfgJ reqJ (route E1 cfgJ reqJ) = true := C04_jsr E1 cfgJ (by decide) (by decide) reqJ

/-- `C04_holds_unique`, `C04_predicate_at` on these instances (ids identify, templates read, a route
    function runs); the observation "route 2 ran with the parameters of route 1" is judged against
    the template of route 2 and fails -/
example : Spec.idsDistinct cfgC = true ∧ Spec.idsDistinct cfgJ = true := by decide
example := C04_holds_unique E1 cfgC (by decide) (by decide) reqC 0 1
  [("org".toList, "acme".toList), ("id".toList, "42".toList), ("file".toList, "report".toList)] (by decide)
example := C04_holds_unique E1 cfgJ (by decide) (by decide) reqJ 0 1
  [("org".toList, "acme".toList), ("id".toList, "42".toList)] (by decide)
example : Spec.c04Holds E1 cfgC reqC (.selected 0 2
    [("org".toList, "acme".toList), ("id".toList, "42".toList), ("file".toList, "report".toList)]) = false := by
  rw [C04_predicate_at E1 cfgC (by decide)]
  decide

/-- `Spec.c04Holds` is not trivially true: with the right route it is falsified by a wrong value,
    a value that kept its suffix, a value that kept the verb, a missing name, an extra name, two
    values swapped, a tail wildcard bound to its first segment only; the order of the bindings does
    not matter (they come out of a map) -/
example :
    Spec.c04Holds E1 cfgC reqC (.selected 0 1
      [("file".toList, "report".toList), ("org".toList, "acme".toList), ("id".toList, "42".toList)]) = true ∧
    Spec.c04Holds E1 cfgC reqC (.selected 0 1
      [("org".toList, "acme".toList), ("id".toList, "43".toList), ("file".toList, "report".toList)]) = false ∧
    Spec.c04Holds E1 cfgC reqC (.selected 0 1
      [("org".toList, "acme".toList), ("id".toList, "42".toList), ("file".toList, "report.json".toList)]) = false ∧
    Spec.c04Holds E1 cfgC reqC (.selected 0 1
      [("org".toList, "acme".toList), ("id".toList, "42".toList), ("file".toList, "report.json:export".toList)]) = false ∧
    Spec.c04Holds E1 cfgC reqC (.selected 0 1 [("id".toList, "42".toList), ("file".toList, "report".toList)]) = false ∧
    Spec.c04Holds E1 cfgC reqC (.selected 0 1
      [("org".toList, "acme".toList), ("id".toList, "42".toList), ("file".toList, "report".toList), ("x".toList, [])]) = false ∧
    Spec.c04Holds E1 cfgC reqC (.selected 0 1
      [("org".toList, "42".toList), ("id".toList, "acme".toList), ("file".toList, "report".toList)]) = false ∧
    Spec.c04Holds E1 cfgC (get "/orgs/acme/static/css/site.css") (.selected 0 3
      [("org".toList, "acme".toList), ("rest".toList, "css".toList)]) = false ∧
    Spec.c04Holds E1 cfgJ reqJ (.selected 0 1 [("org".toList, "acme".toList), ("id".toList, "4".toList)]) = false ∧
    Spec.c04Holds E1 cfgJ reqJ (.selected 0 1 [("org".toList, "acme".toList)]) = false ∧
    Spec.c04Holds E1 cfgJ (get "/orgs/acme/static/css/site.css") (.selected 0 3
      [("org".toList, "acme".toList), ("rest".toList, "css".toList)]) = false := by
  decide

/-- the full template of route 1 of `cfgC` and the segments of `reqC` -/
def ts1 : List TTok :=
  [ ⟨.lit "orgs".toList, none⟩, ⟨.var "org".toList, none⟩, ⟨.lit "users".toList, none⟩,
    ⟨.re "id".toList "[0-9]+".toList, none⟩, ⟨.suf "file".toList ".json".toList, some "export".toList⟩ ]

example : readTemplate "/orgs/{org}/users/{id:[0-9]+}/{file}.json:export".toList = some ts1 := by decide

/-- `c04_clauses` and `admittedSegments_facts` on that template and URL (every hypothesis by `decide`) -/
example := c04_clauses E1 .curly ts1 (by decide) (by decide) (by decide) (tokenize reqC.path) (by decide) (by decide)
example := admittedSegments_facts E1 .curly ts1 reqC.path (tokenize reqC.path) (by decide)
/-- … and `admittedSegments_facts` on RouterJSR311's reading with a tolerated trailing slash -/
example := admittedSegments_facts E1 .jsr
  [⟨.lit "orgs".toList, none⟩, ⟨.var "org".toList, none⟩] "/orgs/acme/".toList ["orgs".toList, "acme".toList] (by decide)

/-- two routes of one WebService share id 1: `/{a}` and `/{b}` -/
def cfgDup : Config := { router := .curly, services :=
  [ { id := 0, root := "/w".toList, routes := [ rd 1 "GET" "/{a}", rd 1 "GET" "/{b}" ] } ] }

end C04Example

/-- without `idsDistinct` the predicate can be satisfied by a namesake: the first declaration with
    ids (0, 1) is `/w/{a}` and it is its function that runs for `GET /w/x` (parameter `a`); the
    observation "function 1 of service 0 ran with `b = x`" — parameters that route cannot produce —
    satisfies the predicate all the same, through the second declaration with id 1 -/
theorem C04_ids_witness :
    C04Example.cfgDup.wfTemplates = true ∧ Spec.idsDistinct C04Example.cfgDup = false ∧
    (Spec.routeOfIds C04Example.cfgDup 0 1).map (·.2.path) = some "/w/{a}".toList ∧
    Spec.c04Holds C04Example.E1 C04Example.cfgDup (C04Example.get "/w/x") (.selected 0 1 [("b".toList, "x".toList)]) = true ∧
    (Spec.routeOfIds C04Example.cfgDup 0 1).map (fun p =>
      Spec.c04At C04Example.E1 C04Example.cfgDup (C04Example.get "/w/x") [("b".toList, "x".toList)] p.1 p.2) = some false := by
  decide

/-! The frame condition (Lemmas/StateShape.lean): the code has exactly the state this property's model
    accounts for — no further package-level variable, struct type or field; constants as modelled. -/
-- also: Restful.route_selected_ran
-- also: Restful.route_selected_unique
-- also: Restful.Spec.anyIds_eq
-- also: Restful.StateShape.globals_shape
-- also: Restful.StateShape.consts_shape
-- also: Restful.StateShape.routing_shape

end Props
end Restful

-- the imperative functions this property's model rests on, tied to their statement-by-statement
-- translation (tools/goimp, Gen/Imp.lean, regenerated on every run):
-- also: Restful.TieImp.T4.extract_parameters
-- also: Restful.TieImp.T2.untokenize_path
-- also: Restful.TieImp.T2.tokenize_path
-- also: Restful.TieImp.jsr_extract_parameters
