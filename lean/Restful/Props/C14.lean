/-
C14 — by default a trailing slash on the request path changes nothing.

CurlyRouter: both `SelectRoute` and `ExtractParameters` see the path only through
`tokenizePath`, which ignores one trailing slash.  RouterJSR311: the extra `/` is absorbed by the
final group `(/.*)?`, which the route stage accepts iff it is empty or `/` — provided no regex
variable of the table matches the empty segment (finding F19 otherwise) and no tail wildcard is
involved (outside the property for this router).
-/
import Restful.Lemmas.Tokenize
import Restful.Lemmas.JsrSlash
import Restful.Spec.Slash
import Restful.Lemmas.StateShape
namespace Restful
namespace Props
variable (E : ReEnv)

/-- CurlyRouter, all templates: p and p/ have the same outcome in every respect -/
theorem C14_curly (cfg : Config) (hk : cfg.router = .curly) (req : Req) (p : Str)
    (hp : ∃ c ∈ p, c ≠ '/') (hreq : req.path = p) :
    route E cfg { req with path := p ++ ['/'] } = route E cfg req := by
  unfold route routeTagged
  rw [hk]
  simp only
  unfold routeCurly Params.extract
  simp only [hreq, tokenize_trailing_slash p hp]
  rfl

/-
Full statement for RouterJSR311 (false on the current code, see `C14_F19_witness`):
  theorem C14_jsr (noTailWildcard cfg) (hp : p.getLast? ≠ some '/') :
      route E cfg { req with path := p ++ ['/'] } = route E cfg req
-/

/-- RouterJSR311, templates without a tail wildcard whose regex variables do not match the empty
    segment: p and p/ have the same outcome -/
theorem C14_jsr_partial (cfg : Config) (hk : cfg.router = .jsr) (hs : Jsr.slashSafe E cfg) (req : Req) (p : Str)
    (hp : p = [] ∨ p.getLast? ≠ some '/') (hreq : req.path = p) :
    route E cfg { req with path := p ++ ['/'] } = route E cfg req :=
  Jsr.route_trailing_slash_route E cfg hk hs req p hp hreq

/-- the decidable hypothesis the driver evaluates implies the one the theorem uses -/
theorem slashSafe_of_B (cfg : Config) (h : Spec.jsrSlashSafeB E cfg = true) : Jsr.slashSafe E cfg := by
  unfold Spec.jsrSlashSafeB at h
  simp only [List.all_eq_true, Bool.and_eq_true] at h
  have key : ∀ tmpl, Spec.exprSlashSafeB E tmpl = true → ∀ ex, Jsr.compile tmpl = some ex → ∀ t ∈ ex.toks, Jsr.tokSlashSafe E t := by
    intro tmpl ht ex hex t htm
    unfold Spec.exprSlashSafeB at ht
    rw [hex] at ht
    simp only [List.all_eq_true] at ht
    have := ht t htm
    cases t with
    | lit s => simpa [Spec.jtokSlashSafeB, Jsr.tokSlashSafe] using this
    | var n => trivial
    | re n e => simpa [Spec.jtokSlashSafeB, Jsr.tokSlashSafe] using this
    | wild n => simp [Spec.jtokSlashSafeB] at this
  intro svc hsvc
  exact ⟨key _ (h svc hsvc).1, fun rt hrt => key _ ((h svc hsvc).2 rt hrt)⟩

/-- `C14_jsr_partial` with the hypothesis in the form the check evaluates on every generated table -/
theorem C14_jsr_partial_B (cfg : Config) (hk : cfg.router = .jsr) (hs : Spec.jsrSlashSafeB E cfg = true) (req : Req) (p : Str)
    (hp : p = [] ∨ p.getLast? ≠ some '/') (hreq : req.path = p) :
    route E cfg { req with path := p ++ ['/'] } = route E cfg req :=
  C14_jsr_partial E cfg hk (slashSafe_of_B E cfg hs) req p hp hreq

/-- F19: under RouterJSR311 a regex variable that matches the empty string makes `/a` a 404 and
    `/a/` a hit with `v = ""` -/
theorem C14_F19_witness :
    let cfg : Config := { router := .jsr, services := [{ id := 0, root := "/a".toList, routes :=
      [{ id := 1, method := "GET".toList, relPath := "/{v:[a-z]*}".toList, consumes := [], produces := [], conds := [], noct := [] }] }] }
    let E : ReEnv := ⟨fun _ _ => true, fun _ s => s.isEmpty⟩
    route E cfg { method := "GET".toList, path := "/a".toList } = .error 404 none ∧
    route E cfg { method := "GET".toList, path := "/a/".toList } = .selected 0 1 [("v".toList, [])] := by
  decide

/-- non-vacuity of `C14_jsr_partial`'s hypothesis -/
example : Jsr.slashSafe ⟨fun _ _ => true, fun _ s => !s.isEmpty⟩
    { router := .jsr, services := [{ id := 0, root := "/a".toList, routes :=
      [{ id := 1, method := "GET".toList, relPath := "/{v:[a-z]+}/b".toList, consumes := [], produces := [], conds := [], noct := [] }] }] } := by
  intro svc hsvc
  simp only [List.mem_singleton] at hsvc
  subst hsvc
  constructor
  · intro ex hex t ht
    have : ex = { toks := [.lit "a".toList], literalCount := 1, varNames := [], varCount := 0 } := by
      have h : Jsr.compile "/a".toList = some { toks := [.lit "a".toList], literalCount := 1, varNames := [], varCount := 0 } := by decide
      exact (Option.some.inj (hex.symm.trans h)).symm ▸ rfl
    subst this
    simp only [List.mem_singleton] at ht
    subst ht
    simp [Jsr.tokSlashSafe]
  · intro rt hrt ex hex t ht
    simp only [Service.built, List.map_cons, List.map_nil, List.mem_singleton] at hrt
    subst hrt
    have h : Jsr.compile "/{v:[a-z]+}/b".toList =
        some { toks := [.re "v".toList "[a-z]+".toList, .lit "b".toList], literalCount := 1, varNames := ["v".toList], varCount := 1 } := by decide
    have : ex = _ := (Option.some.inj (hex.symm.trans h))
    subst this
    simp only [List.mem_cons, List.mem_singleton, List.not_mem_nil, or_false] at ht
    rcases ht with rfl | rfl <;> simp [Jsr.tokSlashSafe]

/-! The frame condition (Lemmas/StateShape.lean): the code has exactly the state this property's model
    accounts for — no further package-level variable, struct type or field; constants as modelled. -/
-- also: Restful.StateShape.globals_shape
-- also: Restful.StateShape.consts_shape
-- also: Restful.StateShape.routing_shape

end Props
end Restful
