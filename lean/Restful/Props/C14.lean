/-
C14 — by default a trailing slash on the request path changes nothing.

"With the default path strategy, a request for a path p that does not end in `/` and a request for
p followed by `/` have the same outcome in every respect the framework decides: same status, same
selected route, same path parameter values, same Allow header."

(1) What `route` decides (status, selected route, path parameters, the Allow set of a 405).
CurlyRouter: both `SelectRoute` and `ExtractParameters` see the path only through
`tokenizePath`, which ignores one trailing slash (`C14_curly`, all templates).  RouterJSR311: the
extra `/` is absorbed by the final group `(/.*)?`, which the route stage accepts iff it is empty or
`/` — provided no regex variable of the table matches the empty segment (finding F19 otherwise) and
no tail wildcard is involved (outside the property for this router): `C14_jsr_partial(_B)`.

(2) The COMPUTED Allow header.  `Container.computeAllowedMethods` (container.go:426) produces the
Allow / Access-Control-Allow-Methods values of `Container.OPTIONSFilter` and the method list of a
CORS preflight when no methods are configured.  It never consults the router: it walks ALL services
with the compiled (RouterJSR311-style) expressions — root expression against the URL, its final
group against every route's own expression, the route's method is listed when the route's final
group is empty or `/`.  What is proved:
  * `C14_options_allow_partial(_B)`   `computeAllowedMethods (p/) = computeAllowedMethods p` for every
                                      table (either router) that is `Jsr.slashSafe`: no compiled root
                                      or route template contains a tail wildcard or a regex variable
                                      that matches the empty segment — the SAME hypothesis as
                                      `C14_jsr_partial`, needed of root and route templates because
                                      the function matches with both
  * `C14_options_filter_partial(_B)`  hence the whole answer of the OPTIONS filter (headers added,
                                      passes on or not) is the same for p and p/
  * `C14_cors_partial`                and so is the whole answer of the CORS filter (preflight
                                      included)
  * `C14_options_F19_witness`,        neither half of the hypothesis can be dropped, for root or for
    `C14_options_wildcard_witness`    route templates: with `/a` + `/{v:[a-z]*}` (or `/{t:*}`) the
                                      computed list is empty for `/a` and `GET` for `/a/`; the same
                                      with the variable in the root and p = "" or p = `/a`
Full statement (FALSE on the current code by those witnesses):
  theorem C14_options_allow (hp : p = [] ∨ p.getLast? ≠ some '/') :
      Cors.computeAllowedMethods E tbl.services (p ++ ['/']) = Cors.computeAllowedMethods E tbl.services p
NOTE: since `computeAllowedMethods` ignores the router, the tail-wildcard witness also holds of a
CurlyRouter container, where (1) holds on all templates: there `GET /a` and `GET /a/` are both 404
but the OPTIONS filter lists nothing for `/a` and `GET` for `/a/`.
-/
import Restful.Lemmas.Tokenize
import Restful.Lemmas.JsrSlash
import Restful.Lemmas.AllowSlash
import Restful.Spec.Slash
import Restful.Lemmas.StateShape
import Restful.Lemmas.TieImpPath
import Restful.Lemmas.TieImpMatch
import Restful.Lemmas.TieImpAllowed
import Restful.Lemmas.TieImpJsrSel
namespace Restful
namespace Props
variable (E : ReEnv)

/-- CurlyRouter, all templates: p and p/ have the same outcome in every respect -/
theorem C14_curly (cfg : Config) (hk : cfg.router = .curly) (req : Req) (p : Str)
    (hp : ∃ c ∈ p, c ≠ '/') (hreq : req.path = p) :
    route E cfg { req with path := p ++ ['/'] } = route E cfg req := by
  unfold route routeTagged
  rw [hk]
  simp only
  unfold routeCurly Params.extract
  simp only [hreq, tokenize_trailing_slash p hp]
  rfl

/-
Full statement for RouterJSR311 (false on the current code, see `C14_F19_witness`):
  theorem C14_jsr (noTailWildcard cfg) (hp : p.getLast? ≠ some '/') :
      route E cfg { req with path := p ++ ['/'] } = route E cfg req
-/

/-- RouterJSR311, templates without a tail wildcard whose regex variables do not match the empty
    segment: p and p/ have the same outcome -/
theorem C14_jsr_partial (cfg : Config) (hk : cfg.router = .jsr) (hs : Jsr.slashSafe E cfg) (req : Req) (p : Str)
    (hp : p = [] ∨ p.getLast? ≠ some '/') (hreq : req.path = p) :
    route E cfg { req with path := p ++ ['/'] } = route E cfg req :=
  Jsr.route_trailing_slash_route E cfg hk hs req p hp hreq

/-- the decidable hypothesis the driver evaluates implies the one the theorem uses -/
theorem slashSafe_of_B (cfg : Config) (h : Spec.jsrSlashSafeB E cfg = true) : Jsr.slashSafe E cfg := by
  unfold Spec.jsrSlashSafeB at h
  simp only [List.all_eq_true, Bool.and_eq_true] at h
  have key : ∀ tmpl, Spec.exprSlashSafeB E tmpl = true → ∀ ex, Jsr.compile tmpl = some ex → ∀ t ∈ ex.toks, Jsr.tokSlashSafe E t := by
    intro tmpl ht ex hex t htm
    unfold Spec.exprSlashSafeB at ht
    rw [hex] at ht
    simp only [List.all_eq_true] at ht
    have := ht t htm
    cases t with
    | lit s => simpa [Spec.jtokSlashSafeB, Jsr.tokSlashSafe] using this
    | var n => trivial
    | re n e => simpa [Spec.jtokSlashSafeB, Jsr.tokSlashSafe] using this
    | wild n => simp [Spec.jtokSlashSafeB] at this
  intro svc hsvc
  exact ⟨key _ (h svc hsvc).1, fun rt hrt => key _ ((h svc hsvc).2 rt hrt)⟩

/-- `C14_jsr_partial` with the hypothesis in the form the check evaluates on every generated table -/
theorem C14_jsr_partial_B (cfg : Config) (hk : cfg.router = .jsr) (hs : Spec.jsrSlashSafeB E cfg = true) (req : Req) (p : Str)
    (hp : p = [] ∨ p.getLast? ≠ some '/') (hreq : req.path = p) :
    route E cfg { req with path := p ++ ['/'] } = route E cfg req :=
  C14_jsr_partial E cfg hk (slashSafe_of_B E cfg hs) req p hp hreq

/-- F19: under RouterJSR311 a regex variable that matches the empty string makes `/a` a 404 and
    `/a/` a hit with `v = ""` -/
theorem C14_F19_witness :
    let cfg : Config := { router := .jsr, services := [{ id := 0, root := "/a".toList, routes :=
      [{ id := 1, method := "GET".toList, relPath := "/{v:[a-z]*}".toList, consumes := [], produces := [], conds := [], noct := [] }] }] }
    let E : ReEnv := ⟨fun _ _ => true, fun _ s => s.isEmpty⟩
    route E cfg { method := "GET".toList, path := "/a".toList } = .error 404 none ∧
    route E cfg { method := "GET".toList, path := "/a/".toList } = .selected 0 1 [("v".toList, [])] := by
  decide

/-- non-vacuity of `C14_jsr_partial`'s hypothesis -/
example : Jsr.slashSafe ⟨fun _ _ => true, fun _ s => !s.isEmpty⟩
    { router := .jsr, services := [{ id := 0, root := "/a".toList, routes :=
      [{ id := 1, method := "GET".toList, relPath := "/{v:[a-z]+}/b".toList, consumes := [], produces := [], conds := [], noct := [] }] }] } := by
  intro svc hsvc
  simp only [List.mem_singleton] at hsvc
  subst hsvc
  constructor
  · intro ex hex t ht
    have : ex = { toks := [.lit "a".toList], literalCount := 1, varNames := [], varCount := 0 } := by
      have h : Jsr.compile "/a".toList = some { toks := [.lit "a".toList], literalCount := 1, varNames := [], varCount := 0 } := by decide
      exact (Option.some.inj (hex.symm.trans h)).symm ▸ rfl
    subst this
    simp only [List.mem_singleton] at ht
    subst ht
    simp [Jsr.tokSlashSafe]
  · intro rt hrt ex hex t ht
    simp only [Service.built, List.map_cons, List.map_nil, List.mem_singleton] at hrt
    subst hrt
    have h : Jsr.compile "/{v:[a-z]+}/b".toList =
        some { toks := [.re "v".toList "[a-z]+".toList, .lit "b".toList], literalCount := 1, varNames := ["v".toList], varCount := 1 } := by decide
    have : ex = _ := (Option.some.inj (hex.symm.trans h))
    subst this
    simp only [List.mem_cons, List.mem_singleton, List.not_mem_nil, or_false] at ht
    rcases ht with rfl | rfl <;> simp [Jsr.tokSlashSafe]

/-! ### the computed Allow header (`Container.computeAllowedMethods`) -/

/-
Full statement (false on the current code, see `C14_options_F19_witness`, `C14_options_wildcard_witness`):
  theorem C14_options_allow (hp : p = [] ∨ p.getLast? ≠ some '/') :
      Cors.computeAllowedMethods E tbl.services (p ++ ['/']) = Cors.computeAllowedMethods E tbl.services p
-/

/-- **C14, computed Allow header**: on every table — whatever its router, which
    `computeAllowedMethods` never consults — whose compiled root and route templates contain no tail
    wildcard and no regex variable that matches the empty segment, the method list computed for
    `p/` is the one computed for `p` (same methods, same order, same multiplicities; `none` = a
    template that does not compile, on both sides) -/
theorem C14_options_allow_partial (tbl : Config) (hs : Jsr.slashSafe E tbl) (p : Str)
    (hp : p = [] ∨ p.getLast? ≠ some '/') :
    Cors.computeAllowedMethods E tbl.services (p ++ ['/']) = Cors.computeAllowedMethods E tbl.services p :=
  Cors.computeAllowedMethods_trailing_slash E tbl hs p hp

/-- `C14_options_allow_partial` with the hypothesis in the form the check evaluates on every generated table -/
theorem C14_options_allow_partial_B (tbl : Config) (hs : Spec.jsrSlashSafeB E tbl = true) (p : Str)
    (hp : p = [] ∨ p.getLast? ≠ some '/') :
    Cors.computeAllowedMethods E tbl.services (p ++ ['/']) = Cors.computeAllowedMethods E tbl.services p :=
  C14_options_allow_partial E tbl (slashSafe_of_B E tbl hs) p hp

/-- **C14, OPTIONS filter**: under the same hypothesis the whole answer of `Container.OPTIONSFilter`
    (Allow, Access-Control-Allow-Origin, Access-Control-Allow-Headers, Access-Control-Allow-Methods,
    passes on or not) is the same for `p/` and `p`, for every method and every other header -/
theorem C14_options_filter_partial (tbl : Config) (hs : Jsr.slashSafe E tbl) (rq : Options.OptReq) (p : Str)
    (hp : p = [] ∨ p.getLast? ≠ some '/') (hreq : rq.path = p) :
    Options.optionsOut E tbl { rq with path := p ++ ['/'] } = Options.optionsOut E tbl { rq with path := p } := by
  subst hreq
  exact Options.optionsOut_trailing_slash E tbl hs rq rq.path hp rfl

theorem C14_options_filter_partial_B (tbl : Config) (hs : Spec.jsrSlashSafeB E tbl = true) (rq : Options.OptReq) (p : Str)
    (hp : p = [] ∨ p.getLast? ≠ some '/') (hreq : rq.path = p) :
    Options.optionsOut E tbl { rq with path := p ++ ['/'] } = Options.optionsOut E tbl { rq with path := p } :=
  C14_options_filter_partial E tbl (slashSafe_of_B E tbl hs) rq p hp hreq

/-- **C14, CORS filter**: the other consumer of `computeAllowedMethods` (preflight when no methods
    are configured): the whole answer of the filter is the same for `p/` and `p` -/
theorem C14_cors_partial (lower : Str → Str) (cc : Cors.CorsCfg) (tbl : Config) (hs : Jsr.slashSafe E tbl)
    (rq : Cors.CorsReq) (p : Str) (hp : p = [] ∨ p.getLast? ≠ some '/') (hreq : rq.path = p) :
    Cors.corsOut lower E cc tbl { rq with path := p ++ ['/'] } = Cors.corsOut lower E cc tbl { rq with path := p } := by
  subst hreq
  exact Cors.corsOut_trailing_slash lower E cc tbl hs rq rq.path hp rfl

/-- the regex half of the hypothesis cannot be dropped (F19 seen through the computed Allow header):
    a regex variable that matches the empty string — in a route template (`/a` + `/{v:[a-z]*}`:
    nothing listed for `/a`, GET for `/a/`) or in a root template (`/a/{v:[a-z]*}` + `/`, same
    paths; `/{v:[a-z]*}` + `/` for p = "") -/
theorem C14_options_F19_witness :
    let E : ReEnv := ⟨fun _ _ => true, fun _ s => s.isEmpty⟩
    let get (rel : String) : RouteDecl :=
      { id := 1, method := "GET".toList, relPath := rel.toList, consumes := [], produces := [], conds := [], noct := [] }
    (Cors.computeAllowedMethods E [{ id := 0, root := "/a".toList, routes := [get "/{v:[a-z]*}"] }] "/a".toList = some [] ∧
     Cors.computeAllowedMethods E [{ id := 0, root := "/a".toList, routes := [get "/{v:[a-z]*}"] }] "/a/".toList = some ["GET".toList]) ∧
    (Cors.computeAllowedMethods E [{ id := 0, root := "/a/{v:[a-z]*}".toList, routes := [get "/"] }] "/a".toList = some [] ∧
     Cors.computeAllowedMethods E [{ id := 0, root := "/a/{v:[a-z]*}".toList, routes := [get "/"] }] "/a/".toList = some ["GET".toList]) ∧
    (Cors.computeAllowedMethods E [{ id := 0, root := "/{v:[a-z]*}".toList, routes := [get "/"] }] [] = some [] ∧
     Cors.computeAllowedMethods E [{ id := 0, root := "/{v:[a-z]*}".toList, routes := [get "/"] }] "/".toList = some ["GET".toList]) := by
  decide

/-- the wildcard half of the hypothesis cannot be dropped either, and — `computeAllowedMethods`
    ignoring the router — not for a CurlyRouter container either: with `/a` + `/{t:*}` nothing is
    listed for `/a` and GET for `/a/` (under CurlyRouter both `GET /a` and `GET /a/` are 404:
    `C14_curly` holds, the computed Allow header differs); likewise with the wildcard in the root -/
theorem C14_options_wildcard_witness :
    let E : ReEnv := ⟨fun _ _ => true, fun _ _ => false⟩
    let get (rel : String) : RouteDecl :=
      { id := 1, method := "GET".toList, relPath := rel.toList, consumes := [], produces := [], conds := [], noct := [] }
    let cfg : Config := { router := .curly, services := [{ id := 0, root := "/a".toList, routes := [get "/{t:*}"] }] }
    (Cors.computeAllowedMethods E cfg.services "/a".toList = some [] ∧
     Cors.computeAllowedMethods E cfg.services "/a/".toList = some ["GET".toList] ∧
     route E cfg { method := "GET".toList, path := "/a".toList } = .error 404 none ∧
     route E cfg { method := "GET".toList, path := "/a/".toList } = .error 404 none) ∧
    (Cors.computeAllowedMethods E [{ id := 0, root := "/a/{t:*}".toList, routes := [get "/"] }] "/a".toList = some [] ∧
     Cors.computeAllowedMethods E [{ id := 0, root := "/a/{t:*}".toList, routes := [get "/"] }] "/a/".toList = some ["GET".toList]) := by
  decide

/-- non-vacuity of `C14_options_allow_partial` / `C14_options_filter_partial`: a literal root with
    two static routes one segment below it meets the hypothesis (in both forms), and the computed
    list is GET, POST for `/shop/candies` and for `/shop/candies/` -/
example :
    let E : ReEnv := ⟨fun _ _ => true, fun _ s => !s.isEmpty⟩
    let tbl : Config := { router := .curly, services := [{ id := 0, root := "/shop".toList, routes :=
      [{ id := 1, method := "GET".toList, relPath := "/candies".toList, consumes := [], produces := [], conds := [], noct := [] },
       { id := 2, method := "POST".toList, relPath := "/candies".toList, consumes := [], produces := [], conds := [], noct := [] }] }] }
    Spec.jsrSlashSafeB E tbl = true ∧ Jsr.slashSafe E tbl ∧
    ("/shop/candies".toList = [] ∨ "/shop/candies".toList.getLast? ≠ some '/') ∧
    Cors.computeAllowedMethods E tbl.services "/shop/candies".toList = some ["GET".toList, "POST".toList] ∧
    Cors.computeAllowedMethods E tbl.services ("/shop/candies".toList ++ ['/']) = some ["GET".toList, "POST".toList] ∧
    Options.optionsOut E tbl { method := "OPTIONS".toList, path := "/shop/candies".toList ++ ['/'] } =
      Options.optionsOut E tbl { method := "OPTIONS".toList, path := "/shop/candies".toList } := by
  intro E tbl
  have hB : Spec.jsrSlashSafeB E tbl = true := by decide
  refine ⟨hB, slashSafe_of_B E tbl hB, by decide, by decide, by decide, by decide⟩

/-! ### non-vacuity (audit): every theorem instantiated with all its hypotheses on a table with a
    variable root, a regex variable and several candidate routes, on requests that ARE routed (the
    two sides of each equation are not both "404"), and the equations are not trivially true -/
namespace C14Example

/-- `[0-9]+` evaluated faithfully: it does not match the empty segment -/
def E1 : ReEnv :=
  ⟨fun e s => if e = "[0-9]+".toList then s.any Char.isDigit else true,
   fun e s => if e = "[0-9]+".toList then !s.isEmpty && s.all Char.isDigit else !s.isEmpty⟩
def rd (id : Nat) (m p : String) : RouteDecl :=
  { id := id, method := m.toList, relPath := p.toList, consumes := [], produces := [], conds := [], noct := [] }
def services : List Service :=
  [ { id := 0, root := "/users".toList, routes := [rd 1 "GET" "/{id:[0-9]+}", rd 2 "GET" "/me", rd 3 "PUT" "/{id:[0-9]+}"] },
    { id := 1, root := "/orgs/{org}".toList, routes := [rd 4 "GET" "/things", rd 5 "DELETE" ""] } ]
def cfgC : Config := { router := .curly, services := services }
def cfgJ : Config := { router := .jsr, services := services }
def p42 : Str := "/users/42".toList
def get (p : Str) : Req := { method := "GET".toList, path := p }

/-- hypotheses of `C14_curly` / `C14_jsr_partial_B`; what the routers answer for p (p/ by the theorems) -/
example :
    (∃ c ∈ p42, c ≠ '/') ∧ (p42 = [] ∨ p42.getLast? ≠ some '/') ∧ Spec.jsrSlashSafeB E1 cfgJ = true ∧
    route E1 cfgC (get p42) = .selected 0 1 [("id".toList, "42".toList)] ∧
    route E1 cfgJ (get p42) = .selected 0 1 [("id".toList, "42".toList)] ∧
    route E1 cfgJ { get p42 with method := "DELETE".toList } = .error 405 (some ["GET".toList, "PUT".toList]) ∧
    route E1 cfgJ (get "/orgs/acme/things".toList) = .selected 1 4 [("org".toList, "acme".toList)] := by
  decide

example : route E1 cfgC { get p42 with path := p42 ++ ['/'] } = route E1 cfgC (get p42) :=
  C14_curly E1 cfgC rfl (get p42) p42 (by decide) rfl
example : route E1 cfgJ { get p42 with path := p42 ++ ['/'] } = route E1 cfgJ (get p42) :=
  C14_jsr_partial_B E1 cfgJ rfl (by decide) (get p42) p42 (by decide) rfl
/-- `slashSafe_of_B` gives the hypothesis `hs` of the theorems that are stated with `Jsr.slashSafe` -/
theorem safeJ : Jsr.slashSafe E1 cfgJ := slashSafe_of_B E1 cfgJ (by decide)
theorem safeC : Jsr.slashSafe E1 cfgC := slashSafe_of_B E1 cfgC (by decide)
example := C14_jsr_partial E1 cfgJ rfl safeJ { get p42 with method := "DELETE".toList } p42 (by decide) rfl

/-- the equation of `C14_jsr_partial` is not trivially true: a request path and the same path with
    ANOTHER character appended are routed differently on this table -/
example : route E1 cfgJ { get p42 with path := p42 ++ ['x'] } ≠ route E1 cfgJ (get p42) := by decide

/-- the computed Allow header: GET, PUT at `/users/42` (two routes of three), for p and p/ -/
example : Cors.computeAllowedMethods E1 cfgC.services p42 = some ["GET".toList, "PUT".toList] := by decide
example := C14_options_allow_partial E1 cfgC safeC p42 (by decide)
example := C14_options_allow_partial_B E1 cfgJ (by decide) p42 (by decide)
example := C14_options_filter_partial E1 cfgC safeC { method := "OPTIONS".toList, path := p42, origin := "http://o".toList } p42
  (by decide) rfl
example := C14_options_filter_partial_B E1 cfgJ (by decide) { method := "OPTIONS".toList, path := p42 } p42 (by decide) rfl
example : Options.optionsOut E1 cfgC { method := "OPTIONS".toList, path := p42 } =
    some ⟨[("Allow".toList, "GET,PUT".toList), (Cors.hAllowOrigin, []), (Cors.hAllowHeaders, []),
           (Cors.hAllowMethods, "GET,PUT".toList)], false⟩ := by decide
/-- `C14_cors_partial` on a preflight with computed methods, which is granted -/
def pre : Cors.CorsReq := { method := "OPTIONS".toList, path := p42, origin := "http://o".toList, acrm := "PUT".toList }
example := C14_cors_partial E1 Str.toLowerAscii {} cfgC safeC pre p42 (by decide) rfl
example : (Cors.corsOut Str.toLowerAscii E1 {} cfgC pre).map (·.added.take 1) =
    some [(Cors.hAllowMethods, "GET,PUT".toList)] := by decide

end C14Example

/-! The frame condition (Lemmas/StateShape.lean): the code has exactly the state this property's model
    accounts for — no further package-level variable, struct type or field; constants as modelled. -/
-- also: Restful.StateShape.globals_shape
-- also: Restful.StateShape.consts_shape
-- also: Restful.StateShape.routing_shape

end Props
end Restful

-- the imperative functions this property's model rests on, tied to their statement-by-statement
-- translation (tools/goimp, Gen/Imp.lean, regenerated on every run):
-- also: Restful.TieImp.T2.tokenize_path
-- also: Restful.TieImp.match_tokens
-- also: Restful.TieImp.compute_allowed_methods
-- also: Restful.TieImp.jsr_select_routes
-- also: Restful.TieImp.jsr_detect_dispatcher
