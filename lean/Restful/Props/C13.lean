/-
C13 — pooled compressors are never shared, lost twice, or a reason to block.

Two layers.  (1) The protocol, for every capacity, any number of threads and every interleaving
(Lemmas/Pool.lean): with an atomic non-blocking acquire (`select { case o = <-ch: default: new }`)
and an atomic non-blocking release (`select { case ch <- o: default: }`) no object is ever held
twice or cached while held, and every step is enabled in every reachable state.  (2) That the code
HAS this shape is read off the sources on every run: the obligations below are about the facts
`tools/gofacts` regenerates from /repo.  Release-exactly-once by the framework is `C10_balanced`
(every acquired compressor is released once on every path) plus the facts about `Close` and
`ReadEntity` below.

The remaining clauses of the statement.  "never uses it afterwards" and "closing a response writer
twice is an error, not a second release" are theorems about the serve model, for every
configuration, entry point and request: `C13_no_use_after_release`, `C13_second_close_is_error`
(`C13_second_close_serveHTTP`: the one path on which a writer IS closed twice; `C13_close_twice`:
the operation).  What of this the harness observes: the ledger provider counts every release and
flags the release of an object that is not outstanding (`Obs.rel`, `Obs.dbl`), so a second release
falsifies `Spec.c13Holds` as it stands (`acq == rel && dbl == 0`); it also points every released
object at a throw-away sink, so bytes written through a compressor after its release are lost and
the decoded body is short (`Obs.complete`/`Obs.body`, judged by C07/C10).  The two counters
themselves are not observable through the public API — `Close`'s error is dropped by the deferred
closures of container.go, a `Write` after `Close` is refused inside `CompressingResponseWriter`
before it touches anything — so `Spec.c13Holds` is left as it is.
"Concurrent encoded responses each decode to their own payload" is `Pool.C13_own_payload` on the
protocol model with objects as buffers (Lemmas/Pool.lean), a consequence of `C13_exclusive`.
-/
import Restful.Model.Conc
import Restful.Gen.Facts
import Restful.Lemmas.Pool
import Restful.Lemmas.Panic
import Restful.Lemmas.StateShape
namespace Restful
namespace Props
open Gen Conc

/-- the framework's half on the serve model: for every configuration, entry point and request —
    encoding switched on at the container or at the route only, panics at any position, recovery on
    or off — the compressor acquired for the request has been released once when the entry point
    is left (`Spec.c13Holds` is what the check evaluates on the ledger of every real request) -/
theorem C13_served_released_once (E : ReEnv) (cfg : Serve.Cfg) (e : Serve.Entry) (sr : Serve.SReq) :
    Spec.c13Holds (Spec.obsOf (Serve.serve E cfg e {} sr)) = true := by
  have h := Serve.Panic.serve_balanced E cfg e {} sr rfl
  simp [Spec.c13Holds, Spec.obsOf, h]

/-- **never used after release.**  For every configuration, entry point and request — codings
    enabled anywhere, filters that stop, replace or wrap the response, panics at any position,
    recovery on or off, custom recover handler —: no `Write` of the request reaches the compressing
    writer after the `Close` that released its compressor (compress.go:41 is never taken: the
    counter `Rec.writeAfterClose` of the model is 0 when the entry point is left).  In the model the
    compressor is used by `Write` and `Close` only; the second `Close` is the next theorem. -/
theorem C13_no_use_after_release (E : ReEnv) (cfg : Serve.Cfg) (e : Serve.Entry) (sr : Serve.SReq) :
    (Serve.serve E cfg e {} sr).rc.writeAfterClose = 0 :=
  (Serve.Panic.serve_after E cfg e {} sr).2.1

/-- **closing twice is an error, not a second release.**  For every configuration, entry point and
    request: a `Close` found the writer already closed (`Rec.closeErrors`, compress.go:64) exactly
    when `ServeHTTP` installed the compressing writer and the mux handed the request to `dispatch`
    (`secondClose`: `dispatch`'s deferred `Close`, container.go:215, runs before `ServeHTTP`'s,
    container.go:336) — once, and never otherwise; and in every case the ledger counts one
    acquisition and ONE release per compressing writer. -/
theorem C13_second_close_is_error (E : ReEnv) (cfg : Serve.Cfg) (e : Serve.Entry) (sr : Serve.SReq) :
    (Serve.serve E cfg e {} sr).rc.closeErrors = (if Serve.Panic.secondClose cfg e sr then 1 else 0) ∧
    (Serve.serve E cfg e {} sr).world.acquired = (if (Serve.serve E cfg e {} sr).rc.comp.isSome then 1 else 0) ∧
    (Serve.serve E cfg e {} sr).world.released = (if (Serve.serve E cfg e {} sr).rc.comp.isSome then 1 else 0) := by
  have ha := Serve.Panic.serve_after E cfg e {} sr
  have hl := Serve.Panic.ledger_closed {} _ ha.1
  rw [Serve.Panic.serve_world]
  exact ⟨ha.2.2, by simpa using hl.2.1, by simpa using hl.2.2⟩

/-- the case the clause is about, spelled out: container encoding on, the request asks for a coding,
    `ServeHTTP` → `dispatch`: two `Close` calls on the same writer, the second is refused (one
    error), one compressor acquired, one released -/
theorem C13_second_close_serveHTTP (E : ReEnv) (cfg : Serve.Cfg) (sr : Serve.SReq) (c : Serve.Coding)
    (henc : cfg.encoding = true) (hw : Serve.wants (Serve.initial sr).rc sr.acceptEncoding = some c) :
    (Serve.serve E cfg .serveDispatch {} sr).rc.closeErrors = 1 ∧
    (Serve.serve E cfg .serveDispatch {} sr).world.acquired = 1 ∧
    (Serve.serve E cfg .serveDispatch {} sr).world.released = 1 := by
  have hs : Serve.Panic.secondClose cfg .serveDispatch sr = true := by simp [Serve.Panic.secondClose, henc, hw]
  have h := C13_second_close_is_error E cfg .serveDispatch sr
  have hc := Serve.Panic.secondClose_coded E cfg .serveDispatch {} sr hs
  simpa [hs, hc] using h

/-- the operation itself (compress.go:63-78): a `Close` after a `Close` changes nothing but the error
    count — same compressor record, same ledger, whatever the state -/
theorem C13_close_twice (s : Serve.St) (w : Serve.World) (c : Serve.Comp) (h : s.rc.comp = some c) :
    Serve.closeComp (Serve.closeComp s) =
      { Serve.closeComp s with rc := { (Serve.closeComp s).rc with closeErrors := (Serve.closeComp s).rc.closeErrors + 1 } } ∧
    Serve.ledger w (Serve.closeComp (Serve.closeComp s)).rc = Serve.ledger w (Serve.closeComp s).rc := by
  have hs : (Serve.closeComp s).rc.comp.isSome = true := by rw [Serve.Panic.closeComp_isSome, h]; rfl
  obtain ⟨c1, hc1⟩ := Option.isSome_iff_exists.mp hs
  have := Serve.Panic.closeComp_again hc1 (Serve.Panic.closeComp_closed s c1 hc1)
  rw [this]
  exact ⟨rfl, rfl⟩

/-- the three acquire methods of the bounded cache are one non-blocking receive each, the three
    release methods one non-blocking send each: no plain send, receive or `len` check anywhere -/
theorem C13_cache_shape :
    factsOf fnNames items "BoundedCachedCompressors.AcquireGzipWriter" = [.chanTryRecv 0] ∧
    factsOf fnNames items "BoundedCachedCompressors.AcquireGzipReader" = [.chanTryRecv 1] ∧
    factsOf fnNames items "BoundedCachedCompressors.AcquireZlibWriter" = [.chanTryRecv 2] ∧
    factsOf fnNames items "BoundedCachedCompressors.ReleaseGzipWriter" = [.chanTrySend 0] ∧
    factsOf fnNames items "BoundedCachedCompressors.ReleaseGzipReader" = [.chanTrySend 1] ∧
    factsOf fnNames items "BoundedCachedCompressors.ReleaseZlibWriter" = [.chanTrySend 2] := by
  decide +kernel

/-- no function outside the constructor touches the cache channels in a blocking way -/
theorem C13_no_blocking_channel_op :
    (items.filter (fun it => (match it.op with
      | .chanSend _ => true
      | .chanRecv _ => true
      | .chanLen _ => true
      | _ => false) && fnNames.getD it.fn "" != "NewBoundedCachedCompressors")) = [] := by
  decide +kernel

/-- `CompressingResponseWriter.Close` forgets the compressor after releasing it (a second Close
    finds it closed: an error, not a second release); `ReadEntity` releases the pooled reader by
    `defer`; the functions that install a compressing writer close it by `defer` -/
theorem C13_release_sites :
    factsOf fnNames items "CompressingResponseWriter.Close" = [.assignNil "compressor"] ∧
    (factsOf fnNames items "Request.ReadEntity").contains (.deferCall "currentCompressorProvider.ReleaseGzipReader") = true ∧
    (factsOf fnNames items "Container.dispatch").contains (.deferCall "closeCompressor") = true ∧
    (factsOf fnNames items "Container.ServeHTTP").contains (.deferCall "closeCompressor") = true ∧
    (factsOf fnNames items "Container.Handle").contains (.deferCall "closeCompressor") = true := by
  decide +kernel

/-! The protocol theorems (Lemmas/Pool.lean) are audited with this property: -/
-- also: Restful.Pool.C13_exclusive
-- also: Restful.Pool.C13_nonblocking
-- also: Restful.Pool.C13_acquire_fresh_or_cached
-- also: Restful.Pool.sync_pool_contract
-- also: Restful.Pool.F13_witness
-- also: Restful.Pool.C13_own_payload
-- also: Restful.Pool.C13_own_payload_run
-- also: Restful.Pool.own_payload_needs_exclusive

/-! ### non-vacuity (audit)

The protocol theorems of Lemmas/Pool.lean quantify over all schedules; here they are applied to one
concrete interleaving — capacity 1, three requests in flight —, all hypotheses at once, and their
conclusions are shown to fail for states that violate them. -/
namespace C13Example
open Pool

/-- capacity 1.  Thread 0 takes the cached object 0; threads 1 and 2 find the channel empty and get
    fresh objects 1 and 2; 0 gives 0 back (cached), 1 gives 1 back (no room: dropped), 3 then takes the
    cached 0 again while 2 still holds 2; 2 tries to release an object it does not hold (skipped) -/
def sched : List Step :=
  [.acquire 0, .acquire 1, .acquire 2, .release 0 0, .release 1 1, .acquire 3, .release 2 0]

example :
    run (init 1) (sched.take 3) = { cap := 1, chan := [], held := [(2, 2), (1, 1), (0, 0)], next := 3 } ∧
    run (init 1) (sched.take 5) = { cap := 1, chan := [0], held := [(2, 2)], next := 3 } ∧
    run (init 1) sched = { cap := 1, chan := [], held := [(3, 0), (2, 2)], next := 3 } := by
  decide

/-- `C13_exclusive` on that schedule; `Inv` is not trivially true: it fails for a state in which an
    object is held twice, one in which an object is cached while held, one over capacity, and one
    whose fresh supply is not fresh -/
example : Pool.Inv (run (init 1) sched) := C13_exclusive 1 sched
example :
    ¬ Pool.Inv { cap := 1, chan := [], held := [(0, 0), (1, 0)], next := 1 } ∧
    ¬ Pool.Inv { cap := 1, chan := [0], held := [(1, 0)], next := 1 } ∧
    ¬ Pool.Inv { cap := 1, chan := [0, 1], held := [], next := 2 } ∧
    ¬ Pool.Inv { cap := 1, chan := [], held := [(0, 0)], next := 0 } := by
  unfold Pool.Inv
  decide

/-! `C13_own_payload`: two requests, capacity 1.  Request 0 takes the cached object 0, request 1
    gets the fresh object 1; they write their payloads `[1,2,3]` and `[7,8]` byte by byte in turns;
    0 closes (object 0 cached again), 1 closes (no room: dropped); request 1 comes back, is handed
    object 0 — which still holds request 0's bytes until the `Reset` — and writes one byte. -/
def pay : Tid → List Byte := fun t => if t = 0 then [1, 2, 3] else [7, 8]

def bsched : List BStep :=
  [.acquire 0, .acquire 1, .write 0 0, .write 1 1, .write 0 0, .write 1 1, .write 0 0,
   .release 0 0, .release 1 1, .acquire 1, .write 1 0]

example :
    let mid := brun pay (binit 1) (bsched.take 6)
    let σ := brun pay (binit 1) bsched
    mid.core.held = [(1, 1), (0, 0)] ∧ mid.buf 0 = [1, 2] ∧ mid.buf 1 = [7, 8] ∧ mid.sent 0 0 = [1, 2] ∧
    (brun pay (binit 1) (bsched.take 9)).buf 0 = [1, 2, 3] ∧
    σ.core = { cap := 1, chan := [], held := [(1, 0)], next := 2 } ∧ σ.buf 0 = [7] ∧ σ.sent 1 0 = [7] ∧
    σ.out = [(1, [7, 8]), (0, [1, 2, 3])] := by
  decide

/-- the theorem on that schedule, in both forms; its conclusion is what the evaluation above shows,
    and `own_payload_needs_exclusive` is the same run from a state in which object 0 is held twice:
    request 1 receives `[10, 20]`, the first byte being request 0's -/
example := C13_own_payload_run pay 1 bsched
example := C13_own_payload pay 1 _ (breachable_brun pay 1 bsched)
example : ((1 : Tid), ([7, 8] : List Byte)) ∈ (brun pay (binit 1) bsched).out ∧ ([7, 8] : List Byte) = pay 1 := by decide
example := own_payload_needs_exclusive

/-- the state after the first acquisition (channel empty), and a proof that it is reachable -/
def σ1 : St := run (init 1) [.acquire 0]
theorem σ1_reachable : Reachable 1 σ1 := (reachable_iff_run 1 σ1).mpr ⟨_, rfl⟩

/-- `C13_acquire_fresh_or_cached`, both alternatives: the cached object from the initial state, a
    fresh one from `σ1` (hypothesis `Inv` by `C13_exclusive`) -/
example := C13_acquire_fresh_or_cached (C13_exclusive 1 []) 0
example := C13_acquire_fresh_or_cached (σ := σ1) (C13_exclusive 1 [.acquire 0]) 1
example : (acquire (init 1) 0).2 = 0 ∧ (acquire σ1 1).2 = 1 ∧ σ1.held = [(0, 0)] := by decide

/-- `C13_nonblocking` at the reachable state `σ1`, where a thread holds an object -/
example := C13_nonblocking 1 σ1 σ1_reachable

/-- `sync_pool_contract` instantiated with the bounded cache itself (`bounded_cache_meets_contract`
    is its hypothesis `hstep`), along two acquisitions from the initial state: all three hypotheses -/
def R (σ σ' : St) : Prop := Pool.Inv σ ∧ ∃ s, step σ s = some σ'

example : ((run (init 1) [.acquire 0, .acquire 1]).held.map (·.2)).Nodup ∧
    ∀ t t' o, (t, o) ∈ (run (init 1) [.acquire 0, .acquire 1]).held →
      (t', o) ∈ (run (init 1) [.acquire 0, .acquire 1]).held → t = t' :=
  sync_pool_contract St.held R (fun σ σ' h => bounded_cache_meets_contract σ σ' h.1 h.2)
    (init 1) (run (init 1) [.acquire 0, .acquire 1])
    (.tail (.tail (.refl _) ⟨C13_exclusive 1 [], .acquire 0, rfl⟩) ⟨C13_exclusive 1 [.acquire 0], .acquire 1, rfl⟩)
    (by decide)

/-- … and its conclusion fails for a provider that hands out an object in use (so `hstep` matters) -/
example : ¬ ([(0, 0), (1, 0)].map (·.2) : List Obj).Nodup := by decide

/-- `C13_served_released_once` on a request whose response IS encoded (one compressor acquired and
    released), recovered panic included; `Spec.c13Holds` is falsified by a compressor that was not
    released, one released twice, and a ledger anomaly -/
def cfg : Serve.Cfg :=
  { routing := { router := .curly, services := [{ id := 0, root := "/a".toList, routes :=
      [{ id := 7, method := "GET".toList, relPath := [], consumes := [], produces := [], conds := [], noct := [] }] }] }
    routes := [{ id := 7, script := [.write "x".toList, .panic "boom".toList] }]
    encoding := true
    recover := true }
def sr : Serve.SReq := { req := { method := "GET".toList, path := "/a".toList }, acceptEncoding := "gzip".toList }
def o : Spec.Obs := Spec.obsOf (Serve.serve ⟨fun _ _ => true, fun _ _ => true⟩ cfg .dispatch {} sr)

example : Spec.c13Holds o = true := C13_served_released_once _ cfg .dispatch sr
example : o.acq = 1 ∧ o.rel = 1 ∧ o.coded = true ∧
    Spec.c13Holds { o with rel := 0 } = false ∧ Spec.c13Holds { o with rel := 2 } = false ∧
    Spec.c13Holds { o with dbl := 1 } = false := by
  decide

/-- `C13_no_use_after_release` and `C13_second_close_is_error` on requests whose response IS encoded:
    through `ServeHTTP` (`secondClose`: the second `Close` is refused once, one release) and through
    `Dispatch` (one `Close`, no error) -/
example : Serve.Panic.secondClose cfg .serveDispatch sr = true ∧ Serve.Panic.secondClose cfg .dispatch sr = false := by decide
example := C13_no_use_after_release ⟨fun _ _ => true, fun _ _ => true⟩ cfg .serveDispatch sr
example := C13_second_close_serveHTTP ⟨fun _ _ => true, fun _ _ => true⟩ cfg sr .gzip rfl (by decide)
example :
    let r := Serve.serve ⟨fun _ _ => true, fun _ _ => true⟩ cfg .serveDispatch {} sr
    let r' := Serve.serve ⟨fun _ _ => true, fun _ _ => true⟩ cfg .dispatch {} sr
    r.rc.closeErrors = 1 ∧ r.rc.writeAfterClose = 0 ∧ r.world = { acquired := 1, released := 1 } ∧
    r.rc.comp = some { coding := .gzip, payload := "x<stack>".toList, closed := true } ∧
    r'.rc.closeErrors = 0 ∧ r'.rc.writeAfterClose = 0 ∧ r'.world = { acquired := 1, released := 1 } := by
  decide

/-- the two counters are not constants of the model: a `Write` that does reach a closed compressing
    writer is counted (and its bytes are lost), a `Close` on a closed one is counted -/
example :
    let s : Serve.St := { rc := { comp := some { coding := .gzip, payload := "x".toList, closed := true } } }
    (Serve.baseWrite s.rc "late".toList).writeAfterClose = 1 ∧
    (Serve.baseWrite s.rc "late".toList).comp = s.rc.comp ∧
    (Serve.closeComp s).rc.closeErrors = 1 ∧ Serve.ledger {} (Serve.closeComp s).rc = { acquired := 1, released := 1 } := by
  decide

end C13Example

/-! The frame condition (Lemmas/StateShape.lean): the code has exactly the state this property's model
    accounts for — no further package-level variable, struct type or field; constants as modelled. -/
-- also: Restful.StateShape.globals_shape
-- also: Restful.StateShape.consts_shape
-- also: Restful.StateShape.compress_shape

end Props
end Restful
