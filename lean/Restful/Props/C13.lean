/-
C13 — pooled compressors are never shared, lost twice, or a reason to block.

Two layers.  (1) The protocol, for every capacity, any number of threads and every interleaving
(Lemmas/Pool.lean): with an atomic non-blocking acquire (`select { case o = <-ch: default: new }`)
and an atomic non-blocking release (`select { case ch <- o: default: }`) no object is ever held
twice or cached while held, and every step is enabled in every reachable state.  (2) That the code
HAS this shape is read off the sources on every run: the obligations below are about the facts
`tools/gofacts` regenerates from /repo.  Release-exactly-once by the framework is `C10_balanced`
(every acquired compressor is released once on every path) plus the facts about `Close` and
`ReadEntity` below.
-/
import Restful.Model.Conc
import Restful.Gen.Facts
import Restful.Lemmas.Pool
import Restful.Lemmas.Panic
import Restful.Lemmas.StateShape
namespace Restful
namespace Props
open Gen Conc

/-- the framework's half on the serve model: for every configuration, entry point and request —
    encoding switched on at the container or at the route only, panics at any position, recovery on
    or off — the compressor acquired for the request has been released once when the entry point
    is left (`Spec.c13Holds` is what the check evaluates on the ledger of every real request) -/
theorem C13_served_released_once (E : ReEnv) (cfg : Serve.Cfg) (e : Serve.Entry) (sr : Serve.SReq) :
    Spec.c13Holds (Spec.obsOf (Serve.serve E cfg e {} sr)) = true := by
  have h := Serve.Panic.serve_balanced E cfg e {} sr rfl
  simp [Spec.c13Holds, Spec.obsOf, h]

/-- the three acquire methods of the bounded cache are one non-blocking receive each, the three
    release methods one non-blocking send each: no plain send, receive or `len` check anywhere -/
theorem C13_cache_shape :
    factsOf fnNames items "BoundedCachedCompressors.AcquireGzipWriter" = [.chanTryRecv 0] ∧
    factsOf fnNames items "BoundedCachedCompressors.AcquireGzipReader" = [.chanTryRecv 1] ∧
    factsOf fnNames items "BoundedCachedCompressors.AcquireZlibWriter" = [.chanTryRecv 2] ∧
    factsOf fnNames items "BoundedCachedCompressors.ReleaseGzipWriter" = [.chanTrySend 0] ∧
    factsOf fnNames items "BoundedCachedCompressors.ReleaseGzipReader" = [.chanTrySend 1] ∧
    factsOf fnNames items "BoundedCachedCompressors.ReleaseZlibWriter" = [.chanTrySend 2] := by
  decide +kernel

/-- no function outside the constructor touches the cache channels in a blocking way -/
theorem C13_no_blocking_channel_op :
    (items.filter (fun it => (match it.op with
      | .chanSend _ => true
      | .chanRecv _ => true
      | .chanLen _ => true
      | _ => false) && fnNames.getD it.fn "" != "NewBoundedCachedCompressors")) = [] := by
  decide +kernel

/-- `CompressingResponseWriter.Close` forgets the compressor after releasing it (a second Close
    finds it closed: an error, not a second release); `ReadEntity` releases the pooled reader by
    `defer`; the functions that install a compressing writer close it by `defer` -/
theorem C13_release_sites :
    factsOf fnNames items "CompressingResponseWriter.Close" = [.assignNil "compressor"] ∧
    (factsOf fnNames items "Request.ReadEntity").contains (.deferCall "currentCompressorProvider.ReleaseGzipReader") = true ∧
    (factsOf fnNames items "Container.dispatch").contains (.deferCall "closeCompressor") = true ∧
    (factsOf fnNames items "Container.ServeHTTP").contains (.deferCall "closeCompressor") = true ∧
    (factsOf fnNames items "Container.Handle").contains (.deferCall "closeCompressor") = true := by
  decide +kernel

/-! The protocol theorems (Lemmas/Pool.lean) are audited with this property: -/
-- also: Restful.Pool.C13_exclusive
-- also: Restful.Pool.C13_nonblocking
-- also: Restful.Pool.C13_acquire_fresh_or_cached
-- also: Restful.Pool.sync_pool_contract
-- also: Restful.Pool.F13_witness

/-! The frame condition (Lemmas/StateShape.lean): the code has exactly the state this property's model
    accounts for — no further package-level variable, struct type or field; constants as modelled. -/
-- also: Restful.StateShape.globals_shape
-- also: Restful.StateShape.consts_shape
-- also: Restful.StateShape.compress_shape

end Props
end Restful
