/-
C12 — services and routes can change while requests are being served.

This is a schedule property.  What Lean carries is the synchronisation LOGIC, stated about the
facts `tools/gofacts` regenerates from /repo on every run (`Restful.Gen.items`): every access to the
registration state (`Container.webServices`, `.ServeMux`, `.isRegisteredOnRoot`, `WebService.routes`)
that is reachable from a serving entry point or from Add/Remove/Route/RemoveRoute happens with its
guarding lock held in the needed mode — lexically or by every caller —, no lock is acquired while
it may already be held, and the acquired-while-holding relation is acyclic.  The general theorem
`lockset_sound` (Lemmas/Lockset.lean) says what such a discipline buys on the interleaving
semantics: two conflicting accesses are never simultaneously enabled, and some thread can always
move.  What Lean cannot exhibit — a data race in the sense of the Go memory model in compiled code —
is searched for by the `-race` stress of the thorough tier.
-/
import Restful.Model.Conc
import Restful.Gen.Facts
import Restful.Lemmas.Lockset
import Restful.Lemmas.ConcSound
import Restful.Lemmas.StateShape
namespace Restful
namespace Props
open Gen Conc

def c12 : Analysis := analysis fnNames items (servingEntries ++ mutatorEntries)

/-- the extractor still finds every entry point of the quantifier -/
theorem C12_entries_present : entriesPresent fnNames (servingEntries ++ mutatorEntries) = true := by decide +kernel

/-- the data-flow over the call graph reached its fixpoint -/
theorem C12_fixpoint : c12.fixpoint = true := by decide +kernel

/-- lock discipline, lock order, and nothing unrecognised: no reachable access to the registration
    state without its guard; no lock acquired while it may be held; `webServicesLock` before
    `routesLock` is the only nesting -/
theorem C12_discipline : c12.report = { orderEdges := [(0, 1)] } := by decide +kernel

/-- every acquisition is released by an immediately following `defer`, or nothing is called while
    the lock is held: a panic (a user If-condition inside route selection, say) cannot leave a lock
    held and block the next Add/Remove for ever -/
theorem C12_panic_safe : panicSafe fnNames.length items = true := by decide +kernel

theorem C12_lock_order_acyclic : acyclic c12.report.orderEdges = true := by decide +kernel

/-! The general theorems about the interleaving semantics (Lemmas/Lockset.lean) are audited with this property: -/
-- also: Restful.Lockset.lockset_sound
-- also: Restful.Lockset.no_deadlock

/-! ### from the verdicts of the analysis to the interleaving semantics

Lemmas/ConcSem.lean compiles the facts into the programs of the interleaving semantics:
`Conc.Traces names items f tr` — `tr` is a complete sequence of acquire / release / access events of
function `f`, calls unfolded by name resolution to any finite depth (the assumptions of that
semantics are listed at the head of that file).  Lemmas/ConcSound.lean proves the analysis sound
w.r.t. it, for ARBITRARY facts: a report without unguarded access and re-entrant acquisition + both
data-flows at their fixpoint + bracketing ⇒ every trace of every entry point is
`Lockset.Disciplined` (`Conc.analysis_sound`), and `Lockset.Ordered` for every rank that the
reported acquired-while-holding edges respect (`Conc.analysis_sound_order`).  The proof covers the
must-hold data-flow over the call graph (contexts guaranteed by every caller), not only lexically
guarded accesses.  It needs one fact `check` does not look at — how locks are given back:
`Conc.bracketed` (a syntactic check; `Conc.check_alone_not_sound` shows that it cannot be dropped:
`Lock()` paired with `defer RUnlock()` passes `check` and `panicSafe`). -/
-- also: Restful.Conc.analysis_sound
-- also: Restful.Conc.analysis_sound_order
-- also: Restful.Conc.analysis_no_unguarded_access
-- also: Restful.Conc.analysis_no_deadlock
-- also: Restful.Conc.check_alone_not_sound
-- also: Restful.Conc.genTrace_traces
-- also: Restful.Conc.entryProg_exists

/-- one evaluation of the analysis for the two facts below -/
theorem C12_shape : (c12.bracketed fnNames items && c12.lexicallyGuarded) = true := by decide +kernel

/-- in every function reachable from the entry points: what the lexical walk drops at the end of a
    func literal / of the function is what the registered `defer`s release there, explicit
    releases give back a lexically held lock in the mode it was taken in, and nothing sits in a func
    literal that runs later -/
theorem C12_bracketed : c12.bracketed fnNames items = true := ((Bool.and_eq_true _ _).mp C12_shape).1

/-- (information) in the current sources every reachable access has its guard among the LEXICALLY
    held locks; the contexts guaranteed by callers matter for the lock order only
    (`routesLock` is taken inside `webServicesLock` three calls below `dispatch`) -/
theorem C12_lexically_guarded : c12.lexicallyGuarded = true := ((Bool.and_eq_true _ _).mp C12_shape).2

theorem c12_unguarded : c12.report.unguarded = [] := by rw [C12_discipline]
theorem c12_reentrant : c12.report.reentrant = [] := by rw [C12_discipline]
theorem c12_rank : ∀ e ∈ c12.report.orderEdges, id e.1 < id e.2 := by
  rw [C12_discipline]; decide

/-- every complete trace of every serving / mutating entry point of the real facts keeps the lock
    discipline (guards as in `guardOf`: `routes` by `routesLock`, the container's fields by
    `webServicesLock`) and takes `webServicesLock` before `routesLock` -/
theorem C12_system_disciplined (p : Lockset.Prog)
    (hp : EntryProg fnNames items (servingEntries ++ mutatorEntries) p) :
    Lockset.Disciplined guardOf [] p = true ∧ Lockset.Ordered id [] p = true :=
  ⟨analysis_sound fnNames items _ c12_unguarded c12_reentrant C12_fixpoint C12_bracketed p hp,
   analysis_sound_order fnNames items _ id c12_unguarded c12_reentrant c12_rank C12_fixpoint C12_bracketed p hp⟩

/-- end to end: any number of threads, each serving a request or running Add / Remove / Route /
    RemoveRoute (any complete trace of the facts), interleaved in any way: in no reachable state do
    two threads have conflicting accesses to the registration state (same field, at least one
    write) as their next events -/
theorem C12_no_unguarded_access (progs : List Lockset.Prog)
    (hsys : EntrySystem fnNames items (servingEntries ++ mutatorEntries) progs)
    (σ : Lockset.State) (hreach : Lockset.Reachable (Lockset.init progs) σ) (k k' : Lockset.Kind) :
    ¬ ∃ t t' x, t ≠ t' ∧ Lockset.nextIs σ t (Lockset.access x k) ∧ Lockset.nextIs σ t' (Lockset.access x k') ∧
        (k = Lockset.Kind.write ∨ k' = Lockset.Kind.write) :=
  analysis_no_unguarded_access fnNames items _ c12_unguarded c12_reentrant C12_fixpoint C12_bracketed
    progs hsys σ hreach k k'

/-- end to end: in every reachable state of that system in which some thread has not finished, some
    thread can move -/
theorem C12_no_deadlock (progs : List Lockset.Prog)
    (hsys : EntrySystem fnNames items (servingEntries ++ mutatorEntries) progs)
    (σ : Lockset.State) (hreach : Lockset.Reachable (Lockset.init progs) σ)
    (hunfinished : ∃ (t : Nat) (a : Lockset.Action) (rest : Lockset.Prog), σ.threads[t]? = some (a :: rest)) :
    ∃ t σ', Lockset.step σ t = some σ' :=
  analysis_no_deadlock fnNames items _ id c12_unguarded c12_reentrant c12_rank C12_fixpoint C12_bracketed
    progs hsys σ hreach hunfinished

/-! ### non-vacuity (audit)

The five obligations above are closed facts about the regenerated sources; they would also be true
of an empty fact list.  They are not: the analysis reaches tracked accesses, writes and lock
acquisitions from the entry points (stated as lower bounds, so that regenerating the facts from a
changed /repo does not break them for a wrong reason), and it REJECTS seeded defects of the same
facts — every write acquisition of `webServicesLock` removed, or weakened to a read acquisition;
a lock acquired in the wrong order; a call made while a lock is held without `defer`. -/

/-- tracked-field accesses / writes / lock acquisitions in code reachable from the entry points -/
def c12Reachable (a : Analysis) (p : Op → Bool) : List Item :=
  (a.ann.filter (fun x => (ctxGet a.must x.1.fn).isSome && p x.1.op)).map (·.1)

example :
    (c12Reachable c12 (fun o => match o with | .read _ => true | .write _ => true | _ => false)).length ≥ 20 ∧
    (c12Reachable c12 (fun o => match o with | .write _ => true | _ => false)).length ≥ 5 ∧
    (c12Reachable c12 (fun o => match o with | .acq _ .W => true | _ => false)).length ≥ 3 ∧
    (c12Reachable c12 (fun o => match o with | .acq _ .R => true | _ => false)).length ≥ 3 := by
  decide +kernel

/-- seeded defect 1: without the write acquisitions of `webServicesLock` the report is not clean -/
def itemsNoWLock : List Item :=
  items.filter (fun it => match it.op with | .acq 0 .W => false | .deferRel 0 .W => false | .rel 0 .W => false | _ => true)
/-- seeded defect 2: the write acquisitions weakened to read acquisitions -/
def itemsWeakLock : List Item :=
  items.map (fun it => match it.op with
    | .acq 0 .W => { it with op := .acq 0 .R }
    | .deferRel 0 .W => { it with op := .deferRel 0 .R }
    | .rel 0 .W => { it with op := .rel 0 .R }
    | _ => it)

example : (analysis fnNames itemsNoWLock (servingEntries ++ mutatorEntries)).report.unguarded ≠ [] := by
  decide +kernel
example : (analysis fnNames itemsWeakLock (servingEntries ++ mutatorEntries)).report.unguarded ≠ [] := by
  decide +kernel

/-- the other checks discriminate too (toy fact lists): a cyclic lock order; re-acquiring a held
    lock and a wrong nesting; a write under a read lock; a write guarded by its only caller (clean:
    the must-hold data-flow — in the current sources every reachable access is guarded lexically, so
    this is the only place that exercises it) and the same function as an entry point (unguarded); a
    call under a lock that is not released by `defer`; a missing entry point -/
example :
    acyclic [(0, 1), (1, 0)] = false ∧ acyclic [(0, 0)] = false ∧
    (analysis ["f"] [⟨0, .acq 1 .R, 0, false, false⟩, ⟨0, .acq 0 .R, 0, false, false⟩, ⟨0, .acq 0 .R, 0, false, false⟩] ["f"]).report =
      { reentrant := [⟨0, .acq 0 .R, 0, false, false⟩], orderEdges := [(0, 0), (1, 0)] } ∧
    (analysis ["f"] [⟨0, .acq 0 .R, 0, false, false⟩, ⟨0, .write 0, 0, false, false⟩] ["f"]).report.unguarded =
      [⟨0, .write 0, 0, false, false⟩] ∧
    (analysis ["f", "g"] [⟨0, .acq 0 .W, 0, false, false⟩, ⟨0, .call [1], 0, false, false⟩, ⟨1, .write 0, 0, false, false⟩] ["f"]).report =
      {} ∧
    (analysis ["f", "g"] [⟨0, .acq 0 .W, 0, false, false⟩, ⟨0, .call [1], 0, false, false⟩, ⟨1, .write 0, 0, false, false⟩] ["f", "g"]).report.unguarded =
      [⟨1, .write 0, 0, false, false⟩] ∧
    panicSafe 1 [⟨0, .acq 0 .W, 0, false, false⟩, ⟨0, .call [0], 0, false, false⟩, ⟨0, .rel 0 .W, 0, false, false⟩] = false ∧
    panicSafe 1 [⟨0, .acq 0 .W, 0, false, false⟩, ⟨0, .deferRel 0 .W, 0, false, false⟩, ⟨0, .call [0], 0, false, false⟩] = true ∧
    entriesPresent fnNames ["Container.NoSuchFunction"] = false := by
  decide

/-! `Lockset.lockset_sound` / `Lockset.no_deadlock` carry `decide`d instances of their program
hypotheses in Lemmas/Lockset.lean (a reader nesting two locks, a writer).  Added here: ALL their
hypotheses at once at a concrete reachable state in which a thread is blocked, and the fact that
their conclusions fail for an undisciplined / unordered system. -/
namespace C12Example
open Lockset

/-- the reader has taken lock 0 and read; the writer wants lock 0 and is blocked -/
def mid : State := (runSched (init [exReader, exWriter]) [0, 0]).get (by decide)

theorem mid_reachable : Reachable (init [exReader, exWriter]) mid :=
  runSched_reachable (Option.some_get _).symm

example : mid.threads[1]? = some exWriter ∧ (step mid 1).isNone = true ∧ (step mid 0).isSome = true := by decide

/-- `no_deadlock` with every hypothesis discharged: someone can move (the reader) -/
example : ∃ t σ', step mid t = some σ' :=
  no_deadlock exGuard id _ (by decide) (by decide) mid mid_reachable
    ⟨1, .acq 0 .W, [.read 0, .write 0, .rel 0 .W], by decide⟩

/-- `lockset_sound` at that state -/
example := lockset_sound exGuard _ (by decide) mid mid_reachable .read .write

/-- two readers do reach a state in which both are about to access variable 0 (so the premise
    pattern of `lockset_sound` is inhabited for read/read) … -/
def both : State := (runSched (init [exReader, exReader]) [0, 1]).get (by decide)
example : nextIs both 0 (access 0 .read) ∧ nextIs both 1 (access 0 .read) :=
  ⟨⟨[.acq 1 .R, .read 3, .rel 1 .R, .rel 0 .R], by decide⟩, ⟨[.acq 1 .R, .read 3, .rel 1 .R, .rel 0 .R], by decide⟩⟩

/-- … and the conclusion of `lockset_sound` is false for an undisciplined system: two threads that
    write variable 0 without a lock are both enabled in the initial state -/
example : Disciplined exGuard [] [.write 0] = false ∧
    ∃ t t' x, t ≠ t' ∧ nextIs (init [[.write 0], [.write 0]]) t (access x .write) ∧
      nextIs (init [[.write 0], [.write 0]]) t' (access x .write) ∧ (Kind.write = Kind.write ∨ Kind.write = Kind.write) :=
  ⟨by decide, 0, 1, 0, by decide, ⟨_, rfl⟩, ⟨_, rfl⟩, .inl rfl⟩

/-- the conclusion of `no_deadlock` is false for a system that takes two locks in opposite orders
    (it is not `Ordered`): after one step each, nobody can move although both are unfinished -/
def abba : List Prog := [[.acq 0 .W, .acq 1 .W, .rel 1 .W, .rel 0 .W], [.acq 1 .W, .acq 0 .W, .rel 0 .W, .rel 1 .W]]
def stuck : State := (runSched (init abba) [0, 1]).get (by decide)
example : (∀ p ∈ abba, Disciplined exGuard [] p = true) ∧ ¬ (∀ p ∈ abba, Ordered id [] p = true) ∧
    (step stuck 0).isNone = true ∧ (step stuck 1).isNone = true ∧ stuck.threads.all (fun p => !p.isEmpty) = true := by
  decide

end C12Example

/-! The derived system of the REAL facts is not empty, and its threads do sit in critical sections
of different locks at the same time: three threads running generated complete traces of
`Container.Add`, `WebService.Route` and `Container.dispatch` (the latter unfolds its calls five deep
and nests `routesLock` inside `webServicesLock`). -/
namespace C12System
open Lockset

def trAdd : Prog := genTrace fnNames.length items 1 (fnId fnNames "Container.Add")
def trRoute : Prog := genTrace fnNames.length items 1 (fnId fnNames "WebService.Route")
def trDispatch : Prog := genTrace fnNames.length items 6 (fnId fnNames "Container.dispatch")
def sys : List Prog := [trAdd, trRoute, trDispatch]

theorem sys_entry : EntrySystem fnNames items (servingEntries ++ mutatorEntries) sys := by
  intro p hp
  simp only [sys, List.mem_cons, List.not_mem_nil, or_false] at hp
  rcases hp with rfl | rfl | rfl
  · exact ⟨"Container.Add", by decide +kernel, by decide +kernel, genTrace_traces _ _ _ _⟩
  · exact ⟨"WebService.Route", by decide +kernel, by decide +kernel, genTrace_traces _ _ _ _⟩
  · exact ⟨"Container.dispatch", by decide +kernel, by decide +kernel, genTrace_traces _ _ _ _⟩

/-- the traces are what one expects (stated as sub-sequences, so that a harmless change of the
    sources does not break them) -/
example :
    [.acq 0 .W, .read 0, .write 2, .write 0, .rel 0 .W].isSublist trAdd = true ∧
    [.acq 1 .W, .read 3, .write 3, .rel 1 .W].isSublist trRoute = true ∧
    [.acq 0 .R, .acq 1 .R, .read 3, .rel 1 .R, .read 0, .rel 0 .R].isSublist trDispatch = true := by
  decide +kernel

/-- the generated traces of the nine entry points (calls unfolded two deep) contain tracked
    accesses, writes, and acquisitions of both locks -/
example :
    let trs := (servingEntries ++ mutatorEntries).map (fun e => genTrace fnNames.length items 3 (fnId fnNames e))
    let count (p : Action → Bool) : Nat := (trs.map (fun tr => (tr.filter p).length)).sum
    count (fun a => match a with | .read _ => true | .write _ => true | _ => false) ≥ 20 ∧
    count (fun a => match a with | .write _ => true | _ => false) ≥ 5 ∧
    count (fun a => match a with | .acq 0 _ => true | _ => false) ≥ 3 ∧
    count (fun a => match a with | .acq 1 _ => true | _ => false) ≥ 3 := by
  decide +kernel

/-- the semantics sees the seeded defects of the facts that the analysis rejects above: with the
    write acquisitions of `webServicesLock` removed, or weakened to read acquisitions, `Add` has a
    trace that is not disciplined -/
example :
    (∃ p, EntryProg fnNames itemsNoWLock (servingEntries ++ mutatorEntries) p ∧ Disciplined guardOf [] p = false) ∧
    (∃ p, EntryProg fnNames itemsWeakLock (servingEntries ++ mutatorEntries) p ∧ Disciplined guardOf [] p = false) :=
  ⟨⟨_, ⟨"Container.Add", by decide +kernel, by decide +kernel, genTrace_traces _ _ 0 _⟩, by decide +kernel⟩,
   ⟨_, ⟨"Container.Add", by decide +kernel, by decide +kernel, genTrace_traces _ _ 0 _⟩, by decide +kernel⟩⟩

/-- `C12_system_disciplined` applies to them -/
example : ∀ p ∈ sys, Disciplined guardOf [] p = true ∧ Ordered id [] p = true :=
  fun p hp => C12_system_disciplined p (sys_entry p hp)

/-- `Add` has taken `webServicesLock`, `Route` has taken `routesLock`, `dispatch` has run as far as
    it gets -/
def inside : State := runThread ((runSched (init sys) [0, 1]).get (by decide +kernel)) 2 trDispatch.length

theorem inside_reachable : Reachable (init sys) inside :=
  (runSched_reachable (Option.some_get _).symm).trans (runThread_reachable _ _ _)

/-- two threads inside critical sections of different locks, both about to access a tracked field
    (different fields); the third — `dispatch` — waits for `webServicesLock` -/
example :
    (inside.locks 0).writer = some 0 ∧ (inside.locks 1).writer = some 1 ∧
    (match inside.threads[0]? with | some (.read 0 :: _) => true | _ => false) = true ∧
    (match inside.threads[1]? with | some (.read 3 :: _) => true | _ => false) = true ∧
    (match inside.threads[2]? with | some (.acq 0 .R :: _) => true | _ => false) = true ∧
    (step inside 2).isNone = true ∧ (step inside 0).isSome = true ∧ (step inside 1).isSome = true := by
  decide +kernel

/-- the end-to-end corollaries at that state, every hypothesis discharged -/
example := C12_no_unguarded_access sys sys_entry inside inside_reachable .read .write
example : ∃ t σ', step inside t = some σ' :=
  C12_no_deadlock sys sys_entry inside inside_reachable (unfinished_of (t := 2) (by decide +kernel))

/-- the three threads run to completion one after the other, and interleaved (Route inside Add's
    critical section, then dispatch through both locks) -/
example :
    ((runSched (init sys) (List.replicate trAdd.length 0 ++ List.replicate trRoute.length 1 ++
      List.replicate trDispatch.length 2)).map (·.threads)) = some [[], [], []] ∧
    ((runSched (init sys) ([0, 0] ++ List.replicate trRoute.length 1 ++ List.replicate (trAdd.length - 2) 0 ++
      List.replicate trDispatch.length 2)).map (·.threads)) = some [[], [], []] := by
  decide +kernel

end C12System

/-! The frame condition (Lemmas/StateShape.lean): the code has exactly the state this property's model
    accounts for — no further package-level variable, struct type or field; constants as modelled. -/
-- also: Restful.StateShape.globals_shape
-- also: Restful.StateShape.consts_shape
-- also: Restful.StateShape.container_shape

end Props
end Restful
