/-
C12 — services and routes can change while requests are being served.

This is a schedule property.  What Lean carries is the synchronisation LOGIC, stated about the
facts `tools/gofacts` regenerates from /repo on every run (`Restful.Gen.items`): every access to the
registration state (`Container.webServices`, `.ServeMux`, `.isRegisteredOnRoot`, `WebService.routes`)
that is reachable from a serving entry point or from Add/Remove/Route/RemoveRoute happens with its
guarding lock held in the needed mode — lexically or by every caller —, no lock is acquired while
it may already be held, and the acquired-while-holding relation is acyclic.  The general theorem
`lockset_sound` (Lemmas/Lockset.lean) says what such a discipline buys on the interleaving
semantics: two conflicting accesses are never simultaneously enabled, and some thread can always
move.  What Lean cannot exhibit — a data race in the sense of the Go memory model in compiled code —
is searched for by the `-race` stress of the thorough tier.
-/
import Restful.Model.Conc
import Restful.Gen.Facts
import Restful.Lemmas.Lockset
import Restful.Lemmas.StateShape
namespace Restful
namespace Props
open Gen Conc

def c12 : Analysis := analysis fnNames items (servingEntries ++ mutatorEntries)

/-- the extractor still finds every entry point of the quantifier -/
theorem C12_entries_present : entriesPresent fnNames (servingEntries ++ mutatorEntries) = true := by decide +kernel

/-- the data-flow over the call graph reached its fixpoint -/
theorem C12_fixpoint : c12.fixpoint = true := by decide +kernel

/-- lock discipline, lock order, and nothing unrecognised: no reachable access to the registration
    state without its guard; no lock acquired while it may be held; `webServicesLock` before
    `routesLock` is the only nesting -/
theorem C12_discipline : c12.report = { orderEdges := [(0, 1)] } := by decide +kernel

/-- every acquisition is released by an immediately following `defer`, or nothing is called while
    the lock is held: a panic (a user If-condition inside route selection, say) cannot leave a lock
    held and block the next Add/Remove for ever -/
theorem C12_panic_safe : panicSafe fnNames.length items = true := by decide +kernel

theorem C12_lock_order_acyclic : acyclic c12.report.orderEdges = true := by decide +kernel

/-! The general theorems about the interleaving semantics (Lemmas/Lockset.lean) are audited with this property: -/
-- also: Restful.Lockset.lockset_sound
-- also: Restful.Lockset.no_deadlock

/-! The frame condition (Lemmas/StateShape.lean): the code has exactly the state this property's model
    accounts for — no further package-level variable, struct type or field; constants as modelled. -/
-- also: Restful.StateShape.globals_shape
-- also: Restful.StateShape.consts_shape
-- also: Restful.StateShape.container_shape

end Props
end Restful
