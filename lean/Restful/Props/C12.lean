/-
C12 — services and routes can change while requests are being served.

This is a schedule property.  What Lean carries is the synchronisation LOGIC, stated about the
facts `tools/gofacts` regenerates from /repo on every run (`Restful.Gen.items`): every access to the
registration state (`Container.webServices`, `.ServeMux`, `.isRegisteredOnRoot`, `WebService.routes`)
that is reachable from a serving entry point or from Add/Remove/Route/RemoveRoute happens with its
guarding lock held in the needed mode — lexically or by every caller —, no lock is acquired while
it may already be held, and the acquired-while-holding relation is acyclic.  The general theorem
`lockset_sound` (Lemmas/Lockset.lean) says what such a discipline buys on the interleaving
semantics: two conflicting accesses are never simultaneously enabled, and some thread can always
move.  What Lean cannot exhibit — a data race in the sense of the Go memory model in compiled code —
is searched for by the `-race` stress of the thorough tier.
-/
import Restful.Model.Conc
import Restful.Gen.Facts
import Restful.Lemmas.Lockset
import Restful.Lemmas.StateShape
namespace Restful
namespace Props
open Gen Conc

def c12 : Analysis := analysis fnNames items (servingEntries ++ mutatorEntries)

/-- the extractor still finds every entry point of the quantifier -/
theorem C12_entries_present : entriesPresent fnNames (servingEntries ++ mutatorEntries) = true := by decide +kernel

/-- the data-flow over the call graph reached its fixpoint -/
theorem C12_fixpoint : c12.fixpoint = true := by decide +kernel

/-- lock discipline, lock order, and nothing unrecognised: no reachable access to the registration
    state without its guard; no lock acquired while it may be held; `webServicesLock` before
    `routesLock` is the only nesting -/
theorem C12_discipline : c12.report = { orderEdges := [(0, 1)] } := by decide +kernel

/-- every acquisition is released by an immediately following `defer`, or nothing is called while
    the lock is held: a panic (a user If-condition inside route selection, say) cannot leave a lock
    held and block the next Add/Remove for ever -/
theorem C12_panic_safe : panicSafe fnNames.length items = true := by decide +kernel

theorem C12_lock_order_acyclic : acyclic c12.report.orderEdges = true := by decide +kernel

/-! The general theorems about the interleaving semantics (Lemmas/Lockset.lean) are audited with this property: -/
-- also: Restful.Lockset.lockset_sound
-- also: Restful.Lockset.no_deadlock

/-! ### non-vacuity (audit)

The five obligations above are closed facts about the regenerated sources; they would also be true
of an empty fact list.  They are not: the analysis reaches tracked accesses, writes and lock
acquisitions from the entry points (stated as lower bounds, so that regenerating the facts from a
changed /repo does not break them for a wrong reason), and it REJECTS seeded defects of the same
facts — every write acquisition of `webServicesLock` removed, or weakened to a read acquisition;
a lock acquired in the wrong order; a call made while a lock is held without `defer`. -/

/-- tracked-field accesses / writes / lock acquisitions in code reachable from the entry points -/
def c12Reachable (a : Analysis) (p : Op → Bool) : List Item :=
  (a.ann.filter (fun x => (ctxGet a.must x.1.fn).isSome && p x.1.op)).map (·.1)

example :
    (c12Reachable c12 (fun o => match o with | .read _ => true | .write _ => true | _ => false)).length ≥ 20 ∧
    (c12Reachable c12 (fun o => match o with | .write _ => true | _ => false)).length ≥ 5 ∧
    (c12Reachable c12 (fun o => match o with | .acq _ .W => true | _ => false)).length ≥ 3 ∧
    (c12Reachable c12 (fun o => match o with | .acq _ .R => true | _ => false)).length ≥ 3 := by
  decide +kernel

/-- seeded defect 1: without the write acquisitions of `webServicesLock` the report is not clean -/
def itemsNoWLock : List Item :=
  items.filter (fun it => match it.op with | .acq 0 .W => false | .deferRel 0 .W => false | .rel 0 .W => false | _ => true)
/-- seeded defect 2: the write acquisitions weakened to read acquisitions -/
def itemsWeakLock : List Item :=
  items.map (fun it => match it.op with
    | .acq 0 .W => { it with op := .acq 0 .R }
    | .deferRel 0 .W => { it with op := .deferRel 0 .R }
    | .rel 0 .W => { it with op := .rel 0 .R }
    | _ => it)

example : (analysis fnNames itemsNoWLock (servingEntries ++ mutatorEntries)).report.unguarded ≠ [] := by
  decide +kernel
example : (analysis fnNames itemsWeakLock (servingEntries ++ mutatorEntries)).report.unguarded ≠ [] := by
  decide +kernel

/-- the other checks discriminate too (toy fact lists): a cyclic lock order; re-acquiring a held
    lock and a wrong nesting; a write under a read lock; a write guarded by its only caller (clean:
    the must-hold data-flow — in the current sources every reachable access is guarded lexically, so
    this is the only place that exercises it) and the same function as an entry point (unguarded); a
    call under a lock that is not released by `defer`; a missing entry point -/
example :
    acyclic [(0, 1), (1, 0)] = false ∧ acyclic [(0, 0)] = false ∧
    (analysis ["f"] [⟨0, .acq 1 .R, 0, false, false⟩, ⟨0, .acq 0 .R, 0, false, false⟩, ⟨0, .acq 0 .R, 0, false, false⟩] ["f"]).report =
      { reentrant := [⟨0, .acq 0 .R, 0, false, false⟩], orderEdges := [(0, 0), (1, 0)] } ∧
    (analysis ["f"] [⟨0, .acq 0 .R, 0, false, false⟩, ⟨0, .write 0, 0, false, false⟩] ["f"]).report.unguarded =
      [⟨0, .write 0, 0, false, false⟩] ∧
    (analysis ["f", "g"] [⟨0, .acq 0 .W, 0, false, false⟩, ⟨0, .call [1], 0, false, false⟩, ⟨1, .write 0, 0, false, false⟩] ["f"]).report =
      {} ∧
    (analysis ["f", "g"] [⟨0, .acq 0 .W, 0, false, false⟩, ⟨0, .call [1], 0, false, false⟩, ⟨1, .write 0, 0, false, false⟩] ["f", "g"]).report.unguarded =
      [⟨1, .write 0, 0, false, false⟩] ∧
    panicSafe 1 [⟨0, .acq 0 .W, 0, false, false⟩, ⟨0, .call [0], 0, false, false⟩, ⟨0, .rel 0 .W, 0, false, false⟩] = false ∧
    panicSafe 1 [⟨0, .acq 0 .W, 0, false, false⟩, ⟨0, .deferRel 0 .W, 0, false, false⟩, ⟨0, .call [0], 0, false, false⟩] = true ∧
    entriesPresent fnNames ["Container.NoSuchFunction"] = false := by
  decide

/-! `Lockset.lockset_sound` / `Lockset.no_deadlock` carry `decide`d instances of their program
hypotheses in Lemmas/Lockset.lean (a reader nesting two locks, a writer).  Added here: ALL their
hypotheses at once at a concrete reachable state in which a thread is blocked, and the fact that
their conclusions fail for an undisciplined / unordered system. -/
namespace C12Example
open Lockset

/-- the reader has taken lock 0 and read; the writer wants lock 0 and is blocked -/
def mid : State := (runSched (init [exReader, exWriter]) [0, 0]).get (by decide)

theorem mid_reachable : Reachable (init [exReader, exWriter]) mid :=
  runSched_reachable (Option.some_get _).symm

example : mid.threads[1]? = some exWriter ∧ (step mid 1).isNone = true ∧ (step mid 0).isSome = true := by decide

/-- `no_deadlock` with every hypothesis discharged: someone can move (the reader) -/
example : ∃ t σ', step mid t = some σ' :=
  no_deadlock exGuard id _ (by decide) (by decide) mid mid_reachable
    ⟨1, .acq 0 .W, [.read 0, .write 0, .rel 0 .W], by decide⟩

/-- `lockset_sound` at that state -/
example := lockset_sound exGuard _ (by decide) mid mid_reachable .read .write

/-- two readers do reach a state in which both are about to access variable 0 (so the premise
    pattern of `lockset_sound` is inhabited for read/read) … -/
def both : State := (runSched (init [exReader, exReader]) [0, 1]).get (by decide)
example : nextIs both 0 (access 0 .read) ∧ nextIs both 1 (access 0 .read) :=
  ⟨⟨[.acq 1 .R, .read 3, .rel 1 .R, .rel 0 .R], by decide⟩, ⟨[.acq 1 .R, .read 3, .rel 1 .R, .rel 0 .R], by decide⟩⟩

/-- … and the conclusion of `lockset_sound` is false for an undisciplined system: two threads that
    write variable 0 without a lock are both enabled in the initial state -/
example : Disciplined exGuard [] [.write 0] = false ∧
    ∃ t t' x, t ≠ t' ∧ nextIs (init [[.write 0], [.write 0]]) t (access x .write) ∧
      nextIs (init [[.write 0], [.write 0]]) t' (access x .write) ∧ (Kind.write = Kind.write ∨ Kind.write = Kind.write) :=
  ⟨by decide, 0, 1, 0, by decide, ⟨_, rfl⟩, ⟨_, rfl⟩, .inl rfl⟩

/-- the conclusion of `no_deadlock` is false for a system that takes two locks in opposite orders
    (it is not `Ordered`): after one step each, nobody can move although both are unfinished -/
def abba : List Prog := [[.acq 0 .W, .acq 1 .W, .rel 1 .W, .rel 0 .W], [.acq 1 .W, .acq 0 .W, .rel 0 .W, .rel 1 .W]]
def stuck : State := (runSched (init abba) [0, 1]).get (by decide)
example : (∀ p ∈ abba, Disciplined exGuard [] p = true) ∧ ¬ (∀ p ∈ abba, Ordered id [] p = true) ∧
    (step stuck 0).isNone = true ∧ (step stuck 1).isNone = true ∧ stuck.threads.all (fun p => !p.isEmpty) = true := by
  decide

end C12Example

/-! The frame condition (Lemmas/StateShape.lean): the code has exactly the state this property's model
    accounts for — no further package-level variable, struct type or field; constants as modelled. -/
-- also: Restful.StateShape.globals_shape
-- also: Restful.StateShape.consts_shape
-- also: Restful.StateShape.container_shape

end Props
end Restful
