/-
C09 — CORS preflight is answered by the filter alone and grants only what is allowed.

Same model as C08 (`Cors.corsOut`, Model/Cors.lean); in addition `Cors.computeAllowedMethods`
(container.go:426) over the closed form of the compiled path expressions (Model/Jsr.lean), and
`Cors.corsSeq`: a sequence of requests through ONE installed filter value.

"The allowed methods" are `Spec.methodsFor`: the configured list, or else the methods routable at
the URL (`Spec.methodsAt`: every route of every service whose root expression matches the URL and
whose own expression matches the rest up to an optional final slash).

The requested headers are `Spec.requestedHeaders`: the header split on `,`, blanks trimmed; an
absent or empty header requests nothing (the `len(acrhs) > 0` guard), so such a preflight is
granted on the method alone and receives `Access-Control-Allow-Headers:` with an EMPTY value.  An
empty ELEMENT (`a,,b`, `a,`, `,`) is validated like any other element: it is allowed only if the
allowed list has `*` or an entry that lower-cases to what `""` lower-cases to.  The property speaks
of "every requested header"; reading the empty element as "not a header" the code is STRICTER than
the property on such lists (it refuses, which "only if" permits) — `C09_grant` states the exact
condition, `C09_grant_only_if` the property's reading.
-/
import Restful.Lemmas.Cors
import Restful.Lemmas.CorsRoutable
import Restful.Lemmas.StateShape
import Restful.Lemmas.TieCors
import Restful.Lemmas.TieImpAllowed
import Restful.Lemmas.TieImpFilters
import Restful.Lemmas.TieImpFiltersDefault
namespace Restful
namespace Props
open Str Cors
variable (lower : Str → Str) (E : ReEnv)

/-- A preflight from an allowed origin is answered by the filter alone: it does not call
    `chain.ProcessFilter`, so no later filter and no route function runs. -/
theorem C09_alone (cc : CorsCfg) (tbl : Config) (rq : CorsReq) (out : Out)
    (hp : Spec.isPreflight rq = true) (ha : Spec.originAllowed lower cc rq.origin = true)
    (h : corsOut lower E cc tbl rq = some out) :
    out.passOn = false :=
  (corsOut_preflight lower E cc tbl rq out ha hp h).1

/-- A preflight from an allowed origin receives Allow-Methods / Allow-Headers / Allow-Origin iff the
    requested method is among the allowed methods and every requested header is allowed ignoring
    case (or `*` is configured).  If so it receives exactly the grant (the allowed methods joined
    with `,`, the requested header list verbatim, the actual-request headers); otherwise nothing. -/
theorem C09_grant (cc : CorsCfg) (tbl : Config) (rq : CorsReq) (out : Out)
    (hp : Spec.isPreflight rq = true) (ha : Spec.originAllowed lower cc rq.origin = true)
    (h : corsOut lower E cc tbl rq = some out) :
    let ms := Spec.methodsFor E cc tbl rq.path
    let ok := rq.acrm ∈ ms ∧ ∀ h ∈ Spec.requestedHeaders rq.acrh, ∃ a ∈ cc.allowedHeaders, lower a = lower h ∨ a = sStar
    ((Spec.valuesOf hAllowMethods out.added ≠ [] ∨ Spec.valuesOf hAllowHeaders out.added ≠ [] ∨
        Spec.valuesOf hAllowOrigin out.added ≠ []) ↔ ok) ∧
    (ok → out.added = preflightGrant cc ms rq) ∧
    (¬ ok → out.added = []) := by
  intro ms ok
  obtain ⟨_, hadd⟩ := corsOut_preflight lower E cc tbl rq out ha hp h
  have hiff := preflightOK_iff lower cc ms rq
  by_cases hok : Spec.preflightOK lower cc ms rq = true
  · have hok' : ok := hiff.mp hok
    rw [if_pos hok] at hadd
    have f := preflightGrant_facts cc ms rq
    refine ⟨⟨fun _ => hok', fun _ => Or.inl ?_⟩, fun _ => hadd, fun hn => absurd hok' hn⟩
    rw [hadd, f.2.2.1]
    simp
  · have hok' : ¬ ok := fun hc => hok (hiff.mpr hc)
    rw [if_neg hok] at hadd
    refine ⟨⟨fun hg => ?_, fun hc => absurd hc hok'⟩, fun hc => absurd hc hok', fun _ => hadd⟩
    rw [hadd] at hg
    simp [Spec.valuesOf] at hg

/-- The property's own reading ("only if", empty elements not counted as headers): a granted
    preflight requested an allowed method and only allowed headers. -/
theorem C09_grant_only_if (cc : CorsCfg) (tbl : Config) (rq : CorsReq) (out : Out)
    (hp : Spec.isPreflight rq = true) (ha : Spec.originAllowed lower cc rq.origin = true)
    (h : corsOut lower E cc tbl rq = some out) (hg : out.added ≠ []) :
    rq.acrm ∈ Spec.methodsFor E cc tbl rq.path ∧
    ∀ h ∈ Spec.requestedHeaders rq.acrh, h ≠ [] → ∃ a ∈ cc.allowedHeaders, lower a = lower h ∨ a = sStar := by
  obtain ⟨_, _, h3⟩ := C09_grant lower E cc tbl rq out hp ha h
  by_cases hok : rq.acrm ∈ Spec.methodsFor E cc tbl rq.path ∧
      ∀ h ∈ Spec.requestedHeaders rq.acrh, ∃ a ∈ cc.allowedHeaders, lower a = lower h ∨ a = sStar
  · exact ⟨hok.1, fun x hx _ => hok.2 x hx⟩
  · exact absurd (h3 hok) hg

/-- Any other request from an allowed origin proceeds down the chain with the actual-request
    headers added, each exactly once: the origin (verbatim), credentials iff configured, the exposed
    headers iff configured, max-age iff positive; no preflight header. -/
theorem C09_actual (cc : CorsCfg) (tbl : Config) (rq : CorsReq)
    (hp : Spec.isPreflight rq = false) (ha : Spec.originAllowed lower cc rq.origin = true) :
    corsOut lower E cc tbl rq = some ⟨Spec.actualHeaders cc rq, true⟩ ∧
    Spec.valuesOf hAllowOrigin (Spec.actualHeaders cc rq) = [rq.origin] ∧
    Spec.valuesOf hAllowCredentials (Spec.actualHeaders cc rq) = (if cc.cookies then [sTrue] else []) ∧
    Spec.valuesOf hExposeHeaders (Spec.actualHeaders cc rq) =
      (if cc.exposeHeaders.isEmpty then [] else [join sComma cc.exposeHeaders]) ∧
    Spec.valuesOf hMaxAge (Spec.actualHeaders cc rq) = (if cc.maxAge > 0 then [itoa cc.maxAge] else []) ∧
    Spec.valuesOf hAllowMethods (Spec.actualHeaders cc rq) = [] ∧
    Spec.valuesOf hAllowHeaders (Spec.actualHeaders cc rq) = [] ∧
    ((Spec.actualHeaders cc rq).map (·.1)).Nodup := by
  have f := actualHeaders_facts cc rq
  exact ⟨corsOut_actual lower E cc tbl rq ha hp, f.1, f.2.2.1, f.2.2.2.1, f.2.2.2.2.1, f.2.2.2.2.2.1,
    f.2.2.2.2.2.2.1, f.2.2.2.2.2.2.2⟩

/-- Every sequence of requests through one installed filter value is answered request by request:
    nothing a preflight computed sticks to the filter.  In a functional model this is immediate
    from `filterCall` returning the filter value unchanged; what makes it a statement about the
    code is that `Filter` has a VALUE receiver (cors_filter.go:47) while `doPreflightRequest`
    (pointer receiver, cors_filter.go:82) writes `c.AllowedMethods` on that per-call copy — a fact
    about the source that a generated-facts check (`Gen.Frame.corsFilterReceiver = .value`,
    DESIGN §8 C09) is to cover, and that the history stream of the harness tests on every run. -/
theorem C09_no_memory (cc : CorsCfg) (tbl : Config) (reqs : List CorsReq) :
    corsSeq lower E tbl cc reqs = reqs.map (corsOut lower E cc tbl) := by
  induction reqs with
  | nil => rfl
  | cons r rs ih => simp [corsSeq, filterCall, ih]

/-- The same on a container whose route table changes between the requests (routes added to /
    removed from a WebService that is already registered): every request is answered from the table
    in force when it arrives — neither the filter value nor anything else remembers what an earlier
    preflight computed for the URL.  What makes it a statement about the code, besides the value
    receiver: `computeAllowedMethods` reads `c.webServices` and `ws.routes` on every call and the
    Container has no further field (`StateShape.container_shape`, a generated-facts obligation); the
    history stream of the harness changes route tables between preflights to one URL on every run. -/
theorem C09_no_memory_tables (cc : CorsCfg) (reqs : List (Config × CorsReq)) :
    corsSeqT lower E cc reqs = reqs.map (fun p => corsOut lower E cc p.1 p.2) := by
  induction reqs with
  | nil => rfl
  | cons r rs ih => obtain ⟨tbl, rq⟩ := r; simp [corsSeqT, filterCall, ih]

/-- with a table that never changes `corsSeqT` is `corsSeq` -/
theorem C09_tables_const (cc : CorsCfg) (tbl : Config) (reqs : List CorsReq) :
    corsSeqT lower E cc (reqs.map (fun rq => (tbl, rq))) = corsSeq lower E tbl cc reqs := by
  rw [C09_no_memory_tables, C09_no_memory, List.map_map]
  rfl

/-- The property's predicate holds of the model's outcome, for every input and in front of every
    rest `k` of the container (`Cors.Rest`: later filters, route function or the router's error
    answer — an arbitrary function of the header lines already on the response).

    The observation is `obsOf k out = observe (withFilter k out) (k [])`: the exchange with the filter
    compared, the way the harness compares, with the exchange of the twin.  What the predicate reads
    and where it comes from:
    * `later` (preflight: nothing behind the filter ran; otherwise: it ran) — from the model's
      `passOn`, given that whatever runs behind the filter logs (`RestOK.logs`: the harness installs
      a logging filter directly behind the CORS filter);
    * `extra` — the model's `added`, given that the code behind the filter keeps the lines it finds
      on the response (`RestOK.frame`) and sets no CORS header itself (`RestOK.noCors`);
    * `restSame` for a passed-on request ("proceeds down the chain" as on the twin) — NOT a
      consequence of the model of the filter: it is `RestOK.frame`, a hypothesis about the code
      behind the filter (it does not look at the response headers the filter added).  Only the
      harness can check it; it does, on every request, by the twin comparison.
    For an origin that is not allowed the hypothesis is void and the predicate leaves the verdict to
    C08 (`C08_as_if_absent`). -/
theorem C09_spec (cc : CorsCfg) (tbl : Config) (rq : CorsReq) (out : Out)
    (h : corsOut lower E cc tbl rq = some out) (k : Rest)
    (hk : Spec.originAllowed lower cc rq.origin = true → RestOK k) :
    Spec.c09Holds lower E cc tbl rq (obsOf k out) = true := by
  rcases Bool.eq_false_or_eq_true (Spec.originAllowed lower cc rq.origin) with ha | ha
  · have hk := hk ha
    rcases Bool.eq_false_or_eq_true (Spec.isPreflight rq) with hp | hp
    · -- preflight
      obtain ⟨hpass, hadd⟩ := corsOut_preflight lower E cc tbl rq out ha hp h
      have hnames : ∀ x ∈ out.added, isCorsName x.1 = true := by
        rw [hadd]
        split
        · exact preflightGrant_corsNames cc _ rq
        · intro x hx; cases hx
      obtain ⟨hex, hlat, hre⟩ := observe_answered k hk out.added hnames
      have hobs : obsOf k out = observe (answered out.added) (k []) := by
        rw [obsOf, withFilter_answered k out hpass]
      rw [Spec.c09Holds, hobs, hre, ha, hp, hlat, hex]
      by_cases hok : Spec.preflightOK lower cc (Spec.methodsFor E cc tbl rq.path) rq = true
      · rw [if_pos hok] at hadd
        have f := preflightGrant_facts cc (Spec.methodsFor E cc tbl rq.path) rq
        have g := preflightGrant_only cc (Spec.methodsFor E cc tbl rq.path) rq
        simp only [hok, hadd, f.1, f.2.2.1, f.2.2.2.1, f.2.2.2.2, g]
        simp
      · rw [if_neg hok] at hadd
        simp [hok, hadd]
    · -- any other request
      rw [corsOut_actual lower E cc tbl rq ha hp] at h
      cases h
      obtain ⟨hperm, hrest, hlat, hre⟩ := observe_passOn k hk (Spec.actualHeaders cc rq)
      have hobs : obsOf k ⟨Spec.actualHeaders cc rq, true⟩ = observe (k (Spec.actualHeaders cc rq)) (k []) := rfl
      rw [Spec.c09Holds, hobs, hre, ha, hp, hlat, hrest]
      simpa using List.isPerm_iff.mpr hperm
  · simp [Spec.c09Holds, ha]

/-! ### the strict reading of "the methods routable at that URL" (finding F14, seen from C09)

`C09_grant` takes "the methods routable at that URL in the container" to be what
`computeAllowedMethods` means declaratively (`Spec.methodsAt`: some route of SOME service whose
root matches).  Read strictly — the methods for which the ROUTER would route a request at that URL —
the full statement would be

    theorem C09_routable (preflight from an allowed origin, computed methods, granted) :
        a request with method `rq.acrm` to `rq.path` is not answered 404 / 405 by the router

and that is NOT true of the code when several services' roots match the URL (nested roots such as
`/a` and `/a/b`): the router dispatches to one service, `computeAllowedMethods` unions the methods
of all of them.  This is finding F14 of DESIGN §6 (listed there under C17, which is about the same
function).  `C09_routable_partial` proves the statement for RouterJSR311 outside that class — the
extra hypothesis `Spec.severalRootsMatch … = false` is the class —, `C09_F14_witness` exhibits the
violation inside it.  (For CurlyRouter no such theorem is stated: it selects the service and the
route by tokens, not by the compiled expressions — findings F03/F15–F17 of DESIGN §6 — so further
single-root differences exist there; the harness counts them as `granted-method-not-routed:one-root`.) -/

/-- RouterJSR311, at most one service root matching the URL: a preflight granted on COMPUTED
    methods requested a method for which the router does route that URL (no 404, no 405), for any
    request on which the If-conditions (user code) of the service's routes hold. -/
theorem C09_routable_partial (cc : CorsCfg) (tbl : Config) (rq : CorsReq) (out : Out)
    (hp : Spec.isPreflight rq = true) (ha : Spec.originAllowed lower cc rq.origin = true)
    (hcomp : cc.allowedMethods = [])
    (h : corsOut lower E cc tbl rq = some out) (hg : out.added ≠ [])
    (hF14 : Spec.severalRootsMatch E tbl rq.path = false)
    (req : Req) (hmeth : req.method = rq.acrm) (hpath : req.path = rq.path)
    (hconds : ∀ s ∈ tbl.services, ∀ r ∈ s.built, passesConds r req = true) (a : Option (List Str)) :
    (routeJsr E tbl req).1 ≠ .error 404 a ∧ (routeJsr E tbl req).1 ≠ .error 405 a := by
  obtain ⟨ms, hms⟩ := corsOut_preflight_computed lower E cc tbl rq out ha hp hcomp h
  have hmem := (C09_grant_only_if lower E cc tbl rq out hp ha h hg).1
  have hfor : Spec.methodsFor E cc tbl rq.path = ms := by
    rw [Spec.methodsFor, hcomp]
    exact (computeAllowedMethods_eq_methodsAt E tbl rq.path ms hms).symm
  rw [hfor] at hmem
  exact computed_method_not_404_405_jsr E tbl rq.path ms rq.acrm hms hmem hF14 req hmeth hpath hconds a

/-- nested roots: `/a` (PUT `/{p}/{q}`) and `/a/b` (GET `/{x}`) -/
def f14Tbl : Config := { router := .jsr, services :=
  [{ id := 0, root := "/a".toList, routes := [{ id := 0, method := "PUT".toList, relPath := "/{p}/{q}".toList, consumes := [], produces := [], conds := [], noct := [] }] },
   { id := 1, root := "/a/b".toList, routes := [{ id := 1, method := "GET".toList, relPath := "/{x}".toList, consumes := [], produces := [], conds := [], noct := [] }] }] }

/-- F14 seen from C09: the preflight `OPTIONS /a/b/x` asking for PUT is granted
    (`Access-Control-Allow-Methods: PUT,GET`), while `PUT /a/b/x` is answered 405 (Allow: GET). -/
theorem C09_F14_witness :
    Spec.severalRootsMatch ⟨fun _ _ => true, fun _ _ => true⟩ f14Tbl "/a/b/x".toList = true ∧
    (corsOut toLowerAscii ⟨fun _ _ => true, fun _ _ => true⟩ {} f14Tbl
        { method := "OPTIONS".toList, path := "/a/b/x".toList, origin := "http://o".toList, acrm := "PUT".toList }).map (·.added.take 1) =
      some [(hAllowMethods, "PUT,GET".toList)] ∧
    (routeJsr ⟨fun _ _ => true, fun _ _ => true⟩ f14Tbl { method := "PUT".toList, path := "/a/b/x".toList }).1 =
      .error 405 (some ["GET".toList]) := by
  decide

/-! ### non-vacuity and the two corner cases of the requested-header list -/

/-- a two-service table: `/a` answers GET, `/b` answers PUT -/
def exTbl : Config := { router := .curly, services :=
  [{ id := 0, root := "/a".toList, routes := [{ id := 0, method := "GET".toList, relPath := "".toList, consumes := [], produces := [], conds := [], noct := [] }] },
   { id := 1, root := "/b".toList, routes := [{ id := 1, method := "PUT".toList, relPath := "/{id}".toList, consumes := [], produces := [], conds := [], noct := [] }] }] }
def exEnv : ReEnv := ⟨fun _ _ => true, fun _ _ => true⟩
def exCc : CorsCfg := { allowedHeaders := ["X-Token".toList, "Content-Type".toList], allowedDomains := ["http://good.example".toList] }
def exPre (path acrm acrh : String) : CorsReq :=
  { method := "OPTIONS".toList, path := path.toList, origin := "http://GOOD.example".toList, acrm := acrm.toList, acrh := acrh.toList }

/-- computed methods, headers in any case and spacing: granted, not passed on -/
example :
    corsOut toLowerAscii exEnv exCc exTbl (exPre "/b/7" "PUT" "x-token , CONTENT-TYPE") =
      some ⟨[(hAllowMethods, "PUT".toList), (hAllowHeaders, "x-token , CONTENT-TYPE".toList),
             (hAllowOrigin, "http://GOOD.example".toList)], false⟩ := by
  decide

/-- a method not routable at the URL, or one header too many: no grant at all, not passed on -/
example :
    corsOut toLowerAscii exEnv exCc exTbl (exPre "/b/7" "GET" "x-token") = some ⟨[], false⟩ ∧
    corsOut toLowerAscii exEnv exCc exTbl (exPre "/b/7" "PUT" "x-token,x-evil") = some ⟨[], false⟩ := by
  decide

/-- an absent/empty requested-header list requests nothing: granted, with an empty Allow-Headers -/
example :
    corsOut toLowerAscii exEnv exCc exTbl (exPre "/b/7" "PUT" "") =
      some ⟨[(hAllowMethods, "PUT".toList), (hAllowHeaders, []), (hAllowOrigin, "http://GOOD.example".toList)], false⟩ := by
  decide

/-- an empty ELEMENT is validated like a header name: `x-token,,content-type` is refused although
    both named headers are allowed; with `*` configured it is granted -/
example :
    corsOut toLowerAscii exEnv exCc exTbl (exPre "/b/7" "PUT" "x-token,,content-type") = some ⟨[], false⟩ ∧
    corsOut toLowerAscii exEnv exCc exTbl (exPre "/b/7" "PUT" "x-token, ") = some ⟨[], false⟩ ∧
    (corsOut toLowerAscii exEnv { exCc with allowedHeaders := ["*".toList] } exTbl (exPre "/b/7" "PUT" "x-token,,content-type")).map (·.added.length) = some 3 := by
  decide

/-- a non-preflight OPTIONS and a GET from the allowed origin: passed on with the actual headers -/
example :
    corsOut toLowerAscii exEnv { exCc with cookies := true, exposeHeaders := ["X-A".toList, "X-B".toList], maxAge := 60 } exTbl
        { method := "OPTIONS".toList, path := "/a".toList, origin := "http://good.example".toList } =
      some ⟨[(hExposeHeaders, "X-A,X-B".toList), (hAllowOrigin, "http://good.example".toList),
             (hAllowCredentials, "true".toList), (hMaxAge, "60".toList)], true⟩ := by
  decide

/-- what `C09_no_memory` excludes: were `Filter` a pointer-receiver method, the methods computed by
    the first preflight (`GET` at `/a`) would stick and the second preflight (`PUT` at `/b/7`) would
    be refused; the code's (value receiver) sequence grants both. -/
example :
    (corsSeq toLowerAscii exEnv exTbl exCc [exPre "/a" "GET" "", exPre "/b/7" "PUT" ""]).map (fun o => o.map (·.added.length)) =
      [some 3, some 3] ∧
    (corsSeqPtr toLowerAscii exEnv exTbl exCc [exPre "/a" "GET" "", exPre "/b/7" "PUT" ""]).map (fun o => o.map (·.added.length)) =
      [some 3, some 0] := by
  decide

/-! ### non-vacuity (audit): the theorems themselves on `exCc` / `exTbl` (all hypotheses at once);
    `Spec.c09Holds` falsified by wrong observations -/
namespace C09Example

/-- a preflight from the allowed origin (other case) for PUT at `/b/7` with two requested headers -/
def pre : CorsReq := exPre "/b/7" "PUT" "x-token , CONTENT-TYPE"
def outPre : Out :=
  ⟨[(hAllowMethods, "PUT".toList), (hAllowHeaders, "x-token , CONTENT-TYPE".toList),
    (hAllowOrigin, "http://GOOD.example".toList)], false⟩
/-- the same with one header too many -/
def preBad : CorsReq := exPre "/b/7" "PUT" "x-token,x-evil"

example : Spec.isPreflight pre = true ∧ Spec.originAllowed toLowerAscii exCc pre.origin = true ∧
    (Spec.requestedHeaders pre.acrh).length = 2 ∧
    corsOut toLowerAscii exEnv exCc exTbl pre = some outPre ∧
    Spec.isPreflight preBad = true ∧ corsOut toLowerAscii exEnv exCc exTbl preBad = some ⟨[], false⟩ := by
  decide
/-- `C09_alone`, `C09_grant` (granted and refused), `C09_grant_only_if`, `C09_spec` -/
example : outPre.passOn = false := C09_alone toLowerAscii exEnv exCc exTbl pre outPre (by decide) (by decide) (by decide)
example := C09_grant toLowerAscii exEnv exCc exTbl pre outPre (by decide) (by decide) (by decide)
example := C09_grant toLowerAscii exEnv exCc exTbl preBad ⟨[], false⟩ (by decide) (by decide) (by decide)
example := C09_grant_only_if toLowerAscii exEnv exCc exTbl pre outPre (by decide) (by decide) (by decide) (by decide)
/-- a rest of the container as the harness builds it: the logging filter behind the CORS filter, the
    service's filter, the route function (adds an `X-Handler` line, status 201, a body) -/
def k : Rest := exRest "1".toList 201 "route 1".toList ["svc:1".toList, "h:1:1".toList]
/-- a rest of the container that violates `RestOK`: a route function that answers differently when it
    finds an Allow-Origin line on the response -/
def kPeek : Rest := fun hs =>
  if (Spec.valuesOf hAllowOrigin hs).isEmpty then k hs else ⟨hs, 403, [], ["post".toList]⟩

example : Spec.c09Holds toLowerAscii exEnv exCc exTbl pre (obsOf k outPre) = true :=
  C09_spec toLowerAscii exEnv exCc exTbl pre outPre (by decide) k (fun _ => exRest_ok _ _ _ _)
example : Spec.c09Holds toLowerAscii exEnv exCc exTbl preBad (obsOf k ⟨[], false⟩) = true :=
  C09_spec toLowerAscii exEnv exCc exTbl preBad ⟨[], false⟩ (by decide) k (fun _ => exRest_ok _ _ _ _)

/-- an actual request (PUT) from the allowed origin; every optional header configured -/
def actual : CorsReq := { method := "PUT".toList, path := "/b/7".toList, origin := "http://good.example".toList }
def ccFull : CorsCfg := { exCc with cookies := true, exposeHeaders := ["X-A".toList, "X-B".toList], maxAge := 60 }
/-- `C09_actual` -/
example := C09_actual toLowerAscii exEnv ccFull exTbl actual (by decide) (by decide)
example : (Spec.actualHeaders ccFull actual).length = 4 := by decide

/-- `C09_no_memory` on a history of three requests -/
example := C09_no_memory toLowerAscii exEnv exCc exTbl [exPre "/a" "GET" "", pre, actual]

/-- `C09_no_memory_tables`: a preflight for PUT at `/b/7` is granted, the PUT route is removed from the
    registered WebService, the same preflight is refused (no grant at all); the route comes back, it is
    granted again -/
def exTblNoPut : Config := { exTbl with services := exTbl.services.map fun s => { s with routes := s.routes.filter (·.method != "PUT".toList) } }
example :
    (corsSeqT toLowerAscii exEnv exCc [(exTbl, exPre "/b/7" "PUT" ""), (exTblNoPut, exPre "/b/7" "PUT" ""), (exTbl, exPre "/b/7" "PUT" "")]).map
      (fun o => o.map (·.added.length)) = [some 3, some 0, some 3] := by
  decide
example := C09_no_memory_tables toLowerAscii exEnv exCc [(exTbl, pre), (exTblNoPut, pre), (exTbl, actual)]
example := C09_tables_const toLowerAscii exEnv exCc exTbl [pre, actual]

/-- RouterJSR311, three services (`/a`, `/b`, `/b/{id}/sub` with an If-condition); exactly one root
    matches `/b/7` -/
def jTbl : Config := { router := .jsr, services := exTbl.services ++
  [{ id := 2, root := "/b/{id}/sub".toList, routes :=
      [{ id := 2, method := "GET".toList, relPath := "".toList, consumes := [], produces := [], conds := [0], noct := [] },
       { id := 3, method := "DELETE".toList, relPath := "".toList, consumes := [], produces := [], conds := [], noct := [] }] }] }
def putReq : Req := { method := "PUT".toList, path := "/b/7".toList, conds := [true] }

/-- every hypothesis of `C09_routable_partial` at once; the PUT is indeed routed -/
example : Spec.severalRootsMatch exEnv jTbl pre.path = false ∧ exCc.allowedMethods = [] ∧
    corsOut toLowerAscii exEnv exCc jTbl pre = some outPre ∧
    (∀ s ∈ jTbl.services, ∀ r ∈ s.built, passesConds r putReq = true) ∧
    (routeJsr exEnv jTbl putReq).1 = .selected 1 1 [("id".toList, "7".toList)] := by
  decide
example := C09_routable_partial toLowerAscii exEnv exCc jTbl pre outPre (by decide) (by decide) rfl (by decide)
  (by decide) (by decide) putReq rfl rfl (by decide) none

/-- `C09_spec` on the actual request; and why its hypothesis on the rest of the container is needed:
    behind `kPeek` the request does NOT proceed as on the twin, and the predicate says so -/
example : Spec.c09Holds toLowerAscii exEnv ccFull exTbl actual (obsOf k ⟨Spec.actualHeaders ccFull actual, true⟩) = true :=
  C09_spec toLowerAscii exEnv ccFull exTbl actual ⟨Spec.actualHeaders ccFull actual, true⟩ (by decide) k (fun _ => exRest_ok _ _ _ _)
example : Spec.c09Holds toLowerAscii exEnv ccFull exTbl actual (obsOf kPeek ⟨Spec.actualHeaders ccFull actual, true⟩) = false := by
  decide

/-- the observations spelled out: what `obsOf` computes from the two exchanges -/
def oPre : Spec.CorsObs :=
  { reached := true, extra := outPre.added, missing := 1, status := 200, twinStatus := 201,
    bodySame := false, logSame := false, later := false }
def oRefused : Spec.CorsObs := { oPre with extra := [] }
def oAct : Spec.CorsObs :=
  { reached := true, extra := Spec.actualHeaders ccFull actual, missing := 0, status := 201, twinStatus := 201,
    bodySame := true, logSame := true, later := true }
example : obsOf k outPre = oPre ∧ obsOf k ⟨[], false⟩ = oRefused ∧
    obsOf k ⟨Spec.actualHeaders ccFull actual, true⟩ = oAct := by decide
/-- the same preflight in front of a filter with every optional header configured -/
def ccFullPre : CorsCfg := { ccFull with allowedMethods := ["PUT".toList, "DELETE".toList] }
def oPreFull : Spec.CorsObs := { oPre with extra :=
  [(hAllowMethods, "PUT,DELETE".toList), (hAllowHeaders, pre.acrh)] ++ Spec.actualHeaders ccFull pre }
example : (corsOut toLowerAscii exEnv ccFullPre exTbl pre).map (obsOf k) = some oPreFull := by decide

/-- the actual-request headers without Allow-Origin / with the origin in another spelling -/
def actNoOrigin : List (Str × Str) := oAct.extra.filter (·.1 != hAllowOrigin)
def actOtherSpelling : List (Str × Str) :=
  oAct.extra.map (fun h => if h.1 == hAllowOrigin then (h.1, "HTTP://good.example".toList) else h)
example : actNoOrigin.length = 3 ∧ Spec.valuesOf hAllowOrigin actOtherSpelling = ["HTTP://good.example".toList] := by decide

/-- `Spec.c09Holds` is not trivially true.

    A preflight that MUST be granted (allowed origin, method and headers allowed): accepts the grant
    (with the further actual-request headers as configured, in any order); falsified by
    (i) no grant header at all — and by any one of the three missing;
    (ii) Allow-Origin twice (also Allow-Methods twice);
    (iv) Allow-Origin lower-cased;
    an Allow-Methods value that is not the allowed methods (one more, another one); an Allow-Headers
    value that is not the requested list; `*` for the origin; a further header that is not configured
    (credentials, Max-Age with another value); a later filter or route function that ran.

    A preflight that must be REFUSED accepts no CORS header at all: falsified by the full grant and by
    a lone Allow-Origin; likewise a preflight for a method that is not routable at the URL.

    (iii) The ACTUAL request accepts the configured headers in any order and is falsified by: no
    header; every header except Allow-Origin; the origin in another spelling; a header twice; a header
    missing; the chain not run; another status than the twin's. -/
example :
    Spec.c09Holds toLowerAscii exEnv exCc exTbl pre oPre = true ∧
    Spec.c09Holds toLowerAscii exEnv exCc exTbl pre { oPre with extra := oPre.extra.reverse } = true ∧
    Spec.c09Holds toLowerAscii exEnv exCc exTbl pre { oPre with extra := [] } = false ∧
    Spec.c09Holds toLowerAscii exEnv exCc exTbl pre { oPre with extra := oPre.extra.drop 1 } = false ∧
    Spec.c09Holds toLowerAscii exEnv exCc exTbl pre { oPre with extra := oPre.extra.take 2 } = false ∧
    Spec.c09Holds toLowerAscii exEnv exCc exTbl pre { oPre with extra :=
      [(hAllowMethods, "PUT".toList), (hAllowOrigin, pre.origin)] } = false ∧
    Spec.c09Holds toLowerAscii exEnv exCc exTbl pre { oPre with extra := oPre.extra ++ [(hAllowOrigin, pre.origin)] } = false ∧
    Spec.c09Holds toLowerAscii exEnv exCc exTbl pre { oPre with extra := (hAllowMethods, "PUT".toList) :: oPre.extra } = false ∧
    Spec.c09Holds toLowerAscii exEnv exCc exTbl pre { oPre with extra :=
      [(hAllowMethods, "PUT".toList), (hAllowHeaders, pre.acrh), (hAllowOrigin, "http://good.example".toList)] } = false ∧
    Spec.c09Holds toLowerAscii exEnv exCc exTbl pre { oPre with extra :=
      [(hAllowMethods, "PUT,GET".toList), (hAllowHeaders, pre.acrh), (hAllowOrigin, pre.origin)] } = false ∧
    Spec.c09Holds toLowerAscii exEnv exCc exTbl pre { oPre with extra :=
      [(hAllowMethods, "GET".toList), (hAllowHeaders, pre.acrh), (hAllowOrigin, pre.origin)] } = false ∧
    Spec.c09Holds toLowerAscii exEnv exCc exTbl pre { oPre with extra :=
      [(hAllowMethods, "PUT".toList), (hAllowHeaders, "*".toList), (hAllowOrigin, pre.origin)] } = false ∧
    Spec.c09Holds toLowerAscii exEnv exCc exTbl pre { oPre with extra :=
      [(hAllowMethods, "PUT".toList), (hAllowHeaders, pre.acrh), (hAllowOrigin, "*".toList)] } = false ∧
    Spec.c09Holds toLowerAscii exEnv exCc exTbl pre { oPre with extra := oPre.extra ++ [(hAllowCredentials, "true".toList)] } = false ∧
    Spec.c09Holds toLowerAscii exEnv exCc exTbl pre { oPre with later := true } = false ∧
    Spec.c09Holds toLowerAscii exEnv ccFullPre exTbl pre oPreFull = true ∧
    Spec.c09Holds toLowerAscii exEnv ccFullPre exTbl pre { oPreFull with extra := oPreFull.extra.reverse } = true ∧
    Spec.c09Holds toLowerAscii exEnv ccFullPre exTbl pre { oPreFull with extra := oPreFull.extra.take 5 ++ [(hMaxAge, "61".toList)] } = false ∧
    Spec.c09Holds toLowerAscii exEnv exCc exTbl preBad oRefused = true ∧
    Spec.c09Holds toLowerAscii exEnv exCc exTbl preBad oPre = false ∧
    Spec.c09Holds toLowerAscii exEnv exCc exTbl preBad { oPre with extra := [(hAllowOrigin, preBad.origin)] } = false ∧
    Spec.c09Holds toLowerAscii exEnv exCc exTbl (exPre "/b/7" "GET" "") oPre = false ∧
    Spec.c09Holds toLowerAscii exEnv ccFull exTbl actual oAct = true ∧
    Spec.c09Holds toLowerAscii exEnv ccFull exTbl actual { oAct with extra := oAct.extra.reverse } = true ∧
    Spec.c09Holds toLowerAscii exEnv ccFull exTbl actual { oAct with extra := [] } = false ∧
    Spec.c09Holds toLowerAscii exEnv ccFull exTbl actual { oAct with extra := actNoOrigin } = false ∧
    Spec.c09Holds toLowerAscii exEnv ccFull exTbl actual { oAct with extra := actOtherSpelling } = false ∧
    Spec.c09Holds toLowerAscii exEnv ccFull exTbl actual { oAct with extra := oAct.extra ++ [(hMaxAge, "60".toList)] } = false ∧
    Spec.c09Holds toLowerAscii exEnv ccFull exTbl actual { oAct with extra := oAct.extra.drop 1 } = false ∧
    Spec.c09Holds toLowerAscii exEnv ccFull exTbl actual { oAct with later := false } = false ∧
    Spec.c09Holds toLowerAscii exEnv ccFull exTbl actual { oAct with status := 500 } = false := by
  decide

/-- The four observations of the review, each REJECTED by `Spec.c09Holds` (the first was accepted
    before the predicate was strengthened):
    (i) a preflight that must be granted (`pre`: allowed origin, PUT routable at `/b/7`, both
        requested headers allowed) that received none of the three grant headers;
    (ii) a grant with Allow-Origin twice;
    (iii) an actual request from an allowed origin without Allow-Origin (no header at all; every
        other configured header);
    (iv) Allow-Origin lower-cased: the request said `http://GOOD.example`. -/
example :
    Spec.c09Holds toLowerAscii exEnv exCc exTbl pre { oPre with extra := [] } = false ∧
    Spec.c09Holds toLowerAscii exEnv exCc exTbl pre { oPre with extra := oPre.extra ++ [(hAllowOrigin, pre.origin)] } = false ∧
    Spec.c09Holds toLowerAscii exEnv ccFull exTbl actual { oAct with extra := [] } = false ∧
    Spec.c09Holds toLowerAscii exEnv ccFull exTbl actual { oAct with extra := actNoOrigin } = false ∧
    Spec.c09Holds toLowerAscii exEnv exCc exTbl pre { oPre with extra :=
      [(hAllowMethods, "PUT".toList), (hAllowHeaders, pre.acrh), (hAllowOrigin, toLowerAscii pre.origin)] } = false ∧
    toLowerAscii pre.origin ≠ pre.origin := by
  decide

end C09Example

/-! The frame condition (Lemmas/StateShape.lean): the code has exactly the state this property's model
    accounts for — no further package-level variable, struct type or field; constants as modelled. -/
-- also: Restful.StateShape.globals_shape
-- also: Restful.StateShape.consts_shape
-- also: Restful.StateShape.cors_shape
-- also: Restful.StateShape.container_shape

/-! The regenerated tie (tools/gotrans → Gen/Translated.lean, Lemmas/Tie*.lean): the origin test and
    the requested-method / requested-header tests this property's model contains ARE the ones
    translated from cors_filter.go on this run. -/
-- also: Restful.Tie.cors_is_origin_allowed
-- also: Restful.Tie.cors_is_valid_request_method
-- also: Restful.Tie.cors_is_valid_request_header

end Props
end Restful

-- the imperative functions this property's model rests on, tied to their statement-by-statement
-- translation (tools/goimp, Gen/Imp.lean, regenerated on every run):
-- also: Restful.TieImp.compute_allowed_methods
-- also: Restful.TieImp.cors_filter
-- also: Restful.TieImp.cors_filter_default_container
