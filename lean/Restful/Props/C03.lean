/-
C03 — best match: literals beat variables, independent of registration order.

CurlyRouter (both levels).  The RouterJSR311 half is in the second part of this file.
The full order-independence statement of the property excludes only root paths of the same
literal/variable shape; the proof needs that no two *matching* roots score equally
(`scoresSeparate`), which is strictly stronger: the gap is finding F05 (ten variables score like
one literal), recorded below with a `decide`d witness.

Since fix 19aa57d `computeWebserviceScore` evaluates the expression of a `{name:regex}` root token:
`Curly.wsScoreE E qs toks` (`.no` / `.yes score` / `.panic`) is the loop, `Curly.wsScore qs toks` its
arithmetic.  A claimed root (`.yes sc`) has the arithmetic score `sc` (`C03_claimed_score`), so the
ranking facts are stated for both; `C03_best_service` speaks about the roots that claim the request,
and order independence is proved under separation of the CLAIMED scores
(`C03_curly_order_claimed_partial`), of which the `scoresSeparateB` form is a corollary.
-/
import Restful.Lemmas.Order
import Restful.Lemmas.OrderJsr
import Restful.Lemmas.StateShape
namespace Restful
namespace Props
variable (E : ReEnv)

/-- route level: a template with literals where the other has variables (same shape otherwise)
    has the strictly greater primary sort key -/
theorem C03_curly_key (ts' ts : List TTok) (h : Spec.moreSpecific ts' ts = true) :
    staticCount ts' > staticCount ts := Restful.C03_curly_key ts' ts h

/-- service level, the arithmetic of the score: a literal root token beats a variable at the same
    position -/
theorem C03_root_literal_beats_variable (qs a b : List Str) (hne : ∀ t ∈ a, t ≠ [])
    (h : Spec.rootMoreSpecific a b = true) (sa sb : Nat)
    (ha : Curly.wsScore qs a = some sa) (hb : Curly.wsScore qs b = some sb) : sa > sb :=
  Restful.C03_root_literal_beats_variable qs a b hne h sa sb ha hb

/-- service level, the arithmetic of the score: a longer matching root beats its own proper prefix -/
theorem C03_root_longer_beats_prefix (qs a b : List Str) (hpre : b <+: a) (hne : b ≠ a) (sa sb : Nat)
    (ha : Curly.wsScore qs a = some sa) (hb : Curly.wsScore qs b = some sb) : sa > sb :=
  Restful.C03_root_longer_beats_prefix qs a b hpre hne sa sb ha hb

/-- the score `computeWebserviceScore` returns for a root that claims the request (expressions of
    root variables satisfied: `.yes`) is the arithmetic score -/
theorem C03_claimed_score (qs toks : List Str) (sc : Nat) (h : Curly.wsScoreE E qs toks = .yes sc) :
    Curly.wsScore qs toks = some sc :=
  Curly.wsScore_of_wsScoreE E h

/-- service level, on the score the router computes (fix 19aa57d: root expressions are
    evaluated): a literal root token beats a variable at the same position, whenever both roots
    claim the request -/
theorem C03_rootE_literal_beats_variable (qs a b : List Str) (hne : ∀ t ∈ a, t ≠ [])
    (h : Spec.rootMoreSpecific a b = true) (sa sb : Nat)
    (ha : Curly.wsScoreE E qs a = .yes sa) (hb : Curly.wsScoreE E qs b = .yes sb) : sa > sb :=
  Restful.C03_rootE_literal_beats_variable E qs a b hne h sa sb ha hb

/-- service level, on the score the router computes: a longer root beats its own proper prefix,
    whenever both claim the request -/
theorem C03_rootE_longer_beats_prefix (qs a b : List Str) (hpre : b <+: a) (hne : b ≠ a) (sa sb : Nat)
    (ha : Curly.wsScoreE E qs a = .yes sa) (hb : Curly.wsScoreE E qs b = .yes sb) : sa > sb :=
  Restful.C03_rootE_longer_beats_prefix E qs a b hpre hne sa sb ha hb

/-- the service whose routes are consulted claims the request and has the greatest score among all
    roots that claim it (a root whose expression is not satisfied does not compete any more) -/
theorem C03_best_service (qs : List Str) (svcs : List Service) (s : Service) (sc : Nat)
    (h : Curly.detectWebService E qs svcs none = some (some (s, sc))) :
    s ∈ svcs ∧ Curly.wsScoreE E qs (tokenize s.rootPath) = .yes sc ∧
    ∀ s' ∈ svcs, ∀ sc', Curly.wsScoreE E qs (tokenize s'.rootPath) = .yes sc' → sc' ≤ sc :=
  ⟨Curly.detectWebService_mem_none E h, Curly.detectWebService_max E qs svcs s sc h⟩

/-- no service is consulted exactly when no root claims the request -/
theorem C03_no_service (qs : List Str) (svcs : List Service) :
    Curly.detectWebService E qs svcs none = some none ↔
      ∀ s ∈ svcs, Curly.wsScoreE E qs (tokenize s.rootPath) = .no := by
  rw [Curly.detectWebService_none]
  simp

/-- the selected route is never less specific than another eligible route of its service -/
theorem C03_curly_never_less_specific (cfg : Config) (hwf : cfg.wfTemplates = true) (hk : cfg.router = .curly)
    (req : Req) (s r : Nat) (ps : Params) (h : route E cfg req = .selected s r ps) :
    ∃ svc ∈ cfg.services, ∃ rt ∈ svc.built, svc.id = s ∧ rt.id = r ∧
      ∀ rt' ∈ svc.built, ∀ ts ts', readTemplate rt.path = some ts → readTemplate rt'.path = some ts' →
        Spec.admits E .curly ts' (tokenize req.path) = true → Spec.eligible rt' req = true →
        Spec.moreSpecific ts' ts = false := by
  unfold route routeTagged at h
  rw [hk] at h
  exact Restful.C03_curly_never_less_specific' E cfg hwf hk req s r ps h

/-
Full statement (false on the current code, see `C03_F05_witness`):
  theorem C03_curly_order (hperm : CfgPerm cfg cfg') (hd : distinctMethodPath cfg)
      (hx : ¬ hasSameShapeRoots cfg) : sameOutcome (route E cfg req) (route E cfg' req)
-/

/-- registration order does not matter: for tables whose same-method routes have different paths,
    and requests on which no two roots that claim the request score equally -/
theorem C03_curly_order_claimed_partial (cfg cfg' : Config) (hk : cfg.router = .curly) (hperm : Spec.CfgPerm cfg cfg')
    (hd : Spec.distinctMethodPathB cfg = true) (req : Req) (hs : Curly.ScoresSeparateE E cfg req) :
    Spec.sameOutcome (route E cfg req) (route E cfg' req) := by
  have hk' : cfg'.router = .curly := by rw [← hperm.1]; exact hk
  unfold route routeTagged
  rw [hk, hk']
  exact Restful.C03_curly_order_E E cfg cfg' hperm (Spec.distinctMethodPath_of_B hd) req hs

/-- registration order does not matter: for tables whose same-method routes have different paths,
    and requests on which no two matching roots score equally (the arithmetic of the score,
    `Spec.scoresSeparateB`, as the driver evaluates it; implies the hypothesis of the theorem above) -/
theorem C03_curly_order_partial (cfg cfg' : Config) (hk : cfg.router = .curly) (hperm : Spec.CfgPerm cfg cfg')
    (hd : Spec.distinctMethodPathB cfg = true) (req : Req) (hs : Spec.scoresSeparateB cfg req = true) :
    Spec.sameOutcome (route E cfg req) (route E cfg' req) := by
  have hk' : cfg'.router = .curly := by rw [← hperm.1]; exact hk
  unfold route routeTagged
  rw [hk, hk']
  exact Restful.C03_curly_order E cfg cfg' hperm (Spec.distinctMethodPath_of_B hd) req (Spec.scoresSeparate_of_B hs)

/-! ### RouterJSR311: route level, and literal root paths -/

/-- RouterJSR311 never selects a route with fewer literal characters than another matching,
    eligible route of the dispatched service; on structured templates: never a less specific one -/
theorem C03_jsr_never_less_specific (cfg : Config) (hk : cfg.router = .jsr) (req : Req) (s r : Nat) (ps : Params)
    (h : route E cfg req = .selected s r ps) :
    ∃ svc ∈ cfg.services, ∃ rt ∈ svc.built, svc.id = s ∧ rt.id = r ∧ ∃ final wex wc, Jsr.compile svc.rootPath = some wex ∧
      Jsr.matchExpr E wex.toks req.path = some (wc, final) ∧
      ∀ rt' ∈ svc.built, ∀ ts ts', readToks (Spec.nonEmptyToks rt.relPath) = some ts →
        readToks (Spec.nonEmptyToks rt'.relPath) = some ts' →
        (∀ t ∈ ts, Spec.tokJsrOK t = true) → (∀ t ∈ ts', Spec.tokJsrOK t = true) →
        ∀ caps' f', Jsr.matchExpr E (ts'.map Jsr.ofTTok) final = some (caps', f') → (f' = [] ∨ f' = ['/']) →
        Spec.eligible rt' req = true → Spec.moreSpecific ts' ts = false := by
  unfold route routeTagged at h
  rw [hk] at h
  exact Restful.C03_jsr_never_less_specific' E cfg req s r ps h

/-- among literal root paths the longest matching one is dispatched to -/
theorem C03_jsr_literal_root_longest (svcs : List Service) (path : Str) (svc : Service) (final : Str)
    (hlit : ∀ s ∈ svcs, ∀ ex, Jsr.compile s.rootPath = some ex → ∀ t ∈ ex.toks, ∃ l, t = .lit l)
    (h : Jsr.detectDispatcher E svcs path = some (some (svc, final))) :
    ∀ s' ∈ svcs, ∀ ex' caps' f', Jsr.compile s'.rootPath = some ex' → Jsr.matchExpr E ex'.toks path = some (caps', f') →
      ∀ ex, Jsr.compile svc.rootPath = some ex → ex'.literalCount ≤ ex.literalCount :=
  Restful.C03_jsr_literal_root_longest E svcs path svc final hlit h

/-- RouterJSR311 with literal, pairwise different root paths: registration order does not matter
    (full statement: only the property's own exclusions are assumed) -/
theorem C03_jsr_order (cfg cfg' : Config) (hk : cfg.router = .jsr) (hperm : Spec.CfgPerm cfg cfg')
    (hd : Spec.distinctMethodPathB cfg = true) (req : Req)
    (hlit : ∀ s ∈ cfg.services, ∀ ex, Jsr.compile s.rootPath = some ex → ∀ t ∈ ex.toks, ∃ l, t = .lit l)
    (hdist : cfg.services.Pairwise (fun a b => ∀ exa exb, Jsr.compile a.rootPath = some exa →
      Jsr.compile b.rootPath = some exb → exa.toks ≠ exb.toks)) :
    Spec.sameOutcome (route E cfg req) (route E cfg' req) := by
  have hk' : cfg'.router = .jsr := by rw [← hperm.1]; exact hk
  unfold route routeTagged
  rw [hk, hk']
  exact Restful.C03_jsr_order_distinct E cfg cfg' hperm (Spec.distinctMethodPath_of_B hd) req hlit hdist

/-! ### F05: ten variable root tokens score like one literal -/

def f05Vars : Str := "/{a}/{b}/{c}/{d}/{e}/{f}/{g}/{h}/{i}/{j}".toList
def f05SvcVars : Service := { id := 0, root := f05Vars, routes :=
  [{ id := 0, method := "GET".toList, relPath := [], consumes := [], produces := [], conds := [], noct := [] }] }
def f05SvcLit : Service := { id := 1, root := "/x".toList, routes :=
  [{ id := 1, method := "GET".toList, relPath := "/{r:*}".toList, consumes := [], produces := [], conds := [], noct := [] }] }
def f05Req : Req := { method := "GET".toList, path := "/x/2/3/4/5/6/7/8/9/10".toList }
def f05E : ReEnv := ⟨fun _ _ => true, fun _ _ => true⟩

/-- the two registration orders of the same two services select different route functions, although
    the roots do not have the same shape (ten variables vs one literal): both score 10 -/
theorem C03_F05_witness :
    (match route f05E { router := .curly, services := [f05SvcVars, f05SvcLit] } f05Req with
      | .selected s _ _ => s | _ => 99) = 0 ∧
    (match route f05E { router := .curly, services := [f05SvcLit, f05SvcVars] } f05Req with
      | .selected s _ _ => s | _ => 99) = 1 ∧
    Spec.hasSameShapeRoots { router := .curly, services := [f05SvcVars, f05SvcLit] } = false ∧
    Spec.scoresSeparateB { router := .curly, services := [f05SvcVars, f05SvcLit] } f05Req = false := by
  decide

/-! The frame condition (Lemmas/StateShape.lean): the code has exactly the state this property's model
    accounts for — no further package-level variable, struct type or field; constants as modelled. -/
-- also: Restful.StateShape.globals_shape
-- also: Restful.StateShape.consts_shape
-- also: Restful.StateShape.routing_shape

end Props
end Restful
