/-
C03 — best match: literals beat variables, independent of registration order.

CurlyRouter (both levels).  The RouterJSR311 half is in the second part of this file.
The full order-independence statement of the property excludes only root paths of the same
literal/variable shape; the proof needs that no two *matching* roots score equally
(`scoresSeparate`), which is strictly stronger: the gap is finding F05 (ten variables score like
one literal), recorded below with a `decide`d witness.

Since fix 19aa57d `computeWebserviceScore` evaluates the expression of a `{name:regex}` root token:
`Curly.wsScoreE E qs toks` (`.no` / `.yes score` / `.panic`) is the loop, `Curly.wsScore qs toks` its
arithmetic.  A claimed root (`.yes sc`) has the arithmetic score `sc` (`C03_claimed_score`), so the
ranking facts are stated for both; `C03_best_service` speaks about the roots that claim the request,
and order independence is proved under separation of the CLAIMED scores
(`C03_curly_order_claimed_partial`), of which the `scoresSeparateB` form is a corollary.
-/
import Restful.Lemmas.Order
import Restful.Lemmas.OrderJsr
import Restful.Lemmas.C03Holds
import Restful.Lemmas.StateShape
import Restful.Lemmas.TieOrder
import Restful.Lemmas.RouteUnique
import Restful.Lemmas.Classify
import Restful.Lemmas.TieImpScore
import Restful.Lemmas.TieImpMatch
import Restful.Lemmas.TieImpTemplate
import Restful.Lemmas.TieImpCurlySel
import Restful.Lemmas.TieImpJsrSel
import Restful.Lemmas.TieImpSelect
namespace Restful
namespace Props
variable (E : ReEnv)

/-- route level: a template with literals where the other has variables (same shape otherwise)
    has the strictly greater primary sort key -/
theorem C03_curly_key (ts' ts : List TTok) (h : Spec.moreSpecific ts' ts = true) :
    staticCount ts' > staticCount ts := Restful.C03_curly_key ts' ts h

/-- service level, the arithmetic of the score: a literal root token beats a variable at the same
    position -/
theorem C03_root_literal_beats_variable (qs a b : List Str) (hne : ∀ t ∈ a, t ≠ [])
    (h : Spec.rootMoreSpecific a b = true) (sa sb : Nat)
    (ha : Curly.wsScore qs a = some sa) (hb : Curly.wsScore qs b = some sb) : sa > sb :=
  Restful.C03_root_literal_beats_variable qs a b hne h sa sb ha hb

/-- service level, the arithmetic of the score: a longer matching root beats its own proper prefix -/
theorem C03_root_longer_beats_prefix (qs a b : List Str) (hpre : b <+: a) (hne : b ≠ a) (sa sb : Nat)
    (ha : Curly.wsScore qs a = some sa) (hb : Curly.wsScore qs b = some sb) : sa > sb :=
  Restful.C03_root_longer_beats_prefix qs a b hpre hne sa sb ha hb

/-- the score `computeWebserviceScore` returns for a root that claims the request (expressions of
    root variables satisfied: `.yes`) is the arithmetic score -/
theorem C03_claimed_score (qs toks : List Str) (sc : Nat) (h : Curly.wsScoreE E qs toks = .yes sc) :
    Curly.wsScore qs toks = some sc :=
  Curly.wsScore_of_wsScoreE E h

/-- service level, on the score the router computes (fix 19aa57d: root expressions are
    evaluated): a literal root token beats a variable at the same position, whenever both roots
    claim the request -/
theorem C03_rootE_literal_beats_variable (qs a b : List Str) (hne : ∀ t ∈ a, t ≠ [])
    (h : Spec.rootMoreSpecific a b = true) (sa sb : Nat)
    (ha : Curly.wsScoreE E qs a = .yes sa) (hb : Curly.wsScoreE E qs b = .yes sb) : sa > sb :=
  Restful.C03_rootE_literal_beats_variable E qs a b hne h sa sb ha hb

/-- service level, on the score the router computes: a longer root beats its own proper prefix,
    whenever both claim the request -/
theorem C03_rootE_longer_beats_prefix (qs a b : List Str) (hpre : b <+: a) (hne : b ≠ a) (sa sb : Nat)
    (ha : Curly.wsScoreE E qs a = .yes sa) (hb : Curly.wsScoreE E qs b = .yes sb) : sa > sb :=
  Restful.C03_rootE_longer_beats_prefix E qs a b hpre hne sa sb ha hb

/-- the service whose routes are consulted claims the request and has the greatest score among all
    roots that claim it (a root whose expression is not satisfied does not compete any more) -/
theorem C03_best_service (qs : List Str) (svcs : List Service) (s : Service) (sc : Nat)
    (h : Curly.detectWebService E qs svcs none = some (some (s, sc))) :
    s ∈ svcs ∧ Curly.wsScoreE E qs (tokenize s.rootPath) = .yes sc ∧
    ∀ s' ∈ svcs, ∀ sc', Curly.wsScoreE E qs (tokenize s'.rootPath) = .yes sc' → sc' ≤ sc :=
  ⟨Curly.detectWebService_mem_none E h, Curly.detectWebService_max E qs svcs s sc h⟩

/-- no service is consulted exactly when no root claims the request -/
theorem C03_no_service (qs : List Str) (svcs : List Service) :
    Curly.detectWebService E qs svcs none = some none ↔
      ∀ s ∈ svcs, Curly.wsScoreE E qs (tokenize s.rootPath) = .no := by
  rw [Curly.detectWebService_none]
  simp

/-- the selected route is never less specific than another eligible route of its service -/
theorem C03_curly_never_less_specific (cfg : Config) (hwf : cfg.wfTemplates = true) (hk : cfg.router = .curly)
    (req : Req) (s r : Nat) (ps : Params) (h : route E cfg req = .selected s r ps) :
    ∃ svc ∈ cfg.services, ∃ rt ∈ svc.built, svc.id = s ∧ rt.id = r ∧
      ∀ rt' ∈ svc.built, ∀ ts ts', readTemplate rt.path = some ts → readTemplate rt'.path = some ts' →
        Spec.admits E .curly ts' (tokenize req.path) = true → Spec.eligible rt' req = true →
        Spec.moreSpecific ts' ts = false := by
  unfold route routeTagged at h
  rw [hk] at h
  exact Restful.C03_curly_never_less_specific' E cfg hwf hk req s r ps h

/-
Full statement (false on the current code, see `C03_F05_witness`):
  theorem C03_curly_order (hperm : CfgPerm cfg cfg') (hd : distinctMethodPath cfg)
      (hx : ¬ hasSameShapeRoots cfg) : sameOutcome (route E cfg req) (route E cfg' req)
-/

/-- registration order does not matter: for tables whose same-method routes have different paths,
    and requests on which no two roots that claim the request score equally -/
theorem C03_curly_order_claimed_partial (cfg cfg' : Config) (hk : cfg.router = .curly) (hperm : Spec.CfgPerm cfg cfg')
    (hd : Spec.distinctMethodPathB cfg = true) (req : Req) (hs : Curly.ScoresSeparateE E cfg req) :
    Spec.sameOutcome (route E cfg req) (route E cfg' req) := by
  have hk' : cfg'.router = .curly := by rw [← hperm.1]; exact hk
  unfold route routeTagged
  rw [hk, hk']
  exact Restful.C03_curly_order_E E cfg cfg' hperm (Spec.distinctMethodPath_of_B hd) req hs

/-- registration order does not matter: for tables whose same-method routes have different paths,
    and requests on which no two matching roots score equally (the arithmetic of the score,
    `Spec.scoresSeparateB`, as the driver evaluates it; implies the hypothesis of the theorem above) -/
theorem C03_curly_order_partial (cfg cfg' : Config) (hk : cfg.router = .curly) (hperm : Spec.CfgPerm cfg cfg')
    (hd : Spec.distinctMethodPathB cfg = true) (req : Req) (hs : Spec.scoresSeparateB cfg req = true) :
    Spec.sameOutcome (route E cfg req) (route E cfg' req) := by
  have hk' : cfg'.router = .curly := by rw [← hperm.1]; exact hk
  unfold route routeTagged
  rw [hk, hk']
  exact Restful.C03_curly_order E cfg cfg' hperm (Spec.distinctMethodPath_of_B hd) req (Spec.scoresSeparate_of_B hs)

/-! ### RouterJSR311: route level, and literal root paths -/

/-- RouterJSR311 never selects a route with fewer literal characters than another matching,
    eligible route of the dispatched service; on structured templates: never a less specific one -/
theorem C03_jsr_never_less_specific (cfg : Config) (hk : cfg.router = .jsr) (req : Req) (s r : Nat) (ps : Params)
    (h : route E cfg req = .selected s r ps) :
    ∃ svc ∈ cfg.services, ∃ rt ∈ svc.built, svc.id = s ∧ rt.id = r ∧ ∃ final wex wc, Jsr.compile svc.rootPath = some wex ∧
      Jsr.matchExpr E wex.toks req.path = some (wc, final) ∧
      ∀ rt' ∈ svc.built, ∀ ts ts', readToks (Spec.nonEmptyToks rt.relPath) = some ts →
        readToks (Spec.nonEmptyToks rt'.relPath) = some ts' →
        (∀ t ∈ ts, Spec.tokJsrOK t = true) → (∀ t ∈ ts', Spec.tokJsrOK t = true) →
        ∀ caps' f', Jsr.matchExpr E (ts'.map Jsr.ofTTok) final = some (caps', f') → (f' = [] ∨ f' = ['/']) →
        Spec.eligible rt' req = true → Spec.moreSpecific ts' ts = false := by
  unfold route routeTagged at h
  rw [hk] at h
  exact Restful.C03_jsr_never_less_specific' E cfg req s r ps h

/-- among literal root paths the longest matching one is dispatched to -/
theorem C03_jsr_literal_root_longest (svcs : List Service) (path : Str) (svc : Service) (final : Str)
    (hlit : ∀ s ∈ svcs, ∀ ex, Jsr.compile s.rootPath = some ex → ∀ t ∈ ex.toks, ∃ l, t = .lit l)
    (h : Jsr.detectDispatcher E svcs path = some (some (svc, final))) :
    ∀ s' ∈ svcs, ∀ ex' caps' f', Jsr.compile s'.rootPath = some ex' → Jsr.matchExpr E ex'.toks path = some (caps', f') →
      ∀ ex, Jsr.compile svc.rootPath = some ex → ex'.literalCount ≤ ex.literalCount :=
  Restful.C03_jsr_literal_root_longest E svcs path svc final hlit h

/-- RouterJSR311 with literal, pairwise different root paths: registration order does not matter
    (full statement: only the property's own exclusions are assumed) -/
theorem C03_jsr_order (cfg cfg' : Config) (hk : cfg.router = .jsr) (hperm : Spec.CfgPerm cfg cfg')
    (hd : Spec.distinctMethodPathB cfg = true) (req : Req)
    (hlit : ∀ s ∈ cfg.services, ∀ ex, Jsr.compile s.rootPath = some ex → ∀ t ∈ ex.toks, ∃ l, t = .lit l)
    (hdist : cfg.services.Pairwise (fun a b => ∀ exa exb, Jsr.compile a.rootPath = some exa →
      Jsr.compile b.rootPath = some exb → exa.toks ≠ exb.toks)) :
    Spec.sameOutcome (route E cfg req) (route E cfg' req) := by
  have hk' : cfg'.router = .jsr := by rw [← hperm.1]; exact hk
  unfold route routeTagged
  rw [hk, hk']
  exact Restful.C03_jsr_order_distinct E cfg cfg' hperm (Spec.distinctMethodPath_of_B hd) req hlit hdist

/-! ### F05: ten variable root tokens score like one literal -/

def f05Vars : Str := "/{a}/{b}/{c}/{d}/{e}/{f}/{g}/{h}/{i}/{j}".toList
def f05SvcVars : Service := { id := 0, root := f05Vars, routes :=
  [{ id := 0, method := "GET".toList, relPath := [], consumes := [], produces := [], conds := [], noct := [] }] }
def f05SvcLit : Service := { id := 1, root := "/x".toList, routes :=
  [{ id := 1, method := "GET".toList, relPath := "/{r:*}".toList, consumes := [], produces := [], conds := [], noct := [] }] }
def f05Req : Req := { method := "GET".toList, path := "/x/2/3/4/5/6/7/8/9/10".toList }
def f05E : ReEnv := ⟨fun _ _ => true, fun _ _ => true⟩

/-- the two registration orders of the same two services select different route functions, although
    the roots do not have the same shape (ten variables vs one literal): both score 10 -/
theorem C03_F05_witness :
    (match route f05E { router := .curly, services := [f05SvcVars, f05SvcLit] } f05Req with
      | .selected s _ _ => s | _ => 99) = 0 ∧
    (match route f05E { router := .curly, services := [f05SvcLit, f05SvcVars] } f05Req with
      | .selected s _ _ => s | _ => 99) = 1 ∧
    Spec.hasSameShapeRoots { router := .curly, services := [f05SvcVars, f05SvcLit] } = false ∧
    Spec.scoresSeparateB { router := .curly, services := [f05SvcVars, f05SvcLit] } f05Req = false := by
  decide

/-! ### C03 as a predicate on one outcome (`Spec.c03Holds`, evaluated by the driver on every REAL outcome)

`Spec.c03Holds E cfg req o` (Spec/Order.lean) — when `o = .selected s r ps`, some declaration with
that identity is not beaten by another candidate:
  * no other route of its WebService that admits the URL and is eligible for the request has a
    `moreSpecific` template (CurlyRouter: `readTemplate rt.path` / `Spec.admits E .curly`;
    RouterJSR311: the route-relative tokens matched against what the root leaves of the URL);
  * CurlyRouter: no other WebService whose root claims the URL has a root that is the selected root
    with variables replaced by literals, or a proper extension of it;
  * RouterJSR311: among literal roots none that matches the URL has more literal characters.

Hypotheses: the router kind and `cfg.wfTemplates` only.  `wfTemplates` is what makes the structured
reading of the SELECTED route's template exist (the predicate answers `false` when it cannot read
it); a competitor whose template does not read is not a competitor.  No hypothesis about root
paths is needed: `C03_root_literal_beats_variable` asks for non-empty tokens of the more specific
root, but when both roots claim the same URL that condition is superfluous
(`C03_root_literal_beats_variable_claimed` below: an empty root token is matched by an empty URL
segment only, and there the other root has an empty token too), and
`C03_jsr_literal_root_longest` needs only the two roots compared to be literal, not all of them. -/

/-- `C03_root_literal_beats_variable` without its side condition on empty tokens -/
theorem C03_root_literal_beats_variable_claimed (qs a b : List Str)
    (h : Spec.rootMoreSpecific a b = true) (sa sb : Nat)
    (ha : Curly.wsScore qs a = some sa) (hb : Curly.wsScore qs b = some sb) : sa > sb :=
  Restful.C03_root_literal_beats_variable' qs a b h sa sb ha hb

/-- CurlyRouter: whatever is selected is never less specific than another candidate, at route
    level and at root level -/
theorem C03_holds_curly (cfg : Config) (hwf : cfg.wfTemplates = true) (hk : cfg.router = .curly) (req : Req) :
    Spec.c03Holds E cfg req (route E cfg req) = true := by
  unfold route routeTagged
  rw [hk]
  exact Restful.c03Holds_curly E cfg hwf hk req

/-- RouterJSR311: whatever is selected is never less specific than another candidate of the
    dispatched WebService, and among literal roots the longest matching one is dispatched to -/
theorem C03_holds_jsr (cfg : Config) (hwf : cfg.wfTemplates = true) (hk : cfg.router = .jsr) (req : Req) :
    Spec.c03Holds E cfg req (route E cfg req) = true := by
  unfold route routeTagged
  rw [hk]
  exact Restful.c03Holds_jsr E cfg hwf hk req

/-! ### the witness of the predicate is the route that ran

`Spec.c03Holds` names the route by its two ids.  On a table whose ids identify (`Spec.idsDistinct`,
reported by the driver inside `WF`) exactly one declaration carries them: the predicate is its
clause (`Spec.c03At`: not beaten at route level, not beaten at root level) evaluated at THAT
declaration, and for the model's outcome that declaration is the route object the router returned
(`RouteRan`).  Without the hypothesis a namesake can satisfy it (`C03_ids_witness`). -/

/-- both routers in one statement -/
theorem C03_holds (cfg : Config) (hwf : cfg.wfTemplates = true) (req : Req) :
    Spec.c03Holds E cfg req (route E cfg req) = true := by
  cases hk : cfg.router with
  | curly => exact C03_holds_curly E cfg hwf hk req
  | jsr => exact C03_holds_jsr E cfg hwf hk req

/-- the predicate, evaluated on an observation `.selected s r ps`, is its clause evaluated at THE
    declaration the ids stand for; false when there is none -/
theorem C03_predicate_at (cfg : Config) (hids : Spec.idsDistinct cfg = true) (req : Req) (s r : Nat) (ps : Params) :
    Spec.c03Holds E cfg req (.selected s r ps) =
      (match Spec.routeOfIds cfg s r with
       | some (svc, rt) => Spec.c03At E cfg req svc rt
       | none => false) := by
  rw [Spec.c03Holds_selected, Spec.anyIds_eq hids]
  cases Spec.routeOfIds cfg s r with
  | none => rfl
  | some p => rfl

/-- … in particular no OTHER declaration can satisfy the predicate in the place of the one whose
    function was observed to run -/
theorem C03_predicate_unique (cfg : Config) (hids : Spec.idsDistinct cfg = true) (req : Req)
    (svc : Service) (hsvc : svc ∈ cfg.services) (rt : Route) (hrt : rt ∈ svc.built) (ps : Params) :
    Spec.c03Holds E cfg req (.selected svc.id rt.id ps) = Spec.c03At E cfg req svc rt := by
  rw [Spec.c03Holds_selected, Spec.anyIds_of_mem hids _ hsvc hrt]

/-- **C03 with a unique witness** (both routers): when the model selects `(s, r)`, exactly one
    declaration has these ids, it is the object the router returned, and IT is not beaten: no
    candidate route of its WebService is more specific, no claiming root is more specific than its
    WebService's root (CurlyRouter) / no matching literal root has more literal characters
    (RouterJSR311) -/
theorem C03_holds_unique (cfg : Config) (hwf : cfg.wfTemplates = true) (hids : Spec.idsDistinct cfg = true)
    (req : Req) (s r : Nat) (ps : Params) (h : route E cfg req = .selected s r ps) :
    ∃ svc ∈ cfg.services, ∃ rt ∈ svc.built, RouteRan E cfg req svc rt ∧ svc.id = s ∧ rt.id = r ∧
      (∀ svc' ∈ cfg.services, svc'.id = s → svc' = svc) ∧
      (∀ svc' ∈ cfg.services, ∀ rt' ∈ svc'.built, svc'.id = s → rt'.id = r → rt' = rt) ∧
      (cfg.router = .curly → Spec.curlyRouteOK E svc rt req = true ∧ Spec.curlyRootOK E cfg svc req = true) ∧
      (cfg.router = .jsr → Spec.jsrRouteOK E svc rt req = true ∧ Spec.jsrRootOK E cfg svc req = true) := by
  obtain ⟨svc, hsvc, rt, hrt, hran, hs, hr, _, hof, hu1, hu2⟩ := route_selected_unique E hids h
  refine ⟨svc, hsvc, rt, hrt, hran, hs, hr, hu1, hu2, ?_⟩
  have hp := C03_holds E cfg hwf req
  rw [h, C03_predicate_at E cfg hids, hof] at hp
  simp only [Spec.c03At] at hp
  constructor
  · intro hk
    rw [hk] at hp
    simpa using hp
  · intro hk
    rw [hk] at hp
    simpa using hp

/-! ### order independence without panics

`Spec.sameOutcome (.panic _) (.panic _)` is true: the order theorems above do not exclude that both
registrations panic.  On a table in the grammar (`wfTemplates`, and the root of a route-less service
reads: `rootsRead`, the hypotheses of `C02_total`) neither side panics, so "the same outcome" is a
statement about selected routes and error statuses only; and on a table whose ids identify, "the
same ids" is "the same route object" (`C03_order_same_route`). -/

/-- the three ways two panic-free outcomes can be the same for a client -/
def SameRouted (a b : Outcome) : Prop :=
  (∃ s r ps, a = .selected s r ps ∧ b = .selected s r ps) ∨
  (∃ c, a = .error c none ∧ b = .error c none) ∨
  (∃ c al al', a = .error c (some al) ∧ b = .error c (some al') ∧ ∀ m, m ∈ al ↔ m ∈ al')

/-- CurlyRouter, registration order, no panic on either side (needs `scoresSeparate`: F05, as
    `C03_curly_order_partial`) -/
theorem C03_curly_order_nopanic_partial (cfg cfg' : Config) (hk : cfg.router = .curly) (hperm : Spec.CfgPerm cfg cfg')
    (hwf : cfg.wfTemplates = true) (hroots : Curly.rootsRead cfg = true)
    (hd : Spec.distinctMethodPathB cfg = true) (req : Req) (hs : Spec.scoresSeparateB cfg req = true) :
    (∀ w, route E cfg req ≠ .panic w) ∧ (∀ w, route E cfg' req ≠ .panic w) ∧
      SameRouted (route E cfg req) (route E cfg' req) := by
  have hnp := Restful.C02_total E cfg hwf (fun hj => by rw [hk] at hj; cases hj) (fun _ => hroots) req
  have hso := C03_curly_order_partial E cfg cfg' hk hperm hd req hs
  exact ⟨hnp, Spec.sameOutcome_not_panic_right hso hnp, Spec.sameOutcome_cases hso hnp⟩

/-- the same under separation of the CLAIMED scores only (`C03_curly_order_claimed_partial`) -/
theorem C03_curly_order_claimed_nopanic_partial (cfg cfg' : Config) (hk : cfg.router = .curly)
    (hperm : Spec.CfgPerm cfg cfg') (hwf : cfg.wfTemplates = true) (hroots : Curly.rootsRead cfg = true)
    (hd : Spec.distinctMethodPathB cfg = true) (req : Req) (hs : Curly.ScoresSeparateE E cfg req) :
    (∀ w, route E cfg req ≠ .panic w) ∧ (∀ w, route E cfg' req ≠ .panic w) ∧
      SameRouted (route E cfg req) (route E cfg' req) := by
  have hnp := Restful.C02_total E cfg hwf (fun hj => by rw [hk] at hj; cases hj) (fun _ => hroots) req
  have hso := C03_curly_order_claimed_partial E cfg cfg' hk hperm hd req hs
  exact ⟨hnp, Spec.sameOutcome_not_panic_right hso hnp, Spec.sameOutcome_cases hso hnp⟩

/-- RouterJSR311 with literal, pairwise different root paths: registration order does not matter
    and neither side panics (full statement: only the property's own exclusions and the grammar) -/
theorem C03_jsr_order_nopanic (cfg cfg' : Config) (hk : cfg.router = .jsr) (hperm : Spec.CfgPerm cfg cfg')
    (hwf : cfg.wfTemplates = true) (hroots : Jsr.rootsRead cfg = true)
    (hd : Spec.distinctMethodPathB cfg = true) (req : Req)
    (hlit : ∀ s ∈ cfg.services, ∀ ex, Jsr.compile s.rootPath = some ex → ∀ t ∈ ex.toks, ∃ l, t = .lit l)
    (hdist : cfg.services.Pairwise (fun a b => ∀ exa exb, Jsr.compile a.rootPath = some exa →
      Jsr.compile b.rootPath = some exb → exa.toks ≠ exb.toks)) :
    (∀ w, route E cfg req ≠ .panic w) ∧ (∀ w, route E cfg' req ≠ .panic w) ∧
      SameRouted (route E cfg req) (route E cfg' req) := by
  have hnp := Restful.C02_total E cfg hwf (fun _ => hroots) (fun hc => by rw [hk] at hc; cases hc) req
  have hso := C03_jsr_order E cfg cfg' hk hperm hd req hlit hdist
  exact ⟨hnp, Spec.sameOutcome_not_panic_right hso hnp, Spec.sameOutcome_cases hso hnp⟩

/-- on a table whose ids identify, two registrations that select the same pair of ids run the same
    route OBJECT (either router; `CfgPerm` keeps ids, so `idsDistinct` need only be asked of one side) -/
theorem C03_order_same_route (cfg cfg' : Config) (hperm : Spec.CfgPerm cfg cfg') (hids : Spec.idsDistinct cfg = true)
    (req : Req) (s r : Nat) (ps ps' : Params)
    (h : route E cfg req = .selected s r ps) (h' : route E cfg' req = .selected s r ps') :
    ∃ svc ∈ cfg.services, ∃ svc' ∈ cfg'.services, ∃ rt, rt ∈ svc.built ∧ rt ∈ svc'.built ∧ svc.id = s ∧ svc'.id = s ∧
      rt.id = r ∧ RouteRan E cfg req svc rt ∧ RouteRan E cfg' req svc' rt :=
  route_same_object_of_perm E hperm hids h h'

/-- non-vacuity (CurlyRouter): `/users` (GET /{id}, GET /me, POST /{id}) and `/{tenant}` (GET /{thing}),
    request GET /users/me.  The table is well formed; BOTH roots claim the URL and the literal one is
    `rootMoreSpecific`; in `/users` TWO routes are candidates (`/{id}` and `/me`); the model selects
    the literal route 11, of which the predicate holds — and it is falsified by each less specific
    choice: route 10 (`/{id}`) of the same service, and route 20 of the variable root. -/
example :
    C03Example.cfg.wfTemplates = true ∧ C03Example.cfg.router = .curly ∧
    (Spec.rootCandidates C03Example.E0 C03Example.cfg C03Example.req).map (·.id) = [1, 2] ∧
    Spec.rootMoreSpecific (tokenize C03Example.users.rootPath) (tokenize C03Example.tenants.rootPath) = true ∧
    (Spec.routeCandidates C03Example.E0 .curly C03Example.users C03Example.req).map (·.id) = [10, 11] ∧
    route C03Example.E0 C03Example.cfg C03Example.req = .selected 1 11 [] ∧
    Spec.c03Holds C03Example.E0 C03Example.cfg C03Example.req (route C03Example.E0 C03Example.cfg C03Example.req) = true ∧
    Spec.c03Holds C03Example.E0 C03Example.cfg C03Example.req (.selected 1 10 [("id".toList, "me".toList)]) = false ∧
    Spec.c03Holds C03Example.E0 C03Example.cfg C03Example.req
      (.selected 2 20 [("tenant".toList, "users".toList), ("thing".toList, "me".toList)]) = false := by
  decide

/-- a longer root: `/users/admin` next to `/users`; a request below both is not to be served by the prefix -/
def curlyNested : Config := { router := .curly, services := [C03JsrExample.users, C03JsrExample.admin] }

example :
    curlyNested.wfTemplates = true ∧
    (Spec.rootCandidates C03Example.E0 curlyNested C03JsrExample.req).map (·.id) = [1, 2] ∧
    Spec.rootProperExtension (tokenize C03JsrExample.admin.rootPath) (tokenize C03JsrExample.users.rootPath) = true ∧
    route C03Example.E0 curlyNested C03JsrExample.req = .selected 2 21 [] ∧
    Spec.c03Holds C03Example.E0 curlyNested C03JsrExample.req (route C03Example.E0 curlyNested C03JsrExample.req) = true := by
  decide

/-- non-vacuity (RouterJSR311): `/users` (GET /{id}, GET /me, POST /{id}) and `/users/admin`
    (GET /{thing}, GET /x), request GET /users/admin/x.  Both literal roots match the URL; in
    `/users/admin` TWO routes are candidates; the model selects the literal route 21 of the longer
    root; the predicate holds of it and is falsified by the variable route 20 of the same service. -/
example :
    C03JsrExample.cfg.wfTemplates = true ∧ C03JsrExample.cfg.router = .jsr ∧
    (Spec.rootCandidates C03Example.E0 C03JsrExample.cfg C03JsrExample.req).map
      (fun s => (s.id, (Spec.jsrLiteralRoot s).map (·.literalCount))) = [(1, some 5), (2, some 10)] ∧
    (Spec.routeCandidates C03Example.E0 .jsr C03JsrExample.admin C03JsrExample.req).map (·.id) = [20, 21] ∧
    route C03Example.E0 C03JsrExample.cfg C03JsrExample.req = .selected 2 21 [] ∧
    Spec.c03Holds C03Example.E0 C03JsrExample.cfg C03JsrExample.req
      (route C03Example.E0 C03JsrExample.cfg C03JsrExample.req) = true ∧
    Spec.c03Holds C03Example.E0 C03JsrExample.cfg C03JsrExample.req
      (.selected 2 20 [("thing".toList, "x".toList)]) = false := by
  decide

/-- the root-level clause discriminates too: GET /users/admin is matched by both roots; the longer
    root `/users/admin` is dispatched to and has no route for it (404).  An implementation that
    answered from the prefix root `/users` (route 10, `/{id}` = "admin") would falsify the predicate. -/
example :
    route C03Example.E0 C03JsrExample.cfg { method := "GET".toList, path := "/users/admin".toList } = .error 404 none ∧
    Spec.c03Holds C03Example.E0 C03JsrExample.cfg { method := "GET".toList, path := "/users/admin".toList }
      (.selected 1 10 [("id".toList, "admin".toList)]) = false := by
  decide

/-! #### RouterJSR311 and root paths with variables: outside the predicate, and why

The property says "among WebService root paths a literal beats a variable".  RouterJSR311 ranks its
dispatcher candidates by the number of capture groups FIRST (jsr311.go:305 `matchesCount`, then
literal characters): a root with a variable beats a literal root that matches the same URL.  So
that clause is false for RouterJSR311 as soon as a root has a variable; the root-level clause of
`Spec.c03Holds` for RouterJSR311 therefore speaks about literal roots only (as `C03_jsr_order`
does), and the witness is recorded here instead of being silently dropped. -/

def jsrVarRootCfg : Config := { router := .jsr, services :=
  [{ id := 1, root := "/{x}".toList, routes := [C03Example.rGet 10 "/b"] },
   { id := 2, root := "/a".toList, routes := [C03Example.rGet 20 "/b"] }] }

/-- RouterJSR311 dispatches GET /a/b to the root `/{x}` although the literal root `/a` matches
    (in either registration order); CurlyRouter, on the same table, dispatches to `/a` -/
theorem C03_jsr_variable_root_witness :
    route C03Example.E0 jsrVarRootCfg { method := "GET".toList, path := "/a/b".toList } =
      .selected 1 10 [("x".toList, "a".toList)] ∧
    route C03Example.E0 { jsrVarRootCfg with services := jsrVarRootCfg.services.reverse }
      { method := "GET".toList, path := "/a/b".toList } = .selected 1 10 [("x".toList, "a".toList)] ∧
    route C03Example.E0 { jsrVarRootCfg with router := .curly } { method := "GET".toList, path := "/a/b".toList } =
      .selected 2 20 [] ∧
    Spec.rootMoreSpecific (tokenize "/a".toList) (tokenize "/{x}".toList) = true := by
  decide

/-! ### non-vacuity (audit): every theorem of this file instantiated on the concrete tables
`C03Example` (Lemmas/Order.lean: `/users` with GET `/{id}`, GET `/me`, POST `/{id}`; `/{tenant}` with
GET `/{thing}`; request GET /users/me; `cfg'` = the same services and routes in another order) and
`C03JsrExample` (Lemmas/OrderJsr.lean: `/users`, `/users/admin`; request GET /users/admin/x), each
hypothesis discharged by `decide` or by the lemmas proved there. -/
namespace C03Audit
open C03Example (E0)

/-- the two templates competing for GET /users/me, as the checked reading gives them -/
def tsMe : List TTok := [⟨.lit "users".toList, none⟩, ⟨.lit "me".toList, none⟩]
def tsId : List TTok := [⟨.lit "users".toList, none⟩, ⟨.var "id".toList, none⟩]

example : readTemplate "/users/me".toList = some tsMe ∧ readTemplate "/users/{id}".toList = some tsId ∧
    Spec.moreSpecific tsMe tsId = true ∧ Spec.moreSpecific tsId tsMe = false ∧ Spec.moreSpecific tsMe tsMe = false := by
  decide
/-- `C03_curly_key` -/
example : staticCount tsMe > staticCount tsId := C03_curly_key tsMe tsId (by decide)

/-- the request's segments and three roots: `/users`, `/{tenant}`, `/users/me` -/
def qs : List Str := tokenize "/users/me".toList
def rUsers : List Str := tokenize "/users".toList
def rTenant : List Str := tokenize "/{tenant}".toList
def rUsersMe : List Str := tokenize "/users/me".toList

example : Curly.wsScore qs rUsers = some 10 ∧ Curly.wsScore qs rTenant = some 1 ∧ Curly.wsScore qs rUsersMe = some 30 ∧
    Curly.wsScoreE E0 qs rUsers = .yes 10 ∧ Curly.wsScoreE E0 qs rTenant = .yes 1 ∧ Curly.wsScoreE E0 qs rUsersMe = .yes 30 ∧
    Spec.rootMoreSpecific rUsers rTenant = true ∧ rUsers <+: rUsersMe ∧ rUsers ≠ rUsersMe := by
  decide
/-- `C03_root_literal_beats_variable`, `…_claimed`, `C03_rootE_literal_beats_variable` -/
example : 10 > 1 := C03_root_literal_beats_variable qs rUsers rTenant (by decide) (by decide) 10 1 (by decide) (by decide)
example : 10 > 1 := C03_root_literal_beats_variable_claimed qs rUsers rTenant (by decide) 10 1 (by decide) (by decide)
example : 10 > 1 := C03_rootE_literal_beats_variable E0 qs rUsers rTenant (by decide) (by decide) 10 1 (by decide) (by decide)
/-- `C03_root_longer_beats_prefix`, `C03_rootE_longer_beats_prefix` -/
example : 30 > 10 := C03_root_longer_beats_prefix qs rUsersMe rUsers (by decide) (by decide) 30 10 (by decide) (by decide)
example : 30 > 10 := C03_rootE_longer_beats_prefix E0 qs rUsersMe rUsers (by decide) (by decide) 30 10 (by decide) (by decide)
/-- `C03_claimed_score` -/
example : Curly.wsScore qs rUsers = some 10 := C03_claimed_score E0 qs rUsers 10 (by decide)

/-- `C03_best_service`: two roots claim GET /users/me, the literal one (score 10 against 1) is consulted -/
example : C03Example.users ∈ C03Example.cfg.services ∧
    Curly.wsScoreE E0 qs (tokenize C03Example.users.rootPath) = .yes 10 ∧
    ∀ s' ∈ C03Example.cfg.services, ∀ sc', Curly.wsScoreE E0 qs (tokenize s'.rootPath) = .yes sc' → sc' ≤ 10 :=
  C03_best_service E0 qs C03Example.cfg.services C03Example.users 10 (by decide)

/-- `C03_no_service`, both directions inhabited: no root of `/users`, `/users/admin` claims /orgs/1 … -/
example : ∀ s ∈ curlyNested.services, Curly.wsScoreE E0 (tokenize "/orgs/1".toList) (tokenize s.rootPath) = .no :=
  (C03_no_service E0 _ _).mp (by decide)
/-- … and some root claims /users/me, so a service is consulted -/
example : Curly.detectWebService E0 qs curlyNested.services none ≠ some none := by decide

/-- `C03_curly_never_less_specific` (hypotheses: well-formed, CurlyRouter, a route was selected —
    two routes of `/users` were candidates, see the example below `C03_holds_jsr`) -/
example := C03_curly_never_less_specific E0 C03Example.cfg (by decide) rfl C03Example.req 1 11 [] (by decide)

/-- `C03_holds_curly`, `C03_holds_jsr` on the instances of the examples above -/
example : Spec.c03Holds E0 C03Example.cfg C03Example.req (route E0 C03Example.cfg C03Example.req) = true :=
  C03_holds_curly E0 C03Example.cfg (by decide) rfl C03Example.req
example : Spec.c03Holds E0 C03JsrExample.cfg C03JsrExample.req (route E0 C03JsrExample.cfg C03JsrExample.req) = true :=
  C03_holds_jsr E0 C03JsrExample.cfg (by decide) rfl C03JsrExample.req

/-- `C03_curly_order_claimed_partial` and `C03_curly_order_partial`: the two registrations differ,
    both roots claim the request, a route is selected -/
example : Spec.distinctMethodPathB C03Example.cfg = true ∧ Spec.scoresSeparateB C03Example.cfg C03Example.req = true ∧
    C03Example.cfg ≠ C03Example.cfg' ∧ route E0 C03Example.cfg C03Example.req = .selected 1 11 [] ∧
    route E0 C03Example.cfg' C03Example.req = .selected 1 11 [] := by
  decide
example : Spec.sameOutcome (route E0 C03Example.cfg C03Example.req) (route E0 C03Example.cfg' C03Example.req) :=
  C03_curly_order_claimed_partial E0 C03Example.cfg C03Example.cfg' rfl C03Example.cfgPerm (by decide) C03Example.req
    (Curly.scoresSeparateE_of E0 C03Example.separate)
example : Spec.sameOutcome (route E0 C03Example.cfg C03Example.req) (route E0 C03Example.cfg' C03Example.req) :=
  C03_curly_order_partial E0 C03Example.cfg C03Example.cfg' rfl C03Example.cfgPerm (by decide) C03Example.req (by decide)

/-- `Spec.sameOutcome` is not trivially true: it separates two different routes, a route from an
    error, two Allow sets -/
example : ¬ Spec.sameOutcome (.selected 1 11 []) (.selected 1 10 [("id".toList, "me".toList)]) ∧
    ¬ Spec.sameOutcome (.selected 1 11 []) (.error 404 none) ∧
    ¬ Spec.sameOutcome (.error 405 (some ["GET".toList])) (.error 405 (some ["GET".toList, "PUT".toList])) := by
  refine ⟨by simp [Spec.sameOutcome], by simp [Spec.sameOutcome], ?_⟩
  simp only [Spec.sameOutcome, true_and]
  intro h
  exact absurd ((h "PUT".toList).mpr (by decide)) (by decide)

/-- `C03_jsr_never_less_specific` (two routes of `/users/admin` were candidates) -/
example := C03_jsr_never_less_specific E0 C03JsrExample.cfg rfl C03JsrExample.req 2 21 [] (by decide)

/-- `C03_jsr_literal_root_longest`: both literal roots match GET /users/admin/x, the longer one is dispatched to -/
example := C03_jsr_literal_root_longest E0 C03JsrExample.cfg.services C03JsrExample.req.path C03JsrExample.admin
  "/x".toList C03JsrExample.literalRoots (by decide)

/-- the last hypothesis of `C03_jsr_order` on `C03JsrExample.cfg`: the compiled roots are different -/
theorem rootsDiffer : C03JsrExample.cfg.services.Pairwise (fun a b => ∀ exa exb, Jsr.compile a.rootPath = some exa →
    Jsr.compile b.rootPath = some exb → exa.toks ≠ exb.toks) := by
  simp only [C03JsrExample.cfg, List.pairwise_cons, List.mem_cons, List.not_mem_nil, or_false, forall_eq,
    false_imp_iff, implies_true, List.Pairwise.nil, and_true]
  intro exa exb ha hb
  rw [C03JsrExample.cUsers] at ha
  rw [C03JsrExample.cAdmin] at hb
  cases ha
  cases hb
  decide

/-- `C03_jsr_order` with all five hypotheses; the registrations differ and a route is selected -/
example : Spec.sameOutcome (route E0 C03JsrExample.cfg C03JsrExample.req) (route E0 C03JsrExample.cfg' C03JsrExample.req) :=
  C03_jsr_order E0 C03JsrExample.cfg C03JsrExample.cfg' rfl C03JsrExample.cfgPerm (by decide) C03JsrExample.req
    C03JsrExample.literalRoots rootsDiffer
example : C03JsrExample.cfg ≠ C03JsrExample.cfg' ∧
    route E0 C03JsrExample.cfg C03JsrExample.req = .selected 2 21 [] ∧
    route E0 C03JsrExample.cfg' C03JsrExample.req = .selected 2 21 [] := by
  decide

/-- `C03_holds_unique`, `C03_predicate_at` on these instances (ids identify, templates read, a route
    function runs) -/
example : Spec.idsDistinct C03Example.cfg = true ∧ Spec.idsDistinct C03JsrExample.cfg = true := by decide
example := C03_holds_unique E0 C03Example.cfg (by decide) (by decide) C03Example.req 1 11 [] (by decide)
example := C03_holds_unique E0 C03JsrExample.cfg (by decide) (by decide) C03JsrExample.req 2 21 [] (by decide)
example : Spec.c03Holds E0 C03Example.cfg C03Example.req (.selected 1 10 [("id".toList, "me".toList)]) = false := by
  rw [C03_predicate_at E0 C03Example.cfg (by decide)]
  decide

/-- `C03_curly_order_nopanic_partial`, `C03_curly_order_claimed_nopanic_partial`, `C03_jsr_order_nopanic`,
    `C03_order_same_route` with all their hypotheses (the root hypotheses hold: every service has routes) -/
example : Curly.rootsRead C03Example.cfg = true ∧ Jsr.rootsRead C03JsrExample.cfg = true := by decide
example := C03_curly_order_nopanic_partial E0 C03Example.cfg C03Example.cfg' rfl C03Example.cfgPerm (by decide) (by decide)
  (by decide) C03Example.req (by decide)
example := C03_curly_order_claimed_nopanic_partial E0 C03Example.cfg C03Example.cfg' rfl C03Example.cfgPerm (by decide)
  (by decide) (by decide) C03Example.req (Curly.scoresSeparateE_of E0 C03Example.separate)
example := C03_jsr_order_nopanic E0 C03JsrExample.cfg C03JsrExample.cfg' rfl C03JsrExample.cfgPerm (by decide) (by decide)
  (by decide) C03JsrExample.req C03JsrExample.literalRoots rootsDiffer
example := C03_order_same_route E0 C03Example.cfg C03Example.cfg' C03Example.cfgPerm (by decide) C03Example.req 1 11 [] []
  (by decide) (by decide)

/-- `SameRouted` is not trivially true, and excludes what `Spec.sameOutcome` admits: two panics -/
example : ¬ SameRouted (.panic "a") (.panic "a") ∧ Spec.sameOutcome (.panic "a") (.panic "a") ∧
    ¬ SameRouted (.selected 1 11 []) (.selected 1 10 []) ∧ ¬ SameRouted (.selected 1 11 []) (.error 404 none) := by
  refine ⟨?_, trivial, ?_, ?_⟩ <;>
    (rintro (⟨_, _, _, h1, h2⟩ | ⟨_, h1, h2⟩ | ⟨_, _, _, h1, h2, _⟩) <;> cases h1 <;> cases h2)

/-- two routes of `/users` share id 10: `/{id}` and `/me` -/
def cfgDup : Config := { router := .curly, services :=
  [{ id := 1, root := "/users".toList, routes := [C03Example.rGet 10 "/{id}", C03Example.rGet 10 "/me"] }] }

end C03Audit

/-- without `idsDistinct` the predicate can be satisfied by a namesake: for GET /users/me the
    observation "function 10 of service 1 ran" satisfies the predicate through the literal route
    `/me` (id 10), while the first declaration with these ids, `/{id}`, is beaten by it -/
theorem C03_ids_witness :
    C03Audit.cfgDup.wfTemplates = true ∧ Spec.idsDistinct C03Audit.cfgDup = false ∧
    (Spec.routeOfIds C03Audit.cfgDup 1 10).map (·.2.path) = some "/users/{id}".toList ∧
    Spec.c03Holds C03Example.E0 C03Audit.cfgDup C03Example.req (.selected 1 10 [("id".toList, "me".toList)]) = true ∧
    (Spec.routeOfIds C03Audit.cfgDup 1 10).map (fun p =>
      Spec.c03At C03Example.E0 C03Audit.cfgDup C03Example.req p.1 p.2) = some false := by
  decide

/-! The frame condition (Lemmas/StateShape.lean): the code has exactly the state this property's model
    accounts for — no further package-level variable, struct type or field; constants as modelled. -/
-- also: Restful.route_selected_ran
-- also: Restful.route_selected_unique
-- also: Restful.route_same_object_of_perm
-- also: Restful.Spec.anyIds_eq
-- also: Restful.Spec.sameOutcome_cases
-- also: Restful.Spec.sameOutcome_not_panic_right
-- also: Restful.StateShape.globals_shape
-- also: Restful.StateShape.consts_shape
-- also: Restful.StateShape.routing_shape

/-! The regenerated tie (tools/gotrans → Gen/Translated.lean, Lemmas/Tie*.lean): the decision
    functions this property's model contains ARE the ones translated from the Go sources on this run. -/
-- also: Restful.Tie.curly_less
-- also: Restful.Tie.jsr_route_less
-- also: Restful.Tie.jsr_dispatcher_less
-- also: Restful.Tie.sort_call_sites

end Props
end Restful

-- the imperative functions this property's model rests on, tied to their statement-by-statement
-- translation (tools/goimp, Gen/Imp.lean, regenerated on every run):
-- also: Restful.TieImp.T2.webservice_score
-- also: Restful.TieImp.match_tokens
-- also: Restful.TieImp.template_to_regex
-- also: Restful.TieImp.detect_web_service
-- also: Restful.TieImp.select_routes
-- also: Restful.TieImp.jsr_select_routes
-- also: Restful.TieImp.jsr_detect_dispatcher
-- also: Restful.TieImp.routeCurly_eq_sel
-- also: Restful.TieImp.curly_select_route
-- also: Restful.TieImp.jsr_select_route
