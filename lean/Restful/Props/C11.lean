/-
C11 — registration state equals what a fresh container with the same content has.

`Registry.run k ops` is the model of a container after the operations `ops` (`Add`, `Remove`, `Route`,
`RemoveRoute`, `Handle`/`HandleWithFilter`; container.go, web_service.go, tied to /repo by the
correspondence stream `registry`); `Registry.fresh (content st)` is a new container to which the
final services were added in order and the plain handlers registered; `Registry.answer` is what a
request is answered with through `Dispatch` resp. `ServeHTTP` (ServeMux model: `Model/Mux.lean`).
All theorems quantify over every operation sequence, every request and every regular-expression
oracle `E`; there is no bound on lengths.

THE FULL STATEMENTS (what the property says):

  theorem C11_serve (h : run k ops = .ok st) :
      ∃ st', fresh (content st) = .ok st' ∧ ∀ e req, answer E st e req = answer E st' e req

  theorem C11_add_total (hd : Spec.distinctB (roots svcs) = true) :
      ∃ st, run k (svcs.map .add) = .ok st

* `C11_add_total` is PROVED as stated since the repair 093fa53 (`addHandler` collects the ServeMux
  patterns of the WebServices registered before and adds only the missing ones): services with
  pairwise different root paths can be added in any number and order, whatever prefixes they share.
  It was `C11_add_total_partial` before, with the hypothesis `Spec.F11 (roots svcs) = false` (no two
  services want the same ServeMux pattern — finding F11: `/users` + `/users/{id}/b`, `/a` + `/a/`);
  `C11_F11_fixed` is the former witness, on which the property now holds (the harness replays it as
  a regression).  `Spec.F11` is still defined, as a class whose coverage the check measures; no
  theorem assumes it.
  What can still make a registration fail is stated exactly (`C11_add_panics_only`,
  `C11_add_after_history`, `C11_remove_total`, `C11_registration_clash_witness`):
    - a root path the container already holds: `os.Exit(1)` in the real code (`Panic.exit`);
    - a pattern of the new service on which a plain handler registered through `Handle` /
      `HandleWithFilter` sits on the current ServeMux (and `Handle` on a pattern in use): the
      "multiple registrations" panic of `net/http.ServeMux`, documented behaviour of `Handle`;
    - `Remove` never fails.
* `C11_serve` is still FALSE for the code as it is: it fails when a `Handle` precedes a `Remove`
  (finding F10b, `C11_F10b_witness`): `Remove` builds a new ServeMux and re-registers the WebServices
  only.  `C11_serve_partial` is the statement under the hypothesis the proof forces,
  `Spec.F10b ops = false`.
`C11_dispatch` (through `Dispatch`) holds without any hypothesis on the history.
-/
import Restful.Lemmas.RegistryTotal
import Restful.Lemmas.StateShape
import Restful.Lemmas.TieImpPrefix
import Restful.Lemmas.TieImpRegistry
import Restful.Lemmas.TieImpBuild
import Restful.Lemmas.TieImpAdd
import Restful.Lemmas.TieImpSvcPath
namespace Restful
namespace Props
open Registry
variable (E : ReEnv)

/-! ### through `Dispatch` -/

/-- Through `Dispatch`, after ANY history that does not panic, the container answers every request
    exactly as a newly built container with the same content (whenever that container can be built):
    removed services and routes are unreachable, everything else is reachable. -/
theorem C11_dispatch (k : RouterKind) (ops : List Op) (st st' : State) (h : run k ops = .ok st)
    (hf : fresh (content st) = .ok st') (req : Req) :
    answer E st .dispatch req = answer E st' .dispatch req := by
  have hr : st'.router = st.router := by
    have := runFrom_router hf
    simpa [init, content] using this
  have hs : st'.services = st.services := by
    unfold fresh run Content.ops at hf
    rw [runFrom_append] at hf
    cases ha : runFrom (init (content st).router) ((content st).services.map .add) with
    | error e => rw [ha] at hf; cases hf
    | ok s1 =>
      rw [ha] at hf
      rw [services_of_handles hf, services_of_adds ha]
      simp [init, content]
  have _ := h
  simp only [answer, State.config, hr, hs]

/-- The services alone can always be rebuilt: a new container to which the final services are added
    in order never panics, and answers like the history-built one through `Dispatch`. -/
theorem C11_dispatch_services (k : RouterKind) (ops : List Op) (st : State) (h : run k ops = .ok st) :
    ∃ st', fresh ⟨st.router, st.services, []⟩ = .ok st' ∧
      ∀ req, answer E st .dispatch req = answer E st' .dispatch req := by
  refine ⟨_, fresh_services_ok (run_inv h), ?_⟩
  intro req
  simp [answer, State.config, freshState]

/-! ### through `ServeHTTP` -/

/-- F10b excluded: if no `Handle` precedes a `Remove`, the fresh container can be built and both entry
    points answer every request exactly as the history-built container does. -/
theorem C11_serve_partial (k : RouterKind) (ops : List Op) (st : State) (hno : Spec.F10b ops = false)
    (h : run k ops = .ok st) :
    ∃ st', fresh (content st) = .ok st' ∧ ∀ e req, answer E st e req = answer E st' e req := by
  have inv := run_inv h
  have hl : st.live = st.handlers := by
    refine live_eq_handlers (seen := false) h rfl (fun _ => rfl) ?_
    simpa [Spec.F10b] using hno
  refine ⟨freshState st, fresh_ok inv hl, ?_⟩
  intro e req
  have hmux : Mux.lookup st.mux req.method req.path = Mux.lookup (freshState st).mux req.method req.path := by
    apply Mux.lookup_perm _ inv.keys
    simpa [freshState, hl] using inv.perm
  cases e with
  | dispatch => simp [answer, State.config, freshState]
  | serveHTTP =>
    simp only [answer, hmux]
    rfl

/-- the same as a statement about the predicate the check evaluates on the real containers -/
theorem C11_partial (k : RouterKind) (ops : List Op) (st : State) (hno : Spec.F10b ops = false)
    (h : run k ops = .ok st) (req : Req) :
    Spec.c11Holds ⟨answer E st .dispatch req, answerOf E (fresh (content st)) .dispatch req,
                   answer E st .serveHTTP req, answerOf E (fresh (content st)) .serveHTTP req⟩ = true := by
  obtain ⟨st', hf, ha⟩ := C11_serve_partial E k ops st hno h
  simp [Spec.c11Holds, hf, answerOf, ha]

/-! ### `Add` and `Remove` are total -/

/-- Services with pairwise different root paths can be added to a new container, in any number and
    order, without panic or exit — whatever fixed prefixes the root paths share. -/
theorem C11_add_total (k : RouterKind) (svcs : List Svc) (hd : Spec.distinctB (roots svcs) = true) :
    ∃ st, run k (svcs.map .add) = .ok st ∧ st.services = svcs := by
  refine ⟨_, runFrom_adds svcs (init k) (by simp [init, roots, Spec.regFrom]) (by simp [init, roots, Spec.flagFrom])
    (by simpa [init] using (distinctB_iff _).mp hd), ?_⟩
  simp [init]

/-- ... and that is all: a sequence of `Add`s on a new container fails exactly when two of the root
    paths are equal, and then with `os.Exit(1)`, never with a panic of the ServeMux. -/
theorem C11_add_total_iff (k : RouterKind) (svcs : List Svc) :
    (∃ st, run k (svcs.map .add) = .ok st) ↔ Spec.distinctB (roots svcs) = true := by
  constructor
  · rintro ⟨st, h⟩
    have := (run_inv h).rootsNodup
    rw [services_of_adds h] at this
    exact (distinctB_iff _).mpr (by simpa [init] using this)
  · intro hd
    obtain ⟨st, h, _⟩ := C11_add_total k svcs hd
    exact ⟨st, h⟩

theorem C11_add_only_exit (k : RouterKind) (svcs : List Svc) (e : Panic) (h : run k (svcs.map .add) = .error e) :
    e = .exit ∧ Spec.distinctB (roots svcs) = false := by
  refine ⟨runFrom_adds_error (init_inv k) rfl h, ?_⟩
  cases hd : Spec.distinctB (roots svcs) with
  | false => rfl
  | true =>
    obtain ⟨st, hr, _⟩ := C11_add_total k svcs hd
    rw [hr] at h
    cases h

/-- the add-total clause as the predicate the check evaluates on a real panic -/
theorem C11_add_total_spec (k : RouterKind) (svcs : List Svc) :
    Spec.c11AddTotalHolds (roots svcs) []
      (match run k (svcs.map .add) with | .ok _ => false | .error _ => true) = true := by
  cases hd : Spec.distinctB (roots svcs) with
  | false => simp [Spec.c11AddTotalHolds, hd]
  | true =>
    obtain ⟨st, hr, _⟩ := C11_add_total k svcs hd
    simp [Spec.c11AddTotalHolds, hr]

/-- also in the middle of a history: adding a service with a new root path to a container that did
    not panic so far succeeds, unless a plain handler registered on the current ServeMux sits on one
    of its patterns (documented behaviour of `Handle`). -/
theorem C11_add_after_history (k : RouterKind) (ops : List Op) (st : State) (s : Svc)
    (h : run k ops = .ok st) (hnew : s.root ∉ roots st.services)
    (hp : ∀ p ∈ Spec.regPatterns s.root, p ∉ st.live.map (·.1)) :
    ∃ st', step st (.add s) = .ok st' ∧ st'.services = st.services ++ [s] :=
  ⟨_, step_add_ok (run_inv h) hnew hp, rfl⟩

/-- what can still make `Add` fail, exactly: the root path is taken (`os.Exit(1)` in the real code),
    or the ServeMux refuses ("multiple registrations") a pattern of the service on which a live plain
    handler sits. -/
theorem C11_add_panics_only (k : RouterKind) (ops : List Op) (st : State) (s : Svc) (e : Panic)
    (h : run k ops = .ok st) (he : step st (.add s) = .error e) :
    (e = .exit ∧ s.root ∈ roots st.services) ∨
    (st.onRoot = false ∧ ∃ p, e = .mux (.multiple p) ∧ p ∈ Spec.regPatterns s.root ∧ p ∈ st.live.map (·.1)) :=
  step_add_error (run_inv h) he

/-- the same as the predicate the check evaluates on a real panic of an `Add` in the middle of a
    history (`plain`: any list holding the patterns of the live plain handlers — the check passes
    every pattern the user registered so far). -/
theorem C11_add_spec (k : RouterKind) (ops : List Op) (st : State) (s : Svc) (plain : List Str)
    (h : run k ops = .ok st) (hpl : ∀ p ∈ st.live.map (·.1), p ∈ plain) :
    Spec.c11AddTotalHolds (roots st.services ++ [s.root]) plain
      (match step st (.add s) with | .ok _ => false | .error _ => true) = true := by
  have inv := run_inv h
  cases hs : step st (.add s) with
  | ok st' => simp [Spec.c11AddTotalHolds]
  | error e =>
    simp only [Spec.c11AddTotalHolds, Bool.not_true, Bool.false_or, Bool.or_eq_true, Bool.not_eq_true',
      List.any_eq_true, List.contains_eq_mem, decide_eq_true_eq]
    rcases step_add_error inv hs with ⟨_, hm⟩ | ⟨ho, p, _, hp, hl⟩
    · left
      cases hd : Spec.distinctB (roots st.services ++ [s.root]) with
      | false => rfl
      | true =>
        have hn := (distinctB_iff _).mp hd
        exact absurd rfl ((List.nodup_append.mp hn).2.2 _ hm _ (List.mem_singleton.mpr rfl))
    · right
      have hf : Spec.flagFrom (roots st.services) false = false := by rw [← inv.flag]; exact ho
      exact ⟨p, mem_patsFrom_snoc hf hp, hpl p hl⟩

/-- `Remove` never panics, in any state: the new ServeMux holds no plain handler, and the patterns
    re-registered for the remaining services are pairwise different. -/
theorem C11_remove_total (st : State) (root : Str) :
    ∃ st', step st (.remove root) = .ok st' ∧
      st'.services = st.services.filter (fun each => each.root != root) :=
  ⟨_, step_remove_ok st root, rfl⟩

/-! ### the open finding, the repaired finding and the remaining clashes, on the model -/

section Witnesses

def wE : ReEnv := ⟨fun _ _ => true, fun _ _ => true⟩

def wSvc (id : Nat) (root : String) : Svc :=
  { svc := { id := id, root := root.toList,
             routes := [{ id := id, method := "GET".toList, relPath := "/x".toList, consumes := [], produces := [],
                          conds := [], noct := [] }] },
    dynamic := true }

deriving instance DecidableEq for Except

/-- what the four probes of the check observe for one request (`none`: the history panicked) -/
def observe (k : RouterKind) (ops : List Op) (req : Req) : Option Spec.Observed :=
  match run k ops with
  | .ok st => some ⟨answer wE st .dispatch req, answerOf wE (fresh (content st)) .dispatch req,
                    answer wE st .serveHTTP req, answerOf wE (fresh (content st)) .serveHTTP req⟩
  | .error _ => none

def get (p : String) : Req := { method := "GET".toList, path := p.toList }

/-- F10b: `Handle(/health)`, `Add(/a)`, `Remove(/a)` — the history is in the class, does not panic,
    the fresh container can be built, and `GET /health` through `ServeHTTP` is a 404 of the mux in the
    history-built container while the fresh container runs the plain handler: `c11Holds` is false. -/
theorem C11_F10b_witness :
    let ops : List Op := [.handle "/health".toList 7, .add (wSvc 1 "/a"), .remove "/a".toList]
    let obs : Spec.Observed := ⟨.routed (.error 404 none), .routed (.error 404 none), .notFound, .plain 7⟩
    Spec.F10b ops = true ∧ observe .curly ops (get "/health") = some obs ∧ Spec.c11Holds obs = false := by
  decide

/-- a service whose one route sits on the root path itself -/
def rSvc (id : Nat) (root : String) : Svc :=
  { svc := { id := id, root := root.toList,
             routes := [{ id := id, method := "GET".toList, relPath := [], consumes := [], produces := [],
                          conds := [], noct := [] }] },
    dynamic := true }

/-- F11 REPAIRED (093fa53) — the former witness of the finding, on which the property now holds:
    `Add(/users)`, `Add(/users/{id}/b)`, in both orders, lies in the former class (`Spec.F11`), does
    not panic, registers the two shared patterns once, and `GET /users/7/b` reaches the second
    service through `ServeHTTP` and `Dispatch`, in the history-built and in the fresh container;
    `GET /users/x` still reaches the first.  Likewise `Add(/a)`, `Add(/a/)` in both orders (the
    routers rank the two roots equally: the first registered answers `/a/x`, in the fresh container
    as well). -/
theorem C11_F11_fixed :
    let u1 := wSvc 1 "/users"
    let u2 := rSvc 2 "/users/{id}/b"
    let a1 := wSvc 1 "/a"
    let a2 := wSvc 2 "/a/"
    let hit2 : Answer := .routed (.selected 2 2 [("id".toList, "7".toList)])
    let hit1 : Answer := .routed (.selected 1 1 [])
    let sel2 : Answer := .routed (.selected 2 2 [])
    Spec.distinctB (roots [u1, u2]) = true ∧ Spec.F11 (roots [u1, u2]) = true ∧ Spec.F11 (roots [u2, u1]) = true ∧
    (run .curly [.add u1, .add u2]).toOption.map (·.mux) = some [dispE "/users".toList, dispE "/users/".toList] ∧
    (run .curly [.add u2, .add u1]).toOption.map (·.mux) = some [dispE "/users/".toList, dispE "/users".toList] ∧
    Spec.c11AddTotalHolds (roots [u1, u2]) [] false = true ∧
    observe .curly [.add u1, .add u2] (get "/users/7/b") = some ⟨hit2, hit2, hit2, hit2⟩ ∧
    observe .curly [.add u2, .add u1] (get "/users/7/b") = some ⟨hit2, hit2, hit2, hit2⟩ ∧
    observe .jsr [.add u1, .add u2] (get "/users/7/b") = some ⟨hit2, hit2, hit2, hit2⟩ ∧
    observe .curly [.add u1, .add u2] (get "/users/x") = some ⟨hit1, hit1, hit1, hit1⟩ ∧
    Spec.distinctB (roots [a1, a2]) = true ∧ Spec.F11 (roots [a1, a2]) = true ∧ Spec.F11 (roots [a2, a1]) = true ∧
    (run .curly [.add a1, .add a2]).toOption.map (·.mux) = some [dispE "/a".toList, dispE "/a/".toList] ∧
    (run .curly [.add a2, .add a1]).toOption.map (·.mux) = some [dispE "/a/".toList, dispE "/a".toList] ∧
    observe .curly [.add a1, .add a2] (get "/a/x") = some ⟨hit1, hit1, hit1, hit1⟩ ∧
    observe .curly [.add a2, .add a1] (get "/a/x") = some ⟨sel2, sel2, sel2, sel2⟩ := by
  decide

/-- the same collision used to make `Remove` panic (`/` shields the two services until it is
    removed); now the rebuild registers the shared patterns once and the probes agree -/
theorem C11_F11_remove_fixed :
    let ops : List Op := [.add (wSvc 0 "/"), .add (wSvc 1 "/users"), .add (rSvc 2 "/users/{id}/b"), .remove "/".toList]
    let hit2 : Answer := .routed (.selected 2 2 [("id".toList, "7".toList)])
    (run .curly ops).toOption.map (·.mux) = some [dispE "/users".toList, dispE "/users/".toList] ∧
    observe .curly ops (get "/users/7/b") = some ⟨hit2, hit2, hit2, hit2⟩ := by
  decide

/-- what still panics, and must (the ServeMux's own rule, documented behaviour of `Handle`): a plain
    handler on a pattern that a later WebService needs, and a `Handle` on a pattern a WebService
    registered; also behind a shared prefix (`/a` is there, `Handle(/a/b)`, then `Add(/a/b)`).  A root
    path twice is the `os.Exit(1)` of `Add`.  These are the outcomes the hypotheses of
    `C11_add_after_history` exclude and `C11_add_panics_only` lists. -/
theorem C11_registration_clash_witness :
    run .curly [.handle "/a/".toList 7, .add (wSvc 1 "/a")] = .error (.mux (.multiple "/a/".toList)) ∧
    run .curly [.add (wSvc 1 "/a"), .handle "/a/".toList 7] = .error (.mux (.multiple "/a/".toList)) ∧
    run .curly [.add (wSvc 1 "/a"), .handle "/a/b".toList 7, .add (wSvc 2 "/a/b")] = .error (.mux (.multiple "/a/b".toList)) ∧
    run .curly [.add (wSvc 1 "/a"), .add (wSvc 2 "/a")] = .error .exit ∧
    Spec.c11AddTotalHolds (roots [wSvc 1 "/a"]) ["/a/".toList] true = true ∧
    Spec.c11AddTotalHolds (roots [wSvc 1 "/a", wSvc 2 "/a"]) [] true = true := by
  decide

/-- non-vacuity of `C11_serve_partial` / `C11_partial`: a history with every kind of operation, outside
    the class of F10b, that does not panic; the removed service and the removed route are unreachable,
    the remaining route, the later route and the plain handler answer, through both entry points and
    in the fresh container alike; the mux redirects `/c` and an unclean path. -/
example :
    let r2 : RouteDecl := { id := 20, method := "GET".toList, relPath := "/y/{v}".toList, consumes := [], produces := [],
                            conds := [], noct := [] }
    let ops : List Op := [.add (wSvc 1 "/a"), .add (wSvc 2 "/a/b"), .add (wSvc 3 "/c/{id}"), .remove "/a".toList,
      .route "/a/b".toList r2, .removeRoute "/a/b".toList "/a/b/x".toList "GET".toList, .handle "/static/".toList 9]
    let nf : Answer := .routed (.error 404 none)
    let sel2 : Answer := .routed (.selected 2 20 [("v".toList, "1".toList)])
    let sel3 : Answer := .routed (.selected 3 3 [("id".toList, "5".toList)])
    Spec.F10b ops = false ∧
    observe .curly ops (get "/a/x") = some ⟨nf, nf, .notFound, .notFound⟩ ∧
    observe .curly ops (get "/a/b/x") = some ⟨nf, nf, nf, nf⟩ ∧
    observe .curly ops (get "/a/b/y/1") = some ⟨sel2, sel2, sel2, sel2⟩ ∧
    observe .curly ops (get "/c/5/x") = some ⟨sel3, sel3, sel3, sel3⟩ ∧
    observe .curly ops (get "/static/app.js") = some ⟨nf, nf, .plain 9, .plain 9⟩ ∧
    observe .curly ops (get "/c") = some ⟨nf, nf, .redirect "/c/".toList, .redirect "/c/".toList⟩ ∧
    observe .curly ops (get "/c/5/../5/x") = some ⟨nf, nf, .redirect "/c/5/x".toList, .redirect "/c/5/x".toList⟩ := by
  decide

/-- non-vacuity of `C11_serve_partial` inside the class of the repaired finding F11 (histories that
    used to panic): three services wanting `/a/`, one of them removed, a plain handler below the
    shared prefix, a fourth service that finds both of its patterns mapped — outside the class of
    F10b, no panic, one ServeMux pattern for all, and every probe answered alike -/
example :
    let ops : List Op := [.add (wSvc 1 "/a"), .add (wSvc 3 "/a/{id}"), .add (wSvc 2 "/a/"), .remove "/a".toList,
      .handle "/a/plain".toList 9, .add (wSvc 4 "/a/{id}/b")]
    let nf : Answer := .routed (.error 404 none)
    let sel3 : Answer := .routed (.selected 3 3 [("id".toList, "5".toList)])
    let sel4 : Answer := .routed (.selected 4 4 [("id".toList, "5".toList)])
    Spec.F10b ops = false ∧
    Spec.F11 ["/a/{id}".toList, "/a/".toList, "/a/{id}/b".toList] = true ∧
    (run .curly ops).toOption.map (fun st => keys st.mux) = some ["/a/".toList, "/a/plain".toList] ∧
    observe .curly ops (get "/a/5/x") = some ⟨sel3, sel3, sel3, sel3⟩ ∧
    observe .curly ops (get "/a/5/b/x") = some ⟨sel4, sel4, sel4, sel4⟩ ∧
    observe .curly ops (get "/a/plain") = some ⟨nf, nf, .plain 9, .plain 9⟩ ∧
    observe .curly ops (get "/a") = some ⟨nf, nf, .redirect "/a/".toList, .redirect "/a/".toList⟩ := by
  decide

/-- non-vacuity of `C11_add_total`: roots sharing prefixes, differing by a variable or a trailing
    slash (the former class of F11: several services want `/a/`), and `/` -/
example :
    let svcs : List Svc := [wSvc 1 "/a", wSvc 2 "/ab", wSvc 3 "/a/b", wSvc 4 "/b/{x}", wSvc 5 "/c/d/", wSvc 8 "/a/",
      wSvc 9 "/a/{id}/b", wSvc 6 "/", wSvc 7 "/a/{id}"]
    Spec.distinctB (roots svcs) = true ∧ Spec.F11 (roots svcs) = true ∧
    (run .jsr (svcs.map .add)).toOption.map (·.services) = some svcs ∧
    (run .jsr (svcs.map .add)).toOption.map (fun st => keys st.mux) =
      some (["/a", "/a/", "/ab", "/ab/", "/a/b", "/a/b/", "/b/", "/c/d/", "/"].map String.toList) := by
  decide

/-- non-vacuity of `C11_add_after_history` / `C11_add_panics_only`: after a history with a `Remove`
    and a live plain handler, a service sharing the prefix of a present one is added; a service on
    the plain handler's pattern is refused -/
example :
    let ops : List Op := [.add (wSvc 1 "/a"), .add (wSvc 2 "/b"), .remove "/b".toList, .handle "/c/".toList 9]
    (run .curly ops).toOption.map (fun st => (roots st.services, st.live, st.onRoot)) =
      some (["/a".toList], [("/c/".toList, 9)], false) ∧
    (run .curly (ops ++ [.add (wSvc 3 "/a/{id}")])).toOption.map (fun st => keys st.mux) =
      some (["/a", "/a/", "/c/"].map String.toList) ∧
    run .curly (ops ++ [.add (wSvc 4 "/c")]) = .error (.mux (.multiple "/c/".toList)) := by
  decide

end Witnesses

/-! The frame condition (Lemmas/StateShape.lean): the code has exactly the state this property's model
    accounts for — no further package-level variable, struct type or field; constants as modelled. -/
-- also: Restful.StateShape.globals_shape
-- also: Restful.StateShape.consts_shape
-- also: Restful.StateShape.container_shape

end Props
end Restful

-- the imperative functions this property's model rests on, tied to their statement-by-statement
-- translation (tools/goimp, Gen/Imp.lean, regenerated on every run):
-- also: Restful.TieImp.T2.fixed_prefix_path
-- also: Restful.TieImp.add_handler
-- also: Restful.TieImp.remove_route
-- also: Restful.TieImp.build_route
-- also: Restful.TieImp.copy_defaults
-- also: Restful.TieImp.build_route_no_function
-- also: Restful.TieImp.container_add
-- also: Restful.TieImp.web_service_path
