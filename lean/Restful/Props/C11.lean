/-
C11 — registration state equals what a fresh container with the same content has.

`Registry.run k ops` is the model of a container after the operations `ops` (`Add`, `Remove`, `Route`,
`RemoveRoute`, `Handle`/`HandleWithFilter`; container.go, web_service.go, tied to /repo by the
correspondence stream `registry`); `Registry.fresh (content st)` is a new container to which the
final services were added in order and the plain handlers registered; `Registry.answer` is what a
request is answered with through `Dispatch` resp. `ServeHTTP` (ServeMux model: `Model/Mux.lean`).
All theorems quantify over every operation sequence, every request and every regular-expression
oracle `E`; there is no bound on lengths.

THE FULL STATEMENTS (what the property says):

  theorem C11_serve (h : run k ops = .ok st) :
      ∃ st', fresh (content st) = .ok st' ∧ ∀ e req, answer E st e req = answer E st' e req

  theorem C11_add_total (hd : Spec.distinctB (roots svcs) = true) :
      ∃ st, run k (svcs.map .add) = .ok st

Both are FALSE for the code as it is:
* `C11_serve` fails when a `Handle` precedes a `Remove` (finding F10b, `C11_F10b_witness`): `Remove`
  builds a new ServeMux and re-registers the WebServices only.  `C11_serve_partial` is the statement
  under the hypothesis the proof forces, `Spec.F10b ops = false`.
* `C11_add_total` fails when two services register the same ServeMux pattern although their root
  paths differ (finding F11, `C11_F11_witness`).  `C11_add_total_partial` has the hypothesis
  `Spec.F11 (roots svcs) = false`.
`C11_dispatch` (through `Dispatch`) holds without any hypothesis on the history.
-/
import Restful.Lemmas.RegistryFresh
import Restful.Lemmas.StateShape
namespace Restful
namespace Props
open Registry
variable (E : ReEnv)

/-! ### through `Dispatch` -/

/-- Through `Dispatch`, after ANY history that does not panic, the container answers every request
    exactly as a newly built container with the same content (whenever that container can be built):
    removed services and routes are unreachable, everything else is reachable. -/
theorem C11_dispatch (k : RouterKind) (ops : List Op) (st st' : State) (h : run k ops = .ok st)
    (hf : fresh (content st) = .ok st') (req : Req) :
    answer E st .dispatch req = answer E st' .dispatch req := by
  have hr : st'.router = st.router := by
    have := runFrom_router hf
    simpa [init, content] using this
  have hs : st'.services = st.services := by
    unfold fresh run Content.ops at hf
    rw [runFrom_append] at hf
    cases ha : runFrom (init (content st).router) ((content st).services.map .add) with
    | error e => rw [ha] at hf; cases hf
    | ok s1 =>
      rw [ha] at hf
      rw [services_of_handles hf, services_of_adds ha]
      simp [init, content]
  have _ := h
  simp only [answer, State.config, hr, hs]

/-- The services alone can always be rebuilt: a new container to which the final services are added
    in order never panics, and answers like the history-built one through `Dispatch`. -/
theorem C11_dispatch_services (k : RouterKind) (ops : List Op) (st : State) (h : run k ops = .ok st) :
    ∃ st', fresh ⟨st.router, st.services, []⟩ = .ok st' ∧
      ∀ req, answer E st .dispatch req = answer E st' .dispatch req := by
  refine ⟨_, fresh_services_ok (run_inv h), ?_⟩
  intro req
  simp [answer, State.config, freshState]

/-! ### through `ServeHTTP` -/

/-- F10b excluded: if no `Handle` precedes a `Remove`, the fresh container can be built and both entry
    points answer every request exactly as the history-built container does. -/
theorem C11_serve_partial (k : RouterKind) (ops : List Op) (st : State) (hno : Spec.F10b ops = false)
    (h : run k ops = .ok st) :
    ∃ st', fresh (content st) = .ok st' ∧ ∀ e req, answer E st e req = answer E st' e req := by
  have inv := run_inv h
  have hl : st.live = st.handlers := by
    refine live_eq_handlers (seen := false) h rfl (fun _ => rfl) ?_
    simpa [Spec.F10b] using hno
  refine ⟨freshState st, fresh_ok inv hl, ?_⟩
  intro e req
  have hmux : Mux.lookup st.mux req.method req.path = Mux.lookup (freshState st).mux req.method req.path := by
    apply Mux.lookup_perm _ inv.keys
    simpa [freshState, hl] using inv.perm
  cases e with
  | dispatch => simp [answer, State.config, freshState]
  | serveHTTP =>
    simp only [answer, hmux]
    rfl

/-- the same as a statement about the predicate the check evaluates on the real containers -/
theorem C11_partial (k : RouterKind) (ops : List Op) (st : State) (hno : Spec.F10b ops = false)
    (h : run k ops = .ok st) (req : Req) :
    Spec.c11Holds ⟨answer E st .dispatch req, answerOf E (fresh (content st)) .dispatch req,
                   answer E st .serveHTTP req, answerOf E (fresh (content st)) .serveHTTP req⟩ = true := by
  obtain ⟨st', hf, ha⟩ := C11_serve_partial E k ops st hno h
  simp [Spec.c11Holds, hf, answerOf, ha]

/-! ### `Add` is total -/

/-- F11 excluded: services with pairwise different root paths whose ServeMux patterns do not collide
    can be added to a new container, in any number, without panic or exit. -/
theorem C11_add_total_partial (k : RouterKind) (svcs : List Svc)
    (hd : Spec.distinctB (roots svcs) = true) (hc : Spec.F11 (roots svcs) = false) :
    ∃ st, run k (svcs.map .add) = .ok st ∧ st.services = svcs := by
  have hp : (Spec.patsFrom (roots svcs) false).Nodup := by
    apply (distinctB_iff _).mp
    simpa [Spec.F11] using hc
  refine ⟨_, runFrom_adds svcs (init k) (by simp [init, roots, Spec.patsFrom]) (by simp [init, roots, Spec.flagFrom])
    (by simpa [init] using (distinctB_iff _).mp hd) (by simpa [init] using hp), ?_⟩
  simp [init]

/-- the add-total clause as the predicate the check evaluates on a real panic -/
theorem C11_add_total_spec_partial (k : RouterKind) (svcs : List Svc) (hc : Spec.F11 (roots svcs) = false) :
    Spec.c11AddTotalHolds (roots svcs) []
      (match run k (svcs.map .add) with | .ok _ => false | .error _ => true) = true := by
  cases hd : Spec.distinctB (roots svcs) with
  | false => simp [Spec.c11AddTotalHolds, hd]
  | true =>
    obtain ⟨st, hr, _⟩ := C11_add_total_partial k svcs hd hc
    simp [Spec.c11AddTotalHolds, hr]

/-- also in the middle of a history: adding a service with a new root path to a container that did
    not panic so far succeeds, unless its patterns collide with those of the services present (F11)
    or with a plain handler's pattern (documented behaviour of `Handle`). -/
theorem C11_add_after_history_partial (k : RouterKind) (ops : List Op) (st : State) (s : Svc)
    (h : run k ops = .ok st) (hnew : s.root ∉ roots st.services)
    (hc : Spec.F11 (roots st.services ++ [s.root]) = false)
    (hp : ∀ p ∈ Spec.regPatterns s.root, p ∉ st.live.map (·.1)) :
    ∃ st', step st (.add s) = .ok st' := by
  have inv := run_inv h
  refine ⟨_, step_add_of hnew ?_⟩
  have hk : (keys ((Spec.patsFrom (roots st.services) false).map dispE ++ st.live.map plainE)).Nodup :=
    (keys_nodup_iff _).mp (inv.keys.perm inv.perm)
  rw [keys_append, keys_dispE, keys_plainE] at hk
  have hpat : (Spec.patsFrom (roots st.services ++ [s.root]) false).Nodup := by
    apply (distinctB_iff _).mp
    simpa [Spec.F11] using hc
  rw [patsFrom_append, ← inv.flag] at hpat
  have hmem : ∀ x, x ∈ keys st.mux ↔ x ∈ Spec.patsFrom (roots st.services) false ∨ x ∈ st.live.map (·.1) := by
    intro x
    have := (inv.perm.map (·.1)).mem_iff (a := x)
    simp only [keys]
    rw [this]
    have h2 : List.map (·.1) ((Spec.patsFrom (roots st.services) false).map dispE ++ st.live.map plainE)
        = Spec.patsFrom (roots st.services) false ++ st.live.map (·.1) := by
      have := keys_append ((Spec.patsFrom (roots st.services) false).map dispE) (st.live.map plainE)
      rw [keys_dispE, keys_plainE] at this
      exact this
    rw [h2, List.mem_append]
  cases ho : st.onRoot with
  | true => simpa [ho] using (keys_nodup_iff _).mp inv.keys
  | false =>
    simp only [ho, Bool.false_eq_true, if_false] at hpat ⊢
    rw [List.nodup_append]
    refine ⟨(keys_nodup_iff _).mp inv.keys, regPatterns_nodup _, ?_⟩
    intro a ha b hb hab
    subst hab
    rcases (hmem a).mp ha with h1 | h1
    · exact (List.nodup_append.mp hpat).2.2 a h1 a hb rfl
    · exact hp a hb h1

/-! ### the two open findings, on the model -/

section Witnesses

def wE : ReEnv := ⟨fun _ _ => true, fun _ _ => true⟩

def wSvc (id : Nat) (root : String) : Svc :=
  { svc := { id := id, root := root.toList,
             routes := [{ id := id, method := "GET".toList, relPath := "/x".toList, consumes := [], produces := [],
                          conds := [], noct := [] }] },
    dynamic := true }

deriving instance DecidableEq for Except

/-- what the four probes of the check observe for one request (`none`: the history panicked) -/
def observe (k : RouterKind) (ops : List Op) (req : Req) : Option Spec.Observed :=
  match run k ops with
  | .ok st => some ⟨answer wE st .dispatch req, answerOf wE (fresh (content st)) .dispatch req,
                    answer wE st .serveHTTP req, answerOf wE (fresh (content st)) .serveHTTP req⟩
  | .error _ => none

def get (p : String) : Req := { method := "GET".toList, path := p.toList }

/-- F10b: `Handle(/health)`, `Add(/a)`, `Remove(/a)` — the history is in the class, does not panic,
    the fresh container can be built, and `GET /health` through `ServeHTTP` is a 404 of the mux in the
    history-built container while the fresh container runs the plain handler: `c11Holds` is false. -/
theorem C11_F10b_witness :
    let ops : List Op := [.handle "/health".toList 7, .add (wSvc 1 "/a"), .remove "/a".toList]
    let obs : Spec.Observed := ⟨.routed (.error 404 none), .routed (.error 404 none), .notFound, .plain 7⟩
    Spec.F10b ops = true ∧ observe .curly ops (get "/health") = some obs ∧ Spec.c11Holds obs = false := by
  decide

/-- F11: `Add(/users)`, `Add(/users/{id}/b)` — and `Add(/a)`, `Add(/a/)` — panic with "multiple
    registrations" although the root paths differ: the add-total clause is false on the model. -/
theorem C11_F11_witness :
    let a : List Svc := [wSvc 1 "/users", wSvc 2 "/users/{id}/b"]
    let b : List Svc := [wSvc 1 "/a", wSvc 2 "/a/"]
    Spec.distinctB (roots a) = true ∧ Spec.F11 (roots a) = true ∧
    run .curly (a.map .add) = .error (.mux (.multiple "/users/".toList)) ∧
    Spec.c11AddTotalHolds (roots a) [] true = false ∧
    Spec.distinctB (roots b) = true ∧ Spec.F11 (roots b) = true ∧
    run .curly (b.map .add) = .error (.mux (.multiple "/a/".toList)) ∧
    Spec.c11AddTotalHolds (roots b) [] true = false := by
  decide

/-- the same collision makes `Remove` panic: `/` shields the two services until it is removed -/
theorem C11_F11_remove_witness :
    run .curly [.add (wSvc 0 "/"), .add (wSvc 1 "/users"), .add (wSvc 2 "/users/{id}/b"), .remove "/".toList]
      = .error (.mux (.multiple "/users/".toList)) := by
  decide

/-- non-vacuity of `C11_serve_partial` / `C11_partial`: a history with every kind of operation, outside
    the class of F10b, that does not panic; the removed service and the removed route are unreachable,
    the remaining route, the later route and the plain handler answer, through both entry points and
    in the fresh container alike; the mux redirects `/c` and an unclean path. -/
example :
    let r2 : RouteDecl := { id := 20, method := "GET".toList, relPath := "/y/{v}".toList, consumes := [], produces := [],
                            conds := [], noct := [] }
    let ops : List Op := [.add (wSvc 1 "/a"), .add (wSvc 2 "/a/b"), .add (wSvc 3 "/c/{id}"), .remove "/a".toList,
      .route "/a/b".toList r2, .removeRoute "/a/b".toList "/a/b/x".toList "GET".toList, .handle "/static/".toList 9]
    let nf : Answer := .routed (.error 404 none)
    let sel2 : Answer := .routed (.selected 2 20 [("v".toList, "1".toList)])
    let sel3 : Answer := .routed (.selected 3 3 [("id".toList, "5".toList)])
    Spec.F10b ops = false ∧
    observe .curly ops (get "/a/x") = some ⟨nf, nf, .notFound, .notFound⟩ ∧
    observe .curly ops (get "/a/b/x") = some ⟨nf, nf, nf, nf⟩ ∧
    observe .curly ops (get "/a/b/y/1") = some ⟨sel2, sel2, sel2, sel2⟩ ∧
    observe .curly ops (get "/c/5/x") = some ⟨sel3, sel3, sel3, sel3⟩ ∧
    observe .curly ops (get "/static/app.js") = some ⟨nf, nf, .plain 9, .plain 9⟩ ∧
    observe .curly ops (get "/c") = some ⟨nf, nf, .redirect "/c/".toList, .redirect "/c/".toList⟩ ∧
    observe .curly ops (get "/c/5/../5/x") = some ⟨nf, nf, .redirect "/c/5/x".toList, .redirect "/c/5/x".toList⟩ := by
  decide

/-- non-vacuity of `C11_add_total_partial`: roots sharing prefixes, a variable, a trailing slash and `/` -/
example :
    let svcs : List Svc := [wSvc 1 "/a", wSvc 2 "/ab", wSvc 3 "/a/b", wSvc 4 "/b/{x}", wSvc 5 "/c/d/", wSvc 6 "/", wSvc 7 "/a/{id}"]
    Spec.distinctB (roots svcs) = true ∧ Spec.F11 (roots svcs) = false ∧
    (run .jsr (svcs.map .add)).toOption.map (·.services) = some svcs := by
  decide

end Witnesses

/-! The frame condition (Lemmas/StateShape.lean): the code has exactly the state this property's model
    accounts for — no further package-level variable, struct type or field; constants as modelled. -/
-- also: Restful.StateShape.globals_shape
-- also: Restful.StateShape.consts_shape
-- also: Restful.StateShape.container_shape

end Props
end Restful
