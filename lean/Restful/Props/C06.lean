/-
C06 — filters run container, service, route in order, each once, per request.

All six entry points.  Since a0e838d (F18 of C10 repaired) the chain `HandleWithFilter` builds —
the container filters around the plain handler — has the same deferred recover as `dispatch`: with
recovery on and a custom recover handler, an event of the recover handler may follow that chain's
events too (`Serve.Chain.plainFilteredBody_logsAs`).  The statements are unchanged: `C06_log` compares
the user-code events, `C06_log_full` says that whatever follows the chain's events is the recover
handler's; `C06_handle_with_filter_path` is the counterpart of `C06_error_path` for that chain.
-/
import Restful.Lemmas.Chain
import Restful.Lemmas.ChainAll
import Restful.Model.Conc
import Restful.Gen.Facts
import Restful.Lemmas.StateShape
namespace Restful
namespace Props
open Serve

/-- (1) for every configuration, entry point, ledger and request — panics, stops, replaced
    requests, middleware, compression and recovery included — the log of the serve model is the
    one `Spec.chainLog` specifies for the chain `Spec.chainOf` selects -/
theorem C06_log (E : ReEnv) (cfg : Serve.Cfg) (e : Serve.Entry) (w : Serve.World) (sr : Serve.SReq) :
    Spec.c06Holds E cfg e sr (Spec.obsOf (Serve.serve E cfg e w sr)) = true := by
  have h := Serve.Chain.serve_userEvents cfg.customErr E cfg e w sr
  unfold Spec.chainEvents at h
  unfold Spec.c06Holds
  show (match Spec.chainOf E cfg e sr with
    | none => (Spec.userEvents cfg.customErr (Serve.serve E cfg e w sr).log).isEmpty
    | some (fs, t, cx) => (Spec.userEvents cfg.customErr (Serve.serve E cfg e w sr).log).map Spec.blind == (Spec.userEvents cfg.customErr (Spec.chainLog fs t cx).1).map Spec.blind) = true
  rw [h]
  cases Spec.chainOf E cfg e sr with
  | none => rfl
  | some c => obtain ⟨fs, t, cx⟩ := c; simp

/-- (1, a routing failure that is not a `ServiceError` — a `RouteSelector` of the application's own):
    the model's log is the one `Spec.c06RouterErrorHolds` demands, the container filters around a
    target that records nothing, through `Container.Dispatch` and `Container.ServeHTTP` alike -/
theorem C06_router_error (cfg : Serve.Cfg) (viaServeHTTP : Bool) (w : Serve.World) (sr : Serve.SReq) :
    Spec.c06RouterErrorHolds cfg (Spec.obsOf (Serve.serveRouterError cfg viaServeHTTP w sr)) = true := by
  have hd : Serve.Chain.LogsAs (Serve.dispatchRouterError cfg)
      (Spec.chainLog (Serve.label .cfilter cfg.cfilters) Serve.routerErrorTarget {}).1 := by
    intro s0
    exact Serve.Chain.chain_then_finish cfg _ _ _ s0
  have hlog : ∃ r, Serve.Chain.AllRecover r ∧ (Serve.serveRouterError cfg viaServeHTTP w sr).log =
      (Spec.chainLog (Serve.label .cfilter cfg.cfilters) Serve.routerErrorTarget {}).1 ++ r := by
    have h0 : (Serve.initial sr).log = [] := rfl
    cases viaServeHTTP with
    | false =>
      obtain ⟨r, hr1, hr2⟩ := hd (Serve.initial sr)
      refine ⟨r.reverse, fun ev hev => hr1 ev (List.mem_reverse.mp hev), ?_⟩
      show (Serve.dispatchRouterError cfg (Serve.initial sr)).1.log.reverse = _
      rw [hr2, h0]
      simp
    | true =>
      obtain ⟨r, hr1, hr2⟩ := Serve.Chain.serveWrapper_logsAs cfg sr _ _ hd (Serve.initial sr)
      refine ⟨r.reverse, fun ev hev => hr1 ev (List.mem_reverse.mp hev), ?_⟩
      show (Serve.serveWrapper cfg sr (Serve.initial sr) (Serve.dispatchRouterError cfg)).1.log.reverse = _
      rw [hr2, h0]
      simp
  obtain ⟨r, hr1, hr2⟩ := hlog
  unfold Spec.c06RouterErrorHolds
  show ((Spec.userEvents false (Serve.serveRouterError cfg viaServeHTTP w sr).log).map Spec.blind ==
    (Spec.userEvents false (Spec.chainLog (Serve.label .cfilter cfg.cfilters) Serve.routerErrorTarget {}).1).map Spec.blind) = true
  rw [hr2, Serve.Chain.userEvents_append_recover false _ _ hr1]
  simp

/-- non-vacuity of `C06_router_error`: two container filters, the second stops; both start, the
    first comes back, nothing else is recorded (and an observation without them falsifies the predicate) -/
example :
    let f1 : Serve.Filter := { id := 1, pre := [.write "a".toList], kind := .pass, post := [] }
    let f2 : Serve.Filter := { id := 2, pre := [], kind := .stop, post := [] }
    let cfg : Serve.Cfg := { routing := { router := .curly, services := [] }, cfilters := [f1, f2] }
    let res := Serve.serveRouterError cfg false {} { req := { method := "GET".toList, path := "/x".toList } }
    (res.log.map (fun ev => (ev.stage, ev.post)) ==
        [(.cfilter 1, false), (.cfilter 2, false), (.cfilter 2, true), (.cfilter 1, true)]) = true ∧
      Spec.c06RouterErrorHolds cfg { Spec.obsOf res with log := [] } = false := by
  decide

/-- (1′) the whole log, not only its user-code part: the events of the specified chain, in
    order, followed by nothing but events of the recover handler -/
theorem C06_log_full (E : ReEnv) (cfg : Serve.Cfg) (e : Serve.Entry) (w : Serve.World) (sr : Serve.SReq) :
    ∃ r, (∀ ev ∈ r, ev.stage = .recover) ∧
      (Serve.serve E cfg e w sr).log =
        (match Spec.chainOf E cfg e sr with
         | none => []
         | some (fs, t, cx) => (Spec.chainLog fs t cx).1) ++ r :=
  Serve.Chain.serve_log E cfg e w sr

/-- the core of (1): `runChain` (= `FilterChain.ProcessFilter` unrolled) adds exactly the events of
    `Spec.chainLog` to the (newest-first) log, hands back its context and panics iff it says so -/
theorem C06_runChain (fs : List (Serve.Stage × Serve.Filter)) (t : Serve.Target) (cx : Serve.Ctx) (s : Serve.St) :
    (Serve.runChain fs t cx s).2.1.log = (Spec.chainLog fs t cx).1.reverse ++ s.log ∧
    (Serve.runChain fs t cx s).1 = (Spec.chainLog fs t cx).2.1 ∧
    (Serve.runChain fs t cx s).2.2.isSome = (Spec.chainLog fs t cx).2.2 :=
  Serve.Chain.runChain_spec fs t cx s

/-- the script half of (1): a script never touches the log; the context it leaves and whether it
    panics are what `Spec.attrsAfter` says -/
theorem C06_runActs (as : List Serve.Act) (cx : Serve.Ctx) (s : Serve.St) :
    (Serve.runActs as cx s).2.1.log = s.log ∧
    (Serve.runActs as cx s).1 = { cx with attrs := (Spec.attrsAfter as cx.attrs).1 } ∧
    (Serve.runActs as cx s).2.2.isSome = (Spec.attrsAfter as cx.attrs).2 :=
  Serve.Chain.runActs_spec as cx s

/-- (2) the closed form when every filter either passes control on or stops and no script panics:
    the filters up to and including the first one that stops start in list order, the target runs
    iff none stops, and the same filters come back in reverse order -/
theorem C06_closed_form (fs : List (Serve.Stage × Serve.Filter)) (t : Serve.Target) (cx : Serve.Ctx)
    (hk : ∀ sf ∈ fs, sf.2.kind = .pass ∨ sf.2.kind = .stop)
    (hp : ∀ sf ∈ fs, Spec.noPanic sf.2.pre = true ∧ Spec.noPanic sf.2.post = true)
    (ht : Spec.noPanic t.script = true) :
    let k := fs.findIdx (fun sf => sf.2.kind == .stop)
    (Spec.chainLog fs t cx).1.map (fun ev => (ev.stage, ev.post)) =
      ((fs.take (k + 1)).map (fun sf => (sf.1, false))) ++ (if k = fs.length then [(t.stage, false)] else []) ++
      ((fs.take (k + 1)).reverse.map (fun sf => (sf.1, true))) :=
  (Serve.Chain.chainLog_closed fs t cx hk hp ht).2

/-- under the hypotheses of (2) no panic leaves the chain -/
theorem C06_closed_form_no_panic (fs : List (Serve.Stage × Serve.Filter)) (t : Serve.Target) (cx : Serve.Ctx)
    (hk : ∀ sf ∈ fs, sf.2.kind = .pass ∨ sf.2.kind = .stop)
    (hp : ∀ sf ∈ fs, Spec.noPanic sf.2.pre = true ∧ Spec.noPanic sf.2.post = true)
    (ht : Spec.noPanic t.script = true) :
    (Spec.chainLog fs t cx).2.2 = false :=
  (Serve.Chain.chainLog_closed fs t cx hk hp ht).1

/-- a script without a panic step does not panic, whatever the attributes it starts with -/
theorem C06_noPanic (as : List Serve.Act) (attrs : List (Str × Str)) (h : Spec.noPanic as = true) :
    (Spec.attrsAfter as attrs).2 = false :=
  Spec.attrsAfter_noPanic as attrs h

/-- (2) corollary: the target runs iff no filter stops (stage labels of filters differ from the target's) -/
theorem C06_target_iff (fs : List (Serve.Stage × Serve.Filter)) (t : Serve.Target) (cx : Serve.Ctx)
    (hk : ∀ sf ∈ fs, sf.2.kind = .pass ∨ sf.2.kind = .stop)
    (hp : ∀ sf ∈ fs, Spec.noPanic sf.2.pre = true ∧ Spec.noPanic sf.2.post = true)
    (ht : Spec.noPanic t.script = true)
    (hd : ∀ sf ∈ fs, sf.1 ≠ t.stage) :
    (t.stage, false) ∈ (Spec.chainLog fs t cx).1.map (fun ev => (ev.stage, ev.post)) ↔ ∀ sf ∈ fs, sf.2.kind ≠ .stop := by
  rw [C06_closed_form fs t cx hk hp ht]
  simp only [List.mem_append, List.mem_map, Prod.mk.injEq, Bool.true_eq_false, and_false, exists_false, or_false]
  constructor
  · rintro (⟨sf, hsf, h, _⟩ | h)
    · exact absurd h (hd sf (List.mem_of_mem_take hsf))
    · split at h
      · rename_i hlen
        rw [List.findIdx_eq_length] at hlen
        intro sf hsf hs
        have := hlen sf hsf
        rw [hs] at this
        exact absurd this (by decide)
      · cases h
  · intro h
    right
    rw [if_pos]
    · exact List.mem_singleton.mpr rfl
    · rw [List.findIdx_eq_length]
      intro sf hsf
      rcases hk sf hsf with h1 | h1
      · rw [h1]; decide
      · exact absurd h1 (h sf hsf)

/-- (2) corollary, in fact for every chain (any filter kinds, panics allowed): when the stage
    labels are pairwise distinct and differ from the target's, no stage starts twice and none comes
    back twice -/
theorem C06_each_once (fs : List (Serve.Stage × Serve.Filter)) (t : Serve.Target) (cx : Serve.Ctx)
    (hn : (fs.map (·.1)).Nodup) (hd : t.stage ∉ fs.map (·.1)) :
    ((Spec.chainLog fs t cx).1.map (fun ev => (ev.stage, ev.post))).Nodup :=
  Serve.Chain.chainLog_nodup fs t cx hn hd

/-- (2)+(1) on the model's log itself, every entry point: when the filter ids are distinct within
    each level (container, each WebService, each route), no stage of user code starts twice or comes
    back twice while one request is served -/
theorem C06_each_once_served (k : Bool) (E : ReEnv) (cfg : Serve.Cfg) (hd : Serve.Chain.DistinctIds cfg) (e : Serve.Entry) (w : Serve.World)
    (sr : Serve.SReq) :
    ((Spec.userEvents k (Serve.serve E cfg e w sr).log).map (fun ev => (ev.stage, ev.post))).Nodup :=
  Serve.Chain.serve_nodup k E cfg hd e w sr

/-- the chains `Spec.chainOf` selects satisfy the label hypotheses of `C06_target_iff` and
    `C06_each_once`: labels are filter stages, the target's is not, and they are pairwise distinct
    when the ids are distinct within each level -/
theorem C06_served_labels (E : ReEnv) (cfg : Serve.Cfg) (e : Serve.Entry) (sr : Serve.SReq)
    (fs : List (Serve.Stage × Serve.Filter)) (t : Serve.Target) (cx : Serve.Ctx)
    (h : Spec.chainOf E cfg e sr = some (fs, t, cx)) :
    (∀ st ∈ fs.map (·.1), st.isFilter = true) ∧ t.stage.isFilter = false ∧
      (Serve.Chain.DistinctIds cfg → (fs.map (·.1)).Nodup) :=
  Serve.Chain.chainOf_labels E cfg e sr fs t cx h

/-- (3) the order of the levels: container filters, then the WebService's, then the route's, each
    in registration order -/
theorem C06_levels (cfg : Serve.Cfg) (svc rid : Nat) :
    (Serve.allFilters cfg svc rid).map (·.1) =
      cfg.cfilters.map (fun f => Serve.Stage.cfilter f.id) ++ (Serve.svcX cfg svc).filters.map (fun f => Serve.Stage.sfilter f.id) ++
        (Serve.routeX cfg rid).filters.map (fun f => Serve.Stage.rfilter f.id) :=
  Serve.Chain.allFilters_stages cfg svc rid

/-- (3) a routed request goes through exactly `allFilters` towards the route function -/
theorem C06_routed_chain (E : ReEnv) (cfg : Serve.Cfg) (sr : Serve.SReq) (svc rid : Nat) (ps : Params) (tag : String)
    (hc : sr.condPanic = none) (hr : routeTagged E cfg.routing sr.req = (.selected svc rid ps, tag)) :
    ∃ selPath, Spec.chainOf E cfg .dispatch sr =
      some (Serve.allFilters cfg svc rid, ⟨.handler rid, (Serve.routeX cfg rid).script⟩, { params := ps, selPath := selPath }) := by
  simp only [Spec.chainOf, hc, hr]
  exact ⟨_, rfl⟩

/-- `Container.ServeHTTP` selects the same chain as `Container.Dispatch` -/
theorem C06_serveHTTP_same_chain (E : ReEnv) (cfg : Serve.Cfg) (sr : Serve.SReq) :
    Spec.chainOf E cfg .serveDispatch sr = Spec.chainOf E cfg .dispatch sr := rfl

/-- (3) when routing fails the chain is the container filters around the service-error writer, and
    the model's log contains no event of a service filter, a route filter or a route function
    (`Container.Dispatch` and `Container.ServeHTTP` alike) -/
theorem C06_error_path_entry (E : ReEnv) (cfg : Serve.Cfg) (e : Serve.Entry) (he : e = .dispatch ∨ e = .serveDispatch)
    (w : Serve.World) (sr : Serve.SReq) (c : Nat) (a : Option (List Str)) (tag : String)
    (hc : sr.condPanic = none) (hr : routeTagged E cfg.routing sr.req = (.error c a, tag)) :
    Spec.chainOf E cfg e sr =
      some (Serve.label .cfilter cfg.cfilters, ⟨.errorWriter, Serve.errorScript c a (Serve.errMsg E cfg sr c tag)⟩, {}) ∧
    ∀ ev ∈ (Serve.serve E cfg e w sr).log,
      (∃ f ∈ cfg.cfilters, ev.stage = .cfilter f.id) ∨ ev.stage = .errorWriter ∨ ev.stage = .recover := by
  have hch : Spec.chainOf E cfg e sr =
      some (Serve.label .cfilter cfg.cfilters, ⟨.errorWriter, Serve.errorScript c a (Serve.errMsg E cfg sr c tag)⟩, {}) := by
    rcases he with rfl | rfl <;>
    · simp only [Spec.chainOf, hc, hr]
      rfl
  refine ⟨hch, ?_⟩
  obtain ⟨r, hr1, hr2⟩ := Serve.Chain.serve_log E cfg e w sr
  intro ev hev
  rw [hr2, Spec.chainEvents, hch] at hev
  simp only [List.mem_append] at hev
  rcases hev with hev | hev
  · rcases Serve.Chain.chainLog_stage_mem _ _ _ ev hev with h | h
    · rw [Serve.Chain.label_stages, List.mem_map] at h
      obtain ⟨f, hf, h⟩ := h
      exact .inl ⟨f, hf, h.symm⟩
    · exact .inr (.inl h)
  · exact .inr (.inr (hr1 ev hev))

/-- (3) the error path through `Container.Dispatch` -/
theorem C06_error_path (E : ReEnv) (cfg : Serve.Cfg) (w : Serve.World) (sr : Serve.SReq) (c : Nat) (a : Option (List Str)) (tag : String)
    (hc : sr.condPanic = none) (hr : routeTagged E cfg.routing sr.req = (.error c a, tag)) :
    Spec.chainOf E cfg .dispatch sr =
      some (Serve.label .cfilter cfg.cfilters, ⟨.errorWriter, Serve.errorScript c a (Serve.errMsg E cfg sr c tag)⟩, {}) ∧
    ∀ ev ∈ (Serve.serve E cfg .dispatch w sr).log,
      (∃ f ∈ cfg.cfilters, ev.stage = .cfilter f.id) ∨ ev.stage = .errorWriter ∨ ev.stage = .recover :=
  C06_error_path_entry E cfg .dispatch (.inl rfl) w sr c a tag hc hr

/-- (3) a pattern registered with `HandleWithFilter` (through the mux alone or through
    `Container.ServeHTTP`): the chain is the container filters, in registration order, around the
    plain handler, and the model's log contains no other event than theirs, the handler's and —
    after them, when a panic was recovered — the recover handler's -/
theorem C06_handle_with_filter_path (E : ReEnv) (cfg : Serve.Cfg) (e : Serve.Entry) (he : e = .muxHandleF ∨ e = .serveHandleF)
    (w : Serve.World) (sr : Serve.SReq) :
    Spec.chainOf E cfg e sr = some (Serve.label .cfilter cfg.cfilters, ⟨.plain 0, cfg.plainScript⟩, {}) ∧
    (∃ r, (∀ ev ∈ r, ev.stage = .recover) ∧
      (Serve.serve E cfg e w sr).log =
        (Spec.chainLog (Serve.label .cfilter cfg.cfilters) ⟨.plain 0, cfg.plainScript⟩ {}).1 ++ r) ∧
    ∀ ev ∈ (Serve.serve E cfg e w sr).log,
      (∃ f ∈ cfg.cfilters, ev.stage = .cfilter f.id) ∨ ev.stage = .plain 0 ∨ ev.stage = .recover := by
  have hch : Spec.chainOf E cfg e sr = some (Serve.label .cfilter cfg.cfilters, ⟨.plain 0, cfg.plainScript⟩, {}) := by
    rcases he with rfl | rfl <;> rfl
  obtain ⟨r, hr1, hr2⟩ := Serve.Chain.serve_log E cfg e w sr
  rw [Spec.chainEvents, hch] at hr2
  refine ⟨hch, ⟨r, hr1, hr2⟩, ?_⟩
  intro ev hev
  rw [hr2] at hev
  simp only [List.mem_append] at hev
  rcases hev with hev | hev
  · rcases Serve.Chain.chainLog_stage_mem _ _ _ ev hev with h | h
    · rw [Serve.Chain.label_stages, List.mem_map] at h
      obtain ⟨f, hf, h⟩ := h
      exact .inl ⟨f, hf, h.symm⟩
    · exact .inr (.inl h)
  · exact .inr (.inr (hr1 ev hev))

/-- (4) a filter that passes control on hands on its own Request and Response: the next stage
    starts with the attributes the filter's first part left, the same parameters, selected route
    path and writer -/
theorem C06_propagation_pass (st : Serve.Stage) (f : Serve.Filter) (fs : List (Serve.Stage × Serve.Filter)) (t : Serve.Target)
    (cx : Serve.Ctx) (hk : f.kind = .pass) (hp : (Spec.attrsAfter f.pre cx.attrs).2 = false) :
    ∃ rest, (Spec.chainLog ((st, f) :: fs) t cx).1 =
      ⟨st, false, cx.attrs, cx.params, cx.selPath, cx.wrappers⟩ ::
      ⟨Serve.Chain.nextStage fs t, false, (Spec.attrsAfter f.pre cx.attrs).1, cx.params, cx.selPath, cx.wrappers⟩ :: rest := by
  obtain ⟨rest, h⟩ := Serve.Chain.chainLog_second st f fs t cx hp (by rw [hk]; decide)
  exact ⟨rest, by rw [h]; simp only [Serve.Chain.innerCtx, hk]; rfl⟩

/-- (4) a filter that passes on a new Request and a new Response: the next stage sees the new
    Request's attributes, no path parameters, and one more wrapper around the writer -/
theorem C06_propagation_replace (st : Serve.Stage) (f : Serve.Filter) (fs : List (Serve.Stage × Serve.Filter)) (t : Serve.Target)
    (cx : Serve.Ctx) (hk : f.kind = .replace) (hp : (Spec.attrsAfter f.pre cx.attrs).2 = false) :
    ∃ rest, (Spec.chainLog ((st, f) :: fs) t cx).1 =
      ⟨st, false, cx.attrs, cx.params, cx.selPath, cx.wrappers⟩ ::
      ⟨Serve.Chain.nextStage fs t, false, [("who".toList, (toString f.id).toList)], [], [], f.id :: cx.wrappers⟩ :: rest := by
  obtain ⟨rest, h⟩ := Serve.Chain.chainLog_second st f fs t cx hp (by rw [hk]; decide)
  exact ⟨rest, by rw [h]; simp only [Serve.Chain.innerCtx, hk]; rfl⟩

/-- (4) an adapted http middleware: same Request (attributes, parameters, selected path), the
    writer wrapped once more -/
theorem C06_propagation_middle (st : Serve.Stage) (f : Serve.Filter) (fs : List (Serve.Stage × Serve.Filter)) (t : Serve.Target)
    (cx : Serve.Ctx) (hk : f.kind = .middle) (hp : (Spec.attrsAfter f.pre cx.attrs).2 = false) :
    ∃ rest, (Spec.chainLog ((st, f) :: fs) t cx).1 =
      ⟨st, false, cx.attrs, cx.params, cx.selPath, cx.wrappers⟩ ::
      ⟨Serve.Chain.nextStage fs t, false, (Spec.attrsAfter f.pre cx.attrs).1, cx.params, cx.selPath, f.id :: cx.wrappers⟩ :: rest := by
  obtain ⟨rest, h⟩ := Serve.Chain.chainLog_second st f fs t cx hp (by rw [hk]; decide)
  exact ⟨rest, by rw [h]; simp only [Serve.Chain.innerCtx, hk]; rfl⟩

/-- (5) every request starts a fresh chain: the logs of a sequence of requests on one container are
    the logs of the same requests served one by one on a fresh ledger -/
theorem C06_fresh (E : ReEnv) (cfg : Serve.Cfg) (e : Serve.Entry) (w : Serve.World) (reqs : List Serve.SReq) :
    (Serve.serveSeq E cfg e w reqs).map (·.log) = reqs.map (fun r => (Serve.serve E cfg e {} r).log) :=
  Serve.Chain.serveSeq_log E cfg e w reqs

/-- non-vacuity: two container filters (the first sets an attribute), a service filter that
    replaces Request and Response, a route filter that stops.  The routed request goes down the three
    levels in order, the route function does not run, every filter comes back once; the replaced
    Request has its own attributes, no parameters and a wrapped writer; an unroutable request sees the
    container filters only, around the error writer -/
example :
    let E : ReEnv := ⟨fun _ _ => true, fun _ _ => true⟩
    let cfg : Serve.Cfg :=
      { routing := { router := .curly, services := [{ id := 0, root := "/a".toList, routes :=
          [{ id := 1, method := "GET".toList, relPath := "/{i}".toList, consumes := [], produces := [], conds := [], noct := [] }] }] }
        cfilters := [{ id := 1, pre := [.setAttr "k".toList "v".toList], kind := .pass, post := [] },
                     { id := 2, pre := [], kind := .pass, post := [] }]
        svcs := [{ id := 0, filters := [{ id := 3, pre := [], kind := .replace, post := [] }] }]
        routes := [{ id := 1, filters := [{ id := 4, pre := [], kind := .stop, post := [] }], script := [.write "x".toList] }] }
    let sr : Serve.SReq := { req := { method := "GET".toList, path := "/a/7".toList } }
    let sr404 : Serve.SReq := { req := { method := "GET".toList, path := "/b".toList } }
    let kv := [("k".toList, "v".toList)]
    let ps := [("i".toList, "7".toList)]
    let sel := "/a/{i}".toList
    (Serve.serve E cfg .dispatch {} sr).log =
      [⟨.cfilter 1, false, [], ps, sel, []⟩, ⟨.cfilter 2, false, kv, ps, sel, []⟩, ⟨.sfilter 3, false, kv, ps, sel, []⟩,
       ⟨.rfilter 4, false, [("who".toList, "3".toList)], [], [], [3]⟩, ⟨.rfilter 4, true, [("who".toList, "3".toList)], [], [], [3]⟩,
       ⟨.sfilter 3, true, kv, ps, sel, []⟩, ⟨.cfilter 2, true, kv, ps, sel, []⟩, ⟨.cfilter 1, true, kv, ps, sel, []⟩] ∧
    Spec.c06Holds E cfg .dispatch sr (Spec.obsOf (Serve.serve E cfg .dispatch {} sr)) = true ∧
    (Serve.serve E cfg .dispatch {} sr404).log.map (fun ev => (ev.stage, ev.post)) =
      [(.cfilter 1, false), (.cfilter 2, false), (.errorWriter, false), (.cfilter 2, true), (.cfilter 1, true)] ∧
    Spec.c06Holds E cfg .dispatch sr404 (Spec.obsOf (Serve.serve E cfg .dispatch {} sr404)) = true := by
  decide

/-- non-vacuity on the `HandleWithFilter` chain, recovery on with a custom recover handler: the
    first container filter sets an attribute and passes on, the second panics.  The handler does not
    run, no filter comes back, and the recover handler's event follows the chain's (it holds a bare
    writer: no attributes, no wrappers); with a second filter that passes on, the handler runs and
    both filters come back in reverse order.  `c06Holds` on both. -/
example :
    let E : ReEnv := ⟨fun _ _ => true, fun _ _ => true⟩
    let cfg : Serve.Cfg :=
      { routing := { router := .curly, services := [] }
        cfilters := [{ id := 1, pre := [.setAttr "k".toList "v".toList], kind := .pass, post := [] },
                     { id := 2, pre := [.panic "p".toList], kind := .pass, post := [] }]
        plainScript := [.write "h".toList]
        recover := true
        recoverScript := some [.writeHeader 500] }
    let cfgOk : Serve.Cfg := { cfg with cfilters := [{ id := 1, pre := [.setAttr "k".toList "v".toList], kind := .pass, post := [] },
                                                     { id := 2, pre := [], kind := .pass, post := [] }] }
    let sr : Serve.SReq := { req := { method := "GET".toList, path := "/x".toList } }
    let kv := [("k".toList, "v".toList)]
    (Serve.serve E cfg .serveHandleF {} sr).log =
      [⟨.cfilter 1, false, [], [], [], []⟩, ⟨.cfilter 2, false, kv, [], [], []⟩, ⟨.recover, false, [], [], [], []⟩] ∧
    (Serve.serve E cfg .serveHandleF {} sr).escaped = none ∧
    Spec.c06Holds E cfg .serveHandleF sr (Spec.obsOf (Serve.serve E cfg .serveHandleF {} sr)) = true ∧
    (Serve.serve E cfgOk .muxHandleF {} sr).log.map (fun ev => (ev.stage, ev.post)) =
      [(.cfilter 1, false), (.cfilter 2, false), (.plain 0, false), (.cfilter 2, true), (.cfilter 1, true)] ∧
    Spec.c06Holds E cfgOk .muxHandleF sr (Spec.obsOf (Serve.serve E cfgOk .muxHandleF {} sr)) = true := by
  decide

/-- the concurrent half of "every request starts a fresh chain": a fact regenerated from the
    sources — no serving entry point builds a slice by appending to a field of a shared object
    (`allFilters` in `dispatch` is a fresh `make`), and serving never writes the registration state -/
theorem C06_chain_is_fresh_fact :
    Conc.reachableAliasAppends (Conc.analysis Gen.fnNames Gen.items Conc.servingEntries) = [] ∧
    Conc.reachableWrites (Conc.analysis Gen.fnNames Gen.items Conc.servingEntries) = [] := by
  decide +kernel

/-! ### non-vacuity (audit): every theorem with hypotheses instantiated on one configuration with
    two filters at each of the three levels; `Spec.c06Holds` falsified by wrong observations -/
namespace C06Example

def E0 : ReEnv := ⟨fun _ _ => true, fun _ _ => true⟩
def rd (id : Nat) (m p : String) : RouteDecl :=
  { id := id, method := m.toList, relPath := p.toList, consumes := [], produces := [], conds := [], noct := [] }
def fl (id : Nat) (kind : Serve.FKind) (pre : List Serve.Act := []) (post : List Serve.Act := []) : Serve.Filter :=
  { id := id, pre := pre, kind := kind, post := post }

/-- `/a` with GET `/{i}` (route 1: two route filters that pass) and GET `/x` (route 2: its first
    route filter stops); two container filters (the first sets an attribute), two service filters -/
def cfg : Serve.Cfg :=
  { routing := { router := .curly, services := [{ id := 0, root := "/a".toList, routes := [rd 1 "GET" "/{i}", rd 2 "GET" "/x"] }] }
    cfilters := [fl 1 .pass [.setAttr "k".toList "v".toList], fl 2 .pass]
    svcs := [{ id := 0, filters := [fl 3 .pass [] [.setAttr "back".toList "3".toList], fl 4 .pass] }]
    routes := [{ id := 1, filters := [fl 5 .pass, fl 6 .pass], script := [.write "one".toList] },
               { id := 2, filters := [fl 7 .stop [.writeHeader 403], fl 8 .pass], script := [.write "two".toList] }] }

def sr1 : Serve.SReq := { req := { method := "GET".toList, path := "/a/7".toList } }
def sr2 : Serve.SReq := { req := { method := "GET".toList, path := "/a/x".toList } }
def sr404 : Serve.SReq := { req := { method := "GET".toList, path := "/b".toList } }

/-- the hypothesis of `C06_each_once_served` (it quantifies over all service and route ids) -/
theorem distinct : Serve.Chain.DistinctIds cfg := by
  refine ⟨by decide, ?_, ?_⟩
  · intro svc
    by_cases h : svc = 0
    · subst h; decide
    · have e0 : (0 == svc) = false := beq_eq_false_iff_ne.mpr (Ne.symm h)
      have : (cfg.svcs.find? (·.id == svc)) = none := by simp [cfg, List.find?, e0]
      simp [Serve.svcX, this]
  · intro rid
    by_cases h1 : rid = 1
    · subst h1; decide
    · by_cases h2 : rid = 2
      · subst h2; decide
      · have e1 : (1 == rid) = false := beq_eq_false_iff_ne.mpr (Ne.symm h1)
        have e2 : (2 == rid) = false := beq_eq_false_iff_ne.mpr (Ne.symm h2)
        have : (cfg.routes.find? (·.id == rid)) = none := by simp [cfg, List.find?, e1, e2]
        simp [Serve.routeX, this]

/-- the two chains: six filters that pass around route 1; five filters, the fifth stops, around route 2 -/
def fs1 : List (Serve.Stage × Serve.Filter) := Serve.allFilters cfg 0 1
def t1 : Serve.Target := ⟨.handler 1, [.write "one".toList]⟩
def fs2 : List (Serve.Stage × Serve.Filter) := Serve.allFilters cfg 0 2
def t2 : Serve.Target := ⟨.handler 2, [.write "two".toList]⟩

/-- what the model does on the three requests: all six filters and the route function; the stop at
    the first route filter (second route filter and route function do not run); the error path -/
example :
    (Serve.serve E0 cfg .dispatch {} sr1).log.map (fun ev => (ev.stage, ev.post)) =
      [(.cfilter 1, false), (.cfilter 2, false), (.sfilter 3, false), (.sfilter 4, false), (.rfilter 5, false),
       (.rfilter 6, false), (.handler 1, false), (.rfilter 6, true), (.rfilter 5, true), (.sfilter 4, true),
       (.sfilter 3, true), (.cfilter 2, true), (.cfilter 1, true)] ∧
    (Serve.serve E0 cfg .dispatch {} sr2).log.map (fun ev => (ev.stage, ev.post)) =
      [(.cfilter 1, false), (.cfilter 2, false), (.sfilter 3, false), (.sfilter 4, false), (.rfilter 7, false),
       (.rfilter 7, true), (.sfilter 4, true), (.sfilter 3, true), (.cfilter 2, true), (.cfilter 1, true)] ∧
    (Serve.serve E0 cfg .dispatch {} sr404).log.map (fun ev => (ev.stage, ev.post)) =
      [(.cfilter 1, false), (.cfilter 2, false), (.errorWriter, false), (.cfilter 2, true), (.cfilter 1, true)] := by
  decide

/-- `C06_closed_form`, `C06_closed_form_no_panic`: hypotheses `hk`, `hp`, `ht` on both chains -/
example := C06_closed_form fs1 t1 {} (by decide) (by decide) (by decide)
example := C06_closed_form fs2 t2 {} (by decide) (by decide) (by decide)
example := C06_closed_form_no_panic fs1 t1 {} (by decide) (by decide) (by decide)
example := C06_closed_form_no_panic fs2 t2 {} (by decide) (by decide) (by decide)
/-- `C06_target_iff`, both sides inhabited: no filter of `fs1` stops, so the route function runs;
    one of `fs2` stops, so it does not -/
example : (t1.stage, false) ∈ (Spec.chainLog fs1 t1 {}).1.map (fun ev => (ev.stage, ev.post)) :=
  (C06_target_iff fs1 t1 {} (by decide) (by decide) (by decide) (by decide)).mpr (by decide)
example : (t2.stage, false) ∉ (Spec.chainLog fs2 t2 {}).1.map (fun ev => (ev.stage, ev.post)) := fun h =>
  absurd ((C06_target_iff fs2 t2 {} (by decide) (by decide) (by decide) (by decide)).mp h) (by decide)
/-- `C06_noPanic` -/
example := C06_noPanic [.setAttr "k".toList "v".toList, .write "x".toList] [] (by decide)
/-- `C06_each_once`, `C06_each_once_served` -/
example := C06_each_once fs1 t1 {} (by decide) (by decide)
example := C06_each_once_served false E0 cfg distinct .dispatch {} sr1
example := C06_each_once_served false E0 cfg distinct .serveDispatch {} sr2
/-- `C06_served_labels`, `C06_routed_chain`: the chain of the routed request -/
example := C06_served_labels E0 cfg .dispatch sr1 fs1 t1
  { params := [("i".toList, "7".toList)], selPath := "/a/{i}".toList } (by decide)
example := C06_routed_chain E0 cfg sr1 0 1 [("i".toList, "7".toList)] "sel" rfl (by decide)
/-- `C06_error_path`, `C06_error_path_entry` -/
example := C06_error_path E0 cfg {} sr404 404 none "404-nosvc" rfl (by decide)
example := C06_error_path_entry E0 cfg .serveDispatch (.inr rfl) {} sr404 404 none "404-nosvc" rfl (by decide)
/-- `C06_handle_with_filter_path` -/
example := C06_handle_with_filter_path E0 cfg .muxHandleF (.inl rfl) {} sr1
/-- `C06_propagation_pass / replace / middle` (a filter whose first part sets an attribute) -/
example := C06_propagation_pass (.cfilter 1) (fl 1 .pass [.setAttr "k".toList "v".toList]) fs1 t1 {} rfl (by decide)
example := C06_propagation_replace (.sfilter 3) (fl 3 .replace [.setAttr "k".toList "v".toList]) fs1 t1 {} rfl (by decide)
example := C06_propagation_middle (.rfilter 5) (fl 5 .middle [.setAttr "k".toList "v".toList]) fs1 t1 {} rfl (by decide)

/-- what the model answers to the three requests, as observations -/
def o1 : Spec.Obs := Spec.obsOf (Serve.serve E0 cfg .dispatch {} sr1)
def o2 : Spec.Obs := Spec.obsOf (Serve.serve E0 cfg .dispatch {} sr2)
def o404 : Spec.Obs := Spec.obsOf (Serve.serve E0 cfg .dispatch {} sr404)

/-- `Spec.c06Holds` is not trivially true.  On the routed request it is falsified by: the events in
    reverse order; the route function missing; a service filter missing; a filter coming back twice;
    attributes not handed on; parameters not visible; the selected path not visible.  On the request
    stopped by a route filter: by the log of a request that was not stopped, and by a route function
    that ran all the same.  On the unroutable request: by a log with service and route filters, and
    by container filters that did not run. -/
example :
    Spec.c06Holds E0 cfg .dispatch sr1 o1 = true ∧
    Spec.c06Holds E0 cfg .dispatch sr1 { o1 with log := o1.log.reverse } = false ∧
    Spec.c06Holds E0 cfg .dispatch sr1 { o1 with log := o1.log.filter (fun ev => ev.stage != .handler 1) } = false ∧
    Spec.c06Holds E0 cfg .dispatch sr1 { o1 with log := o1.log.filter (fun ev => ev.stage != .sfilter 4) } = false ∧
    Spec.c06Holds E0 cfg .dispatch sr1 { o1 with log := o1.log ++ [⟨.cfilter 1, true, [], [], [], []⟩] } = false ∧
    Spec.c06Holds E0 cfg .dispatch sr1 { o1 with log := o1.log.map (fun ev => { ev with attrs := [] }) } = false ∧
    Spec.c06Holds E0 cfg .dispatch sr1 { o1 with log := o1.log.map (fun ev => { ev with params := [] }) } = false ∧
    Spec.c06Holds E0 cfg .dispatch sr1 { o1 with log := o1.log.map (fun ev => { ev with selPath := [] }) } = false ∧
    Spec.c06Holds E0 cfg .dispatch sr2 o2 = true ∧
    Spec.c06Holds E0 cfg .dispatch sr2 o1 = false ∧
    Spec.c06Holds E0 cfg .dispatch sr2 { o2 with log := o2.log ++ [⟨.handler 2, false, [], [], [], []⟩] } = false ∧
    Spec.c06Holds E0 cfg .dispatch sr404 o404 = true ∧
    Spec.c06Holds E0 cfg .dispatch sr404 o2 = false ∧
    Spec.c06Holds E0 cfg .dispatch sr404 { o404 with log := [] } = false := by
  decide

/-- `C06_fresh` on a history of three requests starting from a used ledger -/
example : (Serve.serveSeq E0 cfg .dispatch { acquired := 5, released := 5 } [sr1, sr2, sr404]).map (·.log) =
    [sr1, sr2, sr404].map (fun r => (Serve.serve E0 cfg .dispatch {} r).log) :=
  C06_fresh E0 cfg .dispatch _ _

end C06Example

/-! ## every filter kind, every script

`C06_closed_form` / `C06_target_iff` above assume filters that pass or stop and scripts that do not
panic.  The theorems below make no such assumption: `.pass`, `.stop`, `.replace` (a new Request and a
new Response are passed on), `.middle` (`HttpMiddlewareHandlerToFilter`), panics anywhere.  They are
statements about `Spec.chainLog` — the definition `C06_log` ties the model to and the driver
evaluates on every real log — and, through `C06_log_full`, about the model's log itself.
Proofs: `Lemmas/ChainAll.lean`. -/

/-- `Spec.passesOn` is exactly the condition under which `Spec.chainLog` descends into the rest of
    the chain: the kind calls the chain (pass, replace, middle) and the first part of the filter does
    not panic — whatever the attributes it is entered with -/
theorem C06_passesOn_iff (f : Serve.Filter) (attrs : List (Str × Str)) :
    Spec.passesOn f = true ↔
      (f.kind = .pass ∨ f.kind = .replace ∨ f.kind = .middle) ∧ (Spec.attrsAfter f.pre attrs).2 = false := by
  rw [Spec.attrsAfter_panics]
  unfold Spec.passesOn
  cases f.kind <;> simp

/-- (6) the SHAPE of every chain's log.  It is the way down — start events only: `Spec.descent`, the
    filters in list order up to and including the first that does not pass on, then the target iff
    there is none — followed by the way back — post events only, innermost first: a prefix of
    `Spec.returners` (the filters that passed on and the one that stopped), the whole of it when no
    panic leaves the chain -/
theorem C06_shape_all (fs : List (Serve.Stage × Serve.Filter)) (t : Serve.Target) (cx : Serve.Ctx) :
    ∃ asc, (Spec.chainLog fs t cx).1 = Spec.descent fs t cx ++ asc ∧
      (∀ ev ∈ Spec.descent fs t cx, ev.post = false) ∧ (∀ ev ∈ asc, ev.post = true) ∧
      asc.map (·.stage) <+: Spec.returners fs ∧
      ((Spec.chainLog fs t cx).2.2 = false → asc.map (·.stage) = Spec.returners fs) := by
  obtain ⟨asc, h1, h2, h3, h4⟩ := Serve.Chain.chainLog_shape fs t cx
  exact ⟨asc, h1, Serve.Chain.descent_post fs t cx, h2, h3, h4⟩

/-- (6) THE IFF CLAUSE for all filter kinds and all scripts (stage labels of filters differ from the
    target's: `C06_served_labels`): the target's start event occurs in the log iff EVERY filter of the
    chain passes control on — and it never occurs twice -/
theorem C06_target_iff_all (fs : List (Serve.Stage × Serve.Filter)) (t : Serve.Target) (cx : Serve.Ctx)
    (hd : ∀ sf ∈ fs, sf.1 ≠ t.stage) :
    ((t.stage, false) ∈ (Spec.chainLog fs t cx).1.map (fun ev => (ev.stage, ev.post)) ↔
      ∀ sf ∈ fs, Spec.passesOn sf.2 = true) ∧
    ((Spec.chainLog fs t cx).1.map (fun ev => (ev.stage, ev.post))).count (t.stage, false) ≤ 1 := by
  refine ⟨Serve.Chain.chainLog_target_iff fs t cx hd, ?_⟩
  rw [Serve.Chain.chainLog_target_count fs t cx hd]
  split <;> decide

/-- (6) "exactly once … if and only if": the number of times the target starts -/
theorem C06_target_count_all (fs : List (Serve.Stage × Serve.Filter)) (t : Serve.Target) (cx : Serve.Ctx)
    (hd : ∀ sf ∈ fs, sf.1 ≠ t.stage) :
    ((Spec.chainLog fs t cx).1.map (fun ev => (ev.stage, ev.post))).count (t.stage, false) =
      if fs.all (fun sf => Spec.passesOn sf.2) then 1 else 0 :=
  Serve.Chain.chainLog_target_count fs t cx hd

/-- (6) "a filter that does not pass control on stops everything after it", all kinds and scripts:
    when the filters `pre` pass on and `f` does not (it stops, or its first part panics), whatever
    follows `f` in the chain (`rest`, the target) leaves no event.  The log is the start events of
    `pre` and `f`, in this order, then post events only: `f`'s own iff it stopped rather than
    panicked (its code after the decision not to call the chain), then those of the filters BEFORE
    it, in reverse order — cut short when a panic is unwinding, all of them otherwise -/
theorem C06_blocked_all (pre : List (Serve.Stage × Serve.Filter)) (st : Serve.Stage) (f : Serve.Filter)
    (rest : List (Serve.Stage × Serve.Filter)) (t : Serve.Target) (cx : Serve.Ctx)
    (hpre : ∀ sf ∈ pre, Spec.passesOn sf.2 = true) (hf : Spec.passesOn f = false) :
    ∃ starts asc, (Spec.chainLog (pre ++ (st, f) :: rest) t cx).1 = starts ++ asc ∧
      starts.map (fun ev => (ev.stage, ev.post)) = (pre.map (fun sf => (sf.1, false))) ++ [(st, false)] ∧
      (∀ ev ∈ asc, ev.post = true) ∧
      asc.map (·.stage) <+: (if Spec.noPanic f.pre then [st] else []) ++ (pre.map (·.1)).reverse ∧
      ((Spec.chainLog (pre ++ (st, f) :: rest) t cx).2.2 = false →
        asc.map (·.stage) = (if Spec.noPanic f.pre then [st] else []) ++ (pre.map (·.1)).reverse) :=
  Serve.Chain.chainLog_blocked pre st f rest t cx hpre hf

/-- (6) THE ORDER CLAUSE for all kinds and scripts: the stages that start, in the order they start,
    are a prefix of the chain's label list followed by the target — the first `firstBlocked fs + 1`
    entries, `firstBlocked fs` being the index of the first filter that does not pass on.  With
    `C06_levels` (container ++ service ++ route labels, each in registration order) this is
    "container, service, route, each in registration order": `C06_order_all_routed` -/
theorem C06_order_all (fs : List (Serve.Stage × Serve.Filter)) (t : Serve.Target) (cx : Serve.Ctx) :
    ((Spec.chainLog fs t cx).1.filter (fun ev => !ev.post)).map (·.stage) =
      (fs.map (·.1) ++ [t.stage]).take (Spec.firstBlocked fs + 1) ∧
    ((Spec.chainLog fs t cx).1.filter (fun ev => !ev.post)).map (·.stage) <+: fs.map (·.1) ++ [t.stage] ∧
    (Spec.firstBlocked fs = fs.length ↔ ∀ sf ∈ fs, Spec.passesOn sf.2 = true) := by
  have h : ((Spec.chainLog fs t cx).1.filter (fun ev => !ev.post)).map (·.stage) =
      (fs.map (·.1) ++ [t.stage]).take (Spec.firstBlocked fs + 1) := by
    rw [Serve.Chain.chainLog_starts, Serve.Chain.descent_stages]
  exact ⟨h, by rw [h]; exact List.take_prefix _ _, Serve.Chain.firstBlocked_eq_length fs⟩

/-- (6) THE PROPAGATION CLAUSE for all kinds combined: the k-th stage that starts is the k-th stage
    of the chain and the Request/Response it is handed — attributes, path parameters, selected route
    path, response wrappers — is `Spec.ctxAt fs cx k`: what the filters before it passed on, one
    after the other (`C06_ctxAt_fold`) -/
theorem C06_propagation_all (fs : List (Serve.Stage × Serve.Filter)) (t : Serve.Target) (cx : Serve.Ctx) :
    (Spec.chainLog fs t cx).1.filter (fun ev => !ev.post) =
      (List.range (Spec.firstBlocked fs + 1)).map (fun k =>
        (⟨Spec.stageAt fs t k, false, (Spec.ctxAt fs cx k).attrs, (Spec.ctxAt fs cx k).params,
          (Spec.ctxAt fs cx k).selPath, (Spec.ctxAt fs cx k).wrappers⟩ : Serve.Event)) := by
  rw [Serve.Chain.chainLog_starts, Serve.Chain.descent_closed]
  rfl

/-- `Spec.ctxAt` is the fold of the contexts passed on: the chain's own context for the first
    stage; the stage after filter `k` receives what filter `k` makes of what it received — a pass
    filter its own Request with the attributes its first part left; a replace filter a NEW Request
    (its own attributes, no parameters, no selected path) and a NEW Response (one more wrapper); an
    adapted middleware the same Request and a wrapped writer -/
theorem C06_ctxAt_fold (fs : List (Serve.Stage × Serve.Filter)) (cx : Serve.Ctx) :
    Spec.ctxAt fs cx 0 = cx ∧
    (∀ k, Spec.ctxAt fs cx k = (fs.take k).foldl (fun c sf => Serve.Chain.innerCtx sf.2 c) cx) ∧
    (∀ k (hk : k < fs.length), Spec.ctxAt fs cx (k + 1) =
      (match fs[k].2.kind with
       | .replace => { attrs := [("who".toList, (toString fs[k].2.id).toList)], params := [], selPath := [],
                       wrappers := fs[k].2.id :: (Spec.ctxAt fs cx k).wrappers }
       | .middle => { Spec.ctxAt fs cx k with attrs := (Spec.attrsAfter fs[k].2.pre (Spec.ctxAt fs cx k).attrs).1,
                                              wrappers := fs[k].2.id :: (Spec.ctxAt fs cx k).wrappers }
       | _ => { Spec.ctxAt fs cx k with attrs := (Spec.attrsAfter fs[k].2.pre (Spec.ctxAt fs cx k).attrs).1 })) := by
  refine ⟨by cases fs <;> rfl, Serve.Chain.ctxAt_foldl fs cx, ?_⟩
  intro k hk
  rw [Serve.Chain.ctxAt_succ fs cx k hk]
  rfl

/-- `Spec.stageAt fs t k` is the k-th entry of the chain's label list followed by the target -/
theorem C06_stageAt (fs : List (Serve.Stage × Serve.Filter)) (t : Serve.Target) (k : Nat) :
    Spec.stageAt fs t k = ((fs.map (·.1) ++ [t.stage])[k]?).getD t.stage :=
  Serve.Chain.stageAt_eq fs t k

/-- (6)+(1) ON THE MODEL, every configuration, entry point, ledger and request: a stage that is
    neither a filter nor the recover handler — a route function, the plain handler, the service-error
    writer — starts iff it is the target of the chain the request goes through (`Spec.chainOf`) and
    EVERY filter of that chain passes control on; and it never starts twice (no assumption on
    filter ids) -/
theorem C06_target_iff_served (E : ReEnv) (cfg : Serve.Cfg) (e : Serve.Entry) (w : Serve.World) (sr : Serve.SReq)
    (st : Serve.Stage) (hf : st.isFilter = false) (hr : st ≠ .recover) :
    ((st, false) ∈ (Serve.serve E cfg e w sr).log.map (fun ev => (ev.stage, ev.post)) ↔
      ∃ fs t cx, Spec.chainOf E cfg e sr = some (fs, t, cx) ∧ t.stage = st ∧ ∀ sf ∈ fs, Spec.passesOn sf.2 = true) ∧
    ((Serve.serve E cfg e w sr).log.map (fun ev => (ev.stage, ev.post))).count (st, false) ≤ 1 :=
  ⟨Serve.Chain.serve_target_iff E cfg e w sr st hf hr, Serve.Chain.serve_target_once E cfg e w sr st hf hr⟩

/-- (6)+(1) the route function: it runs (exactly once) iff the request came in through
    `Container.Dispatch` or `Container.ServeHTTP`, routing selected this route, and every container
    filter, every filter of the WebService and every filter of the route passes control on -/
theorem C06_handler_iff (E : ReEnv) (cfg : Serve.Cfg) (e : Serve.Entry) (w : Serve.World) (sr : Serve.SReq) (rid : Nat) :
    ((Serve.Stage.handler rid, false) ∈ (Serve.serve E cfg e w sr).log.map (fun ev => (ev.stage, ev.post)) ↔
      (e = .dispatch ∨ e = .serveDispatch) ∧ sr.condPanic = none ∧
      ∃ svc ps tag, routeTagged E cfg.routing sr.req = (.selected svc rid ps, tag) ∧
        (∀ f ∈ cfg.cfilters, Spec.passesOn f = true) ∧ (∀ f ∈ (Serve.svcX cfg svc).filters, Spec.passesOn f = true) ∧
        (∀ f ∈ (Serve.routeX cfg rid).filters, Spec.passesOn f = true)) ∧
    ((Serve.serve E cfg e w sr).log.map (fun ev => (ev.stage, ev.post))).count (Serve.Stage.handler rid, false) ≤ 1 :=
  ⟨Serve.Chain.serve_handler_iff E cfg e w sr rid,
   Serve.Chain.serve_target_once E cfg e w sr (.handler rid) rfl (by intro h; cases h)⟩

/-- (6)+(1) the plain `http.Handler`: it runs (exactly once) iff it was registered with `Handle`
    (no filter applies) or with `HandleWithFilter` and every container filter passes control on -/
theorem C06_plain_iff (E : ReEnv) (cfg : Serve.Cfg) (e : Serve.Entry) (w : Serve.World) (sr : Serve.SReq) :
    ((Serve.Stage.plain 0, false) ∈ (Serve.serve E cfg e w sr).log.map (fun ev => (ev.stage, ev.post)) ↔
      (e = .muxHandle ∨ e = .serveHandle) ∨
      ((e = .muxHandleF ∨ e = .serveHandleF) ∧ ∀ f ∈ cfg.cfilters, Spec.passesOn f = true)) ∧
    ((Serve.serve E cfg e w sr).log.map (fun ev => (ev.stage, ev.post))).count (Serve.Stage.plain 0, false) ≤ 1 :=
  ⟨Serve.Chain.serve_plain_iff E cfg e w sr,
   Serve.Chain.serve_target_once E cfg e w sr (.plain 0) rfl (by intro h; cases h)⟩

/-- (6)+(1) order and propagation ON THE MODEL, every entry point: the start events of the model's
    log are the stages of the chain `Spec.chainOf` selects, in chain order up to the first filter
    that does not pass on, the k-th with the context `Spec.ctxAt fs cx k` — followed by nothing but
    events of the recover handler -/
theorem C06_starts_served (E : ReEnv) (cfg : Serve.Cfg) (e : Serve.Entry) (w : Serve.World) (sr : Serve.SReq)
    (fs : List (Serve.Stage × Serve.Filter)) (t : Serve.Target) (cx : Serve.Ctx)
    (h : Spec.chainOf E cfg e sr = some (fs, t, cx)) :
    ∃ r : List Serve.Event, (∀ ev ∈ r, ev.stage = .recover) ∧
      (Serve.serve E cfg e w sr).log.filter (fun ev => !ev.post) =
        (List.range (Spec.firstBlocked fs + 1)).map (fun k =>
          (⟨Spec.stageAt fs t k, false, (Spec.ctxAt fs cx k).attrs, (Spec.ctxAt fs cx k).params,
            (Spec.ctxAt fs cx k).selPath, (Spec.ctxAt fs cx k).wrappers⟩ : Serve.Event)) ++ r ∧
      ((Serve.serve E cfg e w sr).log.filter (fun ev => !ev.post)).map (·.stage) =
        (fs.map (·.1) ++ [t.stage]).take (Spec.firstBlocked fs + 1) ++ r.map (·.stage) := by
  obtain ⟨r, hr1, hr2⟩ := Serve.Chain.serve_starts E cfg e w sr fs t cx h
  refine ⟨r, hr1, hr2, ?_⟩
  rw [hr2, List.map_append, ← Serve.Chain.descent_closed fs t cx, Serve.Chain.descent_stages]

/-- (6)+(3) the order clause for a routed request, all kinds and scripts: the stages that start are,
    in this order, container filters, filters of the WebService, filters of the route — each level in
    registration order — then the route function: the first `firstBlocked + 1` of them (all of them
    iff every filter passes on), then nothing but the recover handler -/
theorem C06_order_all_routed (E : ReEnv) (cfg : Serve.Cfg) (e : Serve.Entry) (he : e = .dispatch ∨ e = .serveDispatch)
    (w : Serve.World) (sr : Serve.SReq) (svc rid : Nat) (ps : Params) (tag : String)
    (hc : sr.condPanic = none) (hr : routeTagged E cfg.routing sr.req = (.selected svc rid ps, tag)) :
    ∃ r : List Serve.Event, (∀ ev ∈ r, ev.stage = .recover) ∧
      ((Serve.serve E cfg e w sr).log.filter (fun ev => !ev.post)).map (·.stage) =
        (cfg.cfilters.map (fun f => Serve.Stage.cfilter f.id) ++ (Serve.svcX cfg svc).filters.map (fun f => Serve.Stage.sfilter f.id) ++
          (Serve.routeX cfg rid).filters.map (fun f => Serve.Stage.rfilter f.id) ++ [Serve.Stage.handler rid]).take
            (Spec.firstBlocked (Serve.allFilters cfg svc rid) + 1) ++ r.map (·.stage) := by
  obtain ⟨selPath, hch⟩ := C06_routed_chain E cfg sr svc rid ps tag hc hr
  have hch' : Spec.chainOf E cfg e sr =
      some (Serve.allFilters cfg svc rid, ⟨.handler rid, (Serve.routeX cfg rid).script⟩, { params := ps, selPath := selPath }) := by
    rcases he with rfl | rfl <;> exact hch
  obtain ⟨r, hr1, _, hr3⟩ := C06_starts_served E cfg e w sr _ _ _ hch'
  exact ⟨r, hr1, by rw [hr3, C06_levels]⟩

/-! ### non-vacuity: a replace filter, a middleware filter, a stopping filter and a panicking filter in one table -/
namespace C06AllExample
open C06Example (E0 rd fl)

/-- container filters: 1 replaces Request and Response (after setting an attribute on the OLD
    Request), 2 is an adapted middleware (sets an attribute, wraps the writer); service filter 3
    passes; route 1 (`/a/{i}`) has a passing route filter, route 2 (`/a/x`) one that stops, route 3
    (`/a/y`) one whose first part panics — each followed by a filter that would pass -/
def cfg : Serve.Cfg :=
  { routing := { router := .curly, services := [{ id := 0, root := "/a".toList, routes := [rd 1 "GET" "/{i}", rd 2 "GET" "/x", rd 3 "GET" "/y"] }] }
    cfilters := [fl 1 .replace [.setAttr "old".toList "1".toList], fl 2 .middle [.setAttr "m".toList "2".toList]]
    svcs := [{ id := 0, filters := [fl 3 .pass] }]
    routes := [{ id := 1, filters := [fl 5 .pass [.setAttr "r".toList "5".toList]], script := [.write "one".toList] },
               { id := 2, filters := [fl 7 .stop [.writeHeader 403], fl 8 .pass], script := [.write "two".toList] },
               { id := 3, filters := [fl 9 .pass [.panic "boom".toList], fl 10 .pass], script := [.write "three".toList] }] }

def sr1 : Serve.SReq := { req := { method := "GET".toList, path := "/a/7".toList } }
def sr2 : Serve.SReq := { req := { method := "GET".toList, path := "/a/x".toList } }
def sr3 : Serve.SReq := { req := { method := "GET".toList, path := "/a/y".toList } }

def pairs (r : Serve.Result) : List (Serve.Stage × Bool) := r.log.map (fun ev => (ev.stage, ev.post))

/-- which filters pass control on: the replace filter, the middleware and the pass filters do; the
    one that stops and the one that panics do not -/
example :
    (Serve.allFilters cfg 0 1).map (fun sf => Spec.passesOn sf.2) = [true, true, true, true] ∧
    (Serve.allFilters cfg 0 2).map (fun sf => Spec.passesOn sf.2) = [true, true, true, false, true] ∧
    (Serve.allFilters cfg 0 3).map (fun sf => Spec.passesOn sf.2) = [true, true, true, false, true] ∧
    Spec.firstBlocked (Serve.allFilters cfg 0 1) = 4 ∧ Spec.firstBlocked (Serve.allFilters cfg 0 2) = 3 ∧
    Spec.firstBlocked (Serve.allFilters cfg 0 3) = 3 := by
  decide

/-- the iff, both sides evaluated, both directions inhabited.  Route 1: every filter passes on (a
    replace filter and a middleware among them) and the route function runs, once.  Route 2: a filter
    stops; route 3: a filter panics — the route function does not run, nor does the filter after the
    one that did not pass on.  After the stop the filters before it come back in reverse order; after
    the panic nothing comes back (recovery is off: the panic leaves `Dispatch`). -/
example :
    ((Serve.Stage.handler 1, false) ∈ pairs (Serve.serve E0 cfg .dispatch {} sr1)) ∧
    (∀ sf ∈ Serve.allFilters cfg 0 1, Spec.passesOn sf.2 = true) ∧
    (pairs (Serve.serve E0 cfg .dispatch {} sr1)).count (.handler 1, false) = 1 ∧
    ¬ ((Serve.Stage.handler 2, false) ∈ pairs (Serve.serve E0 cfg .dispatch {} sr2)) ∧
    ¬ (∀ sf ∈ Serve.allFilters cfg 0 2, Spec.passesOn sf.2 = true) ∧
    ¬ ((Serve.Stage.handler 3, false) ∈ pairs (Serve.serve E0 cfg .serveDispatch {} sr3)) ∧
    ¬ (∀ sf ∈ Serve.allFilters cfg 0 3, Spec.passesOn sf.2 = true) ∧
    pairs (Serve.serve E0 cfg .dispatch {} sr1) =
      [(.cfilter 1, false), (.cfilter 2, false), (.sfilter 3, false), (.rfilter 5, false), (.handler 1, false),
       (.rfilter 5, true), (.sfilter 3, true), (.cfilter 2, true), (.cfilter 1, true)] ∧
    pairs (Serve.serve E0 cfg .dispatch {} sr2) =
      [(.cfilter 1, false), (.cfilter 2, false), (.sfilter 3, false), (.rfilter 7, false),
       (.rfilter 7, true), (.sfilter 3, true), (.cfilter 2, true), (.cfilter 1, true)] ∧
    pairs (Serve.serve E0 cfg .serveDispatch {} sr3) =
      [(.cfilter 1, false), (.cfilter 2, false), (.sfilter 3, false), (.rfilter 9, false)] ∧
    (Serve.serve E0 cfg .serveDispatch {} sr3).escaped = some "boom".toList := by
  decide

/-- the theorems instantiated: `C06_handler_iff` in both directions on the model's log -/
example : (Serve.Stage.handler 1, false) ∈ pairs (Serve.serve E0 cfg .dispatch {} sr1) :=
  (C06_handler_iff E0 cfg .dispatch {} sr1 1).1.mpr
    ⟨.inl rfl, rfl, 0, [("i".toList, "7".toList)], "sel", by decide, by decide, by decide, by decide⟩
example : ∀ f ∈ (Serve.routeX cfg 1).filters, Spec.passesOn f = true :=
  (((C06_handler_iff E0 cfg .dispatch {} sr1 1).1.mp (by decide)).2.2.elim
    (fun _ h => h.elim (fun _ h => h.elim (fun _ h => h.2.2.2))))
example : (Serve.Stage.handler 2, false) ∉ pairs (Serve.serve E0 cfg .dispatch {} sr2) := fun h => by
  obtain ⟨_, _, svc, ps, tag, hr, _, _, h3⟩ := (C06_handler_iff E0 cfg .dispatch {} sr2 2).1.mp h
  exact absurd h3 (by decide)
example : (Serve.Stage.handler 3, false) ∉ pairs (Serve.serve E0 cfg .serveDispatch {} sr3) := fun h => by
  obtain ⟨_, _, svc, ps, tag, hr, _, _, h3⟩ := (C06_handler_iff E0 cfg .serveDispatch {} sr3 3).1.mp h
  exact absurd h3 (by decide)

/-- `C06_target_iff_all`, `C06_target_count_all` on the three chains (hypothesis `hd` by `decide`) -/
def fs1 : List (Serve.Stage × Serve.Filter) := Serve.allFilters cfg 0 1
def t1 : Serve.Target := ⟨.handler 1, [.write "one".toList]⟩
def fs2 : List (Serve.Stage × Serve.Filter) := Serve.allFilters cfg 0 2
def t2 : Serve.Target := ⟨.handler 2, [.write "two".toList]⟩
def fs3 : List (Serve.Stage × Serve.Filter) := Serve.allFilters cfg 0 3
def t3 : Serve.Target := ⟨.handler 3, [.write "three".toList]⟩
example : (t1.stage, false) ∈ (Spec.chainLog fs1 t1 {}).1.map (fun ev => (ev.stage, ev.post)) :=
  (C06_target_iff_all fs1 t1 {} (by decide)).1.mpr (by decide)
example : (t2.stage, false) ∉ (Spec.chainLog fs2 t2 {}).1.map (fun ev => (ev.stage, ev.post)) := fun h =>
  absurd ((C06_target_iff_all fs2 t2 {} (by decide)).1.mp h) (by decide)
example : (t3.stage, false) ∉ (Spec.chainLog fs3 t3 {}).1.map (fun ev => (ev.stage, ev.post)) := fun h =>
  absurd ((C06_target_iff_all fs3 t3 {} (by decide)).1.mp h) (by decide)
example := C06_target_count_all fs1 t1 {} (by decide)
example := C06_shape_all fs3 t3 {}
/-- `C06_blocked_all`: the stopping filter 7 after three filters that pass on, filter 8 behind it;
    the panicking filter 9 with filter 10 behind it -/
example := C06_blocked_all ((Serve.allFilters cfg 0 2).take 3) (.rfilter 7) (fl 7 .stop [.writeHeader 403])
  [(.rfilter 8, fl 8 .pass)] t2 {} (by decide) (by decide)
example := C06_blocked_all ((Serve.allFilters cfg 0 3).take 3) (.rfilter 9) (fl 9 .pass [.panic "boom".toList])
  [(.rfilter 10, fl 10 .pass)] t3 {} (by decide) (by decide)
example : (Serve.allFilters cfg 0 2).take 3 ++ (.rfilter 7, fl 7 .stop [.writeHeader 403]) :: [(.rfilter 8, fl 8 .pass)] = fs2 := by
  decide

/-- propagation through replace AND middleware combined (`C06_propagation_all`, `C06_ctxAt_fold`):
    the chain is entered with the route's parameters and selected path; the replace filter passes on
    a new Request (its own attribute only — the attribute it set on the old Request is not visible —,
    no parameters, no selected path) and a wrapped Response; the middleware adds an attribute and a
    second wrapper; the route filter adds an attribute; the route function sees all of it.  The model's
    own start events are exactly these. -/
example :
    let cx0 : Serve.Ctx := { params := [("i".toList, "7".toList)], selPath := "/a/{i}".toList }
    let who := ("who".toList, "1".toList)
    let m := ("m".toList, "2".toList)
    let r := ("r".toList, "5".toList)
    Spec.chainOf E0 cfg .dispatch sr1 = some (fs1, t1, cx0) ∧
    (List.range 5).map (Spec.ctxAt fs1 cx0) =
      [cx0, { attrs := [who], wrappers := [1] }, { attrs := [who, m], wrappers := [2, 1] },
       { attrs := [who, m], wrappers := [2, 1] }, { attrs := [who, m, r], wrappers := [2, 1] }] ∧
    (List.range 5).map (Spec.stageAt fs1 t1) = [.cfilter 1, .cfilter 2, .sfilter 3, .rfilter 5, .handler 1] ∧
    (Serve.serve E0 cfg .dispatch {} sr1).log.filter (fun ev => !ev.post) =
      [⟨.cfilter 1, false, [], [("i".toList, "7".toList)], "/a/{i}".toList, []⟩,
       ⟨.cfilter 2, false, [who], [], [], [1]⟩, ⟨.sfilter 3, false, [who, m], [], [], [2, 1]⟩,
       ⟨.rfilter 5, false, [who, m], [], [], [2, 1]⟩, ⟨.handler 1, false, [who, m, r], [], [], [2, 1]⟩] := by
  decide
example := C06_propagation_all fs1 t1 {}
example := C06_ctxAt_fold fs1 {}
example := C06_stageAt fs1 t1 4
example := C06_order_all fs2 t2 {}
example := C06_starts_served E0 cfg .dispatch {} sr1 fs1 t1
  { params := [("i".toList, "7".toList)], selPath := "/a/{i}".toList } (by decide)
example := C06_order_all_routed E0 cfg .serveDispatch (.inr rfl) {} sr3 0 3 [] "sel" rfl (by decide)
example := C06_target_iff_served E0 cfg .dispatch {} sr2 (.handler 2) rfl (by decide)
example := C06_passesOn_iff (fl 9 .pass [.panic "boom".toList]) []

/-- the plain handler behind `HandleWithFilter`: container filters 1 (replace) and 2 (middleware)
    pass on, it runs; through `Handle` it runs whatever the filters; with a stopping container
    filter in front it does not -/
example :
    ((Serve.Stage.plain 0, false) ∈ pairs (Serve.serve E0 cfg .muxHandleF {} sr1)) ∧
    ((Serve.Stage.plain 0, false) ∈ pairs (Serve.serve E0 { cfg with cfilters := [fl 1 .stop] } .serveHandle {} sr1)) ∧
    ¬ ((Serve.Stage.plain 0, false) ∈ pairs (Serve.serve E0 { cfg with cfilters := [fl 1 .stop] } .serveHandleF {} sr1)) ∧
    (Serve.serve E0 cfg .muxHandleF {} sr1).log.filter (fun ev => !ev.post) =
      [⟨.cfilter 1, false, [], [], [], []⟩, ⟨.cfilter 2, false, [("who".toList, "1".toList)], [], [], [1]⟩,
       ⟨.plain 0, false, [("who".toList, "1".toList), ("m".toList, "2".toList)], [], [], [2, 1]⟩] := by
  decide
example := (C06_plain_iff E0 cfg .muxHandleF {} sr1).1.mpr (.inr ⟨.inl rfl, by decide⟩)

end C06AllExample

/-! The frame condition (Lemmas/StateShape.lean): the code has exactly the state this property's model
    accounts for — no further package-level variable, struct type or field; constants as modelled. -/
-- also: Restful.StateShape.globals_shape
-- also: Restful.StateShape.consts_shape
-- also: Restful.StateShape.container_shape

end Props
end Restful
