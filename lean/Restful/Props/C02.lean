/-
C02 — every request gets exactly one outcome; 404/405/415/406 are exact; no panic.

`Spec.c02Holds` (Spec/Classify.lean) is the decision table of the property evaluated on an outcome:
best-matching service → routes admitting the path whose conditions hold (404 if none) → same
method (405 + Allow set) → consuming the Content-Type (415 when a body is sent) → able to satisfy
Accept (415 for a bodiless POST/PUT/PATCH, else 406) → one of the remaining routes runs, once.
"Best-matching" for CurlyRouter: greatest `Spec.claimScore` among the roots that CLAIM the URL —
root tokens match the leading segments, variable segments non-empty, regex variables satisfied.

Full statement:
  theorem C02_classify (hwf : cfg.wfTemplates) (hh : mediaHygiene cfg) :
      c02Holds E cfg req (route E cfg req) (if selected then 1 else 0) = true
CurlyRouter: proved in full (`C02_classify_curly`).  RouterJSR311: false on the current code, the
proof forces one hypothesis that is the class of a known finding:
  F16  RouterJSR311: `.` in the compiled expression stops at '\n' (`'\n' ∉ req.path`)
so the RouterJSR311 theorem keeps its `_partial`.

Repaired findings:
F03 (CurlyRouter ignored the regex of a root-path variable) is repaired (fix 19aa57d):
`computeWebserviceScore` evaluates the expression with `regularMatchesPathToken`; the router's score
is `Spec.claimScore` (`Curly.claimScore_eq`), the former hypothesis `Spec.noRootRegex cfg` is gone,
and the former witness (roots `/{name:[a-z]+}`, `/{id:[0-9]+}`, request `/123`) now runs the second
service's route (`C02_F03_fixed`).
F04 (two notions of "has a body" in detectRoute) is repaired: `detectRoute` asks `ContentLength ≠ 0`
at the Content-Type step and `ContentLength = 0` at the Accept step, which is `Spec.hasBody`; the
former hypothesis `Spec.bodyCoherent req` is gone from both theorems, and the former witness request
(chunked POST) now satisfies the table (`C02_F04_fixed`).

Well-formedness of roots of route-less services (`Config.wfTemplates` speaks about route paths
only): `Jsr.rootsRead` for RouterJSR311 (`C02_roots_witness`), `Curly.rootsRead` for CurlyRouter —
the root reads as a template (`C02_curly_roots_witness`: `{a:` panics in the new scoring) none of
whose tokens carries a custom verb (`C02_curly_rootverb_witness`: the new scoring does not strip
`:verb` before cutting the expression out of the token).
-/
import Restful.Lemmas.Classify
import Restful.Lemmas.StateShape
namespace Restful
namespace Props
variable (E : ReEnv)

/-- dispatching never panics, for every table in the grammar and every request
    (both routers additionally read the root path of route-less services: RouterJSR311 compiles
    it, CurlyRouter cuts the expressions of its `{name:regex}` tokens out of it) -/
theorem C02_total (cfg : Config) (hwf : cfg.wfTemplates = true)
    (hrootsJ : cfg.router = .jsr → Jsr.rootsRead cfg = true)
    (hrootsC : cfg.router = .curly → Curly.rootsRead cfg = true) (req : Req) :
    ∀ w, route E cfg req ≠ .panic w :=
  Restful.C02_total E cfg hwf hrootsJ hrootsC req

/-- CurlyRouter: the outcome is exactly what the decision table says (full statement) -/
theorem C02_classify_curly (cfg : Config) (hk : cfg.router = .curly) (hwf : cfg.wfTemplates = true)
    (hroots : Curly.rootsRead cfg = true) (hh : Spec.mediaHygiene cfg = true) (req : Req) :
    Spec.c02Holds E cfg req (route E cfg req)
      (match route E cfg req with | .selected _ _ _ => 1 | _ => 0) = true :=
  Restful.C02_classify_curly E cfg hk hwf hroots hh req

/-- RouterJSR311: the outcome is exactly what the decision table says -/
theorem C02_classify_jsr_partial (cfg : Config) (hk : cfg.router = .jsr) (hwf : cfg.wfTemplates = true)
    (hroots : Jsr.rootsRead cfg = true) (hh : Spec.mediaHygiene cfg = true) (req : Req) (hn : '\n' ∉ req.path) :
    Spec.c02Holds E cfg req (route E cfg req)
      (match route E cfg req with | .selected _ _ _ => 1 | _ => 0) = true :=
  Restful.C02_classify_jsr_partial E cfg hk hwf hroots hh req hn

/-- CurlyRouter's score of a root IS the specification's claim, regular expressions of root
    variables included (the lemma that used to need `Spec.noRootRegex`) -/
theorem C02_claimScore (cfg : Config) (hk : cfg.router = .curly) (hwf : cfg.wfTemplates = true)
    (hroots : Curly.rootsRead cfg = true) (s : Service) (hs : s ∈ cfg.services) (qs : List Str) :
    Curly.wsScoreE E qs (tokenize s.rootPath) =
      match Spec.claimScore E s qs with
      | some sc => .yes sc
      | none => .no :=
  Curly.claimScore_eq E hk hwf hroots hs qs

/-! The `decide`d witnesses showing that the remaining hypotheses cannot be dropped, and the former
F03 and F04 witnesses turned into positive instances, live next to the lemmas (Lemmas/Classify.lean)
and are audited with this property: -/
-- also: Restful.C02_F03_fixed
-- also: Restful.C02_F04_fixed
-- also: Restful.C02_roots_witness
-- also: Restful.C02_curly_roots_witness
-- also: Restful.C02_curly_rootverb_witness

/-! The frame condition (Lemmas/StateShape.lean): the code has exactly the state this property's model
    accounts for — no further package-level variable, struct type or field; constants as modelled. -/
-- also: Restful.StateShape.globals_shape
-- also: Restful.StateShape.consts_shape
-- also: Restful.StateShape.routing_shape

end Props
end Restful
