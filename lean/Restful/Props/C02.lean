/-
C02 — every request gets exactly one outcome; 404/405/415/406 are exact; no panic.

`Spec.c02Holds` (Spec/Classify.lean) is the decision table of the property evaluated on an outcome:
best-matching service → routes admitting the path whose conditions hold (404 if none) → same
method (405 + Allow set) → consuming the Content-Type (415 when a body is sent) → able to satisfy
Accept (415 for a bodiless POST/PUT/PATCH, else 406) → one of the remaining routes runs, once.

Full statement (false on the current code, see the witnesses):
  theorem C02_classify (hwf : cfg.wfTemplates) (hh : mediaHygiene cfg) :
      c02Holds E cfg req (route E cfg req) (if selected then 1 else 0) = true
The proofs force two hypotheses, each the class of a known finding:
  F03  CurlyRouter ignores the regex of a root-path variable     (`noRootRegex`)
  F16  RouterJSR311: `.` in the compiled expression stops at '\n' (`'\n' ∉ req.path`)
F04 (two notions of "has a body" in detectRoute) is repaired: `detectRoute` asks `ContentLength ≠ 0`
at the Content-Type step and `ContentLength = 0` at the Accept step, which is `Spec.hasBody`; the
former hypothesis `Spec.bodyCoherent req` is gone from both theorems, and the former witness request
(chunked POST) now satisfies the table (`C02_F04_fixed`).
-/
import Restful.Lemmas.Classify
namespace Restful
namespace Props
variable (E : ReEnv)

/-- dispatching never panics, for every table in the grammar and every request
    (RouterJSR311 additionally compiles the root path of route-less services) -/
theorem C02_total (cfg : Config) (hwf : cfg.wfTemplates = true)
    (hroots : cfg.router = .jsr → Jsr.rootsRead cfg = true) (req : Req) :
    ∀ w, route E cfg req ≠ .panic w :=
  Restful.C02_total E cfg hwf hroots req

/-- CurlyRouter: the outcome is exactly what the decision table says -/
theorem C02_classify_curly_partial (cfg : Config) (hk : cfg.router = .curly) (hwf : cfg.wfTemplates = true)
    (hh : Spec.mediaHygiene cfg = true) (hr : Spec.noRootRegex cfg = true) (req : Req) :
    Spec.c02Holds E cfg req (route E cfg req)
      (match route E cfg req with | .selected _ _ _ => 1 | _ => 0) = true :=
  Restful.C02_classify_curly_partial E cfg hk hwf hh hr req

/-- RouterJSR311: the outcome is exactly what the decision table says -/
theorem C02_classify_jsr_partial (cfg : Config) (hk : cfg.router = .jsr) (hwf : cfg.wfTemplates = true)
    (hroots : Jsr.rootsRead cfg = true) (hh : Spec.mediaHygiene cfg = true) (req : Req) (hn : '\n' ∉ req.path) :
    Spec.c02Holds E cfg req (route E cfg req)
      (match route E cfg req with | .selected _ _ _ => 1 | _ => 0) = true :=
  Restful.C02_classify_jsr_partial E cfg hk hwf hroots hh req hn

/-! The `decide`d witnesses showing that the remaining hypotheses cannot be dropped, and the former
F04 witness turned into a positive instance, live next to the lemmas (Lemmas/Classify.lean) and are
audited with this property: -/
-- also: Restful.C02_F03_witness
-- also: Restful.C02_F04_fixed
-- also: Restful.C02_roots_witness

end Props
end Restful
