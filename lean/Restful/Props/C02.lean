/-
C02 — every request gets exactly one outcome; 404/405/415/406 are exact; no panic.

`Spec.c02Holds` (Spec/Classify.lean) is the decision table of the property evaluated on an outcome:
best-matching service → routes admitting the path whose conditions hold (404 if none) → same
method (405 + Allow set) → consuming the Content-Type (415 when a body is sent) → able to satisfy
Accept (415 for a bodiless POST/PUT/PATCH, else 406) → one of the remaining routes runs, once.
"Best-matching" for CurlyRouter: greatest `Spec.claimScore` among the roots that CLAIM the URL —
root tokens match the leading segments, variable segments non-empty, regex variables satisfied.
"Best-matching" for RouterJSR311: `Spec.jsrBestService` — among the roots whose compiled expression
matches the URL, the one with the maximal key (matchesCount, then literalCount, then
nonDefaultCount; `Spec.JsrKey`), the FIRST registered one among equal maximal keys.  This is stated
without sorting and without the router model (only the regex layer `Jsr.compile` / `Jsr.matchExpr`);
`C02_jsr_best_service` proves that the model's `detectDispatcher` (collect, `sort.Sort(sort.Reverse)`,
take `[0]`) computes exactly that, for all inputs — so `C02_classify_jsr_partial` is not circular on
which WebService is chosen.

Full statement:
  theorem C02_classify (hwf : cfg.wfTemplates) (hh : mediaHygiene cfg) :
      c02Holds E cfg req (route E cfg req) (if selected then 1 else 0) = true
CurlyRouter: proved in full (`C02_classify_curly`).  RouterJSR311: false on the current code, the
proof forces one hypothesis that is the class of a known finding:
  F16  RouterJSR311: `.` in the compiled expression stops at '\n' (`'\n' ∉ req.path`)
so the RouterJSR311 theorem keeps its `_partial`.

Repaired findings:
F03 (CurlyRouter ignored the regex of a root-path variable) is repaired (fix 19aa57d):
`computeWebserviceScore` evaluates the expression with `regularMatchesPathToken`; the router's score
is `Spec.claimScore` (`Curly.claimScore_eq`), the former hypothesis `Spec.noRootRegex cfg` is gone,
and the former witness (roots `/{name:[a-z]+}`, `/{id:[0-9]+}`, request `/123`) now runs the second
service's route (`C02_F03_fixed`).
F04 (two notions of "has a body" in detectRoute) is repaired: `detectRoute` asks `ContentLength ≠ 0`
at the Content-Type step and `ContentLength = 0` at the Accept step, which is `Spec.hasBody`; the
former hypothesis `Spec.bodyCoherent req` is gone from both theorems, and the former witness request
(chunked POST) now satisfies the table (`C02_F04_fixed`).

Well-formedness of roots of route-less services (`Config.wfTemplates` speaks about route paths
only): `Jsr.rootsRead` for RouterJSR311 (`C02_roots_witness`), `Curly.rootsRead` for CurlyRouter —
the root reads as a template (`C02_curly_roots_witness`: `{a:` panics in the new scoring) none of
whose tokens carries a custom verb (`C02_curly_rootverb_witness`: the new scoring does not strip
`:verb` before cutting the expression out of the token).
-/
import Restful.Lemmas.Classify
import Restful.Lemmas.StateShape
import Restful.Lemmas.TieRequest
import Restful.Lemmas.TieImpScore
import Restful.Lemmas.TieImpMatch
import Restful.Lemmas.TieImpPath
import Restful.Lemmas.TieImpMedia
import Restful.Lemmas.TieImpTemplate
import Restful.Lemmas.TieImpDetect
import Restful.Lemmas.TieImpCurlySel
import Restful.Lemmas.TieImpJsrSel
import Restful.Lemmas.TieImpSelect
namespace Restful
namespace Props
variable (E : ReEnv)

/-- dispatching never panics, for every table in the grammar and every request
    (both routers additionally read the root path of route-less services: RouterJSR311 compiles
    it, CurlyRouter cuts the expressions of its `{name:regex}` tokens out of it) -/
theorem C02_total (cfg : Config) (hwf : cfg.wfTemplates = true)
    (hrootsJ : cfg.router = .jsr → Jsr.rootsRead cfg = true)
    (hrootsC : cfg.router = .curly → Curly.rootsRead cfg = true) (req : Req) :
    ∀ w, route E cfg req ≠ .panic w :=
  Restful.C02_total E cfg hwf hrootsJ hrootsC req

/-- CurlyRouter: the outcome is exactly what the decision table says (full statement) -/
theorem C02_classify_curly (cfg : Config) (hk : cfg.router = .curly) (hwf : cfg.wfTemplates = true)
    (hroots : Curly.rootsRead cfg = true) (hh : Spec.mediaHygiene cfg = true) (req : Req) :
    Spec.c02Holds E cfg req (route E cfg req)
      (match route E cfg req with | .selected _ _ _ => 1 | _ => 0) = true :=
  Restful.C02_classify_curly E cfg hk hwf hroots hh req

/-- RouterJSR311: the outcome is exactly what the decision table says -/
theorem C02_classify_jsr_partial (cfg : Config) (hk : cfg.router = .jsr) (hwf : cfg.wfTemplates = true)
    (hroots : Jsr.rootsRead cfg = true) (hh : Spec.mediaHygiene cfg = true) (req : Req) (hn : '\n' ∉ req.path) :
    Spec.c02Holds E cfg req (route E cfg req)
      (match route E cfg req with | .selected _ _ _ => 1 | _ => 0) = true :=
  Restful.C02_classify_jsr_partial E cfg hk hwf hroots hh req hn

/-- RouterJSR311: WHICH WebService is chosen.  The model of `detectDispatcher` (jsr311.go:214:
    collect the roots whose expression matches, `sort.Sort(sort.Reverse(…))`, take `[0]`) returns —
    compile failure, "not found", or the service with the final match handed to the route stage —
    exactly what the independent specification `Spec.jsrBestService` names: the first registered
    among the matching services whose key (matchesCount, literalCount, nonDefaultCount) is maximal.
    For all service lists and paths (the model's sort is insertion sort at every length). -/
theorem C02_jsr_best_service (svcs : List Service) (path : Str) :
    Jsr.detectDispatcher E svcs path = Spec.jsrBestService E svcs path :=
  Jsr.detectDispatcher_eq_spec E svcs path

/-- the fact about Go's insertion sort behind it: for a strict weak order, index 0 of the result
    holds the FIRST element of the input that no element of the input is `less` than -/
theorem C02_sort_head {α : Type} (less : α → α → Bool)
    (htrans : ∀ a b c, less b a = false → less c b = false → less c a = false)
    (hasym : ∀ a b, less a b = true → less b a = false) (l : List α) :
    (Sort.insertionSort less l).head? = l.find? (fun x => l.all (fun y => !less y x)) :=
  Sort.head?_insertionSort less htrans hasym l

/-- CurlyRouter's score of a root IS the specification's claim, regular expressions of root
    variables included (the lemma that used to need `Spec.noRootRegex`) -/
theorem C02_claimScore (cfg : Config) (hk : cfg.router = .curly) (hwf : cfg.wfTemplates = true)
    (hroots : Curly.rootsRead cfg = true) (s : Service) (hs : s ∈ cfg.services) (qs : List Str) :
    Curly.wsScoreE E qs (tokenize s.rootPath) =
      match Spec.claimScore E s qs with
      | some sc => .yes sc
      | none => .no :=
  Curly.claimScore_eq E hk hwf hroots hs qs

/-! The `decide`d witnesses showing that the remaining hypotheses cannot be dropped, and the former
F03 and F04 witnesses turned into positive instances, live next to the lemmas (Lemmas/Classify.lean)
and are audited with this property: -/
-- also: Restful.C02_F03_fixed
-- also: Restful.C02_F04_fixed
-- also: Restful.C02_roots_witness
-- also: Restful.C02_curly_roots_witness
-- also: Restful.C02_curly_rootverb_witness

/-! `Spec.jsrBestService` on concrete roots (Lemmas/JsrBest.lean): three matching roots with three
different keys in all six registration orders (the root with most capture groups is named, although
another has more literal characters); two matching roots, a non-matching one, none, a root that does
not compile; two matching roots with EQUAL keys in both orders (the first registered is named, by the
specification and by the model's sort alike): -/
-- also: Restful.JsrBestExample.three_keys
-- also: Restful.JsrBestExample.three_roots
-- also: Restful.JsrBestExample.two_roots
-- also: Restful.JsrBestExample.tie_first

/-! ### non-vacuity (audit)

The instances `C02Witness.cfgC` / `cfgJ` (Lemmas/Classify.lean: three services — a literal root with
three routes, a variable root, a route-less root with a regex variable) already carry `decide`d
examples that every hypothesis of `C02_classify_curly` / `C02_classify_jsr_partial` holds and that
each row of the table is reached.  Added here: the remaining theorems on the same instances, and
the fact that `Spec.c02Holds` is falsified by wrong observations. -/
namespace C02Example
open C02Witness

/-- `C02_total` on both instances (its two implications are met non-trivially: the route-less
    third service is what `rootsRead` speaks about) -/
example : ∀ w, route Eany cfgC post ≠ .panic w :=
  C02_total Eany cfgC (by decide) (fun h => by cases h) (fun _ => by decide) post
example : ∀ w, route Eany cfgJ post ≠ .panic w :=
  C02_total Eany cfgJ (by decide) (fun _ => by decide) (fun h => by cases h) post
example : cfgC.services.any (fun s => s.routes.isEmpty) = true ∧ Curly.rootsRead cfgC = true ∧
    Jsr.rootsRead cfgJ = true := by decide

/-- the route-less service `/v/{n:[0-9]+}` of that table -/
def vsvc : Service := { id := 2, root := "/v/{n:[0-9]+}".toList, routes := [] }

/-- `C02_claimScore` on the route-less service with a regex root, under the oracle that evaluates
    `[0-9]+`: both sides are `.yes 21` on `/v/12/z` and `.no` on `/v/ab/z` (the regex decides) -/
example : Curly.wsScoreE E03 (tokenize "/v/12/z".toList) (tokenize vsvc.rootPath) =
    match Spec.claimScore E03 vsvc (tokenize "/v/12/z".toList) with
    | some sc => .yes sc
    | none => .no :=
  C02_claimScore E03 cfgC rfl (by decide) (by decide) vsvc (by decide) _
example :
    Spec.claimScore E03 vsvc (tokenize "/v/12/z".toList) = some 21 ∧
    Spec.claimScore E03 vsvc (tokenize "/v/ab/z".toList) = none ∧
    Curly.wsScoreE E03 (tokenize "/v/ab/z".toList) (tokenize vsvc.rootPath) = .no := by
  decide

/-- DELETE /users/7 on that table: 405, Allow = {GET, PUT} -/
def del7 : Req := { post with method := "DELETE".toList, path := "/users/7".toList }

/-- `Spec.c02Holds` is not trivially true.  On the POST that runs route 1 once it is falsified by:
    two invocations, no invocation, a 404, another route of the service, another service.  On the
    DELETE answered 405 it accepts the Allow set in any order and is falsified by: an Allow set that
    misses a method, one with a method too many, no Allow, a 404, an invocation.  A 415 may not be
    reported as 406 nor a 406 as 415, a 404 not as 405.  Both routers. -/
example :
    Spec.c02Holds Eany cfgC post (.selected 0 1 []) 1 = true ∧
    Spec.c02Holds Eany cfgC post (.selected 0 1 []) 2 = false ∧
    Spec.c02Holds Eany cfgC post (.selected 0 1 []) 0 = false ∧
    Spec.c02Holds Eany cfgC post (.error 404 none) 0 = false ∧
    Spec.c02Holds Eany cfgC post (.selected 0 3 []) 1 = false ∧
    Spec.c02Holds Eany cfgC post (.selected 1 1 []) 1 = false ∧
    Spec.c02Holds Eany cfgC del7 (.error 405 (some ["PUT".toList, "GET".toList])) 0 = true ∧
    Spec.c02Holds Eany cfgC del7 (.error 405 (some ["GET".toList])) 0 = false ∧
    Spec.c02Holds Eany cfgC del7 (.error 405 (some ["GET".toList, "PUT".toList, "POST".toList])) 0 = false ∧
    Spec.c02Holds Eany cfgC del7 (.error 405 none) 0 = false ∧
    Spec.c02Holds Eany cfgC del7 (.error 404 none) 0 = false ∧
    Spec.c02Holds Eany cfgC del7 (.error 405 (some ["GET".toList, "PUT".toList])) 1 = false ∧
    Spec.c02Holds Eany cfgC { post with method := "PUT".toList, path := "/users/7".toList } (.error 406 none) 0 = false ∧
    Spec.c02Holds Eany cfgC { post with accept := "text/html".toList } (.error 415 none) 0 = false ∧
    Spec.c02Holds Eany cfgC { post with path := "/users/7/x".toList } (.error 405 (some [])) 0 = false ∧
    Spec.c02Holds Eany cfgJ del7 (.error 405 (some ["GET".toList])) 0 = false ∧
    Spec.c02Holds Eany cfgJ post (.error 404 none) 0 = false ∧
    Spec.c02Holds Eany cfgJ post (.selected 0 1 []) 2 = false := by
  decide

/-! #### RouterJSR311: the specified WebService, on whole tables -/

/-- three nested literal roots, each with a catch-all route, registered as `/a/b/c`, `/a`, `/a/b` -/
def nested : Config := { router := .jsr, services :=
  [ { id := 0, root := "/a/b/c".toList, routes := [rd 10 "GET" "/{t:*}" [] []] },
    { id := 1, root := "/a".toList, routes := [rd 11 "GET" "/{t:*}" [] []] },
    { id := 2, root := "/a/b".toList, routes := [rd 12 "GET" "/{t:*}" [] []] } ] }

def getABCD : Req := { method := "GET".toList, path := "/a/b/c/d".toList }

/-- all three roots match `GET /a/b/c/d` with keys (2,3,0), (2,1,0), (2,2,0); the specification
    names `/a/b/c` (id 0) and hands `/d` to its routes; the hypotheses of `C02_classify_jsr_partial`
    hold; the predicate accepts "route 10 of service 0 ran once" and rejects what a router that
    compares neighbours instead of the running best would do (route 12 of service 2: the last local
    ascent in registration order), as well as the least specific root and a 404 -/
example :
    nested.wfTemplates = true ∧ Jsr.rootsRead nested = true ∧ Spec.mediaHygiene nested = true ∧
    '\n' ∉ getABCD.path ∧
    (nested.services.filterMap (Spec.jsrClaim Eany getABCD.path)).map (fun c => (c.1.id, c.2.2)) =
      [(0, ⟨2, 3, 0⟩), (1, ⟨2, 1, 0⟩), (2, ⟨2, 2, 0⟩)] ∧
    (Spec.jsrBestService Eany nested.services getABCD.path).map (Option.map (fun p => (p.1.id, p.2))) =
      some (some (0, "/d".toList)) ∧
    (Spec.bestServices Eany nested getABCD).map (·.id) = [0] ∧
    route Eany nested getABCD = .selected 0 10 [("t".toList, "d".toList)] ∧
    Spec.c02Holds Eany nested getABCD (.selected 0 10 [("t".toList, "d".toList)]) 1 = true ∧
    Spec.c02Holds Eany nested getABCD (.selected 2 12 [("t".toList, "c/d".toList)]) 1 = false ∧
    Spec.c02Holds Eany nested getABCD (.selected 1 11 [("t".toList, "b/c/d".toList)]) 1 = false ∧
    Spec.c02Holds Eany nested getABCD (.error 404 none) 0 = false := by
  decide

example : Spec.c02Holds Eany nested getABCD (route Eany nested getABCD)
    (match route Eany nested getABCD with | .selected _ _ _ => 1 | _ => 0) = true :=
  C02_classify_jsr_partial Eany nested rfl (by decide) (by decide) (by decide) getABCD (by decide)

/-- two roots with EQUAL keys (one variable, one literal character) that both match `GET /a/b`,
    in both registration orders -/
def tieXA : Config := { router := .jsr, services :=
  [ { id := 0, root := "/{x}/b".toList, routes := [rd 20 "GET" "" [] []] },
    { id := 1, root := "/a/{y}".toList, routes := [rd 21 "GET" "" [] []] } ] }
def tieAX : Config := { router := .jsr, services :=
  [ { id := 1, root := "/a/{y}".toList, routes := [rd 21 "GET" "" [] []] },
    { id := 0, root := "/{x}/b".toList, routes := [rd 20 "GET" "" [] []] } ] }

def getAB : Req := { method := "GET".toList, path := "/a/b".toList }

/-- the tie: the FIRST registered of the two is the specified service, the router runs its route,
    and the predicate rejects the other service's route -/
example :
    (tieXA.services.filterMap (Spec.jsrClaim Eany getAB.path)).map (fun c => (c.1.id, c.2.2)) =
      [(0, ⟨3, 1, 1⟩), (1, ⟨3, 1, 1⟩)] ∧
    (Spec.bestServices Eany tieXA getAB).map (·.id) = [0] ∧
    (Spec.bestServices Eany tieAX getAB).map (·.id) = [1] ∧
    route Eany tieXA getAB = .selected 0 20 [("x".toList, "a".toList)] ∧
    route Eany tieAX getAB = .selected 1 21 [("y".toList, "b".toList)] ∧
    Spec.c02Holds Eany tieXA getAB (.selected 0 20 [("x".toList, "a".toList)]) 1 = true ∧
    Spec.c02Holds Eany tieXA getAB (.selected 1 21 [("y".toList, "b".toList)]) 1 = false ∧
    Spec.c02Holds Eany tieAX getAB (.selected 1 21 [("y".toList, "b".toList)]) 1 = true ∧
    Spec.c02Holds Eany tieAX getAB (.selected 0 20 [("x".toList, "a".toList)]) 1 = false := by
  decide

/-- `C02_jsr_best_service` on these tables -/
example : Jsr.detectDispatcher Eany nested.services getABCD.path =
    Spec.jsrBestService Eany nested.services getABCD.path :=
  C02_jsr_best_service Eany nested.services getABCD.path

end C02Example

/-! The frame condition (Lemmas/StateShape.lean): the code has exactly the state this property's model
    accounts for — no further package-level variable, struct type or field; constants as modelled. -/
-- also: Restful.StateShape.globals_shape
-- also: Restful.StateShape.consts_shape
-- also: Restful.StateShape.routing_shape

/-! The regenerated tie (tools/gotrans → Gen/Translated.lean, Lemmas/Tie*.lean). -/
-- also: Restful.Tie.trim_space_cutset

end Props
end Restful

-- the imperative functions this property's model rests on, tied to their statement-by-statement
-- translation (tools/goimp, Gen/Imp.lean, regenerated on every run):
-- also: Restful.TieImp.T2.webservice_score
-- also: Restful.TieImp.match_tokens
-- also: Restful.TieImp.T2.tokenize_path
-- also: Restful.TieImp.T5.matches_accept
-- also: Restful.TieImp.T5.matches_content_type
-- also: Restful.TieImp.template_to_regex
-- also: Restful.TieImp.detect_route
-- also: Restful.TieImp.detect_web_service
-- also: Restful.TieImp.select_routes
-- also: Restful.TieImp.jsr_select_routes
-- also: Restful.TieImp.jsr_detect_dispatcher
-- also: Restful.TieImp.routeCurly_eq_sel
-- also: Restful.TieImp.curly_select_route
-- also: Restful.TieImp.jsr_select_route
