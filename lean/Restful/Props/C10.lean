/-
C10 — a panic anywhere in the chain becomes one 500 and leaves the container usable.

`Serve.serve` is the model of one request through one entry point (container.go `dispatch`,
`ServeHTTP`, `Handle`, `HandleWithFilter`; tied to /repo by the correspondence stream `serve`);
`Spec.c10Holds` is the property as a predicate on an observation, evaluated by the driver on what the
real code did and here (`Spec.obsOf`) on what the model does.

What the theorems rest on (Restful/Lemmas/Panic.lean):
* the panic a request raises is a function `Serve.Panic.raised` of routing, the kinds of the filters
  on its chain and the scripts — not of the writer, of content coding or of the recovery switch
  (`runChain_panic`); it is what `c10Holds` calls `raw.escaped` (`C10_raised`);
* `finishDispatch` and, since a0e838d, `plainFilteredBody` (`HandleWithFilter` with container
  filters): recovery on ⇒ nothing leaves the chain, one recover-handler call iff a panic was raised;
  recovery off ⇒ the value is handed on unchanged;
* a simulation between the real run and the run without coding (`runChain_rel`, `Sim`): the real
  status is locked only if the other one is, so "nothing had been written" transfers and the recover
  handler's first `WriteHeader`/`Write` decides the status, through a compressing writer as well;
* every path through every entry point ends with the `Close` of whoever installed the compressing
  writer, so the ledger is balanced and the coded stream complete, panic or not;
* a second simulation for the BODY (`runChain_relEq`, `Vis`: same chain, same context, hence the same
  bytes): what the client of the real run will see after decoding is, at every moment, what the
  recorder of the run without coding holds; the recover handler runs on a writer that is not closed,
  so its writes are appended to exactly that (`serveCore_body`).

What `c10Holds` demands of the recover handler, besides "nothing escapes" (the reviewer's two points):
* the CALL COUNT whichever handler is installed: `o.recov + o.recovDefault` is 1 iff a panic is raised.
  A custom handler of the harness counts its own calls (`recov`); the calls of the library's own
  handler `logStackOnRecover` are counted by the harness through the package logger (one
  "recover from panic situation" entry per call, `recovDefault`); with a custom handler installed
  the library's must not run at all.  The model's observation (`Spec.obsOf`) counts every call in
  `recov`.
* the BODY the client sees after a recovered panic (`Spec.c10Body`): with a custom handler exactly
  what had been written when the panic was raised — the body of the run without coding and recovery,
  NOT the model's own answer to the request — followed by the writes of the handler's script
  (`Spec.scriptWrites`), decoded from a complete stream when the response is coded (`C10_body`);
  with the library's handler what had been written is a prefix and something follows (the stack
  text is not comparable, `C10_body_default`).  Where what had been written contains a message text
  of the library's own service-error writer (which no property compares) only the end of the body
  (custom handler) resp. its non-emptiness is demanded.

Scope of recovery (`Serve.Panic.covered`, the same Boolean as `covered` in `Spec.c10Holds`): the
chains the framework builds — routed requests (`Dispatch`, `ServeHTTP` → `dispatch`) and
`HandleWithFilter` when there are container filters.  A plain `http.Handler` registered with
`Handle`, or with `HandleWithFilter` on a container without filters (then it is called directly),
is neither a filter nor a route function: its panic propagates (`C10_plain_propagates`).

F18 — REPAIRED (a0e838d).  The chain `HandleWithFilter` builds had no recovery around it: with
recovery on a panicking container filter (or the handler behind it) escaped `ServeHTTP`.  The former
main theorem `C10_partial` excluded that class (`Spec.f18Class`, now constantly `false` and kept only
for the driver protocol) and `C10_F18_witness` exhibited the escape.  The main theorem is now
`C10_recovery`, for ALL entry points without any finding hypothesis; `C10_on`, `C10_status`,
`C10_status_default` speak of every covered entry point; `C10_F18_fixed` is the former witness
configuration, on which the property now holds.

One restriction of the *spec* remains (not a claim about the code): `Serve.runRecover` drops a panic
raised by the custom recover script, while `Spec.recoverStatus` looks past a `.panic` act for the
script's first `writeHeader`.  For a recover script that panics before its first
`write`/`writeHeader` the status clause of `c10Holds` is therefore false on the model
(`C10_recover_handler_panics_witness`).  `C10_recovery` and `C10_status` carry the hypothesis
`Spec.recoverPanicsEarly cfg = false`; all other clauses (`C10_on`, `C10_off`, `C10_balanced`,
`C10_usable`) hold without it.
-/
import Restful.Lemmas.Panic
import Restful.Lemmas.StateShape
namespace Restful
namespace Props
open Serve Serve.Panic

/-- **C10.**  The model satisfies `c10Holds` for EVERY configuration, entry point (`Dispatch`,
    `ServeHTTP`, `Handle`, `HandleWithFilter`, the last two with or without `ServeHTTP` in front) and
    request, provided the custom recover handler (if recovery is on) does not itself panic before it
    wrote anything.  Clause by clause: recovery on and a covered entry point (routed, or
    `HandleWithFilter` with container filters) — nothing escapes, the ledger is balanced and the coded
    stream complete, the recover handler (custom or the library's) is called once iff the request
    raises a panic and the library's handler never runs besides a custom one, if nothing had been
    written before the panic the client sees the recover handler's status (500 by default), and after
    a panic the (decoded) body the client sees is what had been written before the panic followed by
    what the recover handler writes (custom handler: exactly its script's writes; the library's
    handler: something, the stack text is not comparable);
    otherwise (recovery off, or a plain handler called directly) — the panic reaches the caller
    unchanged and the ledger is balanced. -/
theorem C10_recovery (E : ReEnv) (cfg : Serve.Cfg) (e : Serve.Entry) (sr : Serve.SReq)
    (hrec : cfg.recover = true → Spec.recoverPanicsEarly cfg = false) :
    Spec.c10Holds E cfg e sr (Spec.obsOf (Serve.serve E cfg e {} sr)) = true := by
  rw [c10Holds_eq, ledgerOK_serve]
  have hraw := raw_escaped E cfg e {} sr
  have hesc := serve_escaped E cfg e {} sr
  have hn := serve_recoverCalls E cfg e {} sr
  cases hr : cfg.recover with
  | false =>
    rw [hr] at hesc
    simp only [Bool.false_and, Bool.false_eq_true, if_false, Bool.and_true, beq_iff_eq]
    rw [hraw]
    exact hesc
  | true =>
    rw [hr] at hesc hn
    cases hco : covered cfg e with
    | false =>
      rw [hco] at hesc
      simp only [Bool.and_false, Bool.false_eq_true, if_false, Bool.and_true, beq_iff_eq]
      rw [hraw]
      exact hesc
    | true =>
      rw [hco] at hesc hn
      simp only [Bool.and_self, if_true] at hesc hn
      simp only [Bool.and_self, if_true, Bool.and_true, Bool.and_eq_true]
      refine ⟨⟨⟨⟨?_, ?_⟩, ?_⟩, ?_⟩, ?_⟩
      · -- nothing escapes
        simp only [Spec.obsOf]
        rw [hesc]
        rfl
      · -- one recover call iff a panic is raised (the model counts every call in `recov`)
        simp only [Spec.obsOf, Nat.add_zero, beq_iff_eq]
        rw [hn, hraw]
      · -- `obsOf` attributes no call to the library's handler separately
        exact Bool.or_eq_true_iff.mpr (Or.inr rfl)
      · -- the status, if nothing had been written
        simp only [Bool.or_eq_true, beq_iff_eq, Bool.not_eq_true', Bool.and_eq_false_imp]
        rw [hraw]
        by_cases hp : (raised E cfg e sr).isSome = true
        · cases hst : (serve E (rawCfg cfg) e {} (rawReq sr)).rc.status with
          | some d => exact Or.inl (fun _ => rfl)
          | none =>
            right
            rw [serve_eq] at hst
            have := serveCore_status E cfg e sr hr hco (hrec hr) hp hst
            rw [serve_eq]
            exact this
        · exact Or.inl (fun h => absurd h hp)
      · -- the body after a panic
        rw [hraw]
        cases hp : (raised E cfg e sr).isSome with
        | false => rfl
        | true =>
          simp only [Bool.not_true, Bool.false_or]
          apply c10Body_of_eq
          rw [obsOf_body, serve_eq, serve_eq]
          exact serveCore_body E cfg e sr hr hco hp

/-- the scope of recovery in `Spec.c10Holds`, spelled out: routed entry points, and
    `HandleWithFilter` on a container with at least one filter -/
theorem C10_covered_iff (cfg : Cfg) (e : Entry) :
    covered cfg e = true ↔
      (e = .dispatch ∨ e = .serveDispatch ∨ ((e = .muxHandleF ∨ e = .serveHandleF) ∧ cfg.cfilters ≠ [])) :=
  covered_iff cfg e

/-- `raw.escaped` in `c10Holds` — the same request with coding and recovery switched off — is the
    panic the request raises, as computed from routing, filter kinds and scripts alone -/
theorem C10_raised (E : ReEnv) (cfg : Cfg) (e : Entry) (sr : SReq) :
    (serve E { Spec.noCoding cfg with recover := false } e {} { sr with acceptEncoding := [] }).escaped =
      raised E cfg e sr :=
  raw_escaped E cfg e {} sr

/-- Recovery on, every covered entry point (`Dispatch`, `ServeHTTP` → `dispatch`, and
    `HandleWithFilter` on a container with filters, with or without `ServeHTTP` in front): no panic
    escapes, and the recover handler is called exactly once if the request raises a panic (in a
    container filter, service filter, route filter, the route function, the plain handler behind
    `HandleWithFilter`, an If-condition or the router), never otherwise. -/
theorem C10_on (E : ReEnv) (cfg : Cfg) (e : Entry) (w : World) (sr : SReq)
    (he : e = .dispatch ∨ e = .serveDispatch ∨ ((e = .muxHandleF ∨ e = .serveHandleF) ∧ cfg.cfilters ≠ []))
    (hr : cfg.recover = true) :
    (serve E cfg e w sr).escaped = none ∧
      (serve E cfg e w sr).recoverCalls = (if (raised E cfg e sr).isSome then 1 else 0) := by
  have hco : covered cfg e = true := (covered_iff cfg e).mpr he
  rw [serve_escaped, serve_recoverCalls, hr, hco]
  exact ⟨rfl, rfl⟩

/-- Recovery on, every covered entry point: if the request raises a panic before anything was written
    (the run without coding and recovery ends with the status still open), the client sees the status
    of the recover handler — also through a compressing writer. -/
theorem C10_status (E : ReEnv) (cfg : Cfg) (e : Entry) (w : World) (sr : SReq)
    (he : e = .dispatch ∨ e = .serveDispatch ∨ ((e = .muxHandleF ∨ e = .serveHandleF) ∧ cfg.cfilters ≠ []))
    (hr : cfg.recover = true)
    (hrec : Spec.recoverPanicsEarly cfg = false)
    (hp : (raised E cfg e sr).isSome = true)
    (hnothing : (serve E { Spec.noCoding cfg with recover := false } e {} { sr with acceptEncoding := [] }).rc.status = none) :
    (Spec.obsOf (serve E cfg e w sr)).status = Spec.recoverStatus cfg := by
  have hco : covered cfg e = true := (covered_iff cfg e).mpr he
  rw [serve_eq] at hnothing
  have := serveCore_status E cfg e sr hr hco hrec hp hnothing
  rw [serve_eq]
  exact this

/-- … which is 500 for the default handler. -/
theorem C10_status_default (E : ReEnv) (cfg : Cfg) (e : Entry) (w : World) (sr : SReq)
    (he : e = .dispatch ∨ e = .serveDispatch ∨ ((e = .muxHandleF ∨ e = .serveHandleF) ∧ cfg.cfilters ≠ []))
    (hr : cfg.recover = true) (hd : cfg.recoverScript = none)
    (hp : (raised E cfg e sr).isSome = true)
    (hnothing : (serve E { Spec.noCoding cfg with recover := false } e {} { sr with acceptEncoding := [] }).rc.status = none) :
    (Spec.obsOf (serve E cfg e w sr)).status = 500 := by
  have hrec : Spec.recoverPanicsEarly cfg = false := by simp [Spec.recoverPanicsEarly, hd]
  rw [C10_status E cfg e w sr he hr hrec hp hnothing]
  simp [Spec.recoverStatus, hd]

/-- Recovery on, every covered entry point, a custom recover handler: after a panic — raised anywhere,
    before or after output was written — the body the client sees (decoded when a coding is on, and
    then from a complete stream) is exactly what had been written when the panic was raised (the body
    of the same request served without coding and without recovery) followed by the writes of the
    recover handler's script.  The handler was handed a writer that still works and, when the
    response is being encoded, goes through the coding. -/
theorem C10_body (E : ReEnv) (cfg : Cfg) (e : Entry) (w : World) (sr : SReq)
    (he : e = .dispatch ∨ e = .serveDispatch ∨ ((e = .muxHandleF ∨ e = .serveHandleF) ∧ cfg.cfilters ≠ []))
    (hr : cfg.recover = true) (sc : List Act) (hsc : cfg.recoverScript = some sc)
    (hp : (raised E cfg e sr).isSome = true) :
    (Spec.obsOf (serve E cfg e w sr)).body =
        (serve E { Spec.noCoding cfg with recover := false } e {} { sr with acceptEncoding := [] }).rc.body ++
          Spec.scriptWrites sc ∧
      (Spec.obsOf (serve E cfg e w sr)).complete = true := by
  have hco : covered cfg e = true := (covered_iff cfg e).mpr he
  refine ⟨?_, ?_⟩
  · rw [obsOf_body, serve_eq, serve_eq, serveCore_body E cfg e sr hr hco hp]
    simp only [recoverWrites, hsc]
  · have hc := serve_closed E cfg e w sr
    simp only [Spec.obsOf]
    cases h : (serve E cfg e w sr).rc.comp with
    | none => rfl
    | some c => exact hc c h

/-- … and with the library's own handler (`logStackOnRecover`): what had been written is still
    there and a non-empty text follows it (the stack trace; the model writes a placeholder). -/
theorem C10_body_default (E : ReEnv) (cfg : Cfg) (e : Entry) (w : World) (sr : SReq)
    (he : e = .dispatch ∨ e = .serveDispatch ∨ ((e = .muxHandleF ∨ e = .serveHandleF) ∧ cfg.cfilters ≠ []))
    (hr : cfg.recover = true) (hd : cfg.recoverScript = none)
    (hp : (raised E cfg e sr).isSome = true) :
    ∃ text, text ≠ [] ∧
      (Spec.obsOf (serve E cfg e w sr)).body =
        (serve E { Spec.noCoding cfg with recover := false } e {} { sr with acceptEncoding := [] }).rc.body ++ text := by
  have hco : covered cfg e = true := (covered_iff cfg e).mpr he
  refine ⟨"<stack>".toList, stack_ne_nil, ?_⟩
  rw [obsOf_body, serve_eq, serve_eq, serveCore_body E cfg e sr hr hco hp]
  simp only [recoverWrites, hd]

/-- Recovery off (the default): the panic the request raises reaches the caller unchanged — for
    every entry point. -/
theorem C10_off (E : ReEnv) (cfg : Cfg) (e : Entry) (w : World) (sr : SReq) (hr : cfg.recover = false) :
    (serve E cfg e w sr).escaped = raised E cfg e sr := by
  rw [serve_escaped, hr]
  rfl

/-- Outside the scope of recovery — a plain `http.Handler` registered with `Handle`, or with
    `HandleWithFilter` on a container without filters (container.go:393 then calls it directly) —
    the panic reaches the caller unchanged and the recover handler is not called, recovery on or
    not. -/
theorem C10_plain_propagates (E : ReEnv) (cfg : Cfg) (e : Entry) (w : World) (sr : SReq)
    (he : e = .muxHandle ∨ e = .serveHandle ∨ ((e = .muxHandleF ∨ e = .serveHandleF) ∧ cfg.cfilters = [])) :
    (serve E cfg e w sr).escaped = raised E cfg e sr ∧ (serve E cfg e w sr).recoverCalls = 0 := by
  have hco : covered cfg e = false := by
    rcases he with rfl | rfl | ⟨rfl | rfl, h⟩
    · rfl
    · rfl
    · simp [h]
    · simp [h]
  rw [serve_escaped, serve_recoverCalls, hco]
  simp

/-- Every entry point, every setting, panic or not: the compressor acquired for the request is
    released again, and a coded response has been closed (its stream is complete). -/
theorem C10_balanced (E : ReEnv) (cfg : Cfg) (e : Entry) (sr : SReq) :
    (serve E cfg e {} sr).world.acquired = (serve E cfg e {} sr).world.released ∧
      ∀ c, (serve E cfg e {} sr).rc.comp = some c → c.closed = true :=
  ⟨serve_balanced E cfg e {} sr rfl, serve_closed E cfg e {} sr⟩

/-- The same starting from any balanced ledger. -/
theorem C10_balanced_from (E : ReEnv) (cfg : Cfg) (e : Entry) (w : World) (sr : SReq)
    (hw : w.acquired = w.released) :
    (serve E cfg e w sr).world.acquired = (serve E cfg e w sr).world.released :=
  serve_balanced E cfg e w sr hw

/-- The container stays usable: in a sequence of requests on one container every request is answered
    (recorder, events, escaping panic, recover-handler calls) exactly as it is answered on a fresh
    container — whatever was served before it, panicking or not, recovered or not. -/
theorem C10_usable (E : ReEnv) (cfg : Cfg) (e : Entry) (w : World) (reqs : List SReq) :
    (serveSeq E cfg e w reqs).map answer = reqs.map (fun r => answer (serve E cfg e {} r)) := by
  induction reqs generalizing w with
  | nil => rfl
  | cons r rs ih =>
    simp only [serveSeq, List.map_cons, ih]
    rw [serve_answer]

/-- In particular the answer to a request does not depend on what was served before it (say, the
    same requests with or without the panicking ones among them). -/
theorem C10_usable_independent (E : ReEnv) (cfg : Cfg) (e : Entry) (w w' : World) (pre pre' : List SReq) (r : SReq) :
    ((serveSeq E cfg e w (pre ++ [r])).map answer).getLast? =
      ((serveSeq E cfg e w' (pre' ++ [r])).map answer).getLast? := by
  rw [C10_usable, C10_usable]
  simp

/-- … and the ledger stays balanced throughout: no compressor is lost. -/
theorem C10_usable_ledger (E : ReEnv) (cfg : Cfg) (e : Entry) (w : World) (reqs : List SReq)
    (hw : w.acquired = w.released) :
    ∀ r ∈ serveSeq E cfg e w reqs, r.world.acquired = r.world.released := by
  induction reqs generalizing w with
  | nil => intro r hr; cases hr
  | cons q qs ih =>
    intro r hr
    simp only [serveSeq, List.mem_cons] at hr
    rcases hr with rfl | hr
    · exact serve_balanced E cfg e w q hw
    · exact ih _ (serve_balanced E cfg e w q hw) r hr

/-- F18 repaired (a0e838d), the former witness `C10_F18_witness`: recovery on, one container filter
    that panics, a handler registered with `HandleWithFilter`, reached through `ServeHTTP` or through
    the mux alone.  The panic is still raised, but it no longer leaves the entry point: the recover
    handler ran exactly once, the client sees its 500, and `c10Holds` is true.  The same when the
    filter passes control on and the handler behind it panics. -/
theorem C10_F18_fixed :
    let E : ReEnv := ⟨fun _ _ => true, fun _ _ => true⟩
    let cfg : Cfg :=
      { routing := { router := .curly, services := [] }
        recover := true
        cfilters := [{ id := 1, pre := [.panic "p".toList], kind := .pass, post := [] }] }
    let cfgH : Cfg :=
      { routing := { router := .curly, services := [] }
        recover := true
        cfilters := [{ id := 1, pre := [], kind := .pass, post := [] }]
        plainScript := [.panic "h".toList] }
    let sr : SReq := { req := { method := "GET".toList, path := "/x".toList } }
    (raised E cfg .serveHandleF sr = some "p".toList ∧
      (serve E cfg .serveHandleF {} sr).escaped = none ∧
      (serve E cfg .serveHandleF {} sr).recoverCalls = 1 ∧
      (Spec.obsOf (serve E cfg .serveHandleF {} sr)).status = 500 ∧
      Spec.c10Holds E cfg .serveHandleF sr (Spec.obsOf (serve E cfg .serveHandleF {} sr)) = true) ∧
    ((serve E cfg .muxHandleF {} sr).escaped = none ∧
      (serve E cfg .muxHandleF {} sr).recoverCalls = 1 ∧
      Spec.c10Holds E cfg .muxHandleF sr (Spec.obsOf (serve E cfg .muxHandleF {} sr)) = true) ∧
    (raised E cfgH .serveHandleF sr = some "h".toList ∧
      (serve E cfgH .serveHandleF {} sr).escaped = none ∧
      (serve E cfgH .serveHandleF {} sr).recoverCalls = 1 ∧
      (serve E cfgH .serveHandleF {} sr).log.map (fun ev => (ev.stage, ev.post)) =
        [(.cfilter 1, false), (.plain 0, false)] ∧
      Spec.c10Holds E cfgH .serveHandleF sr (Spec.obsOf (serve E cfgH .serveHandleF {} sr)) = true) := by
  decide

/-- … and with recovery off (`DoNotRecover(true)`, the library's default) the same panic propagates
    to the caller of `ServeHTTP` unchanged, no recover handler runs, and `c10Holds` still holds:
    there is nothing to recover.  Likewise, recovery on, for `HandleWithFilter` on a container
    without filters (the handler is called directly: outside the scope of recovery). -/
theorem C10_F18_recovery_off :
    let E : ReEnv := ⟨fun _ _ => true, fun _ _ => true⟩
    let cfg : Cfg :=
      { routing := { router := .curly, services := [] }
        recover := false
        cfilters := [{ id := 1, pre := [.panic "p".toList], kind := .pass, post := [] }] }
    let cfg0 : Cfg :=
      { routing := { router := .curly, services := [] }
        recover := true
        plainScript := [.panic "h".toList] }
    let sr : SReq := { req := { method := "GET".toList, path := "/x".toList } }
    ((serve E cfg .serveHandleF {} sr).escaped = some "p".toList ∧
      (serve E cfg .serveHandleF {} sr).recoverCalls = 0 ∧
      Spec.c10Holds E cfg .serveHandleF sr (Spec.obsOf (serve E cfg .serveHandleF {} sr)) = true) ∧
    ((serve E cfg0 .serveHandleF {} sr).escaped = some "h".toList ∧
      (serve E cfg0 .serveHandleF {} sr).recoverCalls = 0 ∧
      Spec.c10Holds E cfg0 .serveHandleF sr (Spec.obsOf (serve E cfg0 .serveHandleF {} sr)) = true) := by
  decide

/-- Why `C10_recovery` asks that the recover handler does not itself panic before writing: the model
    drops a panic of the recover handler, `recoverStatus` reads the `writeHeader 503` behind it. -/
theorem C10_recover_handler_panics_witness :
    let E : ReEnv := ⟨fun _ _ => true, fun _ _ => true⟩
    let cfg : Cfg :=
      { routing := { router := .curly, services := [] }
        recover := true
        recoverScript := some [.panic "again".toList, .writeHeader 503] }
    let sr : SReq := { req := { method := "GET".toList, path := "/x".toList }, condPanic := some "p".toList }
    Spec.recoverPanicsEarly cfg = true ∧
      (Spec.obsOf (serve E cfg .dispatch {} sr)).status = 200 ∧ Spec.recoverStatus cfg = 503 ∧
      Spec.c10Holds E cfg .dispatch sr (Spec.obsOf (serve E cfg .dispatch {} sr)) = false := by
  decide

/-- non-vacuity: recovery and encoding on, gzip asked for, the route function writes one byte and
    then panics, custom recover handler: nothing escapes, one recover call, the coded stream is
    closed and carries both writes, the status is the 200 locked by the first byte -/
example :
    let E : ReEnv := ⟨fun _ _ => true, fun _ _ => true⟩
    let cfg : Cfg :=
      { routing := { router := .curly, services := [{ id := 0, root := "/a".toList, routes :=
          [{ id := 7, method := "GET".toList, relPath := [], consumes := [], produces := [], conds := [], noct := [] }] }] }
        routes := [{ id := 7, script := [.write "x".toList, .panic "boom".toList] }]
        encoding := true
        recover := true
        recoverScript := some [.writeHeader 503, .write "r".toList] }
    let sr : SReq := { req := { method := "GET".toList, path := "/a".toList }, acceptEncoding := "gzip".toList }
    let o := Spec.obsOf (serve E cfg .dispatch {} sr)
    raised E cfg .dispatch sr = some "boom".toList ∧
      o.escaped = none ∧ o.recov = 1 ∧ o.coded = true ∧ o.complete = true ∧ o.body = "xr".toList ∧
      o.status = 200 ∧ o.acq = 1 ∧ o.rel = 1 ∧
      Spec.recoverPanicsEarly cfg = false ∧
      Spec.c10Holds E cfg .dispatch sr o = true := by
  decide

/-- non-vacuity: the same with a route function that panics before writing: the recover handler's
    503 is the status, its byte the whole (coded, complete) body -/
example :
    let E : ReEnv := ⟨fun _ _ => true, fun _ _ => true⟩
    let cfg : Cfg :=
      { routing := { router := .curly, services := [{ id := 0, root := "/a".toList, routes :=
          [{ id := 7, method := "GET".toList, relPath := [], consumes := [], produces := [], conds := [], noct := [] }] }] }
        routes := [{ id := 7, script := [.panic "boom".toList, .write "x".toList] }]
        encoding := true
        recover := true
        recoverScript := some [.writeHeader 503, .write "r".toList] }
    let sr : SReq := { req := { method := "GET".toList, path := "/a".toList }, acceptEncoding := "gzip".toList }
    let o := Spec.obsOf (serve E cfg .dispatch {} sr)
    o.escaped = none ∧ o.recov = 1 ∧ o.coded = true ∧ o.complete = true ∧ o.body = "r".toList ∧
      o.status = 503 ∧ Spec.recoverStatus cfg = 503 ∧ o.acq = 1 ∧ o.rel = 1 ∧
      Spec.c10Holds E cfg .dispatch sr o = true := by
  decide

/-- non-vacuity on the path F18 was about: `HandleWithFilter` through `ServeHTTP`, recovery and
    encoding on, gzip asked for, custom recover handler.  The first container filter writes a byte
    and passes on, the second panics: the handler does not run, the first filter does not come back,
    nothing escapes, one recover call, the coded stream is closed and carries the filter's byte and
    the recover handler's, the status is the 200 locked by the first byte, the ledger is balanced.
    With a first filter that writes nothing the recover handler's 503 is the status. -/
example :
    let E : ReEnv := ⟨fun _ _ => true, fun _ _ => true⟩
    let cfg : Cfg :=
      { routing := { router := .curly, services := [] }
        cfilters := [{ id := 1, pre := [.write "a".toList], kind := .pass, post := [.write "z".toList] },
                     { id := 2, pre := [.panic "boom".toList], kind := .pass, post := [] }]
        plainScript := [.write "h".toList]
        encoding := true
        recover := true
        recoverScript := some [.writeHeader 503, .write "r".toList] }
    let cfg' : Cfg := { cfg with cfilters := [{ id := 1, pre := [], kind := .pass, post := [] },
                                              { id := 2, pre := [.panic "boom".toList], kind := .pass, post := [] }] }
    let sr : SReq := { req := { method := "GET".toList, path := "/x".toList }, acceptEncoding := "gzip".toList }
    let o := Spec.obsOf (serve E cfg .serveHandleF {} sr)
    let o' := Spec.obsOf (serve E cfg' .serveHandleF {} sr)
    raised E cfg .serveHandleF sr = some "boom".toList ∧
      o.escaped = none ∧ o.recov = 1 ∧ o.coded = true ∧ o.complete = true ∧ o.body = "ar".toList ∧
      o.status = 200 ∧ o.acq = 1 ∧ o.rel = 1 ∧
      o.log.map (fun ev => (ev.stage, ev.post)) = [(.cfilter 1, false), (.cfilter 2, false), (.recover, false)] ∧
      Spec.recoverPanicsEarly cfg = false ∧
      Spec.c10Holds E cfg .serveHandleF sr o = true ∧
      o'.escaped = none ∧ o'.recov = 1 ∧ o'.body = "r".toList ∧ o'.status = 503 ∧ o'.complete = true ∧
      Spec.c10Holds E cfg' .serveHandleF sr o' = true := by
  decide

/-! ### non-vacuity (audit): every theorem with hypotheses instantiated on one configuration with
    filters at all three levels; `Spec.c10Holds` falsified by wrong observations -/
namespace C10Example

def E0 : ReEnv := ⟨fun _ _ => true, fun _ _ => true⟩
def fl (id : Nat) (kind : FKind) (pre : List Act := []) (post : List Act := []) : Filter :=
  { id := id, pre := pre, kind := kind, post := post }
def routing : Config := { router := .curly, services := [{ id := 0, root := "/a".toList, routes :=
  [{ id := 7, method := "GET".toList, relPath := "/early".toList, consumes := [], produces := [], conds := [], noct := [] },
   { id := 8, method := "GET".toList, relPath := "/late".toList, consumes := [], produces := [], conds := [], noct := [] },
   { id := 9, method := "GET".toList, relPath := "/ok".toList, consumes := [], produces := [], conds := [], noct := [] }] }] }

/-- recovery and encoding on, custom recover handler (503 + one byte); two container filters, a
    service filter; route 7: its route filter panics BEFORE passing control on, nothing written yet;
    route 8: the route function writes a byte, then its route filter panics AFTER control came back;
    route 9: no panic -/
def cfg : Cfg :=
  { routing := routing
    cfilters := [fl 1 .pass, fl 2 .pass]
    svcs := [{ id := 0, filters := [fl 3 .pass] }]
    routes := [{ id := 7, filters := [fl 4 .pass [.panic "early".toList]], script := [.write "x".toList] },
               { id := 8, filters := [fl 5 .pass [] [.panic "late".toList]], script := [.write "y".toList] },
               { id := 9, filters := [fl 6 .pass], script := [.write "z".toList] }]
    encoding := true
    recover := true
    recoverScript := some [.writeHeader 503, .write "r".toList] }
/-- the same with the default recover handler / with recovery off -/
def cfgDefault : Cfg := { cfg with recoverScript := none }
def cfgOff : Cfg := { cfg with recover := false }

def rq (p : String) : SReq := { req := { method := "GET".toList, path := p.toList }, acceptEncoding := "gzip".toList }
def early : SReq := rq "/a/early"
def late : SReq := rq "/a/late"
def ok : SReq := rq "/a/ok"
def oE : Spec.Obs := Spec.obsOf (serve E0 cfg .dispatch {} early)
def oL : Spec.Obs := Spec.obsOf (serve E0 cfg .dispatch {} late)
def oK : Spec.Obs := Spec.obsOf (serve E0 cfg .dispatch {} ok)
def oOff : Spec.Obs := Spec.obsOf (serve E0 cfgOff .dispatch {} early)

/-- what the model does: the early panic gets the recover handler's 503 and its byte, coded and
    complete; the late panic keeps the 200 locked by the route function's byte; no panic, no recover
    call; with recovery off the early panic reaches the caller -/
example :
    raised E0 cfg .dispatch early = some "early".toList ∧ raised E0 cfg .dispatch late = some "late".toList ∧
    raised E0 cfg .dispatch ok = none ∧ Spec.recoverPanicsEarly cfg = false ∧
    oE.status = 503 ∧ oE.body = "r".toList ∧ oE.recov = 1 ∧ oE.coded = true ∧ oE.complete = true ∧ oE.acq = 1 ∧ oE.rel = 1 ∧
    oE.escaped = none ∧
    oL.status = 200 ∧ oL.body = "yr".toList ∧ oL.recov = 1 ∧ oL.coded = true ∧ oL.complete = true ∧ oL.acq = 1 ∧ oL.rel = 1 ∧
    oL.escaped = none ∧
    oK.status = 200 ∧ oK.body = "z".toList ∧ oK.recov = 0 ∧ oK.coded = true ∧ oK.complete = true ∧ oK.acq = 1 ∧ oK.rel = 1 ∧
    oK.escaped = none ∧
    oOff.escaped = some "early".toList ∧ oOff.recov = 0 ∧ oOff.acq = 1 ∧ oOff.rel = 1 := by
  decide

/-- `C10_recovery` (its hypothesis is an implication whose premise holds here) -/
example : Spec.c10Holds E0 cfg .dispatch early oE = true := C10_recovery E0 cfg .dispatch early (fun _ => by decide)
example : Spec.c10Holds E0 cfg .dispatch late oL = true := C10_recovery E0 cfg .dispatch late (fun _ => by decide)
/-- `C10_on`, `C10_status`, `C10_status_default` -/
example := C10_on E0 cfg .serveDispatch {} late (.inr (.inl rfl)) rfl
example := C10_on E0 cfg .serveHandleF {} late (.inr (.inr ⟨.inr rfl, by decide⟩)) rfl
example : (Spec.obsOf (serve E0 cfg .dispatch ⟨4, 4⟩ early)).status = Spec.recoverStatus cfg :=
  C10_status E0 cfg .dispatch ⟨4, 4⟩ early (.inl rfl) rfl (by decide) (by decide) (by decide)
example : (Spec.obsOf (serve E0 cfgDefault .dispatch {} early)).status = 500 :=
  C10_status_default E0 cfgDefault .dispatch {} early (.inl rfl) rfl rfl (by decide) (by decide)
/-- `C10_off`, `C10_plain_propagates` -/
example := C10_off E0 cfgOff .dispatch {} early rfl
example := C10_plain_propagates E0 { cfg with plainScript := [.panic "h".toList] } .muxHandle {} early (.inl rfl)
/-- `C10_balanced_from`, `C10_usable_ledger` (a balanced, used ledger; panicking and normal requests mixed) -/
example := C10_balanced_from E0 cfg .dispatch ⟨4, 4⟩ late rfl
example := C10_usable_ledger E0 cfg .dispatch ⟨4, 4⟩ [early, late, ok, early] rfl
example := C10_usable E0 cfg .dispatch ⟨4, 4⟩ [early, late, ok, early]

/-- `Spec.c10Holds` is not trivially true.  Recovery on, panic before anything was written: falsified
    by a panic that escapes; two recover calls; none; the status 200; the default 500 where the custom
    handler says 503; a compressor not released; a ledger anomaly; an incomplete coded stream.  No
    panic: falsified by a recover call.  Recovery off: falsified by a swallowed panic, another panic
    value, a compressor lost. -/
example :
    Spec.c10Holds E0 cfg .dispatch early { oE with escaped := some "early".toList } = false ∧
    Spec.c10Holds E0 cfg .dispatch early { oE with recov := 2 } = false ∧
    Spec.c10Holds E0 cfg .dispatch early { oE with recov := 0 } = false ∧
    Spec.c10Holds E0 cfg .dispatch early { oE with status := 200 } = false ∧
    Spec.c10Holds E0 cfg .dispatch early { oE with status := 500 } = false ∧
    Spec.c10Holds E0 cfg .dispatch early { oE with rel := 0 } = false ∧
    Spec.c10Holds E0 cfg .dispatch early { oE with dbl := 1 } = false ∧
    Spec.c10Holds E0 cfg .dispatch early { oE with complete := false } = false ∧
    Spec.c10Holds E0 cfg .dispatch ok oK = true ∧
    Spec.c10Holds E0 cfg .dispatch ok { oK with recov := 1 } = false ∧
    Spec.c10Holds E0 cfgOff .dispatch early oOff = true ∧
    Spec.c10Holds E0 cfgOff .dispatch early { oOff with escaped := none } = false ∧
    Spec.c10Holds E0 cfgOff .dispatch early { oOff with escaped := some "other".toList } = false ∧
    Spec.c10Holds E0 cfgOff .dispatch early { oOff with rel := 0 } = false := by
  decide

/-- `C10_body`, `C10_body_default` -/
example := C10_body E0 cfg .dispatch ⟨4, 4⟩ late (.inl rfl) rfl _ rfl (by decide)
example := C10_body E0 cfg .serveHandleF {} late (.inr (.inr ⟨.inr rfl, by decide⟩)) rfl _ rfl
example := C10_body_default E0 cfgDefault .dispatch {} late (.inl rfl) rfl rfl (by decide)

/-- the same without any coding; the default handler's observation as the model makes it (`oD`) and
    as the harness makes it (`oDh`: the custom-handler counter stays 0, one log entry of the library's
    handler, the body ends with a stack text of the library's, not with the model's placeholder) -/
def cfgPlain : Cfg := { cfg with encoding := false }
def oLp : Spec.Obs := Spec.obsOf (serve E0 cfgPlain .dispatch {} late)
def oD : Spec.Obs := Spec.obsOf (serve E0 cfgDefault .dispatch {} late)
def oDh : Spec.Obs := { oD with recov := 0, recovDefault := 1, body := "yrecover from panic situation: - late".toList }
/-- a container filter panics after the library's own service-error writer answered a request no
    route matches (`After`), or before it passed control on (`Before`) -/
def cfgErrAfter : Cfg := { cfg with cfilters := [fl 1 .pass [] [.panic "after".toList]] }
def cfgErrBefore : Cfg := { cfg with cfilters := [fl 1 .pass [.panic "before".toList] []] }
def nowhere : SReq := rq "/nowhere"
def oEA : Spec.Obs := Spec.obsOf (serve E0 cfgErrAfter .dispatch {} nowhere)
def oEB : Spec.Obs := Spec.obsOf (serve E0 cfgErrBefore .dispatch {} nowhere)

example :
    oLp.coded = false ∧ oLp.body = "yr".toList ∧ Spec.c10Holds E0 cfgPlain .dispatch late oLp = true ∧
    oD.body = "y<stack>".toList ∧ oD.recov = 1 ∧ oD.recovDefault = 0 ∧ oD.status = 200 ∧
    Spec.c10Holds E0 cfgDefault .dispatch late oD = true ∧
    Spec.c10Holds E0 cfgDefault .dispatch late oDh = true ∧
    oEA.status = 404 ∧ oEA.recov = 1 ∧ oEB.status = 503 ∧ oEB.body = "r".toList ∧
    Spec.c10Holds E0 cfgErrAfter .dispatch nowhere oEA = true ∧
    Spec.c10Holds E0 cfgErrBefore .dispatch nowhere oEB = true := by
  decide

/-- **The body clause is not trivially true.**
    (i) A recovered panic whose body lacks the recover handler's text (no coding; with a coding; when
    nothing had been written before), or has it in front of what had been written, or has it twice.
    (ii) A coded response whose recover text was written outside the coding (cf. seeded/C10-5, the
    recover handler is handed the raw ResponseWriter): the coded stream, decoded, holds only what was
    written before the panic — with a strict decoder the observation is moreover incomplete (the
    recover text sits in front of the stream), which `c10Holds` rejects as well.
    The library's handler: nothing follows what had been written; what had been written is lost.
    The library's own error text is excused narrowly: only when the error writer ran before the
    panic, and then the recover handler's text must still end the body. -/
example :
    Spec.c10Holds E0 cfgPlain .dispatch late { oLp with body := "y".toList } = false ∧
    Spec.c10Holds E0 cfgPlain .dispatch late { oLp with body := "ry".toList } = false ∧
    Spec.c10Holds E0 cfgPlain .dispatch late { oLp with body := "yrr".toList } = false ∧
    Spec.c10Holds E0 cfg .dispatch early { oE with body := [] } = false ∧
    oL.coded = true ∧ oL.ce = "gzip".toList ∧ oL.complete = true ∧
    Spec.c10Holds E0 cfg .dispatch late { oL with body := "y".toList } = false ∧
    Spec.c10Holds E0 cfg .dispatch late { oL with body := [], complete := false } = false ∧
    Spec.c10Holds E0 cfgDefault .dispatch late { oDh with body := "y".toList } = false ∧
    Spec.c10Holds E0 cfgDefault .dispatch late { oDh with body := "recover from panic situation".toList } = false ∧
    Spec.c10Holds E0 cfgErrAfter .dispatch nowhere { oEA with body := "some other 404 textr".toList } = true ∧
    Spec.c10Holds E0 cfgErrAfter .dispatch nowhere { oEA with body := "some other 404 text".toList } = false ∧
    Spec.c10Holds E0 cfgErrBefore .dispatch nowhere { oEB with body := "some 404 textr".toList } = false := by
  decide

/-- **The recover-call count with the library's handler is not trivially true**: no log entry of
    `logStackOnRecover` although a panic was raised; two; one although no panic was raised; with a
    custom handler installed: the library's handler ran instead of it, or besides it. -/
example :
    Spec.c10Holds E0 cfgDefault .dispatch late { oDh with recovDefault := 0 } = false ∧
    Spec.c10Holds E0 cfgDefault .dispatch late { oDh with recovDefault := 2 } = false ∧
    Spec.c10Holds E0 cfgDefault .dispatch ok (Spec.obsOf (serve E0 cfgDefault .dispatch {} ok)) = true ∧
    Spec.c10Holds E0 cfgDefault .dispatch ok { Spec.obsOf (serve E0 cfgDefault .dispatch {} ok) with recovDefault := 1 } = false ∧
    Spec.c10Holds E0 cfg .dispatch late { oL with recov := 0, recovDefault := 1 } = false ∧
    Spec.c10Holds E0 cfg .dispatch late { oL with recovDefault := 1 } = false := by
  decide

end C10Example

/-! The frame condition (Lemmas/StateShape.lean): the code has exactly the state this property's model
    accounts for — no further package-level variable, struct type or field; constants as modelled. -/
-- also: Restful.StateShape.globals_shape
-- also: Restful.StateShape.consts_shape
-- also: Restful.StateShape.container_shape

end Props
end Restful
