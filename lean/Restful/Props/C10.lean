/-
C10 — a panic anywhere in the chain becomes one 500 and leaves the container usable.

`Serve.serve` is the model of one request through one entry point (container.go `dispatch`,
`ServeHTTP`, `Handle`, `HandleWithFilter`; tied to /repo by the correspondence stream `serve`);
`Spec.c10Holds` is the property as a predicate on an observation, evaluated by the driver on what the
real code did and here (`Spec.obsOf`) on what the model does.

What the theorems rest on (Restful/Lemmas/Panic.lean):
* the panic a request raises is a function `Serve.Panic.raised` of routing, the kinds of the filters
  on its chain and the scripts — not of the writer, of content coding or of the recovery switch
  (`runChain_panic`); it is what `c10Holds` calls `raw.escaped` (`C10_raised`);
* `finishDispatch`: recovery on ⇒ nothing leaves `dispatch`, one recover-handler call iff a panic was
  raised; recovery off ⇒ the value is handed on unchanged;
* a simulation between the real run and the run without coding (`runChain_rel`, `Sim`): the real
  status is locked only if the other one is, so "nothing had been written" transfers and the recover
  handler's first `WriteHeader`/`Write` decides the status, through a compressing writer as well;
* every path through every entry point ends with the `Close` of whoever installed the compressing
  writer, so the ledger is balanced and the coded stream complete, panic or not.

Deviations.
* F18 (code): the chain `HandleWithFilter` builds has no recovery around it.  `C10_partial` excludes
  `Spec.f18Class`; `C10_F18` shows that every request in that class violates `c10Holds` on the model
  (the panic escapes), `C10_F18_witness` is a concrete instance.
* recover handler that panics (model/spec, not a claim about the code): `Serve.runRecover` drops a
  panic raised by the custom recover script, while `Spec.recoverStatus` looks past a `.panic` act for
  the script's first `writeHeader`.  For a recover script that panics before its first
  `write`/`writeHeader` the status clause of `c10Holds` is therefore false on the model
  (`C10_recover_handler_panics_witness`).  `C10_partial` carries the hypothesis
  `cfg.recover = true → Spec.recoverPanicsEarly cfg = false`; all other clauses (`C10_on`, `C10_off`,
  `C10_balanced`, `C10_usable`) hold without it.
-/
import Restful.Lemmas.Panic
namespace Restful
namespace Props
open Serve Serve.Panic

/-- The model satisfies `c10Holds` for every configuration, entry point and request outside the F18
    class, provided the custom recover handler (if recovery is on) does not itself panic before it
    wrote anything.  Clause by clause: recovery on and a routed entry point — nothing escapes, the
    ledger is balanced and the coded stream complete, the recover handler is called once iff the
    request raises a panic, and if nothing had been written before the panic the client sees the
    recover handler's status (500 by default); otherwise (recovery off, or a plain handler registered
    with `Handle`) — the panic reaches the caller unchanged and the ledger is balanced. -/
theorem C10_partial (E : ReEnv) (cfg : Serve.Cfg) (e : Serve.Entry) (sr : Serve.SReq)
    (h18 : Spec.f18Class E cfg e sr = false)
    (hrec : cfg.recover = true → Spec.recoverPanicsEarly cfg = false) :
    Spec.c10Holds E cfg e sr (Spec.obsOf (Serve.serve E cfg e {} sr)) = true := by
  rw [c10Holds_eq, ledgerOK_serve]
  have hraw := raw_escaped E cfg e {} sr
  have hesc := serve_escaped E cfg e {} sr
  have hn := serve_recoverCalls E cfg e {} sr
  cases hr : cfg.recover with
  | false =>
    rw [hr] at hesc
    simp only [Bool.false_and, Bool.false_eq_true, if_false, Bool.and_true, beq_iff_eq]
    rw [hraw]
    exact hesc
  | true =>
    rw [hr] at hesc hn
    cases hro : routed e with
    | false =>
      have hpf : Spec.panicFromFilter E cfg e sr = false := by
        cases e with
        | dispatch => cases hro
        | serveDispatch => cases hro
        | muxHandle => exact panicFromFilter_plain E cfg _ sr (Or.inl rfl)
        | serveHandle => exact panicFromFilter_plain E cfg _ sr (Or.inr rfl)
        | muxHandleF => simpa [Spec.f18Class, hr] using h18
        | serveHandleF => simpa [Spec.f18Class, hr] using h18
      rw [hro] at hesc
      simp only [hpf, Bool.or_self, Bool.and_false, Bool.false_eq_true, if_false, Bool.and_true, beq_iff_eq]
      rw [hraw]
      exact hesc
    | true =>
      rw [hro] at hesc hn
      simp only [Bool.true_or, Bool.and_self, if_true, Bool.and_true, Bool.and_eq_true, Bool.or_eq_true,
        beq_iff_eq, Bool.not_eq_true', Bool.and_eq_false_imp]
      refine ⟨⟨?_, Or.inr ?_⟩, ?_⟩
      · simp only [Spec.obsOf]
        rw [hesc]
        rfl
      · simp only [Spec.obsOf]
        rw [hn, hraw]
        rfl
      · rw [hraw]
        by_cases hp : (raised E cfg e sr).isSome = true
        · cases hst : (serve E (rawCfg cfg) e {} (rawReq sr)).rc.status with
          | some d => exact Or.inl (fun _ => rfl)
          | none =>
            right
            rw [serve_eq] at hst
            have := serveCore_status E cfg e sr hr hro (hrec hr) hp hst
            rw [serve_eq]
            exact this
        · exact Or.inl (fun h => absurd h hp)

/-- `raw.escaped` in `c10Holds` — the same request with coding and recovery switched off — is the
    panic the request raises, as computed from routing, filter kinds and scripts alone -/
theorem C10_raised (E : ReEnv) (cfg : Cfg) (e : Entry) (sr : SReq) :
    (serve E { Spec.noCoding cfg with recover := false } e {} { sr with acceptEncoding := [] }).escaped =
      raised E cfg e sr :=
  raw_escaped E cfg e {} sr

/-- Recovery on, routed entry points (`Dispatch`, `ServeHTTP` → `dispatch`): no panic escapes, and
    the recover handler is called exactly once if the request raises a panic (in a container filter,
    service filter, route filter, the route function, an If-condition or the router), never otherwise. -/
theorem C10_on (E : ReEnv) (cfg : Cfg) (e : Entry) (w : World) (sr : SReq)
    (he : e = .dispatch ∨ e = .serveDispatch) (hr : cfg.recover = true) :
    (serve E cfg e w sr).escaped = none ∧
      (serve E cfg e w sr).recoverCalls = (if (raised E cfg e sr).isSome then 1 else 0) := by
  have hro : routed e = true := by rcases he with rfl | rfl <;> rfl
  rw [serve_escaped, serve_recoverCalls, hr, hro]
  exact ⟨rfl, rfl⟩

/-- Recovery on, routed entry points: if the request raises a panic before anything was written
    (the run without coding and recovery ends with the status still open), the client sees the status
    of the recover handler — also through a compressing writer. -/
theorem C10_status (E : ReEnv) (cfg : Cfg) (e : Entry) (w : World) (sr : SReq)
    (he : e = .dispatch ∨ e = .serveDispatch) (hr : cfg.recover = true)
    (hrec : Spec.recoverPanicsEarly cfg = false)
    (hp : (raised E cfg e sr).isSome = true)
    (hnothing : (serve E { Spec.noCoding cfg with recover := false } e {} { sr with acceptEncoding := [] }).rc.status = none) :
    (Spec.obsOf (serve E cfg e w sr)).status = Spec.recoverStatus cfg := by
  have hro : routed e = true := by rcases he with rfl | rfl <;> rfl
  rw [serve_eq] at hnothing
  have := serveCore_status E cfg e sr hr hro hrec hp hnothing
  rw [serve_eq]
  exact this

/-- … which is 500 for the default handler. -/
theorem C10_status_default (E : ReEnv) (cfg : Cfg) (e : Entry) (w : World) (sr : SReq)
    (he : e = .dispatch ∨ e = .serveDispatch) (hr : cfg.recover = true) (hd : cfg.recoverScript = none)
    (hp : (raised E cfg e sr).isSome = true)
    (hnothing : (serve E { Spec.noCoding cfg with recover := false } e {} { sr with acceptEncoding := [] }).rc.status = none) :
    (Spec.obsOf (serve E cfg e w sr)).status = 500 := by
  have hrec : Spec.recoverPanicsEarly cfg = false := by simp [Spec.recoverPanicsEarly, hd]
  rw [C10_status E cfg e w sr he hr hrec hp hnothing]
  simp [Spec.recoverStatus, hd]

/-- Recovery off (the default): the panic the request raises reaches the caller unchanged — for
    every entry point. -/
theorem C10_off (E : ReEnv) (cfg : Cfg) (e : Entry) (w : World) (sr : SReq) (hr : cfg.recover = false) :
    (serve E cfg e w sr).escaped = raised E cfg e sr := by
  rw [serve_escaped, hr]
  rfl

/-- Every entry point, every setting, panic or not: the compressor acquired for the request is
    released again, and a coded response has been closed (its stream is complete). -/
theorem C10_balanced (E : ReEnv) (cfg : Cfg) (e : Entry) (sr : SReq) :
    (serve E cfg e {} sr).world.acquired = (serve E cfg e {} sr).world.released ∧
      ∀ c, (serve E cfg e {} sr).rc.comp = some c → c.closed = true :=
  ⟨serve_balanced E cfg e {} sr rfl, serve_closed E cfg e {} sr⟩

/-- The same starting from any balanced ledger. -/
theorem C10_balanced_from (E : ReEnv) (cfg : Cfg) (e : Entry) (w : World) (sr : SReq)
    (hw : w.acquired = w.released) :
    (serve E cfg e w sr).world.acquired = (serve E cfg e w sr).world.released :=
  serve_balanced E cfg e w sr hw

/-- The container stays usable: in a sequence of requests on one container every request is answered
    (recorder, events, escaping panic, recover-handler calls) exactly as it is answered on a fresh
    container — whatever was served before it, panicking or not, recovered or not. -/
theorem C10_usable (E : ReEnv) (cfg : Cfg) (e : Entry) (w : World) (reqs : List SReq) :
    (serveSeq E cfg e w reqs).map answer = reqs.map (fun r => answer (serve E cfg e {} r)) := by
  induction reqs generalizing w with
  | nil => rfl
  | cons r rs ih =>
    simp only [serveSeq, List.map_cons, ih]
    rw [serve_answer]

/-- In particular the answer to a request does not depend on what was served before it (say, the
    same requests with or without the panicking ones among them). -/
theorem C10_usable_independent (E : ReEnv) (cfg : Cfg) (e : Entry) (w w' : World) (pre pre' : List SReq) (r : SReq) :
    ((serveSeq E cfg e w (pre ++ [r])).map answer).getLast? =
      ((serveSeq E cfg e w' (pre' ++ [r])).map answer).getLast? := by
  rw [C10_usable, C10_usable]
  simp

/-- … and the ledger stays balanced throughout: no compressor is lost. -/
theorem C10_usable_ledger (E : ReEnv) (cfg : Cfg) (e : Entry) (w : World) (reqs : List SReq)
    (hw : w.acquired = w.released) :
    ∀ r ∈ serveSeq E cfg e w reqs, r.world.acquired = r.world.released := by
  induction reqs generalizing w with
  | nil => intro r hr; cases hr
  | cons q qs ih =>
    intro r hr
    simp only [serveSeq, List.mem_cons] at hr
    rcases hr with rfl | hr
    · exact serve_balanced E cfg e w q hw
    · exact ih _ (serve_balanced E cfg e w q hw) r hr

/-- F18 in general: with recovery on, a panic raised by a container filter on the chain
    `HandleWithFilter` builds escapes the entry point, and `c10Holds` fails. -/
theorem C10_F18 (E : ReEnv) (cfg : Cfg) (e : Entry) (sr : SReq) (h : Spec.f18Class E cfg e sr = true) :
    (serve E cfg e {} sr).escaped.isSome = true ∧
      Spec.c10Holds E cfg e sr (Spec.obsOf (serve E cfg e {} sr)) = false := by
  simp only [Spec.f18Class, Bool.and_eq_true, Bool.or_eq_true, beq_iff_eq] at h
  obtain ⟨⟨he, hr⟩, hpf⟩ := h
  have hro : routed e = false := by rcases he with rfl | rfl <;> rfl
  have hesc : (serve E cfg e {} sr).escaped.isSome = true := by
    rw [serve_escaped, hr, hro]
    exact raised_of_panicFromFilter E cfg e sr hpf
  refine ⟨hesc, ?_⟩
  rw [c10Holds_eq, hr, hpf]
  simp only [Bool.or_true, Bool.and_self, if_true]
  have : (Spec.obsOf (serve E cfg e {} sr)).escaped.isNone = false := by
    simp only [Spec.obsOf]
    cases h : (serve E cfg e {} sr).escaped with
    | none => rw [h] at hesc; cases hesc
    | some v => rfl
  rw [this]
  rfl

/-- F18, concretely: recovery on, one container filter that panics, a handler registered with
    `HandleWithFilter`, reached through `ServeHTTP`. -/
theorem C10_F18_witness :
    let E : ReEnv := ⟨fun _ _ => true, fun _ _ => true⟩
    let cfg : Cfg :=
      { routing := { router := .curly, services := [] }
        recover := true
        cfilters := [{ id := 1, pre := [.panic "p".toList], kind := .pass, post := [] }] }
    let sr : SReq := { req := { method := "GET".toList, path := "/x".toList } }
    Spec.f18Class E cfg .serveHandleF sr = true ∧
      (serve E cfg .serveHandleF {} sr).escaped = some "p".toList ∧
      Spec.c10Holds E cfg .serveHandleF sr (Spec.obsOf (serve E cfg .serveHandleF {} sr)) = false := by
  decide

/-- Why `C10_partial` asks that the recover handler does not itself panic before writing: the model
    drops a panic of the recover handler, `recoverStatus` reads the `writeHeader 503` behind it. -/
theorem C10_recover_handler_panics_witness :
    let E : ReEnv := ⟨fun _ _ => true, fun _ _ => true⟩
    let cfg : Cfg :=
      { routing := { router := .curly, services := [] }
        recover := true
        recoverScript := some [.panic "again".toList, .writeHeader 503] }
    let sr : SReq := { req := { method := "GET".toList, path := "/x".toList }, condPanic := some "p".toList }
    Spec.f18Class E cfg .dispatch sr = false ∧ Spec.recoverPanicsEarly cfg = true ∧
      (Spec.obsOf (serve E cfg .dispatch {} sr)).status = 200 ∧ Spec.recoverStatus cfg = 503 ∧
      Spec.c10Holds E cfg .dispatch sr (Spec.obsOf (serve E cfg .dispatch {} sr)) = false := by
  decide

/-- non-vacuity: recovery and encoding on, gzip asked for, the route function writes one byte and
    then panics, custom recover handler: nothing escapes, one recover call, the coded stream is
    closed and carries both writes, the status is the 200 locked by the first byte -/
example :
    let E : ReEnv := ⟨fun _ _ => true, fun _ _ => true⟩
    let cfg : Cfg :=
      { routing := { router := .curly, services := [{ id := 0, root := "/a".toList, routes :=
          [{ id := 7, method := "GET".toList, relPath := [], consumes := [], produces := [], conds := [], noct := [] }] }] }
        routes := [{ id := 7, script := [.write "x".toList, .panic "boom".toList] }]
        encoding := true
        recover := true
        recoverScript := some [.writeHeader 503, .write "r".toList] }
    let sr : SReq := { req := { method := "GET".toList, path := "/a".toList }, acceptEncoding := "gzip".toList }
    let o := Spec.obsOf (serve E cfg .dispatch {} sr)
    raised E cfg .dispatch sr = some "boom".toList ∧
      o.escaped = none ∧ o.recov = 1 ∧ o.coded = true ∧ o.complete = true ∧ o.body = "xr".toList ∧
      o.status = 200 ∧ o.acq = 1 ∧ o.rel = 1 ∧
      Spec.f18Class E cfg .dispatch sr = false ∧ Spec.recoverPanicsEarly cfg = false ∧
      Spec.c10Holds E cfg .dispatch sr o = true := by
  decide

/-- non-vacuity: the same with a route function that panics before writing: the recover handler's
    503 is the status, its byte the whole (coded, complete) body -/
example :
    let E : ReEnv := ⟨fun _ _ => true, fun _ _ => true⟩
    let cfg : Cfg :=
      { routing := { router := .curly, services := [{ id := 0, root := "/a".toList, routes :=
          [{ id := 7, method := "GET".toList, relPath := [], consumes := [], produces := [], conds := [], noct := [] }] }] }
        routes := [{ id := 7, script := [.panic "boom".toList, .write "x".toList] }]
        encoding := true
        recover := true
        recoverScript := some [.writeHeader 503, .write "r".toList] }
    let sr : SReq := { req := { method := "GET".toList, path := "/a".toList }, acceptEncoding := "gzip".toList }
    let o := Spec.obsOf (serve E cfg .dispatch {} sr)
    o.escaped = none ∧ o.recov = 1 ∧ o.coded = true ∧ o.complete = true ∧ o.body = "r".toList ∧
      o.status = 503 ∧ Spec.recoverStatus cfg = 503 ∧ o.acq = 1 ∧ o.rel = 1 ∧
      Spec.c10Holds E cfg .dispatch sr o = true := by
  decide

end Props
end Restful
