/-
C15 — response status and length bookkeeping match what was actually sent.

`Resp.run env st calls` is the model of `restful.Response` (response.go, entity_accessors.go) over
an arbitrary underlying writer `env : Nat → (accepted, err)`, `err` the error VALUE it returned (a
tag, 0 = nil) (tied to /repo by the
correspondence stream `response`).  `Spec.c15Holds` is the property as a predicate on an observed
history; the driver evaluates the same predicate on what the real code did.

All theorems quantify over every call sequence, every initial setting, every chunking the
marshallers may produce and every behaviour of the underlying writer (no relation between offered
and accepted sizes is assumed; failures may start anywhere, stop again, accept any partial count).

The property excludes histories in which the status is set twice or after a body byte.  There the
code keeps the LAST status (`C15_status_last_set`) whereas `net/http` and `ResponseRecorder` keep
the FIRST; `C15_discipline_needed_*` exhibit both situations on the model, so the hypothesis
`disciplinedCalls` of `C15_bookkeeping` cannot be dropped.  `validStatus` (100..999, what
`net/http` accepts without panicking) is needed because `StatusCode()` maps a stored 0 to 200
(`C15_status_zero_witness`).  No deviation of the code from C15 inside its quantifier was found:
there is no `_partial` theorem in this file.

The error clause is proved with the error's identity (`C15_error_value`): the call in which an
underlying `Write` failed returns THE value that `Write` returned.  Its quantifier is "the underlying
writer fails" — as the call's only failure: a value that does not marshal (the marshaller reports an
error of its own) gives the call a second reason to fail, and then `xml.Encoder.Encode` may return
its own error although a flush failed first (`C15_own_marshal_error_boundary`, outside the
quantifier; such a call still returns a non-nil error: `C15_error`).  "Every entity marshals" is the
decidable condition `Spec.marshalClean` on the call sequence; per call it is `ownErr = false`.
-/
import Restful.Lemmas.Response
import Restful.Lemmas.StateShape
import Restful.Lemmas.TieResponse
namespace Restful
namespace Props
open Resp Spec

/-- Everything the model does satisfies the property predicate: after every call (and for the
    filter reading the getters after the handler) `StatusCode()`/`ContentLength()` equal the status
    the underlying writer received (200 if none) / the bytes it accepted whenever the status was
    set at most once and before any body byte; and a call in which an underlying write failed
    returns an error, with only accepted bytes counted. -/
theorem C15 (coding : Bool) (env : Env) (s : Settings) (calls : List Call) :
    Spec.c15Holds (Spec.modelHistory coding env s calls) = true := by
  unfold Spec.c15Holds Spec.modelHistory
  simp only [Bool.and_eq_true]
  refine ⟨run_callsOK coding env calls _ [] (Inv_init s), ?_⟩
  simp only [finalOK, allEvents_run]
  have := Inv_final env calls (State.init s) [] (Inv_init s)
  simp only [List.nil_append] at this
  exact Inv_bookkeeping this

/-- The bookkeeping law in explicit form.  For every call sequence obeying the discipline (a
    decidable predicate on the sequence and the initial settings, independent of the writer), every
    underlying writer: what the writer received obeys the discipline too, `StatusCode()` is the
    status it received (200 if none) and `ContentLength()` is the number of bytes it accepted. -/
theorem C15_bookkeeping (env : Env) (s : Settings) (calls : List Call)
    (hd : Spec.disciplinedCalls s calls = true) :
    let fin := finalState env (State.init s) calls
    let evs := eventsOf env (State.init s) calls
    Spec.discipline evs = true ∧ fin.StatusCode = Spec.effectiveStatus evs ∧
      fin.ContentLength = Spec.acceptedBytes evs := by
  intro fin evs
  have hdisc : Spec.discipline evs = true :=
    primDiscipline_sublist (events_sublist_planned env calls (State.init s)) hd
  have hi := Inv_final env calls (State.init s) [] (Inv_init s)
  simp only [List.nil_append] at hi
  refine ⟨hdisc, ?_, hi.1⟩
  have := discipline_status evs hdisc
  simp only [State.StatusCode, fin, hi.2]
  exact this

/-- The length half needs no discipline at all: `ContentLength()` is always the number of bytes
    the underlying writer accepted — counted on the events and, equivalently, on the environment. -/
theorem C15_length_always (env : Env) (s : Settings) (calls : List Call) :
    let fin := finalState env (State.init s) calls
    fin.ContentLength = Spec.acceptedBytes (eventsOf env (State.init s) calls) := by
  intro fin
  have hi := Inv_final env calls (State.init s) [] (Inv_init s)
  simp only [List.nil_append] at hi
  exact hi.1

/-- What the code does with the status in general: the last status handed to `WriteHeader` wins
    (200 before the first). -/
theorem C15_status_last_set (env : Env) (s : Settings) (calls : List Call) :
    (finalState env (State.init s) calls).statusCode = lastStatus 200 (eventsOf env (State.init s) calls) := by
  have hi := Inv_final env calls (State.init s) [] (Inv_init s)
  simp only [List.nil_append] at hi
  exact hi.2

/-- The error law, with the error's identity.  If the k-th `Write` call of the underlying writer was
    made and failed, then the high-level call that made it returned an error, that write was the
    last thing the call did, `ContentLength()` after the call is exactly what the writer accepted in
    writes 0..k, and — when the value handed to the call marshals (`ownErr = false`: the writer's
    failure is the call's only failure) — the error the call returned is THE error value that `Write`
    returned, `(env k).err`.  Exactly: the call returns that value, or, only for a value whose
    marshaller reports an error of its own, that other error. -/
theorem C15_error_value (env : Env) (s : Settings) (calls : List Call) (k : Nat)
    (hk : k < (finalState env (State.init s) calls).writes) (hf : (env k).failed = true) :
    ∃ r ∈ run env (State.init s) calls,
      r.firstWrite ≤ k ∧ k + 1 = r.firstWrite + Spec.writeCount r.events ∧
      r.retErr = true ∧ r.length = envAccepted env (k + 1) ∧
      (r.ownErr = false → r.ret = .writer (env k).err) ∧
      (r.ret = .writer (env k).err ∨ (r.ownErr = true ∧ r.ret = .other)) := by
  obtain ⟨r, hr, h1, h2, _, h4, h5, h6⟩ :=
    run_error env calls (State.init s) k (by simp [State.init, envAccepted]) (by simp [State.init]) hk hf
  refine ⟨r, hr, h1, h2, h4, h5, ?_, h6⟩
  intro ho
  rcases h6 with h | h
  · exact h
  · rw [ho] at h; exact absurd h.1 (by simp)

/-- the same under the condition on the whole sequence: every entity marshals (`Spec.marshalClean`,
    decidable, independent of the writer) — then every failing `Write` surfaces as itself -/
theorem C15_error_value_clean (env : Env) (s : Settings) (calls : List Call) (k : Nat)
    (hm : Spec.marshalClean s calls = true)
    (hk : k < (finalState env (State.init s) calls).writes) (hf : (env k).failed = true) :
    ∃ r ∈ run env (State.init s) calls,
      r.firstWrite ≤ k ∧ k + 1 = r.firstWrite + Spec.writeCount r.events ∧
      r.ret = .writer (env k).err ∧ r.length = envAccepted env (k + 1) := by
  obtain ⟨r, hr, h1, h2, _, h4, h5, _⟩ := C15_error_value env s calls k hk hf
  exact ⟨r, hr, h1, h2, h5 (run_ownErr_clean env calls (State.init s) hm r hr), h4⟩

/-- The error law as it was stated before (a corollary): the call returned a non-nil error — this
    half needs no condition on the values. -/
theorem C15_error (env : Env) (s : Settings) (calls : List Call) (k : Nat)
    (hk : k < (finalState env (State.init s) calls).writes) (hf : (env k).failed = true) :
    ∃ r ∈ run env (State.init s) calls,
      r.firstWrite ≤ k ∧ k + 1 = r.firstWrite + Spec.writeCount r.events ∧
      r.retErr = true ∧ r.length = envAccepted env (k + 1) := by
  obtain ⟨r, hr, h1, h2, h3, h4, _⟩ := C15_error_value env s calls k hk hf
  exact ⟨r, hr, h1, h2, h3, h4⟩

/-- The same per call, on the events: a failed write is the last event of its call and makes the
    call return an error. -/
theorem C15_error_events (env : Env) (s : Settings) (calls : List Call) :
    ∀ r ∈ run env (State.init s) calls,
      failsOnlyLast r.events = true ∧ (r.events.any Spec.failedWrite = true → r.retErr = true) :=
  run_error_events env calls (State.init s)

/-! ### why the hypotheses are there (these are not deviations: the property excludes them) -/

/-- **Boundary example — outside the quantifier.**  A value that does not marshal: `xml.Encoder`
    fills its 4096-byte buffer, the flush is triggered while it writes the start tag of a field no
    marshaller supports, the `Write` fails (error value 7), `Encode` goes on, runs into the
    unsupported field and returns ITS error (`encXmlMasked = [true]`; in the harness:
    `BadTail{Pad: text(2389)}`, replayed on the real code).  The call returns a non-nil error that
    is not the writer's.  This is `encoding/xml`'s choice between two errors of one call, not a
    deviation of the Response: `Spec.c15Holds` holds of the history (`ownErr`), and with a value
    that marshals the same failing write surfaces as itself. -/
theorem C15_own_marshal_error_boundary :
    let bad : Marshalled := { encXml := [4096], encXmlFails := true, encXmlMasked := [true] }
    let good : Marshalled := { encXml := [4096] }
    let env := Env.ofList [⟨0, 7⟩]
    let st := State.init { prettyPrint := false }
    Spec.marshalClean { prettyPrint := false } [Call.writeAsXml bad] = false ∧
      run env st [Call.writeAsXml bad] = [⟨[.header 200, .write 4096 0 7], 200, 0, .other, false, 0, true⟩] ∧
      Spec.c15Holds (Spec.modelHistory false env { prettyPrint := false } [Call.writeAsXml bad]) = true ∧
      Spec.marshalClean { prettyPrint := false } [Call.writeAsXml good] = true ∧
      run env st [Call.writeAsXml good] = [⟨[.header 200, .write 4096 0 7], 200, 0, .writer 7, false, 0, false⟩] := by
  decide

/-- status set twice: the code reports the last one, a `net/http`-like writer sent the first -/
theorem C15_discipline_needed_twice :
    let calls := [Call.writeHeader 404, Call.writeHeader 500]
    let env := Env.ofList []
    Spec.disciplinedCalls {} calls = false ∧
      (finalState env (State.init {}) calls).StatusCode = 500 ∧
      Spec.effectiveStatus (eventsOf env (State.init {}) calls) = 404 := by
  decide

/-- status set after a body byte: the code reports it, the writer had already sent 200 -/
theorem C15_discipline_needed_order :
    let calls := [Call.write 3, Call.writeErrorString 500 7]
    let env := Env.ofList [⟨3, 0⟩, ⟨7, 0⟩]
    Spec.disciplinedCalls {} calls = false ∧
      (finalState env (State.init {}) calls).StatusCode = 500 ∧
      Spec.effectiveStatus (eventsOf env (State.init {}) calls) = 200 := by
  decide

/-- `WriteHeader(0)` (on which `net/http` panics): `StatusCode()` answers 200, the writer got 0 -/
theorem C15_status_zero_witness :
    let calls := [Call.writeHeader 0]
    let env := Env.ofList []
    Spec.disciplinedCalls {} calls = false ∧
      (finalState env (State.init {}) calls).StatusCode = 200 ∧
      Spec.effectiveStatus (eventsOf env (State.init {}) calls) = 0 := by
  decide

/-! ### non-vacuity -/

/-- A disciplined sequence through the accessor lookup, pretty XML of 120 bytes (two writes), a partial failing
    write, and later writes that succeed again: status 201 throughout, the length counts 39 + 70,
    then + 50; the failing call returns an error. -/
example :
    let v : Marshalled := { prettyJson := some 100, prettyXml := some 120, encJson := [91], encXml := [4096, 37] }
    let calls := [Call.setAccept .xml, Call.writeHeaderAndEntity 201 v, Call.write 50, Call.prettyPrint false]
    let env := Env.ofList [⟨39, 0⟩, ⟨70, 5⟩, ⟨50, 0⟩]
    Spec.disciplinedCalls {} calls = true ∧ Spec.marshalClean {} calls = true ∧
      run env (State.init {}) calls =
        [⟨[], 200, 0, .nil, false, 0, false⟩,
         ⟨[.header 201, .write 39 39 0, .write 120 70 5], 201, 109, .writer 5, false, 0, false⟩,
         ⟨[.write 50 50 0], 201, 159, .nil, false, 2, false⟩,
         ⟨[], 201, 159, .nil, false, 3, false⟩] ∧
      Spec.c15Holds (Spec.modelHistory false env {} calls) = true := by
  decide

/-- an encoder that writes two chunks and then reports a marshalling error; no entity writer → 406;
    a body-only sequence keeps 200 -/
example :
    let v : Marshalled := { encXml := [4096, 10], encXmlFails := true }
    run (Env.ofList [⟨4096, 0⟩, ⟨10, 0⟩]) (State.init { prettyPrint := false }) [Call.writeAsXml v] =
        [⟨[.header 200, .write 4096 4096 0, .write 10 10 0], 200, 4106, .other, false, 0, true⟩] ∧
      run (Env.ofList []) (State.init {}) [Call.writeEntity { prettyJson := some 5 }] = [⟨[.header 406], 406, 0, .nil, false, 0, false⟩] ∧
      Spec.disciplinedCalls {} [Call.write 1, Call.write 0, Call.write 2] = true ∧
      (finalState (Env.ofList [⟨1, 0⟩, ⟨0, 0⟩, ⟨1, 9⟩]) (State.init {}) [Call.write 1, Call.write 0, Call.write 2]).ContentLength = 2 := by
  decide

/-- the predicate is not trivially true: it rejects a history whose length counts offered instead
    of accepted bytes, one whose status was not recorded, one whose failing call returned nil, one
    whose failing call returned an error that is not the writer's (another `Write`'s, or one made
    elsewhere) although its value marshals — and accepts that history with the writer's own error -/
example :
    Spec.c15Holds ⟨false, [⟨[.header 200, .write 10 4 3], 200, 10, .writer 3, false⟩], none⟩ = false ∧
    Spec.c15Holds ⟨false, [⟨[.header 500, .write 3 3 0], 200, 3, .nil, false⟩], none⟩ = false ∧
    Spec.c15Holds ⟨false, [⟨[.header 200, .write 10 4 3], 200, 4, .nil, false⟩], none⟩ = false ∧
    Spec.c15Holds ⟨false, [⟨[.header 200, .write 10 4 3], 200, 4, .writer 2, false⟩], none⟩ = false ∧
    Spec.c15Holds ⟨false, [⟨[.header 200, .write 10 4 3], 200, 4, .other, false⟩], none⟩ = false ∧
    Spec.c15Holds ⟨false, [⟨[.header 200, .write 10 4 3], 200, 4, .writer 3, false⟩], none⟩ = true ∧
    Spec.c15Holds ⟨false, [⟨[.header 200, .write 10 4 3], 200, 4, .other, true⟩], none⟩ = true ∧
    Spec.c15Holds ⟨true, [⟨[.header 200, .write 10 10 0], 200, 10, .nil, false⟩], some (200, 9)⟩ = false := by
  decide

/-! ### non-vacuity (audit): `C15_bookkeeping` and `C15_error` themselves on the history of the first
    example above (four calls, three underlying writes, the second of which fails after 70 of 120 bytes) -/
namespace C15Example

def v : Marshalled := { prettyJson := some 100, prettyXml := some 120, encJson := [91], encXml := [4096, 37] }
def calls : List Call := [Call.setAccept .xml, Call.writeHeaderAndEntity 201 v, Call.write 50, Call.prettyPrint false]
def env : Env := Env.ofList [⟨39, 0⟩, ⟨70, 5⟩, ⟨50, 0⟩]

/-- `C15_bookkeeping`: its hypothesis holds, and the three quantities it equates are 201 / 159 here -/
example := C15_bookkeeping env {} calls (by decide)
example : (finalState env (State.init {}) calls).StatusCode = 201 ∧ (finalState env (State.init {}) calls).ContentLength = 159 ∧
    Spec.effectiveStatus (eventsOf env (State.init {}) calls) = 201 ∧ Spec.acceptedBytes (eventsOf env (State.init {}) calls) = 159 ∧
    (eventsOf env (State.init {}) calls).length = 4 := by
  decide

/-- `C15_error` at k = 1: that write was made (`hk`) and failed (`hf`); the call that made it
    returned an error with length 39 + 70 -/
example : (1 < (finalState env (State.init {}) calls).writes) ∧ (env 1).failed = true ∧ envAccepted env 2 = 109 := by decide
example := C15_error env {} calls 1 (by decide) (by decide)
/-- `C15_error_value` / `C15_error_value_clean` at k = 1 (every entity of the sequence marshals): the
    call returned the error value 5 the second `Write` returned -/
example := C15_error_value env {} calls 1 (by decide) (by decide)
example := C15_error_value_clean env {} calls 1 (by decide) (by decide) (by decide)
example : (env 1).err = 5 ∧ ((run env (State.init {}) calls)[1]?.map (·.ret)) = some (.writer 5) := by decide
example := C15_error_events env {} calls

/-- `C15` on that history, without and with a content coding underneath -/
example : Spec.c15Holds (Spec.modelHistory true env {} calls) = true := C15 true env {} calls

end C15Example

/-! The frame condition (Lemmas/StateShape.lean): the code has exactly the state this property's model
    accounts for — no further package-level variable, struct type or field; constants as modelled. -/
-- also: Restful.StateShape.globals_shape
-- also: Restful.StateShape.consts_shape
-- also: Restful.StateShape.response_shape

/-! The regenerated tie (tools/gotrans → Gen/Translated.lean, Lemmas/Tie*.lean): the decision
    functions this property's model contains ARE the ones translated from the Go sources on this run. -/
-- also: Restful.Tie.response_status_code

end Props
end Restful
