/-
C15 — response status and length bookkeeping match what was actually sent.

`Resp.run env st calls` is the model of `restful.Response` (response.go, entity_accessors.go) over
an arbitrary underlying writer `env : Nat → (accepted, failed)` (tied to /repo by the
correspondence stream `response`).  `Spec.c15Holds` is the property as a predicate on an observed
history; the driver evaluates the same predicate on what the real code did.

All theorems quantify over every call sequence, every initial setting, every chunking the
marshallers may produce and every behaviour of the underlying writer (no relation between offered
and accepted sizes is assumed; failures may start anywhere, stop again, accept any partial count).

The property excludes histories in which the status is set twice or after a body byte.  There the
code keeps the LAST status (`C15_status_last_set`) whereas `net/http` and `ResponseRecorder` keep
the FIRST; `C15_discipline_needed_*` exhibit both situations on the model, so the hypothesis
`disciplinedCalls` of `C15_bookkeeping` cannot be dropped.  `validStatus` (100..999, what
`net/http` accepts without panicking) is needed because `StatusCode()` maps a stored 0 to 200
(`C15_status_zero_witness`).  No deviation of the code from C15 inside its quantifier was found:
there is no `_partial` theorem in this file.
-/
import Restful.Lemmas.Response
import Restful.Lemmas.StateShape
import Restful.Lemmas.Translated
namespace Restful
namespace Props
open Resp Spec

/-- Everything the model does satisfies the property predicate: after every call (and for the
    filter reading the getters after the handler) `StatusCode()`/`ContentLength()` equal the status
    the underlying writer received (200 if none) / the bytes it accepted whenever the status was
    set at most once and before any body byte; and a call in which an underlying write failed
    returns an error, with only accepted bytes counted. -/
theorem C15 (coding : Bool) (env : Env) (s : Settings) (calls : List Call) :
    Spec.c15Holds (Spec.modelHistory coding env s calls) = true := by
  unfold Spec.c15Holds Spec.modelHistory
  simp only [Bool.and_eq_true]
  refine ⟨run_callsOK coding env calls _ [] (Inv_init s), ?_⟩
  simp only [finalOK, allEvents_run]
  have := Inv_final env calls (State.init s) [] (Inv_init s)
  simp only [List.nil_append] at this
  exact Inv_bookkeeping this

/-- The bookkeeping law in explicit form.  For every call sequence obeying the discipline (a
    decidable predicate on the sequence and the initial settings, independent of the writer), every
    underlying writer: what the writer received obeys the discipline too, `StatusCode()` is the
    status it received (200 if none) and `ContentLength()` is the number of bytes it accepted. -/
theorem C15_bookkeeping (env : Env) (s : Settings) (calls : List Call)
    (hd : Spec.disciplinedCalls s calls = true) :
    let fin := finalState env (State.init s) calls
    let evs := eventsOf env (State.init s) calls
    Spec.discipline evs = true ∧ fin.StatusCode = Spec.effectiveStatus evs ∧
      fin.ContentLength = Spec.acceptedBytes evs := by
  intro fin evs
  have hdisc : Spec.discipline evs = true :=
    primDiscipline_sublist (events_sublist_planned env calls (State.init s)) hd
  have hi := Inv_final env calls (State.init s) [] (Inv_init s)
  simp only [List.nil_append] at hi
  refine ⟨hdisc, ?_, hi.1⟩
  have := discipline_status evs hdisc
  simp only [State.StatusCode, fin, hi.2]
  exact this

/-- The length half needs no discipline at all: `ContentLength()` is always the number of bytes
    the underlying writer accepted — counted on the events and, equivalently, on the environment. -/
theorem C15_length_always (env : Env) (s : Settings) (calls : List Call) :
    let fin := finalState env (State.init s) calls
    fin.ContentLength = Spec.acceptedBytes (eventsOf env (State.init s) calls) := by
  intro fin
  have hi := Inv_final env calls (State.init s) [] (Inv_init s)
  simp only [List.nil_append] at hi
  exact hi.1

/-- What the code does with the status in general: the last status handed to `WriteHeader` wins
    (200 before the first). -/
theorem C15_status_last_set (env : Env) (s : Settings) (calls : List Call) :
    (finalState env (State.init s) calls).statusCode = lastStatus 200 (eventsOf env (State.init s) calls) := by
  have hi := Inv_final env calls (State.init s) [] (Inv_init s)
  simp only [List.nil_append] at hi
  exact hi.2

/-- The error law.  If the k-th `Write` call of the underlying writer was made and failed, then the
    high-level call that made it returned an error, that write was the last thing the call did, and
    `ContentLength()` after the call is exactly what the writer accepted in writes 0..k. -/
theorem C15_error (env : Env) (s : Settings) (calls : List Call) (k : Nat)
    (hk : k < (finalState env (State.init s) calls).writes) (hf : (env k).failed = true) :
    ∃ r ∈ run env (State.init s) calls,
      r.firstWrite ≤ k ∧ k + 1 = r.firstWrite + Spec.writeCount r.events ∧
      r.retErr = true ∧ r.length = envAccepted env (k + 1) := by
  obtain ⟨r, hr, h1, h2, _, h4, h5⟩ :=
    run_error env calls (State.init s) k (by simp [State.init, envAccepted]) (by simp [State.init]) hk hf
  exact ⟨r, hr, h1, h2, h4, h5⟩

/-- The same per call, on the events: a failed write is the last event of its call and makes the
    call return an error. -/
theorem C15_error_events (env : Env) (s : Settings) (calls : List Call) :
    ∀ r ∈ run env (State.init s) calls,
      failsOnlyLast r.events = true ∧ (r.events.any Spec.failedWrite = true → r.retErr = true) :=
  run_error_events env calls (State.init s)

/-! ### why the hypotheses are there (these are not deviations: the property excludes them) -/

/-- status set twice: the code reports the last one, a `net/http`-like writer sent the first -/
theorem C15_discipline_needed_twice :
    let calls := [Call.writeHeader 404, Call.writeHeader 500]
    let env := Env.ofList []
    Spec.disciplinedCalls {} calls = false ∧
      (finalState env (State.init {}) calls).StatusCode = 500 ∧
      Spec.effectiveStatus (eventsOf env (State.init {}) calls) = 404 := by
  decide

/-- status set after a body byte: the code reports it, the writer had already sent 200 -/
theorem C15_discipline_needed_order :
    let calls := [Call.write 3, Call.writeErrorString 500 7]
    let env := Env.ofList [⟨3, false⟩, ⟨7, false⟩]
    Spec.disciplinedCalls {} calls = false ∧
      (finalState env (State.init {}) calls).StatusCode = 500 ∧
      Spec.effectiveStatus (eventsOf env (State.init {}) calls) = 200 := by
  decide

/-- `WriteHeader(0)` (on which `net/http` panics): `StatusCode()` answers 200, the writer got 0 -/
theorem C15_status_zero_witness :
    let calls := [Call.writeHeader 0]
    let env := Env.ofList []
    Spec.disciplinedCalls {} calls = false ∧
      (finalState env (State.init {}) calls).StatusCode = 200 ∧
      Spec.effectiveStatus (eventsOf env (State.init {}) calls) = 0 := by
  decide

/-! ### non-vacuity -/

/-- A disciplined sequence through the accessor lookup, pretty XML of 120 bytes (two writes), a partial failing
    write, and later writes that succeed again: status 201 throughout, the length counts 39 + 70,
    then + 50; the failing call returns an error. -/
example :
    let v : Marshalled := { prettyJson := some 100, prettyXml := some 120, encJson := [91], encXml := [4096, 37] }
    let calls := [Call.setAccept .xml, Call.writeHeaderAndEntity 201 v, Call.write 50, Call.prettyPrint false]
    let env := Env.ofList [⟨39, false⟩, ⟨70, true⟩, ⟨50, false⟩]
    Spec.disciplinedCalls {} calls = true ∧
      run env (State.init {}) calls =
        [⟨[], 200, 0, false, false, 0⟩,
         ⟨[.header 201, .write 39 39 false, .write 120 70 true], 201, 109, true, false, 0⟩,
         ⟨[.write 50 50 false], 201, 159, false, false, 2⟩,
         ⟨[], 201, 159, false, false, 3⟩] ∧
      Spec.c15Holds (Spec.modelHistory false env {} calls) = true := by
  decide

/-- an encoder that writes two chunks and then reports a marshalling error; no entity writer → 406;
    a body-only sequence keeps 200 -/
example :
    let v : Marshalled := { encXml := [4096, 10], encXmlFails := true }
    run (Env.ofList [⟨4096, false⟩, ⟨10, false⟩]) (State.init { prettyPrint := false }) [Call.writeAsXml v] =
        [⟨[.header 200, .write 4096 4096 false, .write 10 10 false], 200, 4106, true, false, 0⟩] ∧
      run (Env.ofList []) (State.init {}) [Call.writeEntity { prettyJson := some 5 }] = [⟨[.header 406], 406, 0, false, false, 0⟩] ∧
      Spec.disciplinedCalls {} [Call.write 1, Call.write 0, Call.write 2] = true ∧
      (finalState (Env.ofList [⟨1, false⟩, ⟨0, false⟩, ⟨1, true⟩]) (State.init {}) [Call.write 1, Call.write 0, Call.write 2]).ContentLength = 2 := by
  decide

/-- the predicate is not trivially true: it rejects a history whose length counts offered instead
    of accepted bytes, one whose status was not recorded, and one whose failing call returned nil -/
example :
    Spec.c15Holds ⟨false, [⟨[.header 200, .write 10 4 true], 200, 10, true⟩], none⟩ = false ∧
    Spec.c15Holds ⟨false, [⟨[.header 500, .write 3 3 false], 200, 3, false⟩], none⟩ = false ∧
    Spec.c15Holds ⟨false, [⟨[.header 200, .write 10 4 true], 200, 4, false⟩], none⟩ = false ∧
    Spec.c15Holds ⟨true, [⟨[.header 200, .write 10 10 false], 200, 10, false⟩], some (200, 9)⟩ = false := by
  decide

/-! ### non-vacuity (audit): `C15_bookkeeping` and `C15_error` themselves on the history of the first
    example above (four calls, three underlying writes, the second of which fails after 70 of 120 bytes) -/
namespace C15Example

def v : Marshalled := { prettyJson := some 100, prettyXml := some 120, encJson := [91], encXml := [4096, 37] }
def calls : List Call := [Call.setAccept .xml, Call.writeHeaderAndEntity 201 v, Call.write 50, Call.prettyPrint false]
def env : Env := Env.ofList [⟨39, false⟩, ⟨70, true⟩, ⟨50, false⟩]

/-- `C15_bookkeeping`: its hypothesis holds, and the three quantities it equates are 201 / 159 here -/
example := C15_bookkeeping env {} calls (by decide)
example : (finalState env (State.init {}) calls).StatusCode = 201 ∧ (finalState env (State.init {}) calls).ContentLength = 159 ∧
    Spec.effectiveStatus (eventsOf env (State.init {}) calls) = 201 ∧ Spec.acceptedBytes (eventsOf env (State.init {}) calls) = 159 ∧
    (eventsOf env (State.init {}) calls).length = 4 := by
  decide

/-- `C15_error` at k = 1: that write was made (`hk`) and failed (`hf`); the call that made it
    returned an error with length 39 + 70 -/
example : (1 < (finalState env (State.init {}) calls).writes) ∧ (env 1).failed = true ∧ envAccepted env 2 = 109 := by decide
example := C15_error env {} calls 1 (by decide) (by decide)
example := C15_error_events env {} calls

/-- `C15` on that history, without and with a content coding underneath -/
example : Spec.c15Holds (Spec.modelHistory true env {} calls) = true := C15 true env {} calls

end C15Example

/-! The frame condition (Lemmas/StateShape.lean): the code has exactly the state this property's model
    accounts for — no further package-level variable, struct type or field; constants as modelled. -/
-- also: Restful.StateShape.globals_shape
-- also: Restful.StateShape.consts_shape
-- also: Restful.StateShape.response_shape

/-! The regenerated tie (tools/gotrans → Gen/Translated.lean, Lemmas/Translated.lean): the decision
    functions this property's model contains ARE the ones translated from the Go sources on this run. -/
-- also: Restful.Tie.response_status_code

end Props
end Restful
