/-
C08 — CORS headers are granted only to allowed origins, echoing the origin.

`Cors.corsOut lower E cc tbl rq` is the model of `CrossOriginResourceSharing.Filter`
(cors_filter.go:47): the headers it adds in order and whether it passes the request on; `none`
only when the route table does not compile (no such container exists).  `lower` stands for
`strings.ToLower`, the predicate is an arbitrary function: every theorem holds for all of them,
for every origin string, allowed list, cookie setting, method and route table.

The predicate of the property is `Spec.c08Holds` (Spec/Cors.lean); the driver evaluates it on every
real observation, `C08_spec` proves it of the model's outcome.
-/
import Restful.Lemmas.Cors
import Restful.Lemmas.StateShape
namespace Restful
namespace Props
open Str Cors
variable (lower : Str → Str) (E : ReEnv)

/-- Any header added ⇒ the origin is not empty and is allowed in the declarative sense.  The
    security content is the second disjunct: equality of the WHOLE lowered entry — a prefix, suffix
    or pattern match of an entry is not among the ways to be allowed.  (The predicate is asked about
    the lowered origin when the list is empty, about the original origin otherwise: as the code
    has it.) -/
theorem C08_grant (cc : CorsCfg) (tbl : Config) (rq : CorsReq) (out : Out)
    (h : corsOut lower E cc tbl rq = some out) (hne : out.added ≠ []) :
    rq.origin ≠ [] ∧
    ((cc.allowedDomains = [] ∧ cc.pred = none)
     ∨ (∃ d ∈ cc.allowedDomains, lower d = lower rq.origin)
     ∨ sDotStar ∈ cc.allowedDomains
     ∨ (∃ f, cc.pred = some f ∧
          ((cc.allowedDomains = [] ∧ f (lower rq.origin) = true) ∨ (cc.allowedDomains ≠ [] ∧ f rq.origin = true)))) := by
  cases ha : Spec.originAllowed lower cc rq.origin with
  | true => exact (originAllowed_iff lower cc rq.origin).mp ha
  | false =>
    rw [corsOut_not_allowed lower E cc tbl rq ha] at h
    cases h
    exact absurd rfl hne

/-- The contrapositive the advisory was about: with a non-empty list without wildcard, no
    predicate, and no entry equal to the whole origin ignoring case — however much of an entry the
    origin contains — nothing is added and the request is passed on. -/
theorem C08_no_partial_match (cc : CorsCfg) (tbl : Config) (rq : CorsReq)
    (hp : cc.pred = none) (hl : cc.allowedDomains ≠ [])
    (hd : ∀ d ∈ cc.allowedDomains, d ≠ sDotStar ∧ lower d ≠ lower rq.origin) :
    corsOut lower E cc tbl rq = some ⟨[], true⟩ := by
  apply corsOut_not_allowed
  cases ha : Spec.originAllowed lower cc rq.origin with
  | false => rfl
  | true =>
    obtain ⟨_, h | ⟨d, hm, he⟩ | h | ⟨f, hf, _⟩⟩ := (originAllowed_iff lower cc rq.origin).mp ha
    · exact absurd h.1 hl
    · exact absurd he (hd d hm).2
    · exact absurd rfl (hd _ h).1
    · rw [hp] at hf; cases hf

/-- When anything is granted: exactly one Allow-Origin, equal to the request's Origin verbatim;
    Allow-Credentials only if cookies are configured; no header name twice. -/
theorem C08_echo (cc : CorsCfg) (tbl : Config) (rq : CorsReq) (out : Out)
    (h : corsOut lower E cc tbl rq = some out) (hne : out.added ≠ []) :
    Spec.valuesOf hAllowOrigin out.added = [rq.origin] ∧
    (Spec.valuesOf hAllowCredentials out.added ≠ [] → cc.cookies = true) ∧
    (out.added.map (·.1)).Nodup := by
  cases ha : Spec.originAllowed lower cc rq.origin with
  | false =>
    rw [corsOut_not_allowed lower E cc tbl rq ha] at h
    cases h
    exact absurd rfl hne
  | true =>
    cases hp : Spec.isPreflight rq with
    | false =>
      rw [corsOut_actual lower E cc tbl rq ha hp] at h
      cases h
      have f := actualHeaders_facts cc rq
      exact ⟨f.1, f.2.1, f.2.2.2.2.2.2.2⟩
    | true =>
      obtain ⟨_, hadd⟩ := corsOut_preflight lower E cc tbl rq out ha hp h
      by_cases hok : Spec.preflightOK lower cc (Spec.methodsFor E cc tbl rq.path) rq = true
      · rw [if_pos hok] at hadd
        rw [hadd]
        have f := preflightGrant_facts cc (Spec.methodsFor E cc tbl rq.path) rq
        exact ⟨f.1, f.2.1, f.2.2.2.2⟩
      · rw [if_neg hok] at hadd
        exact absurd hadd hne

/-- Requests without an Origin, or from a disallowed origin: nothing is added and the request is
    passed on — the filter is the identity on the chain. -/
theorem C08_transparent (cc : CorsCfg) (tbl : Config) (rq : CorsReq)
    (h : rq.origin = [] ∨ Spec.originAllowed lower cc rq.origin = false) :
    corsOut lower E cc tbl rq = some ⟨[], true⟩ := by
  apply corsOut_not_allowed
  rcases h with h | h
  · rw [h]; simp [Spec.originAllowed]
  · exact h

/-- The property's predicate holds of the model's outcome, for every input. -/
theorem C08_spec (cc : CorsCfg) (tbl : Config) (rq : CorsReq) (out : Out)
    (h : corsOut lower E cc tbl rq = some out) :
    Spec.c08Holds lower cc rq (obsOf out) = true := by
  unfold Spec.c08Holds obsOf Spec.sameAsTwin Spec.restSame
  cases ha : Spec.originAllowed lower cc rq.origin with
  | false =>
    rw [corsOut_not_allowed lower E cc tbl rq ha] at h
    cases h
    simp [Spec.valuesOf]
  | true =>
    by_cases hne : out.added = []
    · simp [hne, Spec.valuesOf]
    · obtain ⟨h1, h2, h3⟩ := C08_echo lower E cc tbl rq out h hne
      have hc : ((Spec.valuesOf hAllowCredentials out.added).isEmpty || cc.cookies) = true := by
        cases hv : Spec.valuesOf hAllowCredentials out.added with
        | nil => simp
        | cons a as => simp [h2 (by rw [hv]; simp)]
      simp only [h1, hc, h3, beq_self_eq_true, Bool.or_true, Bool.and_true, Bool.true_and, decide_true,
        Bool.true_or]

/-- non-vacuity: a mixed-case origin equal to a whole entry ignoring case is granted, echoed
    verbatim, with credentials; an origin that merely has an entry as a prefix is not. -/
example :
    let cc : CorsCfg := { allowedDomains := ["http://good.example".toList], cookies := true, maxAge := 3600 }
    let tbl : Config := { router := .curly, services := [] }
    let env : ReEnv := ⟨fun _ _ => true, fun _ _ => true⟩
    corsOut toLowerAscii env cc tbl { method := "GET".toList, path := "/x".toList, origin := "HTTP://Good.Example".toList } =
      some ⟨[(hAllowOrigin, "HTTP://Good.Example".toList), (hAllowCredentials, "true".toList), (hMaxAge, "3600".toList)], true⟩ ∧
    corsOut toLowerAscii env cc tbl { method := "GET".toList, path := "/x".toList, origin := "http://good.example.evil.test".toList } =
      some ⟨[], true⟩ ∧
    corsOut toLowerAscii env cc tbl { method := "GET".toList, path := "/x".toList, origin := "http://good.exampl".toList } =
      some ⟨[], true⟩ := by
  decide

/-- non-vacuity of the predicate's two arguments: with an empty list the predicate sees the
    lowered origin, with a non-empty list the original one. -/
example :
    let f : Str → Bool := fun o => o == "http://MiXed.example".toList
    let tbl : Config := { router := .curly, services := [] }
    let env : ReEnv := ⟨fun _ _ => true, fun _ _ => true⟩
    let rq : CorsReq := { method := "GET".toList, path := "/".toList, origin := "http://MiXed.example".toList }
    corsOut toLowerAscii env { pred := some f } tbl rq = some ⟨[], true⟩ ∧
    corsOut toLowerAscii env { pred := some f, allowedDomains := ["http://other.example".toList] } tbl rq =
      some ⟨[(hAllowOrigin, "http://MiXed.example".toList)], true⟩ := by
  decide

/-! ### non-vacuity (audit): the theorems instantiated (all hypotheses at once) on a filter with two
    allowed domains, credentials and max-age, in front of a two-service table; `Spec.c08Holds` falsified -/
namespace C08Example

def env : ReEnv := ⟨fun _ _ => true, fun _ _ => true⟩
def tbl : Config := { router := .curly, services :=
  [{ id := 0, root := "/a".toList, routes := [{ id := 0, method := "GET".toList, relPath := "".toList, consumes := [], produces := [], conds := [], noct := [] }] },
   { id := 1, root := "/b".toList, routes := [{ id := 1, method := "PUT".toList, relPath := "/{id}".toList, consumes := [], produces := [], conds := [], noct := [] }] }] }
def cc : CorsCfg :=
  { allowedDomains := ["http://other.example".toList, "http://good.example".toList], cookies := true, maxAge := 3600 }
def ccNoCookies : CorsCfg := { allowedDomains := ["http://other.example".toList, "http://good.example".toList] }
def rq (origin : String) : CorsReq := { method := "GET".toList, path := "/a".toList, origin := origin.toList }
/-- equals the second entry ignoring case -/
def good : CorsReq := rq "HTTP://Good.Example"
/-- has the second entry as a proper prefix -/
def evil : CorsReq := rq "http://good.example.evil.test"
def outGood : Out :=
  ⟨[(hAllowOrigin, "HTTP://Good.Example".toList), (hAllowCredentials, "true".toList), (hMaxAge, "3600".toList)], true⟩

example : corsOut toLowerAscii env cc tbl good = some outGood ∧ outGood.added ≠ [] := by decide
/-- `C08_grant`, `C08_echo`, `C08_spec`: hypotheses `h` and `hne` hold of the granted request -/
example := C08_grant toLowerAscii env cc tbl good outGood (by decide) (by decide)
example := C08_echo toLowerAscii env cc tbl good outGood (by decide) (by decide)
example : Spec.c08Holds toLowerAscii cc good (obsOf outGood) = true :=
  C08_spec toLowerAscii env cc tbl good outGood (by decide)
/-- `C08_no_partial_match`: no predicate, a non-empty list, no entry is the wildcard or the whole origin -/
example : corsOut toLowerAscii env cc tbl evil = some ⟨[], true⟩ :=
  C08_no_partial_match toLowerAscii env cc tbl evil rfl (by decide) (by decide)
/-- `C08_transparent`, both alternatives of its hypothesis -/
example := C08_transparent toLowerAscii env cc tbl evil (.inr (by decide))
example := C08_transparent toLowerAscii env cc tbl (rq "") (.inl rfl)

def oGood : Spec.CorsObs := obsOf outGood
def oNone : Spec.CorsObs := obsOf ⟨[], true⟩

/-- `Spec.c08Holds` is not trivially true.  For the allowed origin it is falsified by: `*` instead of
    the origin; the origin in another spelling (not verbatim); Allow-Origin twice; credentials without
    Allow-Origin; credentials that are not configured.  For the disallowed origin (and for no Origin)
    it accepts the twin's response only: falsified by an Allow-Origin echo, by any other CORS header,
    by another status, another log, another body, a header missing. -/
example :
    Spec.c08Holds toLowerAscii cc good oGood = true ∧
    Spec.c08Holds toLowerAscii cc good { oGood with extra := [(hAllowOrigin, "*".toList)] } = false ∧
    Spec.c08Holds toLowerAscii cc good { oGood with extra := [(hAllowOrigin, "http://good.example".toList)] } = false ∧
    Spec.c08Holds toLowerAscii cc good { oGood with extra := oGood.extra ++ [(hAllowOrigin, "HTTP://Good.Example".toList)] } = false ∧
    Spec.c08Holds toLowerAscii cc good { oGood with extra := [(hAllowCredentials, "true".toList)] } = false ∧
    Spec.c08Holds toLowerAscii ccNoCookies good oGood = false ∧
    Spec.c08Holds toLowerAscii cc evil oNone = true ∧
    Spec.c08Holds toLowerAscii cc evil { oNone with extra := [(hAllowOrigin, evil.origin)] } = false ∧
    Spec.c08Holds toLowerAscii cc evil { oNone with extra := [(hMaxAge, "3600".toList)] } = false ∧
    Spec.c08Holds toLowerAscii cc evil { oNone with status := 403 } = false ∧
    Spec.c08Holds toLowerAscii cc evil { oNone with logSame := false } = false ∧
    Spec.c08Holds toLowerAscii cc evil { oNone with bodySame := false } = false ∧
    Spec.c08Holds toLowerAscii cc (rq "") { oNone with extra := [(hAllowOrigin, [])] } = false ∧
    Spec.c08Holds toLowerAscii cc (rq "") { oNone with missing := 1 } = false := by
  decide

end C08Example

/-! The frame condition (Lemmas/StateShape.lean): the code has exactly the state this property's model
    accounts for — no further package-level variable, struct type or field; constants as modelled. -/
-- also: Restful.StateShape.globals_shape
-- also: Restful.StateShape.consts_shape
-- also: Restful.StateShape.cors_shape

end Props
end Restful
