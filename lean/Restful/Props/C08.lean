/-
C08 — CORS headers are granted only to allowed origins, echoing the origin.

`Cors.corsOut lower E cc tbl rq` is the model of `CrossOriginResourceSharing.Filter`
(cors_filter.go:47): the headers it adds in order and whether it passes the request on; `none`
only when the route table does not compile (no such container exists).  `lower` stands for
`strings.ToLower`, the predicate is an arbitrary function: every theorem holds for all of them,
for every origin string, allowed list, cookie setting, method and route table.

The predicate of the property is `Spec.c08Holds` (Spec/Cors.lean); the driver evaluates it on every
real observation, `C08_spec` proves it of the model's outcome — in front of an ARBITRARY rest of the
container (`Cors.Rest`, Lemmas/Cors.lean): "processed exactly as if the filter were absent" is
derived from the model for every such rest (`C08_as_if_absent`); for allowed origins the facts about
the code behind the filter that only the harness's twin comparison can establish are an explicit
hypothesis (`Cors.RestOK`).
-/
import Restful.Lemmas.Cors
import Restful.Lemmas.StateShape
import Restful.Lemmas.TieCors
import Restful.Lemmas.TieImpFilters
namespace Restful
namespace Props
open Str Cors
variable (lower : Str → Str) (E : ReEnv)

/-- Any header added ⇒ the origin is not empty and is allowed in the declarative sense.  The
    security content is the second disjunct: equality of the WHOLE lowered entry — a prefix, suffix
    or pattern match of an entry is not among the ways to be allowed.  (The predicate is asked about
    the lowered origin when the list is empty, about the original origin otherwise: as the code
    has it.) -/
theorem C08_grant (cc : CorsCfg) (tbl : Config) (rq : CorsReq) (out : Out)
    (h : corsOut lower E cc tbl rq = some out) (hne : out.added ≠ []) :
    rq.origin ≠ [] ∧
    ((cc.allowedDomains = [] ∧ cc.pred = none)
     ∨ (∃ d ∈ cc.allowedDomains, lower d = lower rq.origin)
     ∨ sDotStar ∈ cc.allowedDomains
     ∨ (∃ f, cc.pred = some f ∧
          ((cc.allowedDomains = [] ∧ f (lower rq.origin) = true) ∨ (cc.allowedDomains ≠ [] ∧ f rq.origin = true)))) := by
  cases ha : Spec.originAllowed lower cc rq.origin with
  | true => exact (originAllowed_iff lower cc rq.origin).mp ha
  | false =>
    rw [corsOut_not_allowed lower E cc tbl rq ha] at h
    cases h
    exact absurd rfl hne

/-- The contrapositive the advisory was about: with a non-empty list without wildcard, no
    predicate, and no entry equal to the whole origin ignoring case — however much of an entry the
    origin contains — nothing is added and the request is passed on. -/
theorem C08_no_partial_match (cc : CorsCfg) (tbl : Config) (rq : CorsReq)
    (hp : cc.pred = none) (hl : cc.allowedDomains ≠ [])
    (hd : ∀ d ∈ cc.allowedDomains, d ≠ sDotStar ∧ lower d ≠ lower rq.origin) :
    corsOut lower E cc tbl rq = some ⟨[], true⟩ := by
  apply corsOut_not_allowed
  cases ha : Spec.originAllowed lower cc rq.origin with
  | false => rfl
  | true =>
    obtain ⟨_, h | ⟨d, hm, he⟩ | h | ⟨f, hf, _⟩⟩ := (originAllowed_iff lower cc rq.origin).mp ha
    · exact absurd h.1 hl
    · exact absurd he (hd d hm).2
    · exact absurd rfl (hd _ h).1
    · rw [hp] at hf; cases hf

/-- When anything is granted: exactly one Allow-Origin, equal to the request's Origin verbatim;
    Allow-Credentials only if cookies are configured; no header name twice. -/
theorem C08_echo (cc : CorsCfg) (tbl : Config) (rq : CorsReq) (out : Out)
    (h : corsOut lower E cc tbl rq = some out) (hne : out.added ≠ []) :
    Spec.valuesOf hAllowOrigin out.added = [rq.origin] ∧
    (Spec.valuesOf hAllowCredentials out.added ≠ [] → cc.cookies = true) ∧
    (out.added.map (·.1)).Nodup := by
  cases ha : Spec.originAllowed lower cc rq.origin with
  | false =>
    rw [corsOut_not_allowed lower E cc tbl rq ha] at h
    cases h
    exact absurd rfl hne
  | true =>
    cases hp : Spec.isPreflight rq with
    | false =>
      rw [corsOut_actual lower E cc tbl rq ha hp] at h
      cases h
      have f := actualHeaders_facts cc rq
      exact ⟨f.1, f.2.1, f.2.2.2.2.2.2.2⟩
    | true =>
      obtain ⟨_, hadd⟩ := corsOut_preflight lower E cc tbl rq out ha hp h
      by_cases hok : Spec.preflightOK lower cc (Spec.methodsFor E cc tbl rq.path) rq = true
      · rw [if_pos hok] at hadd
        rw [hadd]
        have f := preflightGrant_facts cc (Spec.methodsFor E cc tbl rq.path) rq
        exact ⟨f.1, f.2.1, f.2.2.2.2⟩
      · rw [if_neg hok] at hadd
        exact absurd hadd hne

/-- Requests without an Origin, or from a disallowed origin: nothing is added and the request is
    passed on — the filter is the identity on the chain. -/
theorem C08_transparent (cc : CorsCfg) (tbl : Config) (rq : CorsReq)
    (h : rq.origin = [] ∨ Spec.originAllowed lower cc rq.origin = false) :
    corsOut lower E cc tbl rq = some ⟨[], true⟩ := by
  apply corsOut_not_allowed
  rcases h with h | h
  · rw [h]; simp [Spec.originAllowed]
  · exact h

/-- Connecting `C08_transparent` to "processed exactly as if the filter were absent" — DERIVED, not
    assumed: let `k` be ANY rest of the container (later filters, route function or the router's
    error answer; `Cors.Rest`, an arbitrary function of the header lines already on the response when
    control arrives).  For a request without Origin or from a disallowed origin the exchange of the
    container with the filter EQUALS the exchange of the twin without it (`k []`), so the harness's
    comparison of the two finds no extra header, no missing header, the same status, body and log. -/
theorem C08_as_if_absent (cc : CorsCfg) (tbl : Config) (rq : CorsReq)
    (h : rq.origin = [] ∨ Spec.originAllowed lower cc rq.origin = false) (k : Rest) :
    ∃ out, corsOut lower E cc tbl rq = some out ∧ withFilter k out = k [] ∧
      Spec.sameAsTwin (obsOf k out) = true :=
  ⟨⟨[], true⟩, C08_transparent lower E cc tbl rq h, rfl, sameAsTwin_observe_self (k [])⟩

/-- What the filter does to an exchange, for every request and every rest `k` of the container:
    EITHER it passes control on, and then it has added headers and done nothing else (the exchange is
    the rest of the chain started on a response carrying the added lines), OR it answers alone — and
    that only for a preflight from an allowed origin. -/
theorem C08_adds_headers_only (cc : CorsCfg) (tbl : Config) (rq : CorsReq) (out : Out)
    (h : corsOut lower E cc tbl rq = some out) (k : Rest) :
    (out.passOn = true ∧ withFilter k out = k out.added) ∨
    (out.passOn = false ∧ Spec.isPreflight rq = true ∧ Spec.originAllowed lower cc rq.origin = true ∧
      withFilter k out = answered out.added) := by
  cases ha : Spec.originAllowed lower cc rq.origin with
  | false =>
    rw [corsOut_not_allowed lower E cc tbl rq ha] at h
    cases h
    exact Or.inl ⟨rfl, rfl⟩
  | true =>
    cases hp : Spec.isPreflight rq with
    | false =>
      rw [corsOut_actual lower E cc tbl rq ha hp] at h
      cases h
      exact Or.inl ⟨rfl, rfl⟩
    | true =>
      obtain ⟨hpass, _⟩ := corsOut_preflight lower E cc tbl rq out ha hp h
      exact Or.inr ⟨hpass, rfl, rfl, withFilter_answered k out hpass⟩

/-- When the filter chain is not reached at all (the ServeMux answered first), the filter is not
    called: real container and twin run the same code on the same request.  The predicate then
    demands the twin's response, and an exchange compared with itself has it. -/
theorem C08_not_reached (cc : CorsCfg) (rq : CorsReq) (e : Exch) :
    Spec.c08Holds lower cc rq { observe e e with reached := false } = true := by
  have h := sameAsTwin_observe_self e
  simpa [Spec.c08Holds, Spec.sameAsTwin, Spec.restSame] using h

/-- The property's predicate holds of the model's outcome, for every input and in front of every
    rest `k` of the container.

    The observation is `obsOf k out = observe (withFilter k out) (k [])`: the exchange with the filter
    compared, the way the harness compares, with the exchange of the twin.  NOTHING about the twin
    comparison is put in by hand:
    * for a request without Origin or from a disallowed origin the hypothesis `hk` is void —
      "exactly as if the filter were absent" is derived for arbitrary `k` (`C08_as_if_absent`);
    * for an allowed origin the predicate reads `extra` only, and `extra` is the filter's `added`
      provided the code behind the filter keeps those lines and sets no CORS header itself
      (`RestOK k`) — a hypothesis about user code that only the harness can check, and does. -/
theorem C08_spec (cc : CorsCfg) (tbl : Config) (rq : CorsReq) (out : Out)
    (h : corsOut lower E cc tbl rq = some out) (k : Rest)
    (hk : Spec.originAllowed lower cc rq.origin = true → RestOK k) :
    Spec.c08Holds lower cc rq (obsOf k out) = true := by
  rcases Bool.eq_false_or_eq_true (Spec.originAllowed lower cc rq.origin) with ha | ha
  · -- allowed
    have hk := hk ha
    rcases Bool.eq_false_or_eq_true (Spec.isPreflight rq) with hp | hp
    · -- preflight: answered alone; when granted, the echo
      obtain ⟨hpass, hadd⟩ := corsOut_preflight lower E cc tbl rq out ha hp h
      have hnames : ∀ x ∈ out.added, isCorsName x.1 = true := by
        rw [hadd]
        split
        · exact preflightGrant_corsNames cc _ rq
        · intro x hx; cases hx
      obtain ⟨hex, _, hre⟩ := observe_answered k hk out.added hnames
      have hobs : obsOf k out = observe (answered out.added) (k []) := by
        rw [obsOf, withFilter_answered k out hpass]
      rw [Spec.c08Holds, hobs, hre, ha, hp, hex]
      by_cases hne : out.added = []
      · simp [hne]
      · obtain ⟨h1, h2, h3⟩ := C08_echo lower E cc tbl rq out h hne
        have hc : ((Spec.valuesOf hAllowCredentials out.added).isEmpty || cc.cookies) = true := by
          cases hv : Spec.valuesOf hAllowCredentials out.added with
          | nil => simp
          | cons a as => simp [h2 (by rw [hv]; simp)]
        simp [h1, hc, h3]
    · -- actual request: passed on with exactly the actual-request headers
      rw [corsOut_actual lower E cc tbl rq ha hp] at h
      cases h
      obtain ⟨hperm, _, _, hre⟩ := observe_passOn k hk (Spec.actualHeaders cc rq)
      have hobs : obsOf k ⟨Spec.actualHeaders cc rq, true⟩ = observe (k (Spec.actualHeaders cc rq)) (k []) := rfl
      rw [Spec.c08Holds, hobs, hre, ha, hp]
      simpa using List.isPerm_iff.mpr hperm
  · -- no Origin / not allowed: derived, no hypothesis on `k`
    rw [corsOut_not_allowed lower E cc tbl rq ha] at h
    cases h
    have hobs : obsOf k ⟨[], true⟩ = observe (k []) (k []) := rfl
    rw [Spec.c08Holds, ha, hobs]
    simpa using sameAsTwin_observe_self (k [])

/-- non-vacuity: a mixed-case origin equal to a whole entry ignoring case is granted, echoed
    verbatim, with credentials; an origin that merely has an entry as a prefix is not. -/
example :
    let cc : CorsCfg := { allowedDomains := ["http://good.example".toList], cookies := true, maxAge := 3600 }
    let tbl : Config := { router := .curly, services := [] }
    let env : ReEnv := ⟨fun _ _ => true, fun _ _ => true⟩
    corsOut toLowerAscii env cc tbl { method := "GET".toList, path := "/x".toList, origin := "HTTP://Good.Example".toList } =
      some ⟨[(hAllowOrigin, "HTTP://Good.Example".toList), (hAllowCredentials, "true".toList), (hMaxAge, "3600".toList)], true⟩ ∧
    corsOut toLowerAscii env cc tbl { method := "GET".toList, path := "/x".toList, origin := "http://good.example.evil.test".toList } =
      some ⟨[], true⟩ ∧
    corsOut toLowerAscii env cc tbl { method := "GET".toList, path := "/x".toList, origin := "http://good.exampl".toList } =
      some ⟨[], true⟩ := by
  decide

/-- non-vacuity of the predicate's two arguments: with an empty list the predicate sees the
    lowered origin, with a non-empty list the original one. -/
example :
    let f : Str → Bool := fun o => o == "http://MiXed.example".toList
    let tbl : Config := { router := .curly, services := [] }
    let env : ReEnv := ⟨fun _ _ => true, fun _ _ => true⟩
    let rq : CorsReq := { method := "GET".toList, path := "/".toList, origin := "http://MiXed.example".toList }
    corsOut toLowerAscii env { pred := some f } tbl rq = some ⟨[], true⟩ ∧
    corsOut toLowerAscii env { pred := some f, allowedDomains := ["http://other.example".toList] } tbl rq =
      some ⟨[(hAllowOrigin, "http://MiXed.example".toList)], true⟩ := by
  decide

/-! ### non-vacuity (audit): the theorems instantiated (all hypotheses at once) on a filter with two
    allowed domains, credentials and max-age, in front of a two-service table; `Spec.c08Holds` falsified -/
namespace C08Example

def env : ReEnv := ⟨fun _ _ => true, fun _ _ => true⟩
def tbl : Config := { router := .curly, services :=
  [{ id := 0, root := "/a".toList, routes := [{ id := 0, method := "GET".toList, relPath := "".toList, consumes := [], produces := [], conds := [], noct := [] }] },
   { id := 1, root := "/b".toList, routes := [{ id := 1, method := "PUT".toList, relPath := "/{id}".toList, consumes := [], produces := [], conds := [], noct := [] }] }] }
def cc : CorsCfg :=
  { allowedDomains := ["http://other.example".toList, "http://good.example".toList], cookies := true, maxAge := 3600 }
def ccNoCookies : CorsCfg := { allowedDomains := ["http://other.example".toList, "http://good.example".toList] }
def rq (origin : String) : CorsReq := { method := "GET".toList, path := "/a".toList, origin := origin.toList }
/-- equals the second entry ignoring case -/
def good : CorsReq := rq "HTTP://Good.Example"
/-- has the second entry as a proper prefix -/
def evil : CorsReq := rq "http://good.example.evil.test"
def outGood : Out :=
  ⟨[(hAllowOrigin, "HTTP://Good.Example".toList), (hAllowCredentials, "true".toList), (hMaxAge, "3600".toList)], true⟩

/-- a preflight from the same origin for GET at `/a` (computed methods, no requested header) -/
def pre : CorsReq := { method := "OPTIONS".toList, path := "/a".toList, origin := "HTTP://Good.Example".toList, acrm := "GET".toList }
def outPre : Out :=
  ⟨[(hAllowMethods, "GET".toList), (hAllowHeaders, []), (hAllowOrigin, "HTTP://Good.Example".toList),
    (hAllowCredentials, "true".toList), (hMaxAge, "3600".toList)], false⟩

/-- a rest of the container as the harness builds it: the logging filter behind the CORS filter,
    then the route function, which ADDS an `X-Handler` line and writes status and body -/
def k : Rest := exRest "0".toList 200 "route 0".toList ["h:0:0".toList]
/-- a rest of the container that does NOT satisfy `RestOK`: it drops whatever was on the response -/
def kDrop : Rest := fun _ => ⟨[("X-Handler".toList, "0".toList)], 200, "route 0".toList, ["post".toList]⟩

example : corsOut toLowerAscii env cc tbl good = some outGood ∧ outGood.added ≠ [] ∧
    corsOut toLowerAscii env cc tbl pre = some outPre := by decide
/-- `C08_grant`, `C08_echo`, `C08_spec`: hypotheses `h` and `hne` hold of the granted request -/
example := C08_grant toLowerAscii env cc tbl good outGood (by decide) (by decide)
example := C08_echo toLowerAscii env cc tbl good outGood (by decide) (by decide)
example : Spec.c08Holds toLowerAscii cc good (obsOf k outGood) = true :=
  C08_spec toLowerAscii env cc tbl good outGood (by decide) k (fun _ => exRest_ok _ _ _ _)
example : Spec.c08Holds toLowerAscii cc pre (obsOf k outPre) = true :=
  C08_spec toLowerAscii env cc tbl pre outPre (by decide) k (fun _ => exRest_ok _ _ _ _)
/-- for the disallowed origin `C08_spec` needs nothing of the rest of the container: here with a rest
    that violates `RestOK` (the hypothesis `hk` is void — its premise is false) -/
example : Spec.c08Holds toLowerAscii cc evil (obsOf kDrop ⟨[], true⟩) = true :=
  C08_spec toLowerAscii env cc tbl evil ⟨[], true⟩ (by decide) kDrop (fun h => absurd h (by decide))
/-- … while for the allowed origin the hypothesis is needed: behind `kDrop` the grant is lost and the
    predicate is false of that observation -/
example : Spec.c08Holds toLowerAscii cc good (obsOf kDrop outGood) = false := by decide
/-- `C08_no_partial_match`: no predicate, a non-empty list, no entry is the wildcard or the whole origin -/
example : corsOut toLowerAscii env cc tbl evil = some ⟨[], true⟩ :=
  C08_no_partial_match toLowerAscii env cc tbl evil rfl (by decide) (by decide)
/-- `C08_transparent`, both alternatives of its hypothesis; `C08_as_if_absent`, `C08_adds_headers_only`
    (both alternatives), `C08_not_reached` -/
example := C08_transparent toLowerAscii env cc tbl evil (.inr (by decide))
example := C08_transparent toLowerAscii env cc tbl (rq "") (.inl rfl)
example := C08_as_if_absent toLowerAscii env cc tbl evil (.inr (by decide)) kDrop
example := C08_as_if_absent toLowerAscii env cc tbl (rq "") (.inl rfl) k
example := C08_adds_headers_only toLowerAscii env cc tbl good outGood (by decide) k
example := C08_adds_headers_only toLowerAscii env cc tbl pre outPre (by decide) k
example := C08_not_reached toLowerAscii cc good (k [])

/-- the observations spelled out: what `obsOf` computes from the two exchanges -/
def oGood : Spec.CorsObs :=
  { reached := true, extra := outGood.added, missing := 0, status := 200, twinStatus := 200,
    bodySame := true, logSame := true, later := true }
def oPre : Spec.CorsObs :=
  { reached := true, extra := outPre.added, missing := 1, status := 200, twinStatus := 200,
    bodySame := false, logSame := false, later := false }
def oNone : Spec.CorsObs :=
  { reached := true, extra := [], missing := 0, status := 200, twinStatus := 200,
    bodySame := true, logSame := true, later := true }
example : obsOf k outGood = oGood ∧ obsOf k outPre = oPre ∧ obsOf k ⟨[], true⟩ = oNone ∧
    obsOf kDrop ⟨[], true⟩ = oNone := by decide

/-- `Spec.c08Holds` is not trivially true.

    ACTUAL request from the allowed origin (the grant is due, exactly as configured): accepted in any
    order; falsified by
    (iii) no header at all, and every configured header except Allow-Origin;
    (iv) Allow-Origin lower-cased (the spelling of the list entry instead of the request's);
    (ii) Allow-Origin twice;
    `*` instead of the origin; credentials configured but missing; credentials that are not
    configured; Max-Age missing, or with another value; an Expose-Headers that is not configured.

    PREFLIGHT from the allowed origin (whether it is granted is C09's): accepts the grant and the
    refusal; a grant is falsified by (iv) the lower-cased origin, (ii) Allow-Origin twice, no
    Allow-Origin, credentials that are not configured.

    DISALLOWED origin / no Origin: accepts the twin's response only — falsified by an Allow-Origin
    echo, by any other CORS header, by another status, another log, another body, a header missing.
    The same when the filter chain was not reached. -/
example :
    Spec.c08Holds toLowerAscii cc good oGood = true ∧
    Spec.c08Holds toLowerAscii cc good { oGood with extra := oGood.extra.reverse } = true ∧
    Spec.c08Holds toLowerAscii cc good { oGood with extra := [] } = false ∧
    Spec.c08Holds toLowerAscii cc good { oGood with extra := [(hAllowCredentials, "true".toList), (hMaxAge, "3600".toList)] } = false ∧
    Spec.c08Holds toLowerAscii cc good { oGood with extra :=
      [(hAllowOrigin, "http://good.example".toList), (hAllowCredentials, "true".toList), (hMaxAge, "3600".toList)] } = false ∧
    Spec.c08Holds toLowerAscii cc good { oGood with extra := oGood.extra ++ [(hAllowOrigin, "HTTP://Good.Example".toList)] } = false ∧
    Spec.c08Holds toLowerAscii cc good { oGood with extra :=
      [(hAllowOrigin, "*".toList), (hAllowCredentials, "true".toList), (hMaxAge, "3600".toList)] } = false ∧
    Spec.c08Holds toLowerAscii cc good { oGood with extra := [(hAllowOrigin, good.origin), (hMaxAge, "3600".toList)] } = false ∧
    Spec.c08Holds toLowerAscii ccNoCookies good oGood = false ∧
    Spec.c08Holds toLowerAscii cc good { oGood with extra := [(hAllowOrigin, good.origin), (hAllowCredentials, "true".toList)] } = false ∧
    Spec.c08Holds toLowerAscii cc good { oGood with extra :=
      [(hAllowOrigin, good.origin), (hAllowCredentials, "true".toList), (hMaxAge, "60".toList)] } = false ∧
    Spec.c08Holds toLowerAscii cc good { oGood with extra := (hExposeHeaders, "X-A".toList) :: oGood.extra } = false ∧
    Spec.c08Holds toLowerAscii cc pre oPre = true ∧
    Spec.c08Holds toLowerAscii cc pre { oPre with extra := [] } = true ∧
    Spec.c08Holds toLowerAscii cc pre { oPre with extra :=
      [(hAllowMethods, "GET".toList), (hAllowHeaders, []), (hAllowOrigin, "http://good.example".toList)] } = false ∧
    Spec.c08Holds toLowerAscii cc pre { oPre with extra := oPre.extra ++ [(hAllowOrigin, pre.origin)] } = false ∧
    Spec.c08Holds toLowerAscii cc pre { oPre with extra := [(hAllowMethods, "GET".toList), (hAllowHeaders, [])] } = false ∧
    Spec.c08Holds toLowerAscii ccNoCookies pre oPre = false ∧
    Spec.c08Holds toLowerAscii cc evil oNone = true ∧
    Spec.c08Holds toLowerAscii cc evil { oNone with extra := [(hAllowOrigin, evil.origin)] } = false ∧
    Spec.c08Holds toLowerAscii cc evil { oNone with extra := [(hMaxAge, "3600".toList)] } = false ∧
    Spec.c08Holds toLowerAscii cc evil { oNone with status := 403 } = false ∧
    Spec.c08Holds toLowerAscii cc evil { oNone with logSame := false } = false ∧
    Spec.c08Holds toLowerAscii cc evil { oNone with bodySame := false } = false ∧
    Spec.c08Holds toLowerAscii cc (rq "") { oNone with extra := [(hAllowOrigin, [])] } = false ∧
    Spec.c08Holds toLowerAscii cc (rq "") { oNone with missing := 1 } = false ∧
    Spec.c08Holds toLowerAscii cc good { oNone with reached := false } = true ∧
    Spec.c08Holds toLowerAscii cc good { oGood with reached := false } = false := by
  decide

/-- The observations of the review, each REJECTED by `Spec.c08Holds`:
    (ii) a grant with Allow-Origin twice (actual request; preflight);
    (iii) an actual request from an allowed origin without Allow-Origin (no header at all — accepted
        before the predicate was strengthened; every other configured header);
    (iv) Allow-Origin lower-cased: the request said `HTTP://Good.Example` (actual request; preflight).
    ((i) — a preflight that must be granted and is not — is C09's clause: `c08Holds` accepts a refused
    preflight from an allowed origin, `c09Holds` decides whether the refusal was right.) -/
example :
    Spec.c08Holds toLowerAscii cc good { oGood with extra := oGood.extra ++ [(hAllowOrigin, good.origin)] } = false ∧
    Spec.c08Holds toLowerAscii cc pre { oPre with extra := oPre.extra ++ [(hAllowOrigin, pre.origin)] } = false ∧
    Spec.c08Holds toLowerAscii cc good { oGood with extra := [] } = false ∧
    Spec.c08Holds toLowerAscii cc good { oGood with extra := [(hAllowCredentials, "true".toList), (hMaxAge, "3600".toList)] } = false ∧
    Spec.c08Holds toLowerAscii cc good { oGood with extra :=
      [(hAllowOrigin, toLowerAscii good.origin), (hAllowCredentials, "true".toList), (hMaxAge, "3600".toList)] } = false ∧
    Spec.c08Holds toLowerAscii cc pre { oPre with extra :=
      [(hAllowMethods, "GET".toList), (hAllowHeaders, []), (hAllowOrigin, toLowerAscii pre.origin),
       (hAllowCredentials, "true".toList), (hMaxAge, "3600".toList)] } = false ∧
    toLowerAscii good.origin ≠ good.origin ∧
    Spec.c08Holds toLowerAscii cc pre { oPre with extra := [] } = true := by
  decide

end C08Example

/-! The frame condition (Lemmas/StateShape.lean): the code has exactly the state this property's model
    accounts for — no further package-level variable, struct type or field; constants as modelled. -/
-- also: Restful.StateShape.globals_shape
-- also: Restful.StateShape.consts_shape
-- also: Restful.StateShape.cors_shape

/-! The regenerated tie (tools/gotrans → Gen/Translated.lean, Lemmas/Tie*.lean): the origin test this
    property's model contains (`Cors.isOriginAllowed`: the search loop over `AllowedDomains`, the two
    calls of `AllowedDomainFunc` and their arguments, `strings.ToLower`) IS the one translated from
    cors_filter.go on this run. -/
-- also: Restful.Tie.cors_domain_loop
-- also: Restful.Tie.cors_is_origin_allowed

end Props
end Restful

-- the imperative functions this property's model rests on, tied to their statement-by-statement
-- translation (tools/goimp, Gen/Imp.lean, regenerated on every run):
-- also: Restful.TieImp.cors_filter
