/-
What can still make a registration panic after the repair 093fa53 (`addHandler` registers only the
patterns no earlier service mapped): nothing among the WebServices themselves.

* `Remove` never panics (`step_remove_ok`): the new ServeMux holds no plain handler.
* `Add` of a service with a new root path panics only on a pattern the user registered through
  `Handle`/`HandleWithFilter` on the current ServeMux (`step_add_ok`, `step_add_error`); a root path
  the container already holds is the `os.Exit(1)` of container.go:98-101.
-/
import Restful.Lemmas.RegistryFresh
namespace Restful
namespace Registry
open List Str

/-- the patterns of the ServeMux: what the services registered, and the live plain handlers -/
theorem inv_mem_keys {st : State} (inv : Inv st) (x : Str) :
    x ∈ keys st.mux ↔ x ∈ Spec.regFrom (roots st.services) [] false ∨ x ∈ st.live.map (·.1) := by
  have h1 := (inv.perm.map (·.1)).mem_iff (a := x)
  have h2 : List.map (·.1) ((Spec.regFrom (roots st.services) [] false).map dispE ++ st.live.map plainE)
      = Spec.regFrom (roots st.services) [] false ++ st.live.map (·.1) := by
    have := keys_append ((Spec.regFrom (roots st.services) [] false).map dispE) (st.live.map plainE)
    rw [keys_dispE, keys_plainE] at this
    exact this
  simp only [keys]
  rw [h1, h2, List.mem_append]

/-- what `addHandler` registers for one more service is nothing the services before it registered -/
theorem new_not_registered {rs : List Str} (hf : Spec.flagFrom rs false = false) {r : Str} :
    ∀ p ∈ Spec.newPatterns (mappedAll rs) r, p ∉ Spec.regFrom rs [] false := by
  intro p hp hm
  have hmm := regFrom_sub_mappedAll rs [] false p hm
  cases hr : Spec.isRootPattern r with
  | false => exact newPatterns_not_seen hr p hp hmm
  | true =>
    simp only [Spec.newPatterns, hr, if_true, List.mem_singleton] at hp
    subst hp
    exact root_not_mem_mappedAll hf hmm

/-- `Remove` never panics: the patterns it re-registers on the new ServeMux are pairwise different -/
theorem step_remove_ok (st : State) (root : Str) :
    step st (.remove root) = .ok { st with
      services := st.services.filter (fun each => each.root != root),
      mux := (Spec.regFrom (roots (st.services.filter fun each => each.root != root)) [] false).map dispE,
      onRoot := Spec.flagFrom (roots (st.services.filter fun each => each.root != root)) false,
      live := [] } := by
  simp only [step]
  rw [rebuild_eq root st.services [] [] false]
  have hm : mapped [] = [] := rfl
  rw [hm]
  unfold regAll
  rw [regList_of (t := []) (by simpa [keys] using regFrom_nodup' _) (regFrom_ne_nil _ _ _)]
  simp

/-- the registrations of `Add` cannot clash when no live plain handler sits on a wanted pattern -/
theorem add_nodup_of_inv {st : State} (inv : Inv st) {s : Svc}
    (hp : ∀ p ∈ Spec.regPatterns s.root, p ∉ st.live.map (·.1)) :
    (keys st.mux ++ (if st.onRoot then [] else Spec.newPatterns (mapped st.services) s.root)).Nodup := by
  cases ho : st.onRoot with
  | true => simpa [ho] using (keys_nodup_iff _).mp inv.keys
  | false =>
    have hf : Spec.flagFrom (roots st.services) false = false := by rw [← inv.flag]; exact ho
    simp only [Bool.false_eq_true, if_false]
    rw [List.nodup_append]
    refine ⟨(keys_nodup_iff _).mp inv.keys, newPatterns_nodup _ _, ?_⟩
    intro a ha b hb hab
    subst hab
    rcases (inv_mem_keys inv a).mp ha with h1 | h1
    · rw [mapped_eq] at hb
      exact new_not_registered hf a hb h1
    · exact hp a (newPatterns_sub a hb) h1

/-- `Add` of a new root path succeeds unless a live plain handler sits on one of its patterns -/
theorem step_add_ok {st : State} (inv : Inv st) {s : Svc} (hnew : s.root ∉ roots st.services)
    (hp : ∀ p ∈ Spec.regPatterns s.root, p ∉ st.live.map (·.1)) :
    step st (.add s) = .ok { st with
      mux := st.mux ++ (if st.onRoot then [] else Spec.newPatterns (mapped st.services) s.root).map dispE,
      onRoot := if st.onRoot then true else Spec.isRootPattern s.root,
      services := st.services ++ [s] } :=
  step_add_of hnew (add_nodup_of_inv inv hp)

/-- the only ways `Add` can still fail: the root path is taken (`os.Exit(1)`), or the ServeMux
    refuses a pattern of the service on which a live plain handler sits -/
theorem step_add_error {st : State} (inv : Inv st) {s : Svc} {e : Panic} (h : step st (.add s) = .error e) :
    (e = .exit ∧ s.root ∈ roots st.services) ∨
    (st.onRoot = false ∧ ∃ p, e = .mux (.multiple p) ∧ p ∈ Spec.regPatterns s.root ∧ p ∈ st.live.map (·.1)) := by
  simp only [step] at h
  cases hd : (st.services.any fun each => each.root == s.root) with
  | true =>
    simp only [hd, if_true, Except.error.injEq] at h
    simp only [List.any_eq_true, beq_iff_eq] at hd
    obtain ⟨each, he, hr⟩ := hd
    exact Or.inl ⟨h.symm, hr ▸ List.mem_map_of_mem (f := (·.root)) he⟩
  | false =>
    simp only [hd, Bool.false_eq_true, if_false] at h
    cases ho : st.onRoot with
    | true => simp [ho] at h
    | false =>
      have hf : Spec.flagFrom (roots st.services) false = false := by rw [← inv.flag]; exact ho
      simp only [ho, Bool.false_eq_true, if_false] at h
      rw [addHandler_eq st.services s st.mux] at h
      cases hr : regList st.mux (Spec.newPatterns (mapped st.services) s.root) with
      | ok t => rw [hr] at h; cases h
      | error e1 =>
        rw [hr] at h
        simp only [Except.error.injEq] at h
        subst h
        obtain ⟨p, hp, hk, he⟩ := regList_error hr newPatterns_ne_nil (newPatterns_nodup _ _)
        refine Or.inr ⟨rfl, p, he, newPatterns_sub p hp, ?_⟩
        rcases (inv_mem_keys inv p).mp hk with h1 | h1
        · rw [mapped_eq] at hp
          exact absurd h1 (new_not_registered hf p hp)
        · exact h1

/-- a sequence of `Add`s on a container without live plain handlers can only end in `os.Exit(1)` -/
theorem runFrom_adds_error {svcs : List Svc} {st : State} (inv : Inv st) (hl : st.live = []) {e : Panic}
    (h : runFrom st (svcs.map .add) = .error e) : e = .exit := by
  induction svcs generalizing st with
  | nil => simp [runFrom] at h
  | cons s rest ih =>
    simp only [List.map_cons, runFrom] at h
    cases hs : step st (.add s) with
    | error e1 =>
      rw [hs] at h
      simp only [Except.error.injEq] at h
      subst h
      rcases step_add_error inv hs with ⟨he, _⟩ | ⟨_, p, _, _, hm⟩
      · exact he
      · rw [hl] at hm; cases hm
    | ok st1 =>
      rw [hs] at h
      have hl1 : st1.live = [] := by
        obtain ⟨_, hc⟩ := step_add_cases hs
        rcases hc with ⟨_, rfl⟩ | ⟨_, t, _, rfl⟩ <;> exact hl
      exact ih (step_inv inv hs) hl1 h

/-- the wanted patterns of one more service, when no service landed on `/` yet -/
theorem mem_patsFrom_snoc {rs : List Str} (hf : Spec.flagFrom rs false = false) {r p : Str}
    (hp : p ∈ Spec.regPatterns r) : p ∈ Spec.patsFrom (rs ++ [r]) false := by
  rw [patsFrom_append, hf]
  simp only [Bool.false_eq_true, if_false, List.mem_append]
  exact Or.inr hp

end Registry
end Restful
