/-
The tie between the translated decision functions (Gen/Translated.lean, regenerated from the Go
sources by tools/gotrans on every run) and the hand-written models: the model's definitions ARE
the translated ones, for all arguments.  A change to one of these Go functions changes the
generated definition and breaks the corresponding theorem here at compile time.  One file per
group of properties, so that a change breaks the obligations of the properties it concerns only.
This file: request-side helpers (C01, C02).
-/
import Restful.Gen.Translated
import Restful.Go.Str
namespace Restful
namespace Tie
open Translated

/-- route.go `stringTrimSpaceCutset`: the router's Accept / Content-Type test trims blanks only -/
theorem trim_space_cutset (c : Char) : stringTrimSpaceCutset c = Str.isSpaceOnly c := rfl

/-- request.go `Request.SelectedRoutePath()`: the empty string when no route was selected (what a
    stage behind a `replace` filter sees: `C01_selected_path_replace_witness`), the route's path
    otherwise -/
theorem selected_route_path (sel : Option Str) :
    Request_SelectedRoutePath sel.isNone (sel.getD []) = sel.getD [] := by
  cases sel <;> simp [Request_SelectedRoutePath]

end Tie
end Restful
