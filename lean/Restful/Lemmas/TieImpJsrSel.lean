import Restful.Lemmas.TieImpVocab
import Restful.Lemmas.TieImpBridge
import Restful.Lemmas.TieImpBase
namespace Restful
namespace TieImp
open Imp
set_option linter.unusedSimpArgs false

/-- a built route of the model with its compiled expression, as RouterJSR311 reads it (`mk` supplies the
    fields the function does not read) -/
def genRouteJ (E : ReEnv) (mk : Route → Option ImpGen.GoPathExpression → ImpGen.GoRoute) (r : Route) : ImpGen.GoRoute :=
  mk r (genPE E r.relPath)

def genRouteCand (E : ReEnv) (mk : Route → Option ImpGen.GoPathExpression → ImpGen.GoRoute) (c : Jsr.RouteCand) : ImpGen.GoRouteCandidate :=
  { route := genRouteJ E mk c.route, matchesCount := ((c.matchesCount : Nat) : Int),
    literalCount := ((c.literalCount : Nat) : Int), nonDefaultCount := ((c.nonDefaultCount : Nat) : Int) }

namespace T10

/-- `matches[len(matches)-1]` of a match of `reOf` is the final group -/
theorem at?_last_match (s : Str) (caps : List Str) (fin : Str) :
    at? (s :: (caps ++ [fin])) (len (s :: (caps ++ [fin])) - 1) = some fin := by
  rw [at?_last _ (by simp)]
  simp

/-- one iteration of the candidate loop of `selectRoutes`, by the model -/
def routeStep (E : ReEnv) (mk : Route → Option ImpGen.GoPathExpression → ImpGen.GoRoute) (rem : Str)
    (r : Route) (s : ImpGen.GoSortableRouteCandidates) : Option (ForInStep ImpGen.GoSortableRouteCandidates) :=
  match Jsr.compile r.relPath with
  | none => none
  | some ex =>
    match Jsr.matchExpr E ex.toks rem with
    | some (caps, fin) =>
      if fin = [] ∨ fin = ['/'] then
        some (.yield { candidates := s.candidates ++ [genRouteCand E mk ⟨r, caps.length + 1, ex.literalCount, ex.varCount⟩] })
      else some (.yield s)
    | none => some (.yield s)

theorem route_loop {ρ : Type} (E : ReEnv) (mk : Route → Option ImpGen.GoPathExpression → ImpGen.GoRoute) (rem : Str)
    (g : Route → ρ)
    (f : ρ → ImpGen.GoSortableRouteCandidates → Option (ForInStep ImpGen.GoSortableRouteCandidates))
    (hf : ∀ r s, f (g r) s = routeStep E mk rem r s) :
    ∀ (routes : List Route) (s : ImpGen.GoSortableRouteCandidates),
      forIn (routes.map g) s f
        = (Jsr.routeCandidates E routes rem).map (fun cs => { candidates := s.candidates ++ cs.map (genRouteCand E mk) }) := by
  intro routes
  induction routes with
  | nil => intro s; simp [Jsr.routeCandidates]
  | cons r rest ih =>
    intro s
    rw [List.map_cons, List.forIn_cons, hf, Jsr.routeCandidates]
    unfold routeStep
    cases Jsr.compile r.relPath with
    | none => rfl
    | some ex =>
      dsimp only
      cases Jsr.matchExpr E ex.toks rem with
      | none => exact ih s
      | some cf =>
        obtain ⟨caps, fin⟩ := cf
        dsimp only
        by_cases h : fin = [] ∨ fin = ['/']
        · rw [if_pos h, if_pos (by simpa using h)]
          refine (ih _).trans ?_
          cases Jsr.routeCandidates E rest rem <;> simp
        · rw [if_neg h, if_neg (by simpa using h)]
          exact ih s

/-- every candidate was added because its expression matched -/
theorem routeCandidates_match (E : ReEnv) (rem : Str) :
    ∀ (routes : List Route) (cs : List Jsr.RouteCand), Jsr.routeCandidates E routes rem = some cs →
      ∀ c ∈ cs, ∃ pe, genPE E c.route.relPath = some pe ∧ (pe.Matcher rem).isEmpty = false := by
  intro routes
  induction routes with
  | nil => intro cs h; simp [Jsr.routeCandidates] at h; subst h; simp
  | cons r rest ih =>
    intro cs h
    rw [Jsr.routeCandidates] at h
    cases hc : Jsr.compile r.relPath with
    | none => rw [hc] at h; cases h
    | some ex =>
      rw [hc] at h
      dsimp only at h
      cases hm : Jsr.matchExpr E ex.toks rem with
      | none => rw [hm] at h; exact ih cs h
      | some cf =>
        obtain ⟨caps, fin⟩ := cf
        rw [hm] at h
        dsimp only at h
        split at h
        · cases hr : Jsr.routeCandidates E rest rem with
          | none => rw [hr] at h; cases h
          | some cs' =>
            rw [hr] at h
            simp only [Option.map_some, Option.some.injEq] at h
            subst h
            intro c hcm
            rcases List.mem_cons.1 hcm with rfl | hcm
            · refine ⟨_, by rw [genPE, hc]; rfl, ?_⟩
              simp [reOf, hm]
            · exact ih cs' hr c hcm
        · exact ih cs h

/-- the second loop of `selectRoutes` keeps every candidate from index `k` on, when every candidate's
    expression matches; the body is abstract: it only has to append the route of a matching candidate -/
theorem keep_loop (rem : Str) (L : List ImpGen.GoRouteCandidate)
    (hL : ∀ c ∈ L, ∃ pe, c.route.pathExpr = some pe ∧ (pe.Matcher rem).isEmpty = false)
    (f : Int → List ImpGen.GoRoute → Option (ForInStep (List ImpGen.GoRoute)))
    (hf : ∀ (k : Nat) e pe acc, L[k]? = some e → e.route.pathExpr = some pe → (pe.Matcher rem).isEmpty = false →
      f (k : Int) acc = some (.yield (acc ++ [e.route]))) :
    ∀ (n k : Nat) (acc : List ImpGen.GoRoute), k + n = L.length →
      forIn ((List.range' k n).map (fun k : Nat => (k : Int))) acc f = some (acc ++ (L.drop k).map (·.route)) := by
  intro n
  induction n with
  | zero => intro k acc h; simp [show L.length ≤ k by omega]
  | succ n ih =>
    intro k acc h
    have hk : k < L.length := by omega
    obtain ⟨pe, h1, h2⟩ := hL L[k] (List.getElem_mem hk)
    rw [List.range'_succ, List.map_cons, List.forIn_cons, hf k L[k] pe acc (List.getElem?_eq_getElem hk) h1 h2]
    simp only [Option.bind_eq_bind, Option.bind_some]
    rw [ih (k + 1) _ (by omega), List.drop_eq_getElem_cons hk]
    simp only [List.map_cons, List.append_assoc, List.singleton_append]

/-- the same loop written over the candidates themselves (`for _, each := range candidates[1:]`) -/
theorem keep_loop_list (rem : Str) (L : List ImpGen.GoRouteCandidate)
    (hL : ∀ c ∈ L, ∃ pe, c.route.pathExpr = some pe ∧ (pe.Matcher rem).isEmpty = false)
    (f : ImpGen.GoRouteCandidate → List ImpGen.GoRoute → Option (ForInStep (List ImpGen.GoRoute)))
    (hf : ∀ e pe acc, e.route.pathExpr = some pe → (pe.Matcher rem).isEmpty = false →
      f e acc = some (.yield (acc ++ [e.route]))) :
    ∀ (acc : List ImpGen.GoRoute), forIn L acc f = some (acc ++ L.map (·.route)) := by
  induction L with
  | nil => intro acc; simp
  | cons e L ih =>
    intro acc
    obtain ⟨pe, h1, h2⟩ := hL e List.mem_cons_self
    rw [List.forIn_cons, hf e pe acc h1 h2]
    simp only [Option.bind_eq_bind, Option.bind_some]
    rw [ih (fun c hc => hL c (List.mem_cons_of_mem _ hc))]
    simp

/-- `xs[1:]` of a non-empty slice -/
theorem sliceFrom_one {α : Type} (e : α) (L : List α) : sliceFrom (e :: L) 1 = some L := by
  simp [sliceFrom, slice, len]
  omega

end T10

/-- jsr311.go `RouterJSR311.selectRoutes`: the routes whose expression matches the rest of the path up to
    an optional final slash, as candidates with their three counts, handed to `sort.Sort(sort.Reverse(…))`
    (uninterpreted: `srt`, only assumed to permute), then the first one and every later one whose
    expression matches — which is all of them: the second test of the Go code never removes a candidate -/
theorem jsr_select_routes (E : ReEnv) (X : ImpGen.Ext)
    (mk : Route → Option ImpGen.GoPathExpression → ImpGen.GoRoute)
    (hmk : ∀ r pe, (mk r pe).pathExpr = pe)
    (hsrt : ∀ x, (X.sort_SortReverse_sortableRouteCandidates x).candidates.Perm x.candidates)
    (ws0 : ImpGen.GoWebService) (pe : Option ImpGen.GoPathExpression) (routes : List Route) (remainder : Str) :
    ImpGen.RouterJSR311_selectRoutes X (some { ws0 with pathExpr := pe, routes := routes.map (genRouteJ E mk) }) remainder
      = (Jsr.routeCandidates E routes remainder).map (fun cs =>
          ((X.sort_SortReverse_sortableRouteCandidates { candidates := cs.map (genRouteCand E mk) }).candidates.map (·.route))) := by
  unfold ImpGen.RouterJSR311_selectRoutes
  simp only [deref, Option.bind_eq_bind, Option.bind_some, Option.pure_def]
  rw [T10.route_loop E mk remainder (genRouteJ E mk) _ ?hf]
  case hf =>
    intro r s
    rw [show (genRouteJ E mk r).pathExpr = genPE E r.relPath from hmk _ _]
    unfold T10.routeStep genPE
    cases Jsr.compile r.relPath with
    | none => rfl
    | some ex =>
      simp only [Option.map_some, Option.bind_some]
      unfold reOf
      cases Jsr.matchExpr E ex.toks remainder with
      | none => rfl
      | some cf =>
        obtain ⟨caps, fin⟩ := cf
        simp only [List.isEmpty_cons, Bool.not_false, if_true, T10.at?_last_match, Option.bind_some]
        have hcnt : len (remainder :: (caps ++ [fin])) - 1 = (((caps.length + 1 : Nat)) : Int) := by
          simp only [len, List.length_cons, List.length_append, List.length_nil]; omega
        have hc : ((len fin == 0 || fin == "/".toList) = true) ↔ (fin = [] ∨ fin = ['/']) := by
          cases fin <;> simp [len] <;> (intro; omega)
        by_cases h : fin = [] ∨ fin = ['/']
        · rw [if_pos h, if_pos (hc.2 h), hcnt]; rfl
        · rw [if_neg h, if_neg (fun h' => h (hc.1 h'))]
  · cases hrc : Jsr.routeCandidates E routes remainder with
    | none => rfl
    | some cs =>
      simp only [Option.map_some, Option.bind_some, List.nil_append]
      cases cs with
      | nil =>
        have := hsrt { candidates := [] }
        simp only [List.perm_nil] at this
        simp [len, this]
      | cons c cs' =>
        have hperm := hsrt { candidates := List.map (genRouteCand E mk) (c :: cs') }
        have hmem : ∀ e ∈ (X.sort_SortReverse_sortableRouteCandidates
            { candidates := List.map (genRouteCand E mk) (c :: cs') }).candidates,
            ∃ pe, e.route.pathExpr = some pe ∧ (pe.Matcher remainder).isEmpty = false := by
          intro e he
          obtain ⟨m, hm, rfl⟩ := List.mem_map.1 (hperm.mem_iff.1 he)
          obtain ⟨pe, h1, h2⟩ := T10.routeCandidates_match E remainder routes _ hrc m hm
          exact ⟨pe, (hmk _ _).trans h1, h2⟩
        revert hperm hmem
        generalize (X.sort_SortReverse_sortableRouteCandidates
            { candidates := List.map (genRouteCand E mk) (c :: cs') }).candidates = L
        intro hperm hmem
        cases L with
        | nil => simp at hperm
        | cons e L' =>
          rw [if_neg (by simp [len]; omega)]
          -- the second loop: by index from 1 (`for c := 1; c < len(…); c++`) or over the tail (`range …[1:]`)
          first
          | (rw [show (1 : Int) = ((1 : Nat) : Int) from rfl, T2.range_nat_len,
              show at? (e :: L') 0 = some e from rfl]
             simp only [Option.bind_some]
             rw [T10.keep_loop remainder (e :: L') hmem _ ?hf2 _ 1 _ (by simp; omega)]
             case hf2 =>
               intro k e' pe' acc h1 h2 h3
               simp only [T2.at?_nat, h1, h2, h3, Option.bind_some, push]
               rfl
             simp [push])
          | (rw [T10.sliceFrom_one, show at? (e :: L') 0 = some e from rfl]
             simp only [Option.bind_some]
             rw [T10.keep_loop_list remainder L' (fun c hc => hmem c (List.mem_cons_of_mem _ hc)) _ ?hf3]
             case hf3 =>
               intro e' pe' acc h2 h3
               simp only [h2, h3, Option.bind_some, push]
               rfl
             simp [push])

def genSvcJ (E : ReEnv) (routesOf : Service → List ImpGen.GoRoute) (s : Service) : ImpGen.GoWebService :=
  { rootPath := s.rootPath, pathExpr := genPE E s.rootPath, routes := routesOf s }

def genDispCand (E : ReEnv) (routesOf : Service → List ImpGen.GoRoute) (c : Jsr.DispCand) : ImpGen.GoDispatcherCandidate :=
  { dispatcher := some (genSvcJ E routesOf c.svc), finalMatch := c.finalMatch, matchesCount := ((c.matchesCount : Nat) : Int),
    literalCount := ((c.literalCount : Nat) : Int), nonDefaultCount := ((c.nonDefaultCount : Nat) : Int) }

/-- what callers read of `detectDispatcher`'s result: the service, the final match, whether there is an error -/
def dispView (r : Option ImpGen.GoWebService × Str × GoErr) : Option ImpGen.GoWebService × Str × Bool := (r.1, r.2.1, r.2.2.isSome)

namespace T10

/-- one iteration of the candidate loop of `detectDispatcher`, by the model -/
def dispStep (E : ReEnv) (routesOf : Service → List ImpGen.GoRoute) (path : Str)
    (sv : Service) (s : ImpGen.GoSortableDispatcherCandidates) : Option (ForInStep ImpGen.GoSortableDispatcherCandidates) :=
  match Jsr.compile sv.rootPath with
  | none => none
  | some ex =>
    match Jsr.matchExpr E ex.toks path with
    | some (caps, fin) =>
      some (.yield { candidates := s.candidates ++ [genDispCand E routesOf ⟨sv, fin, caps.length + 2, ex.literalCount, ex.varCount⟩] })
    | none => some (.yield s)

theorem disp_loop {ρ : Type} (E : ReEnv) (routesOf : Service → List ImpGen.GoRoute) (path : Str)
    (g : Service → ρ)
    (f : ρ → ImpGen.GoSortableDispatcherCandidates → Option (ForInStep ImpGen.GoSortableDispatcherCandidates))
    (hf : ∀ sv s, f (g sv) s = dispStep E routesOf path sv s) :
    ∀ (svcs : List Service) (s : ImpGen.GoSortableDispatcherCandidates),
      forIn (svcs.map g) s f
        = (Jsr.dispCandidates E svcs path).map (fun cs => { candidates := s.candidates ++ cs.map (genDispCand E routesOf) }) := by
  intro svcs
  induction svcs with
  | nil => intro s; simp [Jsr.dispCandidates]
  | cons sv rest ih =>
    intro s
    rw [List.map_cons, List.forIn_cons, hf, Jsr.dispCandidates]
    unfold dispStep
    cases Jsr.compile sv.rootPath with
    | none => rfl
    | some ex =>
      dsimp only
      cases Jsr.matchExpr E ex.toks path with
      | none => exact ih s
      | some cf =>
        obtain ⟨caps, fin⟩ := cf
        dsimp only
        refine (ih _).trans ?_
        cases Jsr.dispCandidates E rest path <;> simp

end T10

/-- jsr311.go `RouterJSR311.detectDispatcher`: every service whose expression matches the URL is a
    candidate with its final match and three counts; none = "not found"; otherwise the first one after
    `sort.Sort(sort.Reverse(…))` (uninterpreted, assumed to permute) -/
theorem jsr_detect_dispatcher (E : ReEnv) (X : ImpGen.Ext)
    (routesOf : Service → List ImpGen.GoRoute)
    (hsrt : ∀ x, (X.sort_SortReverse_sortableDispatcherCandidates x).candidates.Perm x.candidates)
    (svcs : List Service) (path : Str) :
    (ImpGen.RouterJSR311_detectDispatcher X path (svcs.map (fun s => some (genSvcJ E routesOf s)))).map dispView
      = (Jsr.dispCandidates E svcs path).map (fun cs =>
          match (X.sort_SortReverse_sortableDispatcherCandidates { candidates := cs.map (genDispCand E routesOf) }).candidates with
          | [] => (none, [], true)
          | c :: _ => (c.dispatcher, c.finalMatch, false)) := by
  unfold ImpGen.RouterJSR311_detectDispatcher
  simp only [deref, Option.bind_eq_bind, Option.pure_def]
  rw [T10.disp_loop E routesOf path (fun s => some (genSvcJ E routesOf s)) _ ?hf]
  case hf =>
    intro sv s
    simp only [Option.bind_some]
    rw [show (genSvcJ E routesOf sv).pathExpr = genPE E sv.rootPath from rfl]
    unfold T10.dispStep genPE
    cases Jsr.compile sv.rootPath with
    | none => rfl
    | some ex =>
      simp only [Option.map_some, Option.bind_some]
      unfold reOf
      cases Jsr.matchExpr E ex.toks path with
      | none => rfl
      | some cf =>
        obtain ⟨caps, fin⟩ := cf
        simp only [List.isEmpty_cons, Bool.not_false, if_true, T10.at?_last_match, Option.bind_some]
        have hcnt : len (path :: (caps ++ [fin])) = (((caps.length + 2 : Nat)) : Int) := by
          simp only [len, List.length_cons, List.length_append, List.length_nil] <;> omega
        rw [hcnt]; rfl
  · cases hrc : Jsr.dispCandidates E svcs path with
    | none => rfl
    | some cs =>
      simp only [Option.map_some, Option.bind_some, List.nil_append]
      have hperm := hsrt { candidates := List.map (genDispCand E routesOf) cs }
      revert hperm
      generalize (X.sort_SortReverse_sortableDispatcherCandidates
            { candidates := List.map (genDispCand E routesOf) cs }).candidates = L
      intro hperm
      cases cs with
      | nil =>
        simp only [List.map_nil, List.perm_nil] at hperm
        subst hperm
        simp [len, dispView]
      | cons c cs' =>
        cases L with
        | nil => simp at hperm
        | cons e L' =>
          rw [if_neg (by simp [len]; omega)]
          rw [show at? (e :: L') 0 = some e from rfl]
          simp [dispView]

#print axioms jsr_select_routes
#print axioms jsr_detect_dispatcher

end TieImp
end Restful
