/-
C03 for RouterJSR311: at route level the selected route is never less specific than another
eligible route; among literal root paths the longest matching one is dispatched to; and for
literal roots the outcome does not depend on the order of registration.

  * `routeCandLess` / `dispCandLess` strict weak orders, sortedness — `Restful.Lemmas.OrderJsrSort`
  * candidate loops as `filterMap`s, the head of the dispatcher list  — `Restful.Lemmas.OrderJsrPerm`
-/
import Restful.Lemmas.OrderJsrPerm
import Restful.Lemmas.RouteSelected
import Restful.Lemmas.JsrParse
import Restful.Lemmas.JsrSlash
namespace Restful
open Str

namespace Spec

/-- two different WebServices whose (literal) roots both match the request have different literal
    counts (RouterJSR311) -/
def jsrRootsSeparate (E : ReEnv) (cfg : Config) (req : Req) : Prop :=
  cfg.services.Pairwise (fun a b => ∀ exa exb ca fa cb fb,
    Jsr.compile a.rootPath = some exa → Jsr.compile b.rootPath = some exb →
    Jsr.matchExpr E exa.toks req.path = some (ca, fa) → Jsr.matchExpr E exb.toks req.path = some (cb, fb) →
    exa.literalCount ≠ exb.literalCount)

end Spec

variable (E : ReEnv)

/-! ### `routeJsr` in two steps -/

/-- what `routeJsr` does once the dispatcher (WebService and remainder) is detected -/
def jsrAfterSvc (svc : Service) (routes : List Route) (final : Str) (req : Req) : Outcome :=
  match Jsr.routeCandidates E routes final with
  | none => .panic "jsr.compile"
  | some cs =>
    finishWith (fun r => Jsr.extract E svc r req.path)
      ((Sort.insertionSort Jsr.routeCandLess cs).map (·.route)) req

theorem routeJsr_fst (cfg : Config) (req : Req) :
    (routeJsr E cfg req).1 =
      match Jsr.detectDispatcher E cfg.services req.path with
      | none => .panic "jsr.compile"
      | some none => .error 404 none
      | some (some (svc, final)) => jsrAfterSvc E svc svc.built final req := by
  unfold routeJsr jsrAfterSvc Jsr.selectRoutes finishWith
  cases Jsr.detectDispatcher E cfg.services req.path with
  | none => rfl
  | some d =>
    cases d with
    | none => rfl
    | some x =>
      obtain ⟨svc, final⟩ := x
      simp only
      cases Jsr.routeCandidates E svc.built final with
      | none => rfl
      | some cs =>
        simp only [Option.map_some]
        generalize (Sort.insertionSort Jsr.routeCandLess cs).map (·.route) = cands
        cases cands with
        | nil => rfl
        | cons x xs =>
          simp only
          cases detectRoute (x :: xs) req with
          | error e => rfl
          | ok r =>
            simp only
            cases Jsr.extract E svc r req.path <;> rfl

/-! ### (J2) the selected route has the most literal characters among the eligible matching routes -/

/-- the facts about a `selected` outcome of `routeJsr` that (J2) and (J2') rest on -/
theorem routeJsr_selected_max {cfg : Config} {req : Req} {s r : Nat} {ps : Params}
    (h : (routeJsr E cfg req).1 = .selected s r ps) :
    ∃ svc ∈ cfg.services, ∃ rt ∈ svc.built, svc.id = s ∧ rt.id = r ∧ ∃ final wex wc,
      Jsr.compile svc.rootPath = some wex ∧ Jsr.matchExpr E wex.toks req.path = some (wc, final) ∧
      (∃ ex caps f, Jsr.compile rt.relPath = some ex ∧ Jsr.matchExpr E ex.toks final = some (caps, f) ∧
        (f = [] ∨ f = ['/']) ∧
        ∀ rt' ∈ svc.built, ∀ ex' caps' f', Jsr.compile rt'.relPath = some ex' →
          Jsr.matchExpr E ex'.toks final = some (caps', f') → (f' = [] ∨ f' = ['/']) →
          Spec.eligible rt' req = true → ex'.literalCount ≤ ex.literalCount) := by
  rw [routeJsr_fst] at h
  split at h
  · simp at h
  · simp at h
  · rename_i svc final hdisp
    obtain ⟨hsvc, wex, wc, hwex, hwm⟩ := Jsr.detectDispatcher_mem E hdisp
    unfold jsrAfterSvc at h
    cases hc : Jsr.routeCandidates E svc.built final with
    | none => simp [hc] at h
    | some cs =>
      simp only [hc] at h
      obtain ⟨c, hcm, h1, h2, _, _, hmax⟩ := finishWith_selected_max (·.route) Jsr.routeCandLess
        Jsr.routeCandLess_trans Jsr.routeCandLess_asymm _ cs req h
      have hcs := Jsr.routeCandidates_some E hc
      have hcm' := hcm
      rw [hcs, List.mem_filterMap] at hcm'
      obtain ⟨r0, hr0, hc0⟩ := hcm'
      obtain ⟨hroute, ex, caps, f, hex, hm, hf, hlc⟩ := Jsr.rcandOf_some E hc0
      subst hroute
      refine ⟨svc, hsvc, c.route, hr0, ?_, h2, final, wex, wc, hwex, hwm, ex, caps, f, hex, hm, hf, ?_⟩
      · rw [← Service.built_svc svc hr0]; exact h1
      · intro rt' hrt' ex' caps' f' hex' hm' hf' hel'
        have hc' : (⟨rt', caps'.length + 1, ex'.literalCount, ex'.varCount⟩ : Jsr.RouteCand) ∈ cs := by
          rw [hcs, List.mem_filterMap]
          exact ⟨rt', hrt', Jsr.rcandOf_of E hex' hm' hf'⟩
        have := hmax _ hc' hel'
        rw [Jsr.routeCandLess_eq_false_iff] at this
        simp only at this
        omega

/-- **C03 (RouterJSR311), never less specific**: the number of literal characters of any other
    matching, eligible route of the dispatched service is at most that of the selected one -/
theorem C03_jsr_never_less_specific (E : ReEnv) (cfg : Config) (req : Req) (s r : Nat) (ps : Params)
    (h : (routeJsr E cfg req).1 = .selected s r ps) :
    ∃ svc ∈ cfg.services, ∃ rt ∈ svc.built, svc.id = s ∧ rt.id = r ∧ ∃ final wex wc, Jsr.compile svc.rootPath = some wex ∧
      Jsr.matchExpr E wex.toks req.path = some (wc, final) ∧
      ∀ rt' ∈ svc.built, ∀ ex' caps' f', Jsr.compile rt'.relPath = some ex' → Jsr.matchExpr E ex'.toks final = some (caps', f') →
        (f' = [] ∨ f' = ['/']) → Spec.eligible rt' req = true →
        ∀ ex, Jsr.compile rt.relPath = some ex → ex'.literalCount ≤ ex.literalCount := by
  obtain ⟨svc, hsvc, rt, hrt, h1, h2, final, wex, wc, hwex, hwm, ex0, _, _, hex0, _, _, hmax⟩ :=
    routeJsr_selected_max E h
  refine ⟨svc, hsvc, rt, hrt, h1, h2, final, wex, wc, hwex, hwm, ?_⟩
  intro rt' hrt' ex' caps' f' hex' hm' hf' hel' ex hex
  rw [hex0] at hex
  cases hex
  exact hmax rt' hrt' ex' caps' f' hex' hm' hf' hel'

/-! ### (J3) literal roots: the longest matching root is dispatched to -/

/-- **C03 (RouterJSR311), service level, literal roots**: among roots without variables, every
    matching root has at most as many literal characters as the one dispatched to -/
theorem C03_jsr_literal_root_longest (E : ReEnv) (svcs : List Service) (path : Str) (svc : Service) (final : Str)
    (hlit : ∀ s ∈ svcs, ∀ ex, Jsr.compile s.rootPath = some ex → ∀ t ∈ ex.toks, ∃ l, t = .lit l)
    (h : Jsr.detectDispatcher E svcs path = some (some (svc, final))) :
    ∀ s' ∈ svcs, ∀ ex' caps' f', Jsr.compile s'.rootPath = some ex' → Jsr.matchExpr E ex'.toks path = some (caps', f') →
      ∀ ex, Jsr.compile svc.rootPath = some ex → ex'.literalCount ≤ ex.literalCount := by
  obtain ⟨_, hsvc, c, hc, _, hmax⟩ := Jsr.detectDispatcher_some_some E h
  intro s' hs' ex' caps' f' hex' hm' ex hex
  obtain ⟨ex0, caps, hex0, hm, hceq⟩ := Jsr.dcandOf_some E hc
  rw [hex] at hex0
  cases hex0
  have hl := Jsr.allLit_counts E hex (hlit svc hsvc ex hex)
  have hl' := Jsr.allLit_counts E hex' (hlit s' hs' ex' hex')
  have hcaps := hl.2 _ _ _ hm
  have hcaps' := hl'.2 _ _ _ hm'
  have := hmax s' hs' _ (Jsr.dcandOf_of E hex' hm')
  rw [hceq, Jsr.dispCandLess_eq_false_iff] at this
  simp only [hcaps, hcaps', hl.1, hl'.1, List.length_nil] at this
  omega

/-! ### (J4) order independence for literal roots -/

theorem Jsr.extract_congr {s s' : Service} (h : s.rootPath = s'.rootPath) (r : Route) (p : Str) :
    Jsr.extract E s r p = Jsr.extract E s' r p := by
  unfold Jsr.extract
  rw [h]

/-- for a route list whose (method, path) pairs are distinct, what happens after the dispatcher is
    detected does not depend on the order of the routes -/
theorem jsrAfterSvc_perm (svc : Service) {routes routes' : List Route} (hp : routes.Perm routes')
    (hd : routes.Pairwise (fun a b => a.method = b.method → a.path ≠ b.path)) (final : Str) (req : Req) :
    Spec.sameOutcome (jsrAfterSvc E svc routes final req) (jsrAfterSvc E svc routes' final req) := by
  have hcp := Jsr.routeCandidates_perm E hp final
  unfold jsrAfterSvc
  cases hc : Jsr.routeCandidates E routes final with
  | none =>
    cases hc' : Jsr.routeCandidates E routes' final with
    | none => simp [Spec.sameOutcome]
    | some cs' => simp [hc, hc'] at hcp
  | some cs =>
    cases hc' : Jsr.routeCandidates E routes' final with
    | none => simp [hc, hc'] at hcp
    | some cs' =>
      simp only [hc, hc'] at hcp
      simp only
      have hcs := Jsr.routeCandidates_some E hc
      have hcs' := Jsr.routeCandidates_some E hc'
      obtain ⟨hmp, h4⟩ := sorted_eligible_eq (·.route) Jsr.routeCandLess Jsr.routeCandLess_trans
        Jsr.routeCandLess_asymm hcp req (by
          intro a ha b hb hab hba hea heb
          rw [hcs, List.mem_filterMap] at ha
          rw [hcs', List.mem_filterMap] at hb
          obtain ⟨ra, hra, hca⟩ := ha
          obtain ⟨rb, hrb, hcb⟩ := hb
          have ea := (Jsr.rcandOf_some E hca).1
          have eb := (Jsr.rcandOf_some E hcb).1
          have hkey := Jsr.routeCandLess_antisymm a b hab hba
          simp only [Spec.eligible, Bool.and_eq_true, decide_eq_true_eq] at hea heb
          rw [ea] at hea
          rw [eb] at heb
          have hpath : ra.path = rb.path := by rw [← ea, ← eb]; exact hkey.2.2.2
          have hroute : ra = rb := by
            apply pairwise_eq_of_not hd hra (hp.symm.subset hrb)
            · intro hn; exact hn (by rw [← hea.1.1.2, ← heb.1.1.2]) hpath
            · intro hn; exact hn (by rw [← hea.1.1.2, ← heb.1.1.2]) hpath.symm
          subst hroute
          rw [hca] at hcb
          exact Option.some.inj hcb)
      exact finishWith_perm _ hmp req h4

/-- services that `CfgPerm` pairs produce the same dispatcher candidate up to the service itself -/
theorem Jsr.dcandOf_congr {s s' : Service} (h : s.rootPath = s'.rootPath) (path : Str) :
    Jsr.dcandOf E path s' = (Jsr.dcandOf E path s).map (fun c => { c with svc := s' }) := by
  unfold Jsr.dcandOf
  rw [h]
  cases Jsr.compile s'.rootPath with
  | none => rfl
  | some ex =>
    simp only
    cases Jsr.matchExpr E ex.toks path with
    | none => rfl
    | some cf => rfl

/-- the key of a dispatcher candidate with an all-literal root is (2, literalCount, 0) -/
theorem Jsr.dcandOf_allLit {path : Str} {s : Service} {c : Jsr.DispCand} (hc : Jsr.dcandOf E path s = some c)
    (hlit : ∀ ex, Jsr.compile s.rootPath = some ex → ∀ t ∈ ex.toks, ∃ l, t = .lit l) :
    c.matchesCount = 2 ∧ c.nonDefaultCount = 0 ∧ ∃ ex caps, Jsr.compile s.rootPath = some ex ∧
      Jsr.matchExpr E ex.toks path = some (caps, c.finalMatch) ∧ c.literalCount = ex.literalCount := by
  obtain ⟨ex, caps, hex, hm, hceq⟩ := Jsr.dcandOf_some E hc
  have hl := Jsr.allLit_counts E hex (hlit ex hex)
  have hcaps := hl.2 _ _ _ hm
  rw [hceq]
  simp only [hcaps, hl.1, List.length_nil]
  exact ⟨trivial, trivial, ex, caps, hex, hm, rfl⟩

/-- under `jsrRootsSeparate`, with literal roots, the dispatcher is the same (up to the order of
    its routes) for every order of registration -/
theorem detectDispatcher_perm {cfg cfg' : Config} (hperm : Spec.CfgPerm cfg cfg') (req : Req)
    (hlit : ∀ s ∈ cfg.services, ∀ ex, Jsr.compile s.rootPath = some ex → ∀ t ∈ ex.toks, ∃ l, t = .lit l)
    (hsep : Spec.jsrRootsSeparate E cfg req) :
    match Jsr.detectDispatcher E cfg.services req.path, Jsr.detectDispatcher E cfg'.services req.path with
    | none, none => True
    | some none, some none => True
    | some (some (s, f)), some (some (s', f')) =>
      s ∈ cfg.services ∧ s.rootPath = s'.rootPath ∧ s.built.Perm s'.built ∧ f = f'
    | _, _ => False := by
  obtain ⟨_, svcs, hsp, hf⟩ := hperm
  -- transport along the pairing
  have toR : ∀ s ∈ cfg.services, ∃ s' ∈ cfg'.services, s.rootPath = s'.rootPath ∧ s.built.Perm s'.built := by
    intro s hs
    obtain ⟨s', hs', hrel⟩ := Spec.Forall2.left hf s (hsp.symm.subset hs)
    exact ⟨s', hs', built_perm_of_rel hrel⟩
  have toL : ∀ s' ∈ cfg'.services, ∃ s ∈ cfg.services, s.rootPath = s'.rootPath ∧ s.built.Perm s'.built := by
    intro s' hs'
    obtain ⟨s, hs, hrel⟩ := Spec.Forall2.right hf s' hs'
    exact ⟨s, hsp.subset hs, built_perm_of_rel hrel⟩
  by_cases hfail : ∃ s ∈ cfg.services, Jsr.compile s.rootPath = none
  · -- a root that does not compile
    have hfail' : ∃ s ∈ cfg'.services, Jsr.compile s.rootPath = none := by
      obtain ⟨s, hs, hc⟩ := hfail
      obtain ⟨s', hs', hr, _⟩ := toR s hs
      exact ⟨s', hs', hr ▸ hc⟩
    rw [Jsr.detectDispatcher_none E hfail, Jsr.detectDispatcher_none E hfail']
    trivial
  · have hfail' : ¬ ∃ s ∈ cfg'.services, Jsr.compile s.rootPath = none := by
      rintro ⟨s', hs', hc⟩
      obtain ⟨s, hs, hr, _⟩ := toL s' hs'
      exact hfail ⟨s, hs, hr ▸ hc⟩
    by_cases hmatch : ∀ s ∈ cfg.services, Jsr.dcandOf E req.path s = none
    · -- no root matches
      have hmatch' : ∀ s ∈ cfg'.services, Jsr.dcandOf E req.path s = none := by
        intro s' hs'
        obtain ⟨s, hs, hr, _⟩ := toL s' hs'
        rw [Jsr.dcandOf_congr E hr, hmatch s hs]
        rfl
      rw [Jsr.detectDispatcher_some_none E hfail hmatch, Jsr.detectDispatcher_some_none E hfail' hmatch']
      trivial
    · -- some root matches: both detect a dispatcher
      have hex : ∃ s ∈ cfg.services, ∃ c, Jsr.dcandOf E req.path s = some c := by
        apply Classical.byContradiction
        intro hn
        apply hmatch
        intro s hs
        cases hd : Jsr.dcandOf E req.path s with
        | none => rfl
        | some c => exact absurd ⟨s, hs, c, hd⟩ hn
      obtain ⟨s1, hs1, c1, hc1⟩ := hex
      obtain ⟨s1', hs1', hr1, _⟩ := toR s1 hs1
      have hc1' : Jsr.dcandOf E req.path s1' = some { c1 with svc := s1' } := by
        rw [Jsr.dcandOf_congr E hr1, hc1]; rfl
      obtain ⟨svc, final, hd⟩ := Jsr.detectDispatcher_isSome E hfail hs1 hc1
      obtain ⟨svc', final', hd'⟩ := Jsr.detectDispatcher_isSome E hfail' hs1' hc1'
      rw [hd, hd']
      simp only
      obtain ⟨_, hsvc, c, hc, hcf, hmax⟩ := Jsr.detectDispatcher_some_some E hd
      obtain ⟨_, hsvc', c', hc', hcf', hmax'⟩ := Jsr.detectDispatcher_some_some E hd'
      -- the partner of `svc'` in `cfg`, and the partner of `svc` in `cfg'`
      obtain ⟨s0, hs0, hr0, hb0⟩ := toL svc' hsvc'
      obtain ⟨t0, ht0, hrt0, _⟩ := toR svc hsvc
      have hc0 := Jsr.dcandOf_congr E hr0 req.path
      rw [hc'] at hc0
      cases hd0 : Jsr.dcandOf E req.path s0 with
      | none => rw [hd0] at hc0; simp at hc0
      | some c0 =>
        rw [hd0] at hc0
        simp only [Option.map_some, Option.some.injEq] at hc0
        have hct0 : Jsr.dcandOf E req.path t0 = some { c with svc := t0 } := by
          rw [Jsr.dcandOf_congr E hrt0, hc]; rfl
        -- keys
        obtain ⟨m, n, ex, caps, hex, hm, hl⟩ := Jsr.dcandOf_allLit E hc (hlit svc hsvc)
        obtain ⟨m0, n0, ex0, caps0, hex0, hm0, hl0⟩ := Jsr.dcandOf_allLit E hd0 (hlit s0 hs0)
        have le1 := hmax s0 hs0 c0 hd0
        have le2 := hmax' t0 ht0 _ hct0
        rw [Jsr.dispCandLess_eq_false_iff] at le1 le2
        rw [hc0] at le2
        simp only at le2
        have hleq : ex.literalCount = ex0.literalCount := by omega
        have hss0 : svc = s0 := by
          apply pairwise_eq_of_not hsep hsvc hs0
          · intro hn; exact hn _ _ _ _ _ _ hex hex0 hm hm0 hleq
          · intro hn; exact hn _ _ _ _ _ _ hex0 hex hm0 hm hleq.symm
        subst hss0
        refine ⟨hsvc, hr0, hb0, ?_⟩
        rw [hd0] at hc
        cases hc
        rw [← hcf, ← hcf', hc0]

/-- **C03 (RouterJSR311), order independence for literal roots**: for a route table whose
    (method, template) pairs are distinct within each WebService, whose root paths contain no
    variables, and a request on which no two matching roots have the same number of literal
    characters, the outcome is the same for every order of registration -/
theorem C03_jsr_order (E : ReEnv) (cfg cfg' : Config) (hperm : Spec.CfgPerm cfg cfg')
    (hd : Spec.distinctMethodPath cfg) (req : Req)
    (hlit : ∀ s ∈ cfg.services, ∀ ex, Jsr.compile s.rootPath = some ex → ∀ t ∈ ex.toks, ∃ l, t = .lit l)
    (hsep : Spec.jsrRootsSeparate E cfg req) :
    Spec.sameOutcome (routeJsr E cfg req).1 (routeJsr E cfg' req).1 := by
  have hdet := detectDispatcher_perm E hperm req hlit hsep
  rw [routeJsr_fst, routeJsr_fst]
  cases h1 : Jsr.detectDispatcher E cfg.services req.path with
  | none =>
    cases h2 : Jsr.detectDispatcher E cfg'.services req.path with
    | none => simp [Spec.sameOutcome]
    | some d' => cases d' <;> simp [h1, h2] at hdet
  | some d =>
    cases d with
    | none =>
      cases h2 : Jsr.detectDispatcher E cfg'.services req.path with
      | none => simp [h1, h2] at hdet
      | some d' =>
        cases d' with
        | none => simp [Spec.sameOutcome]
        | some x' => simp [h1, h2] at hdet
    | some x =>
      obtain ⟨s, f⟩ := x
      cases h2 : Jsr.detectDispatcher E cfg'.services req.path with
      | none => simp [h1, h2] at hdet
      | some d' =>
        cases d' with
        | none => simp [h1, h2] at hdet
        | some x' =>
          obtain ⟨s', f'⟩ := x'
          simp only [h1, h2] at hdet
          obtain ⟨hs, hroot, hbuilt, hff⟩ := hdet
          subst hff
          simp only
          have e : jsrAfterSvc E s' s'.built f req = jsrAfterSvc E s s'.built f req := by
            unfold jsrAfterSvc
            have : (fun r => Jsr.extract E s' r req.path) = (fun r => Jsr.extract E s r req.path) := by
              funext r; exact (Jsr.extract_congr E hroot r req.path).symm
            rw [this]
          rw [e]
          exact jsrAfterSvc_perm E s hbuilt (hd s hs) f req

end Restful

/-! ### (J2') never less specific, on structured templates -/
namespace Restful
open Str

namespace Jsr
variable (E : ReEnv)

/-- literal characters of a structured relative template, as RouterJSR311 counts them -/
def jlit (ts : List TTok) : Nat := ((ts.map ofTTok).map litLen).sum

theorem jlit_cons (t : TTok) (ts : List TTok) : jlit (t :: ts) = litLen (ofTTok t) + jlit ts := by
  simp [jlit]

/-- `compile` succeeds on a path whose non-empty tokens read as a structured template -/
theorem compile_of_readToks' {p : Str} {a : List TTok}
    (hr : readToks (Spec.nonEmptyToks p) = some a) (hj : ∀ t ∈ a, Spec.tokJsrOK t = true) :
    ∃ ex, compile p = some ex ∧ ex.toks = a.map ofTTok ∧ ex.literalCount = jlit a := by
  have ⟨hrender, hwf⟩ := readToks_render hr
  unfold compile
  rw [parseToks_filter]
  have : (tokenize p).filter (fun t => !t.isEmpty) = a.map TTok.render := by
    rw [hrender]; rfl
  rw [this, parseToks_render a hwf hj]
  exact ⟨_, rfl, rfl, rfl⟩

/-- a token that is not the tail wildcard consumes exactly one segment; a literal is that segment -/
theorem matchExpr_step {t : TTok} (hw : t.wf = true) (hj : Spec.tokJsrOK t = true)
    (hnw : t.base.isWild = false) {rest : List JTok} {r : Str} {x : List Str × Str}
    (h : matchExpr E (ofTTok t :: rest) ('/' :: r) = some x) :
    (∃ y, matchExpr E rest (r.dropWhile (· != '/')) = some y) ∧
      (∀ l, t.base = .lit l → l = r.takeWhile (· != '/')) := by
  obtain ⟨base, verb⟩ := t
  simp only [TTok.wf, Bool.and_eq_true] at hw
  cases base with
  | lit l =>
    simp only [ofTTok, ofTok, matchExpr] at h
    split at h
    · rename_i hpre
      have hlit : litOK l = true := by simpa [Tok.wf] using hw.1
      obtain ⟨_, hns, _⟩ := litOK_spec hlit
      rw [List.isPrefixOf_iff_prefix] at hpre
      obtain ⟨r1, rfl⟩ := hpre
      rw [List.drop_left] at h
      have hst := matchExpr_some_starts E h
      have := takeWhile_ne_append hns hst
      rw [this.1, this.2]
      refine ⟨⟨x, h⟩, ?_⟩
      intro l' hl'
      cases hl'
      rfl
    · simp at h
  | var n =>
    simp only [ofTTok, ofTok, matchExpr] at h
    split at h
    · simp at h
    · cases hm : matchExpr E rest (List.dropWhile (fun x => x != '/') r) with
      | none => simp [hm] at h
      | some y => exact ⟨⟨y, rfl⟩, by intro l hl; cases hl⟩
  | re n e =>
    simp only [ofTTok, ofTok, matchExpr] at h
    split at h
    · cases hm : matchExpr E rest (List.dropWhile (fun x => x != '/') r) with
      | none => simp [hm] at h
      | some y => exact ⟨⟨y, rfl⟩, by intro l hl; cases hl⟩
    · simp at h
  | suf n sfx => simp [Spec.tokJsrOK] at hj
  | wild n => simp [Tok.isWild] at hnw

theorem litLen_ofTTok (t : TTok) :
    litLen (ofTTok t) = match t.base with
      | .lit l => l.length
      | _ => 0 := by
  obtain ⟨base, verb⟩ := t
  cases base <;> rfl

/-- two structured templates of the same shape that both match the same remainder: the one with
    literals where the other has variables has more literal characters -/
theorem jlit_align : ∀ (ts' ts : List TTok) (rem : Str),
    (∀ t ∈ ts', t.wf = true) → (∀ t ∈ ts', Spec.tokJsrOK t = true) →
    (∀ t ∈ ts, t.wf = true) → (∀ t ∈ ts, Spec.tokJsrOK t = true) →
    Spec.atLeastAsSpecific ts' ts = true →
    (∃ x, matchExpr E (ts'.map ofTTok) rem = some x) → (∃ x, matchExpr E (ts.map ofTTok) rem = some x) →
    jlit ts ≤ jlit ts' ∧ (Spec.someStrict ts' ts = true → jlit ts < jlit ts')
  | [], [], _, _, _, _, _, _, _, _ => by simp [Spec.someStrict]
  | [], _ :: _, _, _, _, _, _, h, _, _ => by simp [Spec.atLeastAsSpecific] at h
  | _ :: _, [], _, _, _, _, _, h, _, _ => by simp [Spec.atLeastAsSpecific] at h
  | t' :: ts', t :: ts, rem, hw', hj', hw, hj, hal, ⟨x', hm'⟩, ⟨x, hm⟩ => by
    rw [Spec.atLeastAsSpecific, Bool.and_eq_true] at hal
    obtain ⟨hta, hal⟩ := hal
    simp only [Spec.tokAtLeast, Bool.and_eq_true, Bool.or_eq_true, Bool.not_eq_true', beq_iff_eq] at hta
    obtain ⟨⟨_, hlitrel⟩, hwild⟩ := hta
    simp only [List.map_cons] at hm' hm
    obtain ⟨r, rfl⟩ := matchExpr_cons_some E hm'
    have hwt' := hw' t' List.mem_cons_self
    have hwt := hw t List.mem_cons_self
    have hjt' := hj' t' List.mem_cons_self
    have hjt := hj t List.mem_cons_self
    rw [jlit_cons, jlit_cons]
    simp only [Spec.someStrict, Spec.tokStrict, Bool.or_eq_true, Bool.and_eq_true, Bool.not_eq_true']
    cases hwl : t'.base.isWild with
    | true =>
      -- both are the tail wildcard, hence last
      have hwl2 : t.base.isWild = true := by rw [← hwild]; exact hwl
      have hb' : ∃ n, t'.base = .wild n := by
        cases hb : t'.base <;> simp [hb, Tok.isWild] at hwl
        exact ⟨_, rfl⟩
      have hb : ∃ n, t.base = .wild n := by
        cases hb : t.base <;> simp [hb, Tok.isWild] at hwl2
        exact ⟨_, rfl⟩
      obtain ⟨n', hb'⟩ := hb'
      obtain ⟨n, hb⟩ := hb
      have e' : ts' = [] := by
        cases ts' with
        | nil => rfl
        | cons a as => simp [ofTTok, hb', ofTok, matchExpr] at hm'
      have e : ts = [] := by
        cases ts with
        | nil => rfl
        | cons a as => simp [ofTTok, hb, ofTok, matchExpr] at hm
      subst e' e
      rw [litLen_ofTTok, litLen_ofTTok, hb', hb]
      simp [jlit, Spec.TTok.isLit, hb', Tok.name?, Spec.someStrict]
    | false =>
      have hwl2 : t.base.isWild = false := by rw [← hwild]; exact hwl
      obtain ⟨⟨y', hy'⟩, hl'⟩ := matchExpr_step E hwt' hjt' hwl hm'
      obtain ⟨⟨y, hy⟩, hl⟩ := matchExpr_step E hwt hjt hwl2 hm
      have ih := jlit_align ts' ts _ (fun a ha => hw' a (List.mem_cons_of_mem _ ha))
        (fun a ha => hj' a (List.mem_cons_of_mem _ ha)) (fun a ha => hw a (List.mem_cons_of_mem _ ha))
        (fun a ha => hj a (List.mem_cons_of_mem _ ha)) hal ⟨y', hy'⟩ ⟨y, hy⟩
      rw [litLen_ofTTok, litLen_ofTTok]
      simp only [Spec.TTok.isLit] at hlitrel ⊢
      cases hb' : t'.base with
      | lit l' =>
        have hl'ne : 0 < l'.length := by
          have : litOK l' = true := by
            have := hwt'
            simp only [TTok.wf, Bool.and_eq_true, hb', Tok.wf] at this
            exact this.1
          exact List.length_pos_iff.mpr (litOK_spec this).1
        cases hb : t.base with
        | lit l =>
          have e1 := hl' l' hb'
          have e2 := hl l hb
          rw [← e2] at e1
          subst e1
          simp only [Tok.name?, Option.isNone_none, Bool.true_eq_false, and_false, false_or]
          refine ⟨by omega, fun hs => ?_⟩
          have := ih.2 hs
          omega
        | var n => simp only [Tok.name?]; simp; omega
        | re n e => simp only [Tok.name?]; simp; omega
        | suf n sfx => simp only [Tok.name?]; simp; omega
        | wild n => simp only [Tok.name?]; simp; omega
      | var n' =>
        cases hb : t.base with
        | lit l => simp [hb', hb, Tok.name?] at hlitrel
        | _ => simp only [Tok.name?]; simp; omega
      | re n' e' =>
        cases hb : t.base with
        | lit l => simp [hb', hb, Tok.name?] at hlitrel
        | _ => simp only [Tok.name?]; simp; omega
      | suf n' s' =>
        cases hb : t.base with
        | lit l => simp [hb', hb, Tok.name?] at hlitrel
        | _ => simp only [Tok.name?]; simp; omega
      | wild n' =>
        cases hb : t.base with
        | lit l => simp [hb', hb, Tok.name?] at hlitrel
        | _ => simp only [Tok.name?]; simp; omega

end Jsr

/-- **C03 (RouterJSR311), never less specific, on structured templates**: no eligible route of the
    dispatched service whose relative template matches the same remainder is more specific than
    the selected one -/
theorem C03_jsr_never_less_specific' (E : ReEnv) (cfg : Config) (req : Req) (s r : Nat) (ps : Params)
    (h : (routeJsr E cfg req).1 = .selected s r ps) :
    ∃ svc ∈ cfg.services, ∃ rt ∈ svc.built, svc.id = s ∧ rt.id = r ∧ ∃ final wex wc, Jsr.compile svc.rootPath = some wex ∧
      Jsr.matchExpr E wex.toks req.path = some (wc, final) ∧
      ∀ rt' ∈ svc.built, ∀ ts ts', readToks (Spec.nonEmptyToks rt.relPath) = some ts →
        readToks (Spec.nonEmptyToks rt'.relPath) = some ts' →
        (∀ t ∈ ts, Spec.tokJsrOK t = true) → (∀ t ∈ ts', Spec.tokJsrOK t = true) →
        ∀ caps' f', Jsr.matchExpr E (ts'.map Jsr.ofTTok) final = some (caps', f') → (f' = [] ∨ f' = ['/']) →
        Spec.eligible rt' req = true → Spec.moreSpecific ts' ts = false := by
  obtain ⟨svc, hsvc, rt, hrt, h1, h2, final, wex, wc, hwex, hwm, ex, caps, f, hex, hm, _, hmax⟩ :=
    routeJsr_selected_max E h
  refine ⟨svc, hsvc, rt, hrt, h1, h2, final, wex, wc, hwex, hwm, ?_⟩
  intro rt' hrt' ts ts' hts hts' hj hj' caps' f' hm' hf' hel'
  obtain ⟨ex0, hex0, htoks, hlc⟩ := Jsr.compile_of_readToks' hts hj
  obtain ⟨ex', hex', htoks', hlc'⟩ := Jsr.compile_of_readToks' hts' hj'
  rw [hex] at hex0
  cases hex0
  have hle := hmax rt' hrt' ex' caps' f' hex' (by rw [htoks']; exact hm') hf' hel'
  cases hms : Spec.moreSpecific ts' ts with
  | false => rfl
  | true =>
    rw [Spec.moreSpecific, Bool.and_eq_true] at hms
    have := (Jsr.jlit_align E ts' ts final (readToks_render hts').2 hj' (readToks_render hts).2 hj hms.1
      ⟨_, hm'⟩ ⟨_, by rw [← htoks]; exact hm⟩).2 hms.2
    omega

end Restful

/-! ### non-vacuity of `C03_jsr_order` -/
namespace Restful.C03JsrExample
open C03Example (rGet E0)

/-- `/users` with `GET /{id}`, `GET /me`, `POST /{id}` -/
def users : Service :=
  { id := 1, root := "/users".toList,
    routes := [rGet 10 "/{id}", rGet 11 "/me", { rGet 12 "/{id}" with method := "POST".toList }] }
def users' : Service :=
  { id := 1, root := "/users".toList,
    routes := [{ rGet 12 "/{id}" with method := "POST".toList }, rGet 11 "/me", rGet 10 "/{id}"] }
/-- `/users/admin` with `GET /{thing}`, `GET /x` -/
def admin : Service := { id := 2, root := "/users/admin".toList, routes := [rGet 20 "/{thing}", rGet 21 "/x"] }
def admin' : Service := { id := 2, root := "/users/admin".toList, routes := [rGet 21 "/x", rGet 20 "/{thing}"] }

def cfg : Config := { router := .jsr, services := [users, admin] }
def cfg' : Config := { router := .jsr, services := [admin', users'] }
/-- both roots match this request; the longer literal root is dispatched to, and there the literal
    route `/x` beats `/{thing}` -/
def req : Req := { method := "GET".toList, path := "/users/admin/x".toList }

theorem cfgPerm : Spec.CfgPerm cfg cfg' := by
  refine ⟨rfl, [admin, users], by decide, ?_⟩
  exact .cons ⟨rfl, rfl, rfl, rfl, by decide⟩ (.cons ⟨rfl, rfl, rfl, rfl, by decide⟩ .nil)

theorem distinct : Spec.distinctMethodPath cfg := by
  unfold Spec.distinctMethodPath
  decide

theorem cUsers : Jsr.compile users.rootPath = some ⟨[.lit "users".toList], 5, [], 0⟩ := by decide
theorem cAdmin : Jsr.compile admin.rootPath = some ⟨[.lit "users".toList, .lit "admin".toList], 10, [], 0⟩ := by decide

theorem literalRoots : ∀ s ∈ cfg.services, ∀ ex, Jsr.compile s.rootPath = some ex → ∀ t ∈ ex.toks, ∃ l, t = .lit l := by
  intro s hs ex hex t ht
  simp only [cfg, List.mem_cons, List.not_mem_nil, or_false] at hs
  rcases hs with rfl | rfl
  · rw [cUsers] at hex
    cases hex
    simp only [List.mem_cons, List.not_mem_nil, or_false] at ht
    exact ⟨_, ht⟩
  · rw [cAdmin] at hex
    cases hex
    simp only [List.mem_cons, List.not_mem_nil, or_false] at ht
    rcases ht with rfl | rfl <;> exact ⟨_, rfl⟩

theorem separate : Spec.jsrRootsSeparate E0 cfg req := by
  unfold Spec.jsrRootsSeparate
  simp only [cfg, List.pairwise_cons, List.mem_cons, List.not_mem_nil, or_false, forall_eq,
    false_imp_iff, implies_true, List.Pairwise.nil, and_true]
  intro exa exb ca fa cb fb ha hb _ _
  rw [cUsers] at ha
  rw [cAdmin] at hb
  cases ha
  cases hb
  decide

/-- the hypotheses of `C03_jsr_order` hold of a concrete pair of configurations and a request on
    which both roots match; the two registrations differ, and the common outcome is the literal
    route `/x` of the longer root `/users/admin` -/
example : Spec.CfgPerm cfg cfg' ∧ Spec.distinctMethodPath cfg ∧ Spec.jsrRootsSeparate E0 cfg req ∧
    cfg ≠ cfg' ∧ (routeJsr E0 cfg req).1 = .selected 2 21 [] ∧
    Jsr.matchExpr E0 [.lit "users".toList] req.path = some ([], "/admin/x".toList) ∧
    Spec.sameOutcome (routeJsr E0 cfg req).1 (routeJsr E0 cfg' req).1 :=
  ⟨cfgPerm, distinct, separate, by decide, by decide, by decide,
    C03_jsr_order E0 cfg cfg' cfgPerm distinct req literalRoots separate⟩

end Restful.C03JsrExample

/-! ### `jsrRootsSeparate` from the property's own exclusion: the root token lists are different -/
namespace Restful
open Str
namespace Jsr
variable (E : ReEnv)

theorem parseTok_lit_eq {each s : Str} (h : parseTok each = some (.lit s)) : s = each := by
  unfold parseTok at h
  split at h
  · split at h
    · split at h
      · simp only at h
        split at h <;> cases h
      · cases h
    · split at h <;> cases h
  · cases h; rfl

theorem parseToks_lit_ok : ∀ (toks : List Str) (ts : List JTok), parseToks toks = some ts →
    (∀ l ∈ toks, '/' ∉ l) → ∀ s, JTok.lit s ∈ ts → s ≠ [] ∧ '/' ∉ s
  | [], ts, h, _, s, hs => by
    simp only [parseToks, Option.some.injEq] at h
    subst h; simp at hs
  | t :: toks, ts, h, hno, s, hs => by
    unfold parseToks at h
    split at h
    · exact parseToks_lit_ok toks ts h (fun l hl => hno l (List.mem_cons_of_mem _ hl)) s hs
    · rename_i hne
      split at h
      · rename_i j js hj hjs
        simp only [Option.some.injEq] at h
        subst h
        simp only [List.mem_cons] at hs
        rcases hs with hs | hs
        · have := parseTok_lit_eq (hs ▸ hj)
          subst this
          refine ⟨?_, hno _ List.mem_cons_self⟩
          intro h0; subst h0; simp at hne
        · exact parseToks_lit_ok toks js hjs (fun l hl => hno l (List.mem_cons_of_mem _ hl)) s hs
      · cases h

/-- the literals of a compiled template are non-empty and contain no `/`; the literal count is the
    sum of their lengths -/
theorem compile_lit_ok {template : Str} {ex : Expr} (h : compile template = some ex) :
    (∀ s, JTok.lit s ∈ ex.toks → s ≠ [] ∧ '/' ∉ s) ∧ ex.literalCount = (ex.toks.map litLen).sum := by
  unfold compile at h
  cases hp : parseToks (tokenize template) with
  | none => simp [hp] at h
  | some ts =>
    simp only [hp, Option.map_some, Option.some.injEq] at h
    subst h
    exact ⟨parseToks_lit_ok _ _ hp (not_mem_of_mem_tokenize template), rfl⟩

/-- two all-literal token lists that match the same path and have the same number of literal
    characters are the same list -/
theorem allLit_eq_of_match : ∀ (A B : List JTok) (p : Str),
    (∀ t ∈ A, ∃ l, t = .lit l ∧ l ≠ [] ∧ '/' ∉ l) → (∀ t ∈ B, ∃ l, t = .lit l ∧ l ≠ [] ∧ '/' ∉ l) →
    (∃ x, matchExpr E A p = some x) → (∃ x, matchExpr E B p = some x) →
    (A.map litLen).sum = (B.map litLen).sum → A = B
  | [], [], _, _, _, _, _, _ => rfl
  | [], b :: bs, _, _, hB, _, _, hsum => by
    obtain ⟨l, rfl, hne, _⟩ := hB _ List.mem_cons_self
    have : 0 < l.length := List.length_pos_iff.mpr hne
    simp only [List.map_cons, List.map_nil, List.sum_cons, List.sum_nil, litLen] at hsum
    omega
  | a :: as, [], _, hA, _, _, _, hsum => by
    obtain ⟨l, rfl, hne, _⟩ := hA _ List.mem_cons_self
    have : 0 < l.length := List.length_pos_iff.mpr hne
    simp only [List.map_cons, List.map_nil, List.sum_cons, List.sum_nil, litLen] at hsum
    omega
  | a :: as, b :: bs, p, hA, hB, ⟨x, hx⟩, ⟨y, hy⟩, hsum => by
    obtain ⟨la, rfl, _, hsa⟩ := hA _ List.mem_cons_self
    obtain ⟨lb, rfl, _, hsb⟩ := hB _ List.mem_cons_self
    obtain ⟨r, rfl⟩ := matchExpr_cons_some E hx
    simp only [matchExpr] at hx hy
    split at hx
    · rename_i hpa
      split at hy
      · rename_i hpb
        rw [List.isPrefixOf_iff_prefix] at hpa hpb
        obtain ⟨ra, hra⟩ := hpa
        obtain ⟨rb, hrb⟩ := hpb
        rw [← hra, List.drop_left] at hx
        rw [← hrb, List.drop_left] at hy
        have ta := takeWhile_ne_append hsa (matchExpr_some_starts E hx)
        have tb := takeWhile_ne_append hsb (matchExpr_some_starts E hy)
        rw [hra] at ta
        rw [hrb] at tb
        have eab : la = lb := by rw [← ta.1, ← tb.1]
        subst eab
        have erab : ra = rb := by rw [← ta.2, ← tb.2]
        subst erab
        have ih := allLit_eq_of_match as bs ra (fun t ht => hA t (List.mem_cons_of_mem _ ht))
          (fun t ht => hB t (List.mem_cons_of_mem _ ht)) ⟨x, hx⟩ ⟨y, hy⟩
          (by simp only [List.map_cons, List.sum_cons] at hsum; omega)
        rw [ih]
      · simp at hy
    · simp at hx

end Jsr

/-- with literal roots, `jsrRootsSeparate` follows for every request from the property's own
    exclusion: no two WebServices have the same root token list -/
theorem Spec.jsrRootsSeparate_of_distinct (E : ReEnv) (cfg : Config) (req : Req)
    (hlit : ∀ s ∈ cfg.services, ∀ ex, Jsr.compile s.rootPath = some ex → ∀ t ∈ ex.toks, ∃ l, t = .lit l)
    (hdist : cfg.services.Pairwise (fun a b => ∀ exa exb, Jsr.compile a.rootPath = some exa →
      Jsr.compile b.rootPath = some exb → exa.toks ≠ exb.toks)) :
    Spec.jsrRootsSeparate E cfg req := by
  unfold Spec.jsrRootsSeparate
  refine List.Pairwise.imp_of_mem ?_ hdist
  intro a b ha hb hab exa exb ca fa cb fb hexa hexb hma hmb heq
  apply hab exa exb hexa hexb
  have oka := Jsr.compile_lit_ok hexa
  have okb := Jsr.compile_lit_ok hexb
  apply Jsr.allLit_eq_of_match E exa.toks exb.toks req.path
  · intro t ht
    obtain ⟨l, rfl⟩ := hlit a ha exa hexa t ht
    exact ⟨l, rfl, oka.1 l ht⟩
  · intro t ht
    obtain ⟨l, rfl⟩ := hlit b hb exb hexb t ht
    exact ⟨l, rfl, okb.1 l ht⟩
  · exact ⟨_, hma⟩
  · exact ⟨_, hmb⟩
  · rw [← oka.2, ← okb.2]; exact heq

/-- **C03 (RouterJSR311), order independence for literal roots**, with the property's own
    exclusions only: (method, template) pairs distinct within each WebService, root paths without
    variables and with pairwise different token lists -/
theorem C03_jsr_order_distinct (E : ReEnv) (cfg cfg' : Config) (hperm : Spec.CfgPerm cfg cfg')
    (hd : Spec.distinctMethodPath cfg) (req : Req)
    (hlit : ∀ s ∈ cfg.services, ∀ ex, Jsr.compile s.rootPath = some ex → ∀ t ∈ ex.toks, ∃ l, t = .lit l)
    (hdist : cfg.services.Pairwise (fun a b => ∀ exa exb, Jsr.compile a.rootPath = some exa →
      Jsr.compile b.rootPath = some exb → exa.toks ≠ exb.toks)) :
    Spec.sameOutcome (routeJsr E cfg req).1 (routeJsr E cfg' req).1 :=
  C03_jsr_order E cfg cfg' hperm hd req hlit (Spec.jsrRootsSeparate_of_distinct E cfg req hlit hdist)

end Restful
