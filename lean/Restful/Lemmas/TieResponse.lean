/-
The tie between the translated decision functions (Gen/Translated.lean, regenerated from the Go
sources by tools/gotrans on every run) and the hand-written models: the model's definitions ARE
the translated ones, for all arguments.  A change to one of these Go functions changes the
generated definition and breaks the corresponding theorem here at compile time.  One file per
group of properties, so that a change breaks the obligations of the properties it concerns only.
This file: Response accessors (C15).
-/
import Restful.Gen.Translated
import Restful.Model.Response
namespace Restful
namespace Tie
open Translated

/-- response.go `Response.StatusCode()` -/
theorem response_status_code (st : Resp.State) :
    Response_StatusCode st.statusCode = (st.StatusCode : Int) := by
  unfold Response_StatusCode Resp.State.StatusCode
  by_cases h : st.statusCode = 0
  · simp [h]
  · have : ((0 : Int) == (st.statusCode : Int)) = false := by
      simp only [beq_eq_false_iff_ne, ne_eq]
      omega
    simp [this, h]

end Tie
end Restful
