/-
A toy instance of `CodecLaws` (Model/Entity.lean): the hypotheses under which C16 is proved are
satisfiable, and the model can be evaluated by `decide` on it (non-vacuity examples and the
regressions `C16_F62_fixed` and `C16_F61_fixed` in Props/C16.lean).
-/
import Restful.Model.Entity
namespace Restful
namespace Entity
open Str

namespace Toy

/-- three values; `big1` is to `big` what 2^53+1 is to 2^53: a reader without UseNumber conflates them -/
inductive V where
  | small | big | big1
  deriving DecidableEq, Repr

def V.ch : V → Char
  | .small => 's'
  | .big => 'b'
  | .big1 => 'c'

def V.ofCh (useNumber : Bool) (c : Char) : Option V :=
  if c = 's' then some .small else if c = 'b' then some .big
  else if c = 'c' then some (if useNumber then .big1 else .big) else none

def encJson (pretty : Bool) (v : V) : Bytes := (if pretty then [' ', ' '] else []) ++ ['{', v.ch, '}', '\n']
/-- like json.Decoder: skips blanks, stops after the first complete document, never looks at the rest
    of the stream nor at how it ends -/
def decJson (useNumber : Bool) (s : Stream) : Option V :=
  match s.data.dropWhile (· == ' ') with
  | '{' :: c :: '}' :: _ => V.ofCh useNumber c
  | _ => none
def encXml (pretty : Bool) (v : V) : Bytes := (if pretty then ['?'] else []) ++ ['<', v.ch, '>']
def decXml (s : Stream) : Option V :=
  match s.data.dropWhile (· == '?') with
  | '<' :: c :: '>' :: _ => V.ofCh true c
  | _ => none
/-- header byte, payload, one trailer byte standing for the checksum -/
def gz (b : Bytes) : Bytes := 'G' :: (b ++ ['#'])
def ungz : Bytes → Stream
  | 'G' :: rest => if rest.getLast? = some '#' then ⟨rest.dropLast, true⟩ else ⟨rest, false⟩
  | _ => ⟨[], false⟩
def zl (b : Bytes) : Bytes := 'Z' :: (b ++ ['%'])
def unzl : Bytes → Option Stream
  | 'Z' :: rest => some (if rest.getLast? = some '%' then ⟨rest.dropLast, true⟩ else ⟨rest, false⟩)
  | _ => none

def codec : Codec V :=
  { encJson := encJson, encXml := encXml, decJson := decJson, decXml := decXml, gz := gz, zl := zl,
    ungz := ungz, unzl := unzl,
    gzRead := fun r => ungz r.src,     -- a reader object that obeys the Reset law,
    gzLeft := fun r => r.src,          -- keeps its last source as residue
    gzEnd := fun r => '$' :: r.residue }   -- and remembers having been read to the end

/-- the hypotheses of C16 are satisfiable -/
def laws : CodecLaws V :=
  { codec with
    json_round := by intro p v; cases p <;> cases v <;> rfl
    xml_round := by intro p v; cases p <;> cases v <;> rfl
    gz_round := by intro b; simp [codec, gz, ungz]
    zl_round := by intro b; simp [codec, zl, unzl]
    reset_law := by intro r body; rfl }

/-- a reader object that does NOT obey the Reset law: once used, it keeps failing -/
def stickyCodec : Codec V := { codec with gzRead := fun r => if r.residue.isEmpty then ungz r.src else ⟨[], false⟩ }

end Toy

end Entity
end Restful
