/- membership facts about RouterJSR311's candidate selection -/
import Restful.Model.Jsr
namespace Restful
namespace Jsr
variable (E : ReEnv)

theorem routeCandidates_mem : ∀ {routes : List Route} {rem : Str} {cs : List RouteCand},
    routeCandidates E routes rem = some cs → ∀ c ∈ cs,
      c.route ∈ routes ∧ ∃ ex caps final, compile c.route.relPath = some ex ∧
        matchExpr E ex.toks rem = some (caps, final) ∧ (final = [] ∨ final = ['/'])
  | [], rem, cs, h, c, hc => by
    simp only [routeCandidates, Option.some.injEq] at h
    subst h; simp at hc
  | r :: rs, rem, cs, h, c, hc => by
    unfold routeCandidates at h
    split at h
    · simp at h
    · rename_i ex hex
      split at h
      · rename_i caps final hm
        split at h
        · rename_i hfin
          cases hrec : routeCandidates E rs rem with
          | none => simp [hrec] at h
          | some cs' =>
            simp only [hrec, Option.map_some, Option.some.injEq] at h
            subst h
            simp only [List.mem_cons] at hc
            rcases hc with rfl | hc
            · refine ⟨List.mem_cons_self, ex, caps, final, hex, hm, ?_⟩
              simp only [Bool.or_eq_true, List.isEmpty_iff, decide_eq_true_eq] at hfin
              exact hfin
            · have := routeCandidates_mem hrec c hc
              exact ⟨List.mem_cons_of_mem _ this.1, this.2⟩
        · have := routeCandidates_mem h c hc
          exact ⟨List.mem_cons_of_mem _ this.1, this.2⟩
      · have := routeCandidates_mem h c hc
        exact ⟨List.mem_cons_of_mem _ this.1, this.2⟩

theorem selectRoutes_mem {routes : List Route} {rem : Str} {l : List Route}
    (h : selectRoutes E routes rem = some l) {r : Route} (hr : r ∈ l) :
    r ∈ routes ∧ ∃ ex caps final, compile r.relPath = some ex ∧
      matchExpr E ex.toks rem = some (caps, final) ∧ (final = [] ∨ final = ['/']) := by
  unfold selectRoutes at h
  cases hc : routeCandidates E routes rem with
  | none => simp [hc] at h
  | some cs =>
    simp only [hc, Option.map_some, Option.some.injEq] at h
    subst h
    simp only [List.mem_map] at hr
    obtain ⟨c, hcm, rfl⟩ := hr
    have hcm' : c ∈ cs := (Sort.insertionSort_perm routeCandLess cs).subset hcm
    exact routeCandidates_mem E hc c hcm'

theorem dispCandidates_mem : ∀ {svcs : List Service} {path : Str} {cs : List DispCand},
    dispCandidates E svcs path = some cs → ∀ c ∈ cs,
      c.svc ∈ svcs ∧ ∃ ex caps, compile c.svc.rootPath = some ex ∧
        matchExpr E ex.toks path = some (caps, c.finalMatch)
  | [], path, cs, h, c, hc => by
    simp only [dispCandidates, Option.some.injEq] at h
    subst h; simp at hc
  | s :: ss, path, cs, h, c, hc => by
    unfold dispCandidates at h
    split at h
    · simp at h
    · rename_i ex hex
      split at h
      · rename_i caps final hm
        cases hrec : dispCandidates E ss path with
        | none => simp [hrec] at h
        | some cs' =>
          simp only [hrec, Option.map_some, Option.some.injEq] at h
          subst h
          simp only [List.mem_cons] at hc
          rcases hc with rfl | hc
          · exact ⟨List.mem_cons_self, ex, caps, hex, hm⟩
          · have := dispCandidates_mem hrec c hc
            exact ⟨List.mem_cons_of_mem _ this.1, this.2⟩
      · have := dispCandidates_mem h c hc
        exact ⟨List.mem_cons_of_mem _ this.1, this.2⟩

theorem detectDispatcher_mem {svcs : List Service} {path : Str} {svc : Service} {final : Str}
    (h : detectDispatcher E svcs path = some (some (svc, final))) :
    svc ∈ svcs ∧ ∃ ex caps, compile svc.rootPath = some ex ∧ matchExpr E ex.toks path = some (caps, final) := by
  unfold detectDispatcher at h
  cases hc : dispCandidates E svcs path with
  | none => simp [hc] at h
  | some cs =>
    simp only [hc, Option.map_some, Option.some.injEq] at h
    split at h
    · simp at h
    · rename_i c rest heq
      simp only [Option.some.injEq, Prod.mk.injEq] at h
      obtain ⟨rfl, rfl⟩ := h
      have hcm : c ∈ cs := (Sort.insertionSort_perm dispCandLess cs).subset (heq ▸ List.mem_cons_self)
      exact dispCandidates_mem E hc c hcm

end Jsr
end Restful
