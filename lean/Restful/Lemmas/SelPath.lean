/-
The selected-route path that filters and the handler see (`Request.SelectedRoutePath()`), in the
serve model: container.go:214 `dispatch` stores the selected route in the Request; the model
(Model/Serve.lean `dispatch`, Spec/Serve.lean `chainOf`) looks the path up by the identity
(service id, route id) of the routing outcome.  Under `Spec.idsDistinct` that lookup returns the
path of the route OBJECT the router returned (`selPathOf_ran`), and every stage of the chain sees
that path — or none, inside a Request a `replace` filter created (`chainLog_selPath`).
-/
import Restful.Lemmas.Chain
import Restful.Lemmas.RouteUnique
namespace Restful
open Str
namespace Serve
namespace Chain
open Spec

/-- `Request.SelectedRoutePath()` as the serve model sets it for the identity `(svc, rid)` -/
def selPathOf (cfg : Config) (svc rid : Nat) : Str :=
  match (cfg.services.flatMap (·.built)).find? (fun r => r.id == rid && r.svc == svc) with
  | some r => r.path
  | none => []

/-- under `idsDistinct` the lookup by identity finds the declaration itself -/
theorem selPathOf_of_mem {cfg : Config} (hids : Spec.idsDistinct cfg = true) {svc : Service}
    (hsvc : svc ∈ cfg.services) {rt : Route} (hrt : rt ∈ svc.built) :
    selPathOf cfg svc.id rt.id = rt.path := by
  unfold selPathOf
  rw [find?_of_unique (fun r => r.id == rt.id && r.svc == svc.id) (a := rt)
    (List.mem_flatMap.mpr ⟨svc, hsvc, hrt⟩) (by simp [Service.built_svc svc hrt])]
  intro b hb hp
  simp only [Bool.and_eq_true, beq_iff_eq] at hp
  obtain ⟨svc', hsvc', hb'⟩ := List.mem_flatMap.mp hb
  have hs : svc' = svc := Spec.service_unique hids hsvc' hsvc (by rw [← Service.built_svc svc' hb']; exact hp.2)
  subst hs
  exact Spec.route_unique hids hsvc' hb' hrt hp.1

/-- the chain `chainOf` selects for a routed request: all filters of the route's identity around
    its handler, with the parameters of the outcome and the selected path looked up by identity -/
theorem chainOf_selected (E : ReEnv) (cfg : Cfg) (e : Entry) (he : e = .dispatch ∨ e = .serveDispatch)
    (sr : SReq) (hcp : sr.condPanic = none) {s r : Nat} {ps : Params}
    (h : route E cfg.routing sr.req = .selected s r ps) :
    chainOf E cfg e sr =
      some (allFilters cfg s r, ⟨.handler r, (routeX cfg r).script⟩, { params := ps, selPath := selPathOf cfg.routing s r }) := by
  have h' : routeTagged E cfg.routing sr.req = (.selected s r ps, (routeTagged E cfg.routing sr.req).2) := by
    unfold route at h
    rw [← h]
  rcases he with rfl | rfl <;>
  · unfold chainOf
    simp only [hcp, Option.isSome_none, Bool.false_eq_true, if_false]
    rw [h']
    rfl

/-- what `after` (the way back through one filter) preserves -/
theorem after_inv (P : Event → Prop) (v : Str) (ev0 : Event) (inner : List Event) (p : Bool) (cxPanic : Ctx)
    (post : List Event × Ctx × Bool)
    (h0 : P ev0) (hin : ∀ ev ∈ inner, P ev) (hpost : ∀ ev ∈ post.1, P ev)
    (hcp : cxPanic.selPath = v) (hpp : post.2.1.selPath = v) :
    (after ev0 inner p cxPanic post).2.1.selPath = v ∧ ∀ ev ∈ (after ev0 inner p cxPanic post).1, P ev := by
  unfold after
  cases p with
  | true =>
    refine ⟨hcp, ?_⟩
    intro ev hev
    rcases List.mem_cons.mp hev with rfl | hev
    · exact h0
    · exact hin ev hev
  | false =>
    refine ⟨hpp, ?_⟩
    intro ev hev
    rcases List.mem_cons.mp hev with rfl | hev
    · exact h0
    · rcases List.mem_append.mp hev with hev | hev
      · exact hin ev hev
      · exact hpost ev hev

theorem after_events (P : Event → Prop) (ev0 : Event) (inner : List Event) (p : Bool) (cxPanic : Ctx)
    (post : List Event × Ctx × Bool)
    (h0 : P ev0) (hin : ∀ ev ∈ inner, P ev) (hpost : ∀ ev ∈ post.1, P ev) :
    ∀ ev ∈ (after ev0 inner p cxPanic post).1, P ev := by
  unfold after
  intro ev hev
  cases p with
  | true =>
    rcases List.mem_cons.mp hev with rfl | hev
    · exact h0
    · exact hin ev hev
  | false =>
    rcases List.mem_cons.mp hev with rfl | hev
    · exact h0
    · rcases List.mem_append.mp hev with hev | hev
      · exact hin ev hev
      · exact hpost ev hev

theorem postPart_events (st : Stage) (f : Filter) (cxp cxr : Ctx) (P : Event → Prop) (h : P (evOf st true cxp)) :
    ∀ ev ∈ (postPart st f cxp cxr).1, P ev := by
  intro ev hev
  rw [List.mem_singleton.mp hev]
  exact h

/-- the selected path through a chain: the context handed back carries the path unchanged, and
    every stage sees the path the chain was started with, or none (the latter inside a Request
    created by a `replace` filter) -/
theorem chainLog_selPath (fs : List (Stage × Filter)) (t : Target) (cx : Ctx) :
    (chainLog fs t cx).2.1.selPath = cx.selPath ∧
    ∀ ev ∈ (chainLog fs t cx).1, ev.selPath = cx.selPath ∨ ev.selPath = [] := by
  induction fs generalizing cx with
  | nil =>
    rw [chainLog_nil]
    refine ⟨rfl, ?_⟩
    intro ev hev
    rw [List.mem_singleton.mp hev]
    exact .inl rfl
  | cons sf fs ih =>
    obtain ⟨st, f⟩ := sf
    rw [chainLog_cons]
    let P : Event → Prop := fun ev => ev.selPath = cx.selPath ∨ ev.selPath = []
    have h0 : P (evOf st false cx) := .inl rfl
    split
    · refine ⟨rfl, ?_⟩
      intro ev hev
      rw [List.mem_singleton.mp hev]
      exact h0
    · split
      · exact after_inv P _ _ _ _ _ _ h0 (fun _ h => nomatch h) (postPart_events _ _ _ _ P (.inl rfl)) rfl rfl
      · obtain ⟨h1, h2⟩ := ih { cx with attrs := (attrsAfter f.pre cx.attrs).1 }
        exact after_inv P _ _ _ _ _ _ h0 h2 (postPart_events _ _ _ _ P (.inl h1)) h1 h1
      · have h2 := (ih ⟨[("who".toList, (toString f.id).toList)], [], [], f.id :: cx.wrappers⟩).2
        exact after_inv P _ _ _ _ _ _ h0 (fun ev hev => .inr ((h2 ev hev).elim id id))
          (postPart_events _ _ _ _ P (.inl rfl)) rfl rfl
      · obtain ⟨h1, h2⟩ := ih { cx with attrs := (attrsAfter f.pre cx.attrs).1, wrappers := f.id :: cx.wrappers }
        exact after_inv P _ _ _ _ _ _ h0 h2 (postPart_events _ _ _ _ P (.inl h1)) h1 h1

/-- without a `replace` filter in the chain every stage sees the path the chain was started with -/
theorem chainLog_selPath_eq (fs : List (Stage × Filter)) (t : Target) (cx : Ctx)
    (hno : ∀ sf ∈ fs, sf.2.kind ≠ .replace) :
    ∀ ev ∈ (chainLog fs t cx).1, ev.selPath = cx.selPath := by
  induction fs generalizing cx with
  | nil =>
    rw [chainLog_nil]
    intro ev hev
    rw [List.mem_singleton.mp hev]
    rfl
  | cons sf fs ih =>
    obtain ⟨st, f⟩ := sf
    have hno' : ∀ sf ∈ fs, sf.2.kind ≠ .replace := fun sf hsf => hno sf (List.mem_cons_of_mem _ hsf)
    have hk : f.kind ≠ .replace := hno (st, f) (List.mem_cons_self ..)
    rw [chainLog_cons]
    let P : Event → Prop := fun ev => ev.selPath = cx.selPath
    have h0 : P (evOf st false cx) := rfl
    split
    · intro ev hev
      rw [List.mem_singleton.mp hev]
      exact h0
    · split
      · exact after_events P _ _ _ _ _ h0 (fun _ h => nomatch h) (postPart_events _ _ _ _ P rfl)
      · have h1 := (chainLog_selPath fs t { cx with attrs := (attrsAfter f.pre cx.attrs).1 }).1
        exact after_events P _ _ _ _ _ h0 (ih _ hno') (postPart_events _ _ _ _ P h1)
      · rename_i hrep
        exact absurd hrep hk
      · have h1 := (chainLog_selPath fs t { cx with attrs := (attrsAfter f.pre cx.attrs).1, wrappers := f.id :: cx.wrappers }).1
        exact after_events P _ _ _ _ _ h0 (ih _ hno') (postPart_events _ _ _ _ P h1)

/-- the stage that runs first in the chain of a routed request (the outermost filter, or the handler
    when there is no filter) sees the chain's selected path -/
theorem chainLog_head_selPath (fs : List (Stage × Filter)) (t : Target) (cx : Ctx) :
    ∃ ev rest, (chainLog fs t cx).1 = ev :: rest ∧ ev.selPath = cx.selPath := by
  cases fs with
  | nil => rw [chainLog_nil]; exact ⟨_, [], rfl, rfl⟩
  | cons sf fs =>
    obtain ⟨st, f⟩ := sf
    rw [chainLog_cons]
    simp only
    split
    · exact ⟨_, [], rfl, rfl⟩
    · cases f.kind <;> simp only [after] <;> split <;> exact ⟨_, _, rfl, rfl⟩

/-- the log of a routed request through `Dispatch` / `ServeHTTP`: every event that is not the recover
    handler's carries the selected path looked up for the ids of the routing outcome, or none; none
    only when there is a `replace` filter in the chain; the first event always carries it -/
theorem serve_selPath (E : ReEnv) (cfg : Cfg) (e : Entry) (he : e = .dispatch ∨ e = .serveDispatch)
    (w : World) (sr : SReq) (hcp : sr.condPanic = none) {s r : Nat} {ps : Params}
    (h : route E cfg.routing sr.req = .selected s r ps) :
    (∀ ev ∈ (serve E cfg e w sr).log, ev.stage ≠ .recover →
      ev.selPath = selPathOf cfg.routing s r ∨ ev.selPath = []) ∧
    ((∀ sf ∈ allFilters cfg s r, sf.2.kind ≠ .replace) →
      ∀ ev ∈ (serve E cfg e w sr).log, ev.stage ≠ .recover → ev.selPath = selPathOf cfg.routing s r) ∧
    (∃ ev rest, (serve E cfg e w sr).log = ev :: rest ∧ ev.selPath = selPathOf cfg.routing s r) := by
  obtain ⟨rc, hrc, hlog⟩ := serve_log E cfg e w sr
  unfold chainEvents at hlog
  rw [chainOf_selected E cfg e he sr hcp h] at hlog
  simp only at hlog
  obtain ⟨_, h2⟩ := chainLog_selPath (allFilters cfg s r) ⟨.handler r, (routeX cfg r).script⟩
    { params := ps, selPath := selPathOf cfg.routing s r }
  have h3 := chainLog_selPath_eq (allFilters cfg s r) ⟨.handler r, (routeX cfg r).script⟩
    { params := ps, selPath := selPathOf cfg.routing s r }
  refine ⟨?_, ?_, ?_⟩
  · intro ev hev hst
    rw [hlog] at hev
    rcases List.mem_append.mp hev with hev | hev
    · exact h2 ev hev
    · exact absurd (hrc ev hev) hst
  · intro hno ev hev hst
    rw [hlog] at hev
    rcases List.mem_append.mp hev with hev | hev
    · exact h3 hno ev hev
    · exact absurd (hrc ev hev) hst
  · obtain ⟨ev, rest, hc, hp⟩ := chainLog_head_selPath (allFilters cfg s r) ⟨.handler r, (routeX cfg r).script⟩
      { params := ps, selPath := selPathOf cfg.routing s r }
    exact ⟨ev, rest ++ rc, by rw [hlog, hc]; rfl, hp⟩

end Chain
end Serve
end Restful
