import Restful.Lemmas.TieImpVocab
import Restful.Lemmas.TieImpDetect
import Restful.Lemmas.TieImpDetectG
import Restful.Lemmas.TieImpCurlySel
import Restful.Lemmas.TieImpJsrSel
import Restful.Lemmas.TieImpPath
import Restful.Model.Route
namespace Restful
namespace TieImp
open Imp

/-- what `SelectRoute` decides, before the path parameters are extracted: the service (if one was
    detected) and the verdict of `detectRoute`; `.error tag` = a run-time panic (the tag `routeCurly` /
    `routeJsr` report) -/
abbrev Sel := Except String (Option Service × Except (Nat × Option (List Str)) Route)

/-- the selection part of `routeCurly` (Model/Route.lean), verbatim -/
def selCurly (E : ReEnv) (cfg : Config) (req : Req) : Sel :=
  let qs := tokenize req.path
  match Curly.detectWebService E qs cfg.services none with
  | none => .error "curly.score"
  | some none => .ok (none, .error (404, none))
  | some (some (svc, _)) =>
    match Curly.selectRoutes E svc.built qs with
    | none => .error "curly.match"
    | some [] => .ok (some svc, .error (404, none))
    | some cands => .ok (some svc, detectRoute cands req)

/-- the selection part of `routeJsr`, verbatim -/
def selJsr (E : ReEnv) (cfg : Config) (req : Req) : Sel :=
  match Jsr.detectDispatcher E cfg.services req.path with
  | none => .error "jsr.compile"
  | some none => .ok (none, .error (404, none))
  | some (some (svc, final)) =>
    match Jsr.selectRoutes E svc.built final with
    | none => .error "jsr.compile"
    | some [] => .ok (some svc, .error (404, none))
    | some cands => .ok (some svc, detectRoute cands req)

/-- `routeCurly` IS `selCurly` followed by the extraction of the path parameters -/
theorem routeCurly_eq_sel (E : ReEnv) (cfg : Config) (req : Req) :
    (routeCurly E cfg req).1 =
      (match selCurly E cfg req with
       | .error tag => .panic tag
       | .ok (_, .error (c, a)) => .error c a
       | .ok (_, .ok r) =>
         match Params.extract r req.path with
         | none => .panic "params"
         | some ps => .selected r.svc r.id ps) := by
  unfold routeCurly selCurly
  dsimp only
  cases Curly.detectWebService E (tokenize req.path) cfg.services none with
  | none => rfl
  | some o =>
    cases o with
    | none => rfl
    | some p =>
      obtain ⟨svc, sc⟩ := p
      dsimp only
      cases Curly.selectRoutes E svc.built (tokenize req.path) with
      | none => rfl
      | some cands =>
        cases cands with
        | nil => rfl
        | cons c cs =>
          dsimp only
          cases detectRoute (c :: cs) req with
          | error e => obtain ⟨a, b⟩ := e; rfl
          | ok r =>
            dsimp only
            cases Params.extract r req.path <;> rfl

/-- a service of the model as CurlyRouter reads it -/
def genSvcC (req : Req) (s : Service) : ImpGen.GoWebService :=
  { rootPath := s.rootPath,
    pathExpr := some { LiteralCount := 0, VarNames := [], VarCount := 0, Matcher := fun _ => [], tokens := tokenize s.rootPath },
    routes := s.built.map (genRoute req) }

def genCandC (req : Req) (c : Curly.Cand) : ImpGen.GoCurlyRoute :=
  { route := genRoute req c.route, paramCount := ((c.paramCount : Nat) : Int), staticCount := ((c.staticCount : Nat) : Int) }

/-- the view of `SelectRoute`'s three results that callers use: the service, the route, status code and
    headers of the error -/
def selView (gs : Service → ImpGen.GoWebService) (gr : Route → ImpGen.GoRoute) : Sel →
    Option (Option ImpGen.GoWebService × Option ImpGen.GoRoute × Option (Int × List (Str × List Str)))
  | .error _ => none
  | .ok (svc?, .ok r) => some (svc?.map gs, some (gr r), none)
  | .ok (svc?, .error (c, allow)) =>
    some (svc?.map gs, none, some (((c : Nat) : Int),
      match allow with
      | some ms => [("Allow".toList, [Str.join ", ".toList ms])]
      | none => []))

namespace T12

/-- curly_route.go `sortableCurlyRoutes.routes` is `map (·.route)` -/
theorem curly_routes (X : ImpGen.Ext) (s : List ImpGen.GoCurlyRoute) :
    ImpGen.sortableCurlyRoutes_routes X s = some (s.map (·.route)) := by
  unfold ImpGen.sortableCurlyRoutes_routes
  have key : ∀ (l : List ImpGen.GoCurlyRoute) (acc : List ImpGen.GoRoute)
      (f : ImpGen.GoCurlyRoute → List ImpGen.GoRoute → Option (ForInStep (List ImpGen.GoRoute))),
      (∀ e acc, f e acc = some (.yield (push acc e.route))) →
      forIn l acc f = some (acc ++ l.map (·.route)) := by
    intro l
    induction l with
    | nil => intro acc f _; simp
    | cons e l ih =>
      intro acc f hf
      rw [List.forIn_cons, hf]
      simp only [Option.bind_eq_bind, Option.bind_some]
      rw [ih _ f hf]
      simp [push]
  dsimp only
  rw [key s [] _ ?hf]
  case hf => intro _ _; rfl
  rfl

theorem ofDetect_eq (req : Req) (d : Except (Nat × Option (List Str)) Route) :
    ofDetect req d = ofDetectG (genRoute req) d := by
  cases d with
  | ok r => rfl
  | error e => obtain ⟨c, allow⟩ := e; cases allow <;> rfl

/-- the end of both `SelectRoute`s: the result of `detectRoute` handed on with the service -/
theorem glue_tail (g : Route → ImpGen.GoRoute) (gs : Service → ImpGen.GoWebService) (svc : Service)
    (d : Except (Nat × Option (List Str)) Route) (o : Option (Option ImpGen.GoRoute × GoErr))
    (k : Option ImpGen.GoRoute × GoErr → Option (Option ImpGen.GoWebService × Option ImpGen.GoRoute × GoErr))
    (hd : o.map (fun p => (p.1, errView p.2)) = some (ofDetectG g d))
    (hk : ∀ x, (x.1.isSome = true → errView x.2 = none) → (k x).map (fun p => (p.1, p.2.1, errView p.2.2))
       = some (some (gs svc), x.1, errView x.2)) :
    (o.bind k).map (fun p => (p.1, p.2.1, errView p.2.2))
      = selView gs g (.ok (some svc, d)) := by
  cases o with
  | none => simp at hd
  | some x =>
    obtain ⟨sel, err⟩ := x
    simp only [Option.map_some, Option.some.injEq] at hd
    rw [Option.bind_some]
    cases d with
    | ok r =>
      simp only [ofDetectG, Prod.mk.injEq] at hd
      obtain ⟨h1, h2⟩ := hd
      subst h1
      rw [hk _ (fun _ => h2), h2]
      rfl
    | error e =>
      obtain ⟨c, allow⟩ := e
      simp only [ofDetectG, Prod.mk.injEq] at hd
      obtain ⟨h1, h2⟩ := hd
      subst h1
      rw [hk _ (fun h => by simp at h), h2]
      cases allow <;> rfl

/-- the straight-line part of `CurlyRouter.SelectRoute`, given what its calls return -/
theorem curly_glue (X : ImpGen.Ext) (E : ReEnv) (cfg : Config) (req : Req)
    (htok : ImpGen.tokenizePath X req.path = some (tokenize req.path))
    (hdw : ImpGen.CurlyRouter_detectWebService X (tokenize req.path) (cfg.services.map (fun s => some (genSvcC req s)))
      = (Curly.detectWebService E (tokenize req.path) cfg.services none).map (fun o => o.map (fun p => genSvcC req p.1)))
    (hsr : ∀ svc : Service, ImpGen.CurlyRouter_selectRoutes X (some (genSvcC req svc)) (tokenize req.path)
      = (Curly.candidates E svc.built (tokenize req.path)).map (fun cs =>
          (Sort.insertionSort Curly.candLess cs).map (genCandC req))) :
    (ImpGen.CurlyRouter_SelectRoute X (cfg.services.map (fun s => some (genSvcC req s))) (genReq req)).map
        (fun p => (p.1, p.2.1, errView p.2.2))
      = selView (genSvcC req) (genRoute req) (selCurly E cfg req) := by
  unfold ImpGen.CurlyRouter_SelectRoute selCurly
  have hpath : (genReq req).path = req.path := rfl
  dsimp only
  rw [hpath, htok]
  simp only [Option.bind_eq_bind, Option.bind_some]
  rw [hdw]
  cases Curly.detectWebService E (tokenize req.path) cfg.services none with
  | none => rfl
  | some o =>
    cases o with
    | none => rfl
    | some p =>
      obtain ⟨svc, sc⟩ := p
      simp only [Option.map_some, Option.bind_some, Option.isNone_some, Bool.false_eq_true, if_false]
      rw [hsr, Curly.selectRoutes]
      cases Curly.candidates E svc.built (tokenize req.path) with
      | none => rfl
      | some cs =>
        simp only [Option.map_some, Option.bind_some]
        generalize Sort.insertionSort Curly.candLess cs = l
        cases l with
        | nil => rfl
        | cons c l =>
          have hlen : (len (List.map (genCandC req) (c :: l)) == 0) = false := by
            rw [beq_eq_false_iff_ne]; simp [len]; omega
          simp only [hlen, Bool.false_eq_true, if_false]
          unfold ImpGen.CurlyRouter_detectRoute
          simp only [curly_routes, Option.bind_eq_bind, Option.bind_some, Option.pure_def]
          have hmap : List.map (fun x => x.route) (List.map (genCandC req) (c :: l))
              = List.map (genRoute req) (List.map (·.route) (c :: l)) := by
            simp [genCandC]
          rw [hmap]
          have hd := detect_route X (List.map (·.route) (c :: l)) req
          rw [ofDetect_eq] at hd
          rw [show (match some (List.map (·.route) (c :: l)) with
                | none => (Except.error "curly.match" : Sel)
                | some [] => Except.ok (some svc, Except.error (404, none))
                | some cands => Except.ok (some svc, detectRoute cands req))
              = Except.ok (some svc, detectRoute (List.map (·.route) (c :: l)) req) from rfl]
          generalize detectRoute (List.map (·.route) (c :: l)) req = d at hd ⊢
          generalize ImpGen.RouterJSR311_detectRoute X _ (genReq req) = o at hd ⊢
          refine glue_tail (genRoute req) _ svc d o _ hd ?_
          intro x hx
          obtain ⟨sel, err⟩ := x
          cases sel with
          | none => rfl
          | some r =>
            have := hx rfl
            simp only [Option.isNone_some, Bool.false_eq_true, if_false, Option.map_some, this]
            rfl

end T12

/-- curly.go `CurlyRouter.SelectRoute` with everything it calls, as translated on this run, IS the
    selection part of the model's `routeCurly`; `sort.Sort` is Go's insertion sort with the translated
    `Less` (`hsrt`; `Tie.curly_less`, `Tie.sort_call_sites`) -/
theorem curly_select_route (rx : Str → Str → Bool × GoErr) (full : Str → Str → Bool) (join : Str → Str → Str)
    (srt : List ImpGen.GoCurlyRoute → List ImpGen.GoCurlyRoute) (cfg : Config) (req : Req)
    (hsrt : ∀ cs : List Curly.Cand, srt (cs.map (genCandC req)) = (Sort.insertionSort Curly.candLess cs).map (genCandC req)) :
    (ImpGen.CurlyRouter_SelectRoute { extOf rx join with sort_Sort_sortableCurlyRoutes := srt }
        (cfg.services.map (fun s => some (genSvcC req s))) (genReq req)).map (fun p => (p.1, p.2.1, errView p.2.2))
      = selView (genSvcC req) (genRoute req) (selCurly (envOf rx full) cfg req) := by
  have htok := T2.tokenize_path { extOf rx join with sort_Sort_sortableCurlyRoutes := srt } rfl req.path
  have hdw : ImpGen.CurlyRouter_detectWebService { extOf rx join with sort_Sort_sortableCurlyRoutes := srt }
        (tokenize req.path) (cfg.services.map (fun s => some (genSvcC req s)))
      = (Curly.detectWebService (envOf rx full) (tokenize req.path) cfg.services none).map
          (fun o => o.map (fun p => genSvcC req p.1)) :=
    (rfl : _ = ImpGen.CurlyRouter_detectWebService (extOf rx join) _ _).trans
      (detect_web_service rx full join (genSvcC req) (fun s => ⟨_, rfl, rfl⟩) _ _)
  refine T12.curly_glue _ _ cfg req htok hdw ?_
  intro svc
  refine (select_routes rx full join srt (genRoute req) (fun r => ⟨rfl, rfl⟩) (genSvcC req svc) _ svc.built _).trans ?_
  cases Curly.candidates (envOf rx full) svc.built (tokenize req.path) with
  | none => rfl
  | some cs => exact congrArg some (hsrt cs)

/-- a built route of the model as RouterJSR311 reads it: the fields `genRoute` gives, with the compiled
    expression of its relative path -/
def mkJ (req : Req) (r : Route) (pe : Option ImpGen.GoPathExpression) : ImpGen.GoRoute := { genRoute req r with pathExpr := pe }

def routesOfJ (E : ReEnv) (req : Req) (s : Service) : List ImpGen.GoRoute := s.built.map (genRouteJ E (mkJ req))

/-- jsr311.go `RouterJSR311.SelectRoute` with everything it calls, as translated on this run, IS the
    selection part of the model's `routeJsr`; the two `sort.Sort(sort.Reverse(…))` calls are Go's insertion
    sort with the translated `Less` functions (`hsR`, `hsD`; `Tie.jsr_route_less`, `Tie.jsr_dispatcher_less`) and
    permute (`hpR`, `hpD`) -/
theorem jsr_select_route (E : ReEnv) (X : ImpGen.Ext) (cfg : Config) (req : Req)
    (hpR : ∀ x, (X.sort_SortReverse_sortableRouteCandidates x).candidates.Perm x.candidates)
    (hpD : ∀ x, (X.sort_SortReverse_sortableDispatcherCandidates x).candidates.Perm x.candidates)
    (hsR : ∀ cs : List Jsr.RouteCand,
      (X.sort_SortReverse_sortableRouteCandidates { candidates := cs.map (genRouteCand E (mkJ req)) }).candidates
        = (Sort.insertionSort Jsr.routeCandLess cs).map (genRouteCand E (mkJ req)))
    (hsD : ∀ cs : List Jsr.DispCand,
      (X.sort_SortReverse_sortableDispatcherCandidates { candidates := cs.map (genDispCand E (routesOfJ E req)) }).candidates
        = (Sort.insertionSort Jsr.dispCandLess cs).map (genDispCand E (routesOfJ E req))) :
    (ImpGen.RouterJSR311_SelectRoute X (cfg.services.map (fun s => some (genSvcJ E (routesOfJ E req) s))) (genReq req)).map
        (fun p => (p.1, p.2.1, errView p.2.2))
      = selView (genSvcJ E (routesOfJ E req)) (genRouteJ E (mkJ req)) (selJsr E cfg req) := by
  have hdd := jsr_detect_dispatcher E X (routesOfJ E req) hpD cfg.services req.path
  have hsr := fun (svc : Service) (final : Str) =>
    jsr_select_routes E X (mkJ req) (fun _ _ => rfl) hpR (genSvcJ E (routesOfJ E req) svc) (genPE E svc.rootPath) svc.built final
  have hpath : (genReq req).path = req.path := rfl
  unfold ImpGen.RouterJSR311_SelectRoute selJsr Jsr.detectDispatcher
  dsimp only
  rw [hpath]
  generalize ImpGen.RouterJSR311_detectDispatcher X req.path _ = o at hdd ⊢
  generalize Jsr.dispCandidates E cfg.services req.path = dcs at hdd ⊢
  cases dcs with
  | none =>
    cases o with
    | none => rfl
    | some x => simp at hdd
  | some ds =>
    cases o with
    | none => simp at hdd
    | some x =>
      obtain ⟨disp, fin, err⟩ := x
      simp only [Option.map_some, Option.some.injEq, hsD] at hdd
      simp only [Option.map_some, Option.bind_eq_bind, Option.bind_some]
      generalize Sort.insertionSort Jsr.dispCandLess ds = dl at hdd ⊢
      cases dl with
      | nil =>
        simp only [List.map_nil, dispView, Prod.mk.injEq] at hdd
        obtain ⟨h1, h2, h3⟩ := hdd
        simp only [h3, if_true]
        rfl
      | cons dc dl =>
        simp only [List.map_cons, dispView, Prod.mk.injEq] at hdd
        obtain ⟨h1, h2, h3⟩ := hdd
        subst h1 h2
        simp only [h3, Bool.false_eq_true, if_false]
        have hdisp : (genDispCand E (routesOfJ E req) dc).dispatcher = some (genSvcJ E (routesOfJ E req) dc.svc) := rfl
        have hfin : (genDispCand E (routesOfJ E req) dc).finalMatch = dc.finalMatch := rfl
        rw [hdisp, hfin]
        obtain ⟨svc, final, _, _, _⟩ := dc
        dsimp only
        have hsr' := hsr svc final
        rw [show (some { genSvcJ E (routesOfJ E req) svc with pathExpr := genPE E svc.rootPath, routes := List.map (genRouteJ E (mkJ req)) svc.built }
              : Option ImpGen.GoWebService) = some (genSvcJ E (routesOfJ E req) svc) from rfl] at hsr'
        rw [hsr', Jsr.selectRoutes]
        cases Jsr.routeCandidates E svc.built final with
        | none => rfl
        | some cs =>
          simp only [Option.map_some, Option.bind_some, hsR]
          generalize Sort.insertionSort Jsr.routeCandLess cs = l
          cases l with
          | nil => rfl
          | cons c l =>
            have hmap : List.map (fun x => x.route) (List.map (genRouteCand E (mkJ req)) (c :: l))
                = List.map (genRouteJ E (mkJ req)) (List.map (·.route) (c :: l)) := by
              simp [genRouteCand]
            rw [hmap]
            have hlen : (len (List.map (genRouteJ E (mkJ req)) (List.map (·.route) (c :: l))) == 0) = false := by
              rw [beq_eq_false_iff_ne]; simp [len]; omega
            simp only [hlen, Bool.false_eq_true, if_false]
            have hd := detect_route_g X req (genRouteJ E (mkJ req))
              ⟨fun _ => rfl, fun _ => rfl, fun _ => rfl, fun _ => rfl, fun _ => rfl⟩ (List.map (·.route) (c :: l))
            rw [show (match some (List.map (·.route) (c :: l)) with
                  | none => (Except.error "jsr.compile" : Sel)
                  | some [] => Except.ok (some svc, Except.error (404, none))
                  | some cands => Except.ok (some svc, detectRoute cands req))
                = Except.ok (some svc, detectRoute (List.map (·.route) (c :: l)) req) from rfl]
            generalize detectRoute (List.map (·.route) (c :: l)) req = d at hd ⊢
            generalize ImpGen.RouterJSR311_detectRoute X _ (genReq req) = o at hd ⊢
            refine T12.glue_tail (genRouteJ E (mkJ req)) _ svc d o _ hd ?_
            intro x _
            rfl

end TieImp
end Restful

#print axioms Restful.TieImp.routeCurly_eq_sel
#print axioms Restful.TieImp.curly_select_route
#print axioms Restful.TieImp.jsr_select_route
