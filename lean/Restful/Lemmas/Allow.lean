/-
C17 helpers: what `detectRoute` answers as a function of the request's METHOD alone, both routers
as "a stage that reads only the path, then `detectRoute`", and the link between RouterJSR311's
dispatch and `computeAllowedMethods` in the direction "routable ⇒ listed".
-/
import Restful.Lemmas.Agree
import Restful.Lemmas.CorsRoutable
import Restful.Spec.Options
namespace Restful
open Str

namespace Allow
variable (E : ReEnv)

/-! ### `detectRoute` by cases on its first two stages -/

/-- the candidates whose If-conditions hold for the request, and among them those with its method -/
def passing (routes : List Route) (req : Req) : List Route := routes.filter (passesConds · req)
def withMethod (routes : List Route) (req : Req) : List Route :=
  (passing routes req).filter (fun r => req.method = r.method)

theorem mem_passing {routes : List Route} {req : Req} {r : Route} :
    r ∈ passing routes req ↔ r ∈ routes ∧ passesConds r req = true := by
  simp [passing, List.mem_filter]

theorem mem_withMethod {routes : List Route} {req : Req} {r : Route} :
    r ∈ withMethod routes req ↔ r ∈ routes ∧ passesConds r req = true ∧ req.method = r.method := by
  unfold withMethod passing
  rw [List.mem_filter, List.mem_filter, decide_eq_true_eq, and_assoc]

/-- `passesConds` does not read the method -/
theorem passesConds_setMethod (r : Route) (req : Req) (m : Str) :
    passesConds r { req with method := m } = passesConds r req := rfl

theorem passing_setMethod (routes : List Route) (req : Req) (m : Str) :
    passing routes { req with method := m } = passing routes req := rfl

/-- the three ways `detectRoute` can go: nobody passes its conditions (404); somebody does but
    nobody has the method (405 with the methods of those who pass); somebody has the method — then
    the answer is a route, 415 or 406, never 404 or 405 -/
theorem detectRoute_cases (routes : List Route) (req : Req) :
    (passing routes req = [] ∧ detectRoute routes req = .error (404, none)) ∨
    (passing routes req ≠ [] ∧ withMethod routes req = [] ∧
      detectRoute routes req = .error (405, some (allowedMethods (passing routes req) []))) ∨
    (withMethod routes req ≠ [] ∧
      ((∃ r, detectRoute routes req = .ok r) ∨ detectRoute routes req = .error (415, none) ∨
        detectRoute routes req = .error (406, none))) := by
  unfold withMethod passing
  by_cases h1 : (List.filter (fun x => passesConds x req) routes).isEmpty = true
  · left
    refine ⟨List.isEmpty_iff.mp h1, ?_⟩
    unfold detectRoute
    simp only [h1, if_true]
  · right
    have h1' : List.filter (fun x => passesConds x req) routes ≠ [] := fun h => h1 (List.isEmpty_iff.mpr h)
    by_cases h2 : (List.filter (fun r => decide (req.method = r.method))
        (List.filter (fun x => passesConds x req) routes)).isEmpty = true
    · left
      refine ⟨h1', List.isEmpty_iff.mp h2, ?_⟩
      unfold detectRoute
      simp only [h1, Bool.false_eq_true, if_false, h2, if_true]
    · right
      refine ⟨fun h => h2 (List.isEmpty_iff.mpr h), ?_⟩
      unfold detectRoute
      simp only [h1, Bool.false_eq_true, if_false, h2]
      split
      · right; left; rfl
      · split
        · split
          · right; left; rfl
          · right; right; rfl
        · left; exact ⟨_, rfl⟩

/-- a 405 of `detectRoute` lists exactly the methods of the candidates that pass their conditions -/
theorem detectRoute_allow {routes : List Route} {req : Req} {c : Nat} {allow : List Str}
    (h : detectRoute routes req = .error (c, some allow)) :
    c = 405 ∧ ∀ m, m ∈ allow ↔ ∃ r ∈ routes, passesConds r req = true ∧ r.method = m := by
  rcases detectRoute_cases routes req with ⟨_, hd⟩ | ⟨_, _, hd⟩ | ⟨_, ⟨r, hd⟩ | hd | hd⟩
  · rw [hd] at h; cases h
  · rw [hd] at h
    simp only [Except.error.injEq, Prod.mk.injEq, Option.some.injEq] at h
    obtain ⟨rfl, rfl⟩ := h
    refine ⟨rfl, fun m => ?_⟩
    rw [mem_allowedMethods]
    simp only [List.not_mem_nil, false_or, mem_passing, and_assoc]
  · rw [hd] at h; cases h
  · rw [hd] at h; cases h
  · rw [hd] at h; cases h

/-! ### `finishWith` (what both routers do with their sorted candidates) -/

/-- the status of `finishWith` is neither 404 nor 405 exactly when some candidate passes its
    conditions and has the request's method.  (A model panic while extracting parameters has status
    500: neither.) -/
theorem finishWith_routable (ex : Route → Option Params) (cands : List Route) (req : Req) :
    (Spec.statusOf (finishWith ex cands req) ≠ 404 ∧ Spec.statusOf (finishWith ex cands req) ≠ 405) ↔
      ∃ r ∈ cands, passesConds r req = true ∧ req.method = r.method := by
  have hex : (∃ r ∈ cands, passesConds r req = true ∧ req.method = r.method) ↔ withMethod cands req ≠ [] := by
    constructor
    · rintro ⟨r, hr, h1, h2⟩ h
      have : r ∈ withMethod cands req := mem_withMethod.mpr ⟨hr, h1, h2⟩
      rw [h] at this
      cases this
    · intro h
      obtain ⟨r, hr⟩ := List.exists_mem_of_ne_nil _ h
      exact ⟨r, mem_withMethod.mp hr⟩
  rw [hex]
  unfold finishWith
  cases cands with
  | nil => simp [Spec.statusOf, withMethod, passing]
  | cons x xs =>
    simp only
    rcases detectRoute_cases (x :: xs) req with ⟨h0, hd⟩ | ⟨_, h0, hd⟩ | ⟨h0, ⟨r, hd⟩ | hd | hd⟩
    · have : withMethod (x :: xs) req = [] := by unfold withMethod; rw [h0]; rfl
      rw [hd]
      simp [Spec.statusOf, this]
    · rw [hd]
      simp [Spec.statusOf, h0]
    · rw [hd]
      simp only
      cases ex r <;> simp [Spec.statusOf, h0]
    · rw [hd]
      simp [Spec.statusOf, h0]
    · rw [hd]
      simp [Spec.statusOf, h0]

/-- a 405 of `finishWith` lists exactly the methods of the candidates that pass their conditions -/
theorem finishWith_allow {ex : Route → Option Params} {cands : List Route} {req : Req} {c : Nat} {allow : List Str}
    (h : finishWith ex cands req = .error c (some allow)) (m : Str) :
    m ∈ allow ↔ ∃ r ∈ cands, passesConds r req = true ∧ r.method = m := by
  unfold finishWith at h
  cases cands with
  | nil => cases h
  | cons x xs =>
    simp only at h
    cases hd : detectRoute (x :: xs) req with
    | error ca =>
      obtain ⟨c', a⟩ := ca
      rw [hd] at h
      simp only [Outcome.error.injEq] at h
      obtain ⟨rfl, rfl⟩ := h
      exact (detectRoute_allow hd).2 m
    | ok r =>
      rw [hd] at h
      simp only at h
      cases hx : ex r <;> rw [hx] at h <;> cases h

/-! ### both routers: a stage that reads only the path, then `finishWith` -/

/-- what a router has done before it looks at anything but the URL path -/
inductive Staged where
  | notFound                                                    -- no WebService: 404
  | panic (w : String)                                          -- model panic while matching/compiling
  | detect (ex : Route → Option Params) (cands : List Route)    -- the sorted candidate routes

def Staged.run : Staged → Req → Outcome
  | .notFound, _ => .error 404 none
  | .panic w, _ => .panic w
  | .detect ex cands, req => finishWith ex cands req

def stagedCurly (cfg : Config) (path : Str) : Staged :=
  match Curly.detectWebService E (tokenize path) cfg.services none with
  | none => .panic "curly.score"
  | some none => .notFound
  | some (some (svc, _)) =>
    match Curly.candidates E svc.built (tokenize path) with
    | none => .panic "curly.match"
    | some cs =>
      .detect (fun r => Params.extract r path) ((Sort.insertionSort Curly.candLess cs).map (·.route))

def stagedJsr (cfg : Config) (path : Str) : Staged :=
  match Jsr.detectDispatcher E cfg.services path with
  | none => .panic "jsr.compile"
  | some none => .notFound
  | some (some (svc, final)) =>
    match Jsr.routeCandidates E svc.built final with
    | none => .panic "jsr.compile"
    | some cs =>
      .detect (fun r => Jsr.extract E svc r path) ((Sort.insertionSort Jsr.routeCandLess cs).map (·.route))

def staged (cfg : Config) (path : Str) : Staged :=
  match cfg.router with
  | .curly => stagedCurly E cfg path
  | .jsr => stagedJsr E cfg path

theorem routeCurly_staged (cfg : Config) (req : Req) :
    (routeCurly E cfg req).1 = (stagedCurly E cfg req.path).run req := by
  rw [routeCurly_fst]
  unfold stagedCurly
  cases Curly.detectWebService E (tokenize req.path) cfg.services none with
  | none => rfl
  | some d =>
    cases d with
    | none => rfl
    | some x =>
      obtain ⟨svc, sc⟩ := x
      simp only
      rw [curlyAfterSvc_eq]
      cases Curly.candidates E svc.built (tokenize req.path) <;> rfl

theorem routeJsr_staged (cfg : Config) (req : Req) :
    (routeJsr E cfg req).1 = (stagedJsr E cfg req.path).run req := by
  rw [routeJsr_fst]
  unfold stagedJsr
  cases Jsr.detectDispatcher E cfg.services req.path with
  | none => rfl
  | some d =>
    cases d with
    | none => rfl
    | some x =>
      obtain ⟨svc, final⟩ := x
      simp only
      unfold jsrAfterSvc
      cases Jsr.routeCandidates E svc.built final <;> rfl

/-- neither router reads the method before `detectRoute` -/
theorem route_staged (cfg : Config) (req : Req) : route E cfg req = (staged E cfg req.path).run req := by
  unfold route routeTagged staged
  cases cfg.router with
  | curly => exact routeCurly_staged E cfg req
  | jsr => exact routeJsr_staged E cfg req

theorem routable_iff (cfg : Config) (req : Req) (m : Str) :
    Spec.routable E cfg req m = true ↔
      (Spec.statusOf ((staged E cfg req.path).run { req with method := m }) ≠ 404 ∧
       Spec.statusOf ((staged E cfg req.path).run { req with method := m }) ≠ 405) := by
  unfold Spec.routable
  rw [route_staged]
  simp

/-- **the 405 Allow header is exact** (both routers, every table, every request) -/
theorem allow_405_exact (cfg : Config) (req : Req) (allow : List Str)
    (h : route E cfg req = .error 405 (some allow)) (m : Str) :
    m ∈ allow ↔ Spec.routable E cfg req m = true := by
  rw [routable_iff]
  rw [route_staged] at h
  cases hs : staged E cfg req.path with
  | notFound => rw [hs] at h; cases h
  | panic w => rw [hs] at h; cases h
  | detect ex cands =>
    rw [hs] at h
    simp only [Staged.run] at h ⊢
    rw [finishWith_allow h m, finishWith_routable]
    constructor
    · rintro ⟨r, hr, h1, h2⟩; exact ⟨r, hr, h1, h2.symm⟩
    · rintro ⟨r, hr, h1, h2⟩; exact ⟨r, hr, h1, h2.symm⟩

/-! ### RouterJSR311: routable ⇒ listed by `computeAllowedMethods` (no hypothesis on nesting) -/

/-- if RouterJSR311 does not answer 404/405, the request's method is the method of a route of the
    dispatched service whose expression matches the remainder: `computeAllowedMethods` lists it -/
theorem routable_listed_jsr (tbl : Config) (path : Str) (ms : List Str)
    (hc : Cors.computeAllowedMethods E tbl.services path = some ms)
    (req : Req) (hpath : req.path = path)
    (hs : Spec.statusOf (routeJsr E tbl req).1 ≠ 404 ∧ Spec.statusOf (routeJsr E tbl req).1 ≠ 405) :
    req.method ∈ ms := by
  obtain ⟨hroots, hroutes⟩ := Cors.computeAllowedMethods_compiles E tbl.services path ms hc
  rw [Cors.computeAllowedMethods_eq_methodsAt E tbl path ms hc]
  rw [routeJsr_fst, hpath] at hs
  cases hd : Jsr.detectDispatcher E tbl.services path with
  | none =>
    obtain ⟨cs, hcs, _⟩ := Cors.dispCandidates_complete E tbl.services path hroots
    simp [Jsr.detectDispatcher, hcs] at hd
  | some d =>
    cases d with
    | none => rw [hd] at hs; simp [Spec.statusOf] at hs
    | some x =>
      obtain ⟨svc, final⟩ := x
      rw [hd] at hs
      simp only at hs
      obtain ⟨hsvc, wex, wcaps, hwex, hwm⟩ := Jsr.detectDispatcher_mem E hd
      have hsm : Spec.rootMatches E svc path = true := by simp [Spec.rootMatches, hwex, hwm]
      have hbuilt : ∀ x ∈ svc.built, (Jsr.compile x.relPath).isSome = true := by
        intro x hx
        simp only [Service.built, List.mem_map] at hx
        obtain ⟨rd, hrd, rfl⟩ := hx
        exact hroutes svc hsvc hsm rd hrd
      obtain ⟨cs2, hcs2, _⟩ := Cors.routeCandidates_complete E svc.built final hbuilt
      unfold jsrAfterSvc at hs
      rw [hcs2] at hs
      simp only at hs
      obtain ⟨r, hr, _, hmeth⟩ := (finishWith_routable _ _ _).mp hs
      simp only [List.mem_map] at hr
      obtain ⟨c, hcm, rfl⟩ := hr
      have hcm' : c ∈ cs2 := (Sort.insertionSort_perm Jsr.routeCandLess cs2).subset hcm
      obtain ⟨hcb, rex, rcaps, last, hrex, hrm, hlast⟩ := Jsr.routeCandidates_mem E hcs2 c hcm'
      simp only [Service.built, List.mem_map] at hcb
      obtain ⟨rd, hrd, hrdeq⟩ := hcb
      have hrel : c.route.relPath = rd.relPath := by rw [← hrdeq]; rfl
      have hm' : c.route.method = rd.method := by rw [← hrdeq]; rfl
      rw [hmeth, hm']
      simp only [Spec.methodsAt, List.mem_flatMap, List.mem_map, List.mem_filter]
      refine ⟨svc, hsvc, rd, ⟨hrd, ?_⟩, rfl⟩
      rw [hrel] at hrex
      unfold Spec.routableAt
      simp only [hwex, hwm]
      unfold Spec.routeOK
      simp only [hrex, hrm]
      rcases hlast with rfl | rfl <;> simp

theorem status_of_ne_error {o : Outcome} (h4 : ∀ a, o ≠ .error 404 a) (h5 : ∀ a, o ≠ .error 405 a) :
    Spec.statusOf o ≠ 404 ∧ Spec.statusOf o ≠ 405 := by
  cases o with
  | selected s r ps => simp [Spec.statusOf]
  | panic w => simp [Spec.statusOf]
  | error c a =>
    simp only [Spec.statusOf]
    exact ⟨fun h => h4 a (by rw [h]), fun h => h5 a (by rw [h])⟩

theorem routable_jsr_iff (tbl : Config) (hk : tbl.router = .jsr) (req : Req) (m : Str) :
    Spec.routable E tbl req m = true ↔
      (Spec.statusOf (routeJsr E tbl { req with method := m }).1 ≠ 404 ∧
       Spec.statusOf (routeJsr E tbl { req with method := m }).1 ≠ 405) := by
  unfold Spec.routable route routeTagged
  rw [hk]
  simp

theorem routable_curly_iff (tbl : Config) (hk : tbl.router = .curly) (req : Req) (m : Str) :
    Spec.routable E tbl req m = true ↔
      (Spec.statusOf (routeCurly E tbl { req with method := m }).1 ≠ 404 ∧
       Spec.statusOf (routeCurly E tbl { req with method := m }).1 ≠ 405) := by
  unfold Spec.routable route routeTagged
  rw [hk]
  simp

/-- RouterJSR311, at most one matching root, If-conditions hold: listed ⇔ routable -/
theorem listed_iff_routable_jsr (tbl : Config) (path : Str) (ms : List Str)
    (hc : Cors.computeAllowedMethods E tbl.services path = some ms)
    (hF14 : Spec.severalRootsMatch E tbl path = false)
    (req : Req) (hpath : req.path = path)
    (hconds : ∀ s ∈ tbl.services, ∀ r ∈ s.built, passesConds r req = true) (m : Str) :
    m ∈ ms ↔ (Spec.statusOf (routeJsr E tbl { req with method := m }).1 ≠ 404 ∧
       Spec.statusOf (routeJsr E tbl { req with method := m }).1 ≠ 405) := by
  constructor
  · intro hm
    apply status_of_ne_error
    · intro a
      exact (Cors.computed_method_not_404_405_jsr E tbl path ms m hc hm hF14 { req with method := m } rfl hpath
        hconds a).1
    · intro a
      exact (Cors.computed_method_not_404_405_jsr E tbl path ms m hc hm hF14 { req with method := m } rfl hpath
        hconds a).2
  · intro hs
    exact routable_listed_jsr E tbl path ms hc { req with method := m } hpath hs

/-! ### transport to CurlyRouter through C18 -/

theorem statusOf_sameOutcome {a b : Outcome} (h : Spec.sameOutcome a b) : Spec.statusOf a = Spec.statusOf b := by
  unfold Spec.sameOutcome at h
  cases a with
  | selected s r ps => cases b <;> simp_all [Spec.statusOf]
  | error c al =>
    cases b with
    | error c' al' => cases al <;> cases al' <;> simp_all [Spec.statusOf]
    | _ => simp_all
  | panic w => cases b <;> simp_all [Spec.statusOf]

/-- on the common fragment and a normal path the two routers answer with the same status
    (`ranksAgree` is not needed: when both select, both statuses are "a route function runs") -/
theorem status_agrees (cfg : Config) (hwf : Spec.wfCommon cfg = true) (hroots : Spec.rootsDistinct cfg = true)
    (hclean : Spec.rootsClean cfg = true) (req : Req) (hp : Spec.normalPath req.path = true) :
    Spec.statusOf (routeCurly E cfg req).1 = Spec.statusOf (routeJsr E cfg req).1 := by
  rcases agree_core E cfg hwf hroots hclean req hp with
    ⟨_, _, _, _, _, _, _, _, _, _, _, _, _, _, _, _, hoc, hoj⟩ | h
  · rw [hoc, hoj]; rfl
  · exact statusOf_sameOutcome h.1

end Allow
end Restful
