/-
C03, part 1: the model's insertion sort returns a sorted list for every strict weak order, and
CurlyRouter's `candLess` is one (it is `key y < key x` for the lexicographic key
(staticCount, paramCount, Path), `Str.lt` being the bytewise order on paths).
-/
import Restful.Go.Sort
import Restful.Model.Curly
namespace Restful

/-! ### the bytewise order `Str.lt` -/
namespace Str

theorem lt_irrefl : ∀ a : Str, lt a a = false
  | [] => rfl
  | c :: cs => by simp [lt, lt_irrefl cs]

theorem lt_cons_cons (a b : Char) (as bs : Str) :
    lt (a :: as) (b :: bs) = true ↔ a.toNat < b.toNat ∨ a = b ∧ lt as bs = true := by
  rw [lt]
  by_cases h1 : a.toNat < b.toNat
  · simp [h1]
  · by_cases h2 : b.toNat < a.toNat
    · have : a ≠ b := by intro e; subst e; omega
      simp [h1, h2, this]
    · have : a = b := Char.toNat_inj.mp (by omega)
      simp [this]

theorem lt_trans : ∀ {a b c : Str}, lt a b = true → lt b c = true → lt a c = true
  | [], [], _, h, _ => by simp [lt] at h
  | [], _ :: _, [], _, h => by simp [lt] at h
  | [], _ :: _, _ :: _, _, _ => rfl
  | _ :: _, [], _, h, _ => by simp [lt] at h
  | _ :: _, _ :: _, [], _, h => by simp [lt] at h
  | a :: as, b :: bs, c :: cs, h1, h2 => by
    rw [lt_cons_cons] at h1 h2 ⊢
    rcases h1 with h1 | ⟨rfl, h1⟩
    · rcases h2 with h2 | ⟨rfl, _⟩
      · exact Or.inl (by omega)
      · exact Or.inl h1
    · rcases h2 with h2 | ⟨rfl, h2⟩
      · exact Or.inl h2
      · exact Or.inr ⟨rfl, lt_trans h1 h2⟩

theorem lt_asymm {a b : Str} (h : lt a b = true) : lt b a = false := by
  cases h' : lt b a with
  | false => rfl
  | true => have := lt_trans h h'; rw [lt_irrefl] at this; exact absurd this (by simp)

/-- trichotomy: two strings neither of which is below the other are equal -/
theorem eq_of_not_lt : ∀ {a b : Str}, lt a b = false → lt b a = false → a = b
  | [], [], _, _ => rfl
  | [], _ :: _, h, _ => by simp [lt] at h
  | _ :: _, [], _, h => by simp [lt] at h
  | a :: as, b :: bs, h1, h2 => by
    have n1 : ¬ (a.toNat < b.toNat ∨ a = b ∧ lt as bs = true) := by
      rw [← lt_cons_cons]; simp [h1]
    have n2 : ¬ (b.toNat < a.toNat ∨ b = a ∧ lt bs as = true) := by
      rw [← lt_cons_cons]; simp [h2]
    have hab : a = b := Char.toNat_inj.mp (by omega)
    subst hab
    have e1 : lt as bs = false := by
      cases h : lt as bs with
      | false => rfl
      | true => exact absurd (Or.inr ⟨rfl, h⟩) n1
    have e2 : lt bs as = false := by
      cases h : lt bs as with
      | false => rfl
      | true => exact absurd (Or.inr ⟨rfl, h⟩) n2
    rw [eq_of_not_lt e1 e2]

/-- the negation of `lt` (`≥`) is transitive -/
theorem not_lt_trans {a b c : Str} (h1 : lt a b = false) (h2 : lt b c = false) : lt a c = false := by
  cases h : lt a c with
  | false => rfl
  | true =>
    cases hba : lt b a with
    | true => rw [lt_trans hba h] at h2; exact absurd h2 (by simp)
    | false =>
      have := eq_of_not_lt h1 hba
      subst this
      rw [h] at h2; exact absurd h2 (by simp)

end Str

/-! ### sortedness of Go's insertion sort -/
end Restful
namespace Restful.Sort
variable {α : Type}

theorem insRev_sorted (less : α → α → Bool)
    (htrans : ∀ a b c, less b a = false → less c b = false → less c a = false)
    (hasym : ∀ a b, less a b = true → less b a = false)
    (x : α) : ∀ (l : List α), l.Pairwise (fun a b => less a b = false) →
      (insRev less x l).Pairwise (fun a b => less a b = false)
  | [], _ => by simp [insRev]
  | y :: ys, h => by
    rw [List.pairwise_cons] at h
    unfold insRev
    split
    · rename_i hxy
      rw [List.pairwise_cons]
      refine ⟨?_, insRev_sorted less htrans hasym x ys h.2⟩
      intro w hw
      have hw' : w ∈ x :: ys := (insRev_perm less x ys).subset hw
      simp only [List.mem_cons] at hw'
      rcases hw' with rfl | hw'
      · exact hasym _ _ hxy
      · exact h.1 w hw'
    · rename_i hxy
      have hxy' : less x y = false := by simpa using hxy
      rw [List.pairwise_cons]
      refine ⟨?_, List.pairwise_cons.mpr h⟩
      intro w hw
      simp only [List.mem_cons] at hw
      rcases hw with rfl | hw
      · exact hxy'
      · exact htrans w y x (h.1 w hw) hxy'

theorem sortRev_sorted (less : α → α → Bool)
    (htrans : ∀ a b c, less b a = false → less c b = false → less c a = false)
    (hasym : ∀ a b, less a b = true → less b a = false) :
    ∀ (l acc : List α), acc.Pairwise (fun a b => less a b = false) →
      (sortRev less acc l).Pairwise (fun a b => less a b = false)
  | [], acc, h => by simpa [sortRev] using h
  | x :: xs, acc, h => by
    unfold sortRev
    exact sortRev_sorted less htrans hasym xs _ (insRev_sorted less htrans hasym x acc h)

/-- **Sortedness of the model's sort** for every `less` that is asymmetric and whose negation is
    transitive (a strict weak order).  Asymmetry cannot be dropped: with `less := fun _ _ => true`
    the negation is (vacuously) transitive and `insertionSort less [1, 2] = [2, 1]` is not sorted
    (see the `example` below). -/
theorem insertionSort_sorted_partial (less : α → α → Bool)
    (htrans : ∀ a b c, less b a = false → less c b = false → less c a = false)
    (hasym : ∀ a b, less a b = true → less b a = false)
    (l : List α) : (insertionSort less l).Pairwise (fun a b => less b a = false) := by
  unfold insertionSort
  rw [List.pairwise_reverse]
  exact sortRev_sorted less htrans hasym l [] List.Pairwise.nil

/-- the counterexample to sortedness from negative transitivity alone -/
example : (∀ a b c : Nat, (fun _ _ => true) b a = false → (fun _ _ => true) c b = false →
      (fun _ _ => true) c a = false) ∧
    ¬ (insertionSort (fun (_ _ : Nat) => true) [1, 2]).Pairwise (fun a b => (fun _ _ => true) b a = false) := by
  refine ⟨by simp, ?_⟩
  decide

end Restful.Sort
namespace Restful

/-! ### `candLess` is a strict weak order -/
namespace Curly

theorem candLess_eq_false_iff (x y : Cand) :
    candLess x y = false ↔
      x.staticCount < y.staticCount ∨ x.staticCount = y.staticCount ∧
        (x.paramCount < y.paramCount ∨ x.paramCount = y.paramCount ∧ Str.lt y.route.path x.route.path = false) := by
  unfold candLess
  by_cases h1 : y.staticCount < x.staticCount
  · simp [h1]; omega
  · by_cases h2 : y.staticCount > x.staticCount
    · simp [h1, h2]
    · have e1 : x.staticCount = y.staticCount := by omega
      by_cases h3 : y.paramCount < x.paramCount
      · simp [e1, h3]; omega
      · by_cases h4 : y.paramCount > x.paramCount
        · simp [e1, h3, h4]
        · have e2 : x.paramCount = y.paramCount := by omega
          simp [e1, e2]

/-- `htrans` for `candLess` -/
theorem candLess_trans (a b c : Cand) (h1 : candLess b a = false) (h2 : candLess c b = false) :
    candLess c a = false := by
  rw [candLess_eq_false_iff] at h1 h2 ⊢
  rcases h1 with h1 | ⟨e1, h1⟩
  · rcases h2 with h2 | ⟨e2, _⟩
    · exact Or.inl (by omega)
    · exact Or.inl (by omega)
  · rcases h2 with h2 | ⟨e2, h2⟩
    · exact Or.inl (by omega)
    · refine Or.inr ⟨by omega, ?_⟩
      rcases h1 with h1 | ⟨f1, h1⟩
      · rcases h2 with h2 | ⟨f2, _⟩
        · exact Or.inl (by omega)
        · exact Or.inl (by omega)
      · rcases h2 with h2 | ⟨f2, h2⟩
        · exact Or.inl (by omega)
        · exact Or.inr ⟨by omega, Str.not_lt_trans h1 h2⟩

theorem candLess_asymm (a b : Cand) (h : candLess a b = true) : candLess b a = false := by
  cases h' : candLess b a with
  | false => rfl
  | true =>
    exfalso
    unfold candLess at h h'
    by_cases h1 : b.staticCount < a.staticCount
    · have : ¬ a.staticCount < b.staticCount := by omega
      simp [this, h1] at h'
    · by_cases h2 : a.staticCount < b.staticCount
      · simp [h1, h2] at h
      · by_cases h3 : b.paramCount < a.paramCount
        · have : ¬ a.paramCount < b.paramCount := by omega
          simp [h1, h2, this, h3] at h'
        · by_cases h4 : a.paramCount < b.paramCount
          · simp [h1, h2, h3, h4] at h
          · simp [h1, h2, h3, h4] at h h'
            rw [Str.lt_asymm h] at h'
            exact absurd h' (by simp)

/-- candidates that `candLess` does not separate in either direction have the same key -/
theorem candLess_antisymm (a b : Cand) (h1 : candLess a b = false) (h2 : candLess b a = false) :
    a.staticCount = b.staticCount ∧ a.paramCount = b.paramCount ∧ a.route.path = b.route.path := by
  rw [candLess_eq_false_iff] at h1 h2
  rcases h1 with h1 | ⟨e1, h1⟩
  · rcases h2 with h2 | ⟨e2, _⟩ <;> omega
  · rcases h2 with h2 | ⟨_, h2⟩
    · omega
    · rcases h1 with h1 | ⟨f1, h1⟩
      · rcases h2 with h2 | ⟨f2, _⟩ <;> omega
      · rcases h2 with h2 | ⟨_, h2⟩
        · omega
        · exact ⟨e1, f1, Str.eq_of_not_lt h2 h1⟩

/-- the candidate list CurlyRouter hands to `detectRoute` is sorted: best key first -/
theorem sort_candLess_sorted (cs : List Cand) :
    (Sort.insertionSort candLess cs).Pairwise (fun a b => candLess b a = false) :=
  Sort.insertionSort_sorted_partial candLess candLess_trans candLess_asymm cs

end Curly
end Restful
