/-
What `addHandler` and the rebuild loop of `Remove` register, in closed form: the patterns
`Spec.regFrom roots seen onRoot` (those of the wanted patterns `Spec.patsFrom` that no earlier service
mapped), in order.  They are pairwise different and differ from every pattern an earlier service
registered, so only a pattern the user registered through `Handle` can make a registration panic.
-/
import Restful.Model.Registry
import Restful.Spec.Registry
import Restful.Lemmas.Mux
namespace Restful
namespace Registry
open List Str

def roots (l : List Svc) : List Str := l.map (·.root)

def dispE (p : Str) : Mux.Entry := (p, .dispatch)
def plainE (h : Str × Nat) : Mux.Entry := (h.1, .plain h.2)

def keys (t : Mux.Table) : List Str := t.map (·.1)

theorem nodup_map_inj {α β : Type} {f : α → β} {l : List α} (hn : (l.map f).Nodup) {a b : α}
    (ha : a ∈ l) (hb : b ∈ l) (h : f a = f b) : a = b := by
  induction l with
  | nil => cases ha
  | cons x xs ih =>
    have hk' : f x ∉ xs.map f ∧ (xs.map f).Nodup := by simpa using hn
    rcases List.mem_cons.mp ha with rfl | ha'
    · rcases List.mem_cons.mp hb with rfl | hb'
      · rfl
      · exact absurd (h ▸ List.mem_map_of_mem (f := f) hb') hk'.1
    · rcases List.mem_cons.mp hb with rfl | hb'
      · exact absurd (h ▸ List.mem_map_of_mem (f := f) ha') hk'.1
      · exact ih hk'.2 ha' hb'

/-! ### one registration -/

theorem reg_ok {t t' : Mux.Table} {p : Str} {h : Mux.Target} (hr : reg t p h = .ok t') :
    p ≠ [] ∧ p ∉ keys t ∧ t' = t ++ [(p, h)] := by
  unfold reg Mux.register at hr
  by_cases hp : p.isEmpty = true
  · simp [hp] at hr
  · by_cases hh : Mux.has t p = true
    · simp [hp, hh] at hr
    · simp only [hp, hh] at hr
      simp only [Bool.false_eq_true, if_false, Except.ok.injEq] at hr
      refine ⟨?_, ?_, hr.symm⟩
      · intro h0; subst h0; simp at hp
      · intro hm; exact hh (Mux.has_eq_true.mpr hm)

theorem reg_of {t : Mux.Table} {p : Str} (h : Mux.Target) (hp : p ≠ []) (hn : p ∉ keys t) :
    reg t p h = .ok (t ++ [(p, h)]) := by
  unfold reg Mux.register
  have h1 : p.isEmpty = false := by cases p <;> simp_all
  have h2 : Mux.has t p = false := by
    cases hh : Mux.has t p with
    | false => rfl
    | true => exact absurd (Mux.has_eq_true.mp hh) hn
  simp [h1, h2]

/-- register the patterns for `c.dispatch`, in order -/
def regList (t : Mux.Table) : List Str → Except Panic Mux.Table
  | [] => .ok t
  | p :: ps =>
    match reg t p .dispatch with
    | .ok t' => regList t' ps
    | .error e => .error e

theorem regList_append (t : Mux.Table) (a b : List Str) :
    regList t (a ++ b) = match regList t a with
      | .ok t' => regList t' b
      | .error e => .error e := by
  induction a generalizing t with
  | nil => rfl
  | cons p ps ih =>
    simp only [List.cons_append, regList]
    cases reg t p .dispatch with
    | ok t' => exact ih t'
    | error e => rfl

theorem keys_append (t u : Mux.Table) : keys (t ++ u) = keys t ++ keys u := by simp [keys]
theorem keys_dispE (ps : List Str) : keys (ps.map dispE) = ps := by
  simp [keys, dispE, Function.comp_def]
theorem keys_plainE (hs : List (Str × Nat)) : keys (hs.map plainE) = hs.map (·.1) := by
  simp [keys, plainE, Function.comp_def]

theorem regList_ok {t t' : Mux.Table} {ps : List Str} (hk : Mux.Keys t) (hr : regList t ps = .ok t') :
    t' = t ++ ps.map dispE ∧ (keys t ++ ps).Nodup ∧ ∀ p ∈ ps, p ≠ [] := by
  induction ps generalizing t with
  | nil =>
    simp only [regList, Except.ok.injEq] at hr
    subst hr
    simpa [keys, Mux.Keys] using hk
  | cons p ps ih =>
    simp only [regList] at hr
    cases h1 : reg t p .dispatch with
    | error e => rw [h1] at hr; cases hr
    | ok t1 =>
      rw [h1] at hr
      obtain ⟨hp, hn, rfl⟩ := reg_ok h1
      have hk1 : Mux.Keys (t ++ [(p, Mux.Target.dispatch)]) := by
        unfold Mux.Keys
        rw [List.map_append]
        have : (keys t ++ [p]).Nodup := by
          rw [List.nodup_append]
          refine ⟨hk, by simp, ?_⟩
          intro a ha b hb
          simp only [List.mem_singleton] at hb
          subst hb
          intro h; subst h; exact hn ha
        simpa [keys] using this
      obtain ⟨e1, e2, e3⟩ := ih hk1 hr
      refine ⟨?_, ?_, ?_⟩
      · rw [e1]; simp [dispE]
      · rw [keys_append] at e2
        simpa [keys, List.append_assoc] using e2
      · intro q hq
        rcases List.mem_cons.mp hq with rfl | hq'
        · exact hp
        · exact e3 q hq'

theorem regList_of {t : Mux.Table} {ps : List Str} (hn : (keys t ++ ps).Nodup) (he : ∀ p ∈ ps, p ≠ []) :
    regList t ps = .ok (t ++ ps.map dispE) := by
  induction ps generalizing t with
  | nil => simp [regList]
  | cons p ps ih =>
    have hp : p ∉ keys t := by
      intro hm
      rw [List.nodup_append] at hn
      exact hn.2.2 p hm p List.mem_cons_self rfl
    simp only [regList]
    rw [reg_of .dispatch (he p List.mem_cons_self) hp]
    simp only
    have hn' : (keys (t ++ [(p, Mux.Target.dispatch)]) ++ ps).Nodup := by
      rw [keys_append]
      simpa [keys, List.append_assoc] using hn
    rw [ih hn' (fun q hq => he q (List.mem_cons_of_mem _ hq))]
    simp [dispE]

/-! ### the patterns of one service -/

theorem regPatterns_ne_nil {root : Str} : ∀ p ∈ Spec.regPatterns root, p ≠ [] := by
  intro p hp
  unfold Spec.regPatterns at hp
  by_cases h1 : Spec.isRootPattern root = true
  · simp [h1] at hp; subst hp; simp
  · have hne : fixedPrefixPath root ≠ [] := by
      intro h0
      apply h1
      simp [Spec.isRootPattern, h0]
    have h1' : Spec.isRootPattern root = false := by simpa using h1
    simp only [h1', Bool.false_eq_true, if_false] at hp
    split at hp
    · simp at hp; subst hp; exact hne
    · simp at hp
      rcases hp with rfl | rfl
      · exact hne
      · simp

theorem regPatterns_nodup (root : Str) : (Spec.regPatterns root).Nodup := by
  unfold Spec.regPatterns
  split
  · simp
  · split
    · simp
    · have : fixedPrefixPath root ≠ fixedPrefixPath root ++ ['/'] := by
        intro h
        have := congrArg List.length h
        simp at this
      simp [this]

/-! ### `mapped` -/

/-- the keys of `mapped` for services with these root paths -/
def mappedAll (rs : List Str) : List Str := rs.flatMap mappedOf

theorem mapped_eq (l : List Svc) : mapped l = mappedAll (roots l) := by
  simp [mapped, mappedAll, roots, List.flatMap_map]

theorem mappedAll_append (a b : List Str) : mappedAll (a ++ b) = mappedAll a ++ mappedAll b := by
  simp [mappedAll]

theorem mappedAll_cons (r : Str) (rs : List Str) : mappedAll (r :: rs) = mappedOf r ++ mappedAll rs := by
  simp [mappedAll]

theorem mappedAll_nil : mappedAll [] = [] := rfl

theorem isRootPattern_false {root : Str} (h : Spec.isRootPattern root = false) :
    fixedPrefixPath root ≠ ['/'] ∧ fixedPrefixPath root ≠ [] := by
  simp only [Spec.isRootPattern, Bool.or_eq_false_iff, beq_eq_false_iff_ne, ne_eq] at h
  exact h

/-- a service that does not land on `/` wants exactly what it maps -/
theorem regPatterns_eq_mappedOf {root : Str} (h : Spec.isRootPattern root = false) :
    Spec.regPatterns root = mappedOf root := by
  simp only [Spec.regPatterns, mappedOf, h, Bool.false_eq_true, if_false]

/-- every service maps what it wants (a service on `/` maps `/`, too) -/
theorem regPatterns_sub_mappedOf {root : Str} : ∀ p ∈ Spec.regPatterns root, p ∈ mappedOf root := by
  intro p hp
  cases h : Spec.isRootPattern root with
  | false => rw [← regPatterns_eq_mappedOf h]; exact hp
  | true =>
    simp only [Spec.regPatterns, h, if_true, List.mem_singleton] at hp
    subst hp
    simp only [Spec.isRootPattern, Bool.or_eq_true, beq_iff_eq] at h
    rcases h with h | h <;> simp [mappedOf, h, hasSuffix]

/-- no service beside `/` wants or maps the pattern `/` -/
theorem root_not_mem_mappedOf {root : Str} (h : Spec.isRootPattern root = false) : ['/'] ∉ mappedOf root := by
  obtain ⟨h1, h2⟩ := isRootPattern_false h
  have h3 : fixedPrefixPath root ++ ['/'] ≠ ['/'] := by
    intro h0
    apply h2
    have := congrArg List.length h0
    simp only [List.length_append, List.length_cons, List.length_nil] at this
    exact List.eq_nil_of_length_eq_zero (by omega)
  unfold mappedOf
  simp only
  split
  · simp only [List.mem_singleton]; exact fun h0 => h1 h0.symm
  · simp only [List.mem_cons, List.not_mem_nil, or_false, not_or]
    exact ⟨fun h0 => h1 h0.symm, fun h0 => h3 h0.symm⟩

/-! ### the patterns one `addHandler` registers -/

theorem newPatterns_sub {seen : List Str} {root : Str} : ∀ p ∈ Spec.newPatterns seen root, p ∈ Spec.regPatterns root := by
  intro p hp
  unfold Spec.newPatterns at hp
  split at hp
  · rename_i h
    simp only [List.mem_singleton] at hp
    subst hp
    simp [Spec.regPatterns, h]
  · exact (List.mem_filter.mp hp).1

theorem newPatterns_ne_nil {seen : List Str} {root : Str} : ∀ p ∈ Spec.newPatterns seen root, p ≠ [] :=
  fun p hp => regPatterns_ne_nil p (newPatterns_sub p hp)

theorem newPatterns_nodup (seen : List Str) (root : Str) : (Spec.newPatterns seen root).Nodup := by
  unfold Spec.newPatterns
  split
  · simp
  · exact (regPatterns_nodup root).filter _

/-- a service beside `/` registers nothing an earlier service mapped -/
theorem newPatterns_not_seen {seen : List Str} {root : Str} (h : Spec.isRootPattern root = false) :
    ∀ p ∈ Spec.newPatterns seen root, p ∉ seen := by
  intro p hp
  simp only [Spec.newPatterns, h, Bool.false_eq_true, if_false, List.mem_filter, Bool.not_eq_true',
    List.contains_eq_mem, decide_eq_false_iff_not] at hp
  exact hp.2

/-- container.go:117 `addHandler` in closed form -/
theorem addHandler_eq (registered : List Svc) (s : Svc) (t : Mux.Table) :
    addHandler registered s t = match regList t (Spec.newPatterns (mapped registered) s.root) with
      | .ok t' => .ok (t', Spec.isRootPattern s.root)
      | .error e => .error e := by
  unfold addHandler Spec.newPatterns Spec.regPatterns
  by_cases h1 : fixedPrefixPath s.root = ['/'] ∨ fixedPrefixPath s.root = []
  · have h2 : Spec.isRootPattern s.root = true := by
      rcases h1 with h | h <;> simp [Spec.isRootPattern, h]
    simp only [h1, h2, if_true, regList]
    cases reg t ['/'] .dispatch <;> rfl
  · have h2 : Spec.isRootPattern s.root = false := by
      cases hx : Spec.isRootPattern s.root with
      | false => rfl
      | true =>
        exfalso; apply h1
        simp only [Spec.isRootPattern, Bool.or_eq_true, beq_iff_eq] at hx
        exact hx
    simp only [h1, h2, if_false, Bool.false_eq_true]
    simp only [List.contains_eq_mem]
    by_cases h3 : hasSuffix ['/'] (fixedPrefixPath s.root) = true
    · by_cases h4 : fixedPrefixPath s.root ∈ mapped registered
      · simp only [h3, h4, decide_true, if_true, Bool.not_true, Bool.false_and, Bool.false_eq_true, if_false,
          List.filter_cons, List.filter_nil, regList]
      · simp only [h3, h4, decide_false, if_true, if_false, Bool.not_true, Bool.false_and, Bool.false_eq_true,
          List.filter_cons, List.filter_nil, Bool.not_false, regList]
        cases reg t (fixedPrefixPath s.root) .dispatch <;> rfl
    · by_cases h4 : fixedPrefixPath s.root ∈ mapped registered
      · by_cases h5 : fixedPrefixPath s.root ++ ['/'] ∈ mapped registered
        · simp only [h3, h4, h5, decide_true, if_true, if_false, Bool.not_true, Bool.not_false, Bool.and_false,
            Bool.false_eq_true, List.filter_cons, List.filter_nil, regList]
        · simp only [h3, h4, h5, decide_true, decide_false, if_true, if_false, Bool.not_true, Bool.not_false,
            Bool.and_self, Bool.false_eq_true, List.filter_cons, List.filter_nil, regList]
          cases reg t (fixedPrefixPath s.root ++ ['/']) .dispatch <;> rfl
      · by_cases h5 : fixedPrefixPath s.root ++ ['/'] ∈ mapped registered
        · simp only [h3, h4, h5, decide_true, decide_false, if_true, if_false, Bool.not_true, Bool.not_false,
            Bool.and_false, Bool.false_eq_true, List.filter_cons, List.filter_nil, regList]
          cases reg t (fixedPrefixPath s.root) .dispatch <;> rfl
        · simp only [h3, h4, h5, decide_false, if_true, if_false, Bool.not_false, Bool.and_self, Bool.false_eq_true,
            List.filter_cons, List.filter_nil, regList]
          cases reg t (fixedPrefixPath s.root) .dispatch with
          | error e => rfl
          | ok t' =>
            simp only
            cases reg t' (fixedPrefixPath s.root ++ ['/']) .dispatch <;> rfl

/-! ### sequences of services -/

theorem patsFrom_true (rs : List Str) : Spec.patsFrom rs true = [] := by
  cases rs <;> simp [Spec.patsFrom]

theorem regFrom_true (rs seen : List Str) : Spec.regFrom rs seen true = [] := by
  cases rs <;> simp [Spec.regFrom]

theorem flagFrom_true (rs : List Str) : Spec.flagFrom rs true = true := by
  cases rs <;> simp [Spec.flagFrom]

theorem patsFrom_append (rs : List Str) (r : Str) (b : Bool) :
    Spec.patsFrom (rs ++ [r]) b = Spec.patsFrom rs b ++ (if Spec.flagFrom rs b then [] else Spec.regPatterns r) := by
  induction rs generalizing b with
  | nil => cases b <;> simp [Spec.patsFrom, Spec.flagFrom]
  | cons x xs ih =>
    cases b
    · simp only [List.cons_append, Spec.patsFrom, Spec.flagFrom, Bool.false_eq_true, if_false, ih, List.append_assoc]
    · simp [Spec.patsFrom, Spec.flagFrom]

/-- one more service at the end registers what the services before it did not map -/
theorem regFrom_append (rs : List Str) (r : Str) (seen : List Str) (b : Bool) :
    Spec.regFrom (rs ++ [r]) seen b = Spec.regFrom rs seen b ++
      (if Spec.flagFrom rs b then [] else Spec.newPatterns (seen ++ mappedAll rs) r) := by
  induction rs generalizing seen b with
  | nil => cases b <;> simp [Spec.regFrom, Spec.flagFrom, mappedAll_nil]
  | cons x xs ih =>
    cases b
    · simp only [List.cons_append, Spec.regFrom, Spec.flagFrom, Bool.false_eq_true, if_false, ih, List.append_assoc,
        mappedAll_cons]
    · simp [Spec.regFrom, Spec.flagFrom]

theorem flagFrom_append (rs : List Str) (r : Str) (b : Bool) :
    Spec.flagFrom (rs ++ [r]) b = (if Spec.flagFrom rs b then true else Spec.isRootPattern r) := by
  induction rs generalizing b with
  | nil => cases b <;> simp [Spec.flagFrom]
  | cons x xs ih =>
    cases b
    · simp only [List.cons_append, Spec.flagFrom, Bool.false_eq_true, if_false, ih]
    · simp [Spec.flagFrom]

/-- while no service landed on `/`, none of them is one that would -/
theorem flagFrom_false_cons {r : Str} {rs : List Str} (h : Spec.flagFrom (r :: rs) false = false) :
    Spec.isRootPattern r = false ∧ Spec.flagFrom rs false = false := by
  simp only [Spec.flagFrom, Bool.false_eq_true, if_false] at h
  cases hr : Spec.isRootPattern r with
  | false => rw [hr] at h; exact ⟨rfl, h⟩
  | true => rw [hr, flagFrom_true] at h; cases h

theorem root_not_mem_mappedAll {rs : List Str} (h : Spec.flagFrom rs false = false) : ['/'] ∉ mappedAll rs := by
  induction rs with
  | nil => simp [mappedAll_nil]
  | cons r rs ih =>
    obtain ⟨h1, h2⟩ := flagFrom_false_cons h
    rw [mappedAll_cons, List.mem_append, not_or]
    exact ⟨root_not_mem_mappedOf h1, ih h2⟩

/-- whatever is registered for a service is mapped by it -/
theorem regFrom_sub_mappedAll (rs seen : List Str) (b : Bool) : ∀ p ∈ Spec.regFrom rs seen b, p ∈ mappedAll rs := by
  induction rs generalizing seen b with
  | nil => intro p hp; simp [Spec.regFrom] at hp
  | cons r rs ih =>
    intro p hp
    cases b with
    | true => simp [Spec.regFrom] at hp
    | false =>
      simp only [Spec.regFrom, Bool.false_eq_true, if_false, List.mem_append] at hp
      rw [mappedAll_cons, List.mem_append]
      rcases hp with hp | hp
      · exact Or.inl (regPatterns_sub_mappedOf p (newPatterns_sub p hp))
      · exact Or.inr (ih _ _ p hp)

theorem regFrom_ne_nil (rs seen : List Str) (b : Bool) : ∀ p ∈ Spec.regFrom rs seen b, p ≠ [] := by
  induction rs generalizing seen b with
  | nil => intro p hp; simp [Spec.regFrom] at hp
  | cons r rs ih =>
    intro p hp
    cases b with
    | true => simp [Spec.regFrom] at hp
    | false =>
      simp only [Spec.regFrom, Bool.false_eq_true, if_false, List.mem_append] at hp
      rcases hp with hp | hp
      · exact newPatterns_ne_nil p hp
      · exact ih _ _ p hp

/-- THE point of the repair 093fa53: the registered patterns are pairwise different and differ from
    everything mapped before, whatever the root paths are -/
theorem regFrom_nodup (rs seen : List Str) (hs : ['/'] ∉ seen) :
    (Spec.regFrom rs seen false).Nodup ∧ ∀ p ∈ Spec.regFrom rs seen false, p ∉ seen := by
  induction rs generalizing seen with
  | nil => simp [Spec.regFrom]
  | cons r rs ih =>
    simp only [Spec.regFrom, Bool.false_eq_true, if_false]
    cases hr : Spec.isRootPattern r with
    | true =>
      simp only [regFrom_true, List.append_nil, Spec.newPatterns, hr, if_true]
      refine ⟨by simp, ?_⟩
      intro p hp
      simp only [List.mem_singleton] at hp
      subst hp; exact hs
    | false =>
      have hs' : ['/'] ∉ seen ++ mappedOf r := by
        rw [List.mem_append, not_or]
        exact ⟨hs, root_not_mem_mappedOf hr⟩
      obtain ⟨n1, d1⟩ := ih (seen ++ mappedOf r) hs'
      refine ⟨?_, ?_⟩
      · rw [List.nodup_append]
        refine ⟨newPatterns_nodup _ _, n1, ?_⟩
        intro a ha b hb hab
        subst hab
        apply d1 a hb
        rw [List.mem_append]
        exact Or.inr (regPatterns_sub_mappedOf a (newPatterns_sub a ha))
      · intro p hp
        rcases List.mem_append.mp hp with hp | hp
        · exact newPatterns_not_seen hr p hp
        · intro hm
          exact d1 p hp (List.mem_append.mpr (Or.inl hm))

theorem regFrom_nodup' (rs : List Str) : (Spec.regFrom rs [] false).Nodup :=
  (regFrom_nodup rs [] (by simp)).1

/-- registering services in order on a mux, in closed form -/
def regAll (rs seen : List Str) (t : Mux.Table) (r : Bool) : Except Panic (Mux.Table × Bool) :=
  match regList t (Spec.regFrom rs seen r) with
  | .ok t' => .ok (t', Spec.flagFrom rs r)
  | .error e => .error e

theorem regAll_true (rs seen : List Str) (t : Mux.Table) : regAll rs seen t true = .ok (t, true) := by
  simp [regAll, regFrom_true, flagFrom_true, regList]

theorem mapped_append (l : List Svc) (s : Svc) : mapped (l ++ [s]) = mapped l ++ mappedOf s.root := by
  simp [mapped]

/-- the loop of `Remove` in closed form -/
theorem rebuild_eq (root : Str) (l news : List Svc) (t : Mux.Table) (r : Bool) :
    rebuild root l news t r = regAll (roots (l.filter (fun each => each.root != root))) (mapped news) t r := by
  induction l generalizing news t r with
  | nil => cases r <;> simp [rebuild, regAll, roots, Spec.regFrom, Spec.flagFrom, regList]
  | cons each rest ih =>
    simp only [rebuild]
    by_cases hne : (each.root != root) = true
    · simp only [hne, if_true, List.filter_cons]
      cases r with
      | true =>
        simp only [Bool.not_true, Bool.false_eq_true, if_false]
        rw [ih _ t true, regAll_true, regAll_true]
      | false =>
        simp only [Bool.not_false, if_true]
        rw [addHandler_eq news each t]
        simp only [roots, List.map_cons, regAll, Spec.regFrom, Spec.flagFrom, Bool.false_eq_true, if_false]
        rw [regList_append]
        cases regList t (Spec.newPatterns (mapped news) each.root) with
        | error e => rfl
        | ok t' =>
          simp only
          rw [ih _ t' _, mapped_append]
          rfl
    · simp only [hne, if_false, List.filter_cons, Bool.false_eq_true]
      exact ih news t r

/-! ### when a list of registrations fails -/

/-- pairwise different non-empty patterns fail to register only on a pattern the mux already holds -/
theorem regList_error {t : Mux.Table} {ps : List Str} {e : Panic} (hr : regList t ps = .error e)
    (hne : ∀ p ∈ ps, p ≠ []) (hn : ps.Nodup) : ∃ p ∈ ps, p ∈ keys t ∧ e = .mux (.multiple p) := by
  induction ps generalizing t with
  | nil => simp [regList] at hr
  | cons p ps ih =>
    simp only [regList] at hr
    cases h1 : reg t p .dispatch with
    | error e1 =>
      rw [h1] at hr
      simp only [Except.error.injEq] at hr
      subst hr
      unfold reg Mux.register at h1
      have hp : p.isEmpty = false := by
        have := hne p List.mem_cons_self
        cases p <;> simp_all
      simp only [hp, Bool.false_eq_true, if_false] at h1
      by_cases hh : Mux.has t p = true
      · simp only [hh, if_true, Except.error.injEq] at h1
        exact ⟨p, List.mem_cons_self, Mux.has_eq_true.mp hh, h1.symm⟩
      · simp [hh] at h1
    | ok t1 =>
      rw [h1] at hr
      obtain ⟨_, _, rfl⟩ := reg_ok h1
      have hn' : p ∉ ps ∧ ps.Nodup := by simpa using hn
      obtain ⟨q, hq, hk, he⟩ := ih hr (fun x hx => hne x (List.mem_cons_of_mem _ hx)) hn'.2
      refine ⟨q, List.mem_cons_of_mem _ hq, ?_, he⟩
      rw [keys_append] at hk
      rcases List.mem_append.mp hk with hk | hk
      · exact hk
      · simp only [keys, List.map_cons, List.map_nil, List.mem_singleton] at hk
        subst hk
        exact absurd hq hn'.1

end Registry
end Restful
