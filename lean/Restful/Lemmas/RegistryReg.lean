/-
What `addHandler` and the rebuild loop of `Remove` register, in closed form: the patterns
`Spec.patsFrom roots onRoot`, in order, provided none of them is registered yet.
-/
import Restful.Model.Registry
import Restful.Spec.Registry
import Restful.Lemmas.Mux
namespace Restful
namespace Registry
open List Str

def roots (l : List Svc) : List Str := l.map (·.root)

def dispE (p : Str) : Mux.Entry := (p, .dispatch)
def plainE (h : Str × Nat) : Mux.Entry := (h.1, .plain h.2)

def keys (t : Mux.Table) : List Str := t.map (·.1)

theorem nodup_map_inj {α β : Type} {f : α → β} {l : List α} (hn : (l.map f).Nodup) {a b : α}
    (ha : a ∈ l) (hb : b ∈ l) (h : f a = f b) : a = b := by
  induction l with
  | nil => cases ha
  | cons x xs ih =>
    have hk' : f x ∉ xs.map f ∧ (xs.map f).Nodup := by simpa using hn
    rcases List.mem_cons.mp ha with rfl | ha'
    · rcases List.mem_cons.mp hb with rfl | hb'
      · rfl
      · exact absurd (h ▸ List.mem_map_of_mem (f := f) hb') hk'.1
    · rcases List.mem_cons.mp hb with rfl | hb'
      · exact absurd (h ▸ List.mem_map_of_mem (f := f) ha') hk'.1
      · exact ih hk'.2 ha' hb'

/-! ### one registration -/

theorem reg_ok {t t' : Mux.Table} {p : Str} {h : Mux.Target} (hr : reg t p h = .ok t') :
    p ≠ [] ∧ p ∉ keys t ∧ t' = t ++ [(p, h)] := by
  unfold reg Mux.register at hr
  by_cases hp : p.isEmpty = true
  · simp [hp] at hr
  · by_cases hh : Mux.has t p = true
    · simp [hp, hh] at hr
    · simp only [hp, hh] at hr
      simp only [Bool.false_eq_true, if_false, Except.ok.injEq] at hr
      refine ⟨?_, ?_, hr.symm⟩
      · intro h0; subst h0; simp at hp
      · intro hm; exact hh (Mux.has_eq_true.mpr hm)

theorem reg_of {t : Mux.Table} {p : Str} (h : Mux.Target) (hp : p ≠ []) (hn : p ∉ keys t) :
    reg t p h = .ok (t ++ [(p, h)]) := by
  unfold reg Mux.register
  have h1 : p.isEmpty = false := by cases p <;> simp_all
  have h2 : Mux.has t p = false := by
    cases hh : Mux.has t p with
    | false => rfl
    | true => exact absurd (Mux.has_eq_true.mp hh) hn
  simp [h1, h2]

/-- register the patterns for `c.dispatch`, in order -/
def regList (t : Mux.Table) : List Str → Except Panic Mux.Table
  | [] => .ok t
  | p :: ps =>
    match reg t p .dispatch with
    | .ok t' => regList t' ps
    | .error e => .error e

theorem regList_append (t : Mux.Table) (a b : List Str) :
    regList t (a ++ b) = match regList t a with
      | .ok t' => regList t' b
      | .error e => .error e := by
  induction a generalizing t with
  | nil => rfl
  | cons p ps ih =>
    simp only [List.cons_append, regList]
    cases reg t p .dispatch with
    | ok t' => exact ih t'
    | error e => rfl

theorem keys_append (t u : Mux.Table) : keys (t ++ u) = keys t ++ keys u := by simp [keys]
theorem keys_dispE (ps : List Str) : keys (ps.map dispE) = ps := by
  simp [keys, dispE, Function.comp_def]
theorem keys_plainE (hs : List (Str × Nat)) : keys (hs.map plainE) = hs.map (·.1) := by
  simp [keys, plainE, Function.comp_def]

theorem regList_ok {t t' : Mux.Table} {ps : List Str} (hk : Mux.Keys t) (hr : regList t ps = .ok t') :
    t' = t ++ ps.map dispE ∧ (keys t ++ ps).Nodup ∧ ∀ p ∈ ps, p ≠ [] := by
  induction ps generalizing t with
  | nil =>
    simp only [regList, Except.ok.injEq] at hr
    subst hr
    simpa [keys, Mux.Keys] using hk
  | cons p ps ih =>
    simp only [regList] at hr
    cases h1 : reg t p .dispatch with
    | error e => rw [h1] at hr; cases hr
    | ok t1 =>
      rw [h1] at hr
      obtain ⟨hp, hn, rfl⟩ := reg_ok h1
      have hk1 : Mux.Keys (t ++ [(p, Mux.Target.dispatch)]) := by
        unfold Mux.Keys
        rw [List.map_append]
        have : (keys t ++ [p]).Nodup := by
          rw [List.nodup_append]
          refine ⟨hk, by simp, ?_⟩
          intro a ha b hb
          simp only [List.mem_singleton] at hb
          subst hb
          intro h; subst h; exact hn ha
        simpa [keys] using this
      obtain ⟨e1, e2, e3⟩ := ih hk1 hr
      refine ⟨?_, ?_, ?_⟩
      · rw [e1]; simp [dispE]
      · rw [keys_append] at e2
        simpa [keys, List.append_assoc] using e2
      · intro q hq
        rcases List.mem_cons.mp hq with rfl | hq'
        · exact hp
        · exact e3 q hq'

theorem regList_of {t : Mux.Table} {ps : List Str} (hn : (keys t ++ ps).Nodup) (he : ∀ p ∈ ps, p ≠ []) :
    regList t ps = .ok (t ++ ps.map dispE) := by
  induction ps generalizing t with
  | nil => simp [regList]
  | cons p ps ih =>
    have hp : p ∉ keys t := by
      intro hm
      rw [List.nodup_append] at hn
      exact hn.2.2 p hm p List.mem_cons_self rfl
    simp only [regList]
    rw [reg_of .dispatch (he p List.mem_cons_self) hp]
    simp only
    have hn' : (keys (t ++ [(p, Mux.Target.dispatch)]) ++ ps).Nodup := by
      rw [keys_append]
      simpa [keys, List.append_assoc] using hn
    rw [ih hn' (fun q hq => he q (List.mem_cons_of_mem _ hq))]
    simp [dispE]

/-! ### the patterns of one service -/

theorem regPatterns_ne_nil {root : Str} : ∀ p ∈ Spec.regPatterns root, p ≠ [] := by
  intro p hp
  unfold Spec.regPatterns at hp
  by_cases h1 : Spec.isRootPattern root = true
  · simp [h1] at hp; subst hp; simp
  · have hne : fixedPrefixPath root ≠ [] := by
      intro h0
      apply h1
      simp [Spec.isRootPattern, h0]
    have h1' : Spec.isRootPattern root = false := by simpa using h1
    simp only [h1', Bool.false_eq_true, if_false] at hp
    split at hp
    · simp at hp; subst hp; exact hne
    · simp at hp
      rcases hp with rfl | rfl
      · exact hne
      · simp

theorem regPatterns_nodup (root : Str) : (Spec.regPatterns root).Nodup := by
  unfold Spec.regPatterns
  split
  · simp
  · split
    · simp
    · have : fixedPrefixPath root ≠ fixedPrefixPath root ++ ['/'] := by
        intro h
        have := congrArg List.length h
        simp at this
      simp [this]

/-- `addHandler` when the `alreadyMapped` scan finds nothing -/
theorem addHandler_eq {all : List Svc} {s : Svc} (t : Mux.Table) (hm : alreadyMapped all s = false) :
    addHandler all s t = match regList t (Spec.regPatterns s.root) with
      | .ok t' => .ok (t', Spec.isRootPattern s.root)
      | .error e => .error e := by
  unfold addHandler Spec.regPatterns
  by_cases h1 : fixedPrefixPath s.root = ['/'] ∨ fixedPrefixPath s.root = []
  · have h2 : Spec.isRootPattern s.root = true := by
      rcases h1 with h | h <;> simp [Spec.isRootPattern, h]
    simp only [h1, h2, if_true, regList]
    cases reg t ['/'] .dispatch <;> rfl
  · have h2 : Spec.isRootPattern s.root = false := by
      cases hx : Spec.isRootPattern s.root with
      | false => rfl
      | true =>
        exfalso; apply h1
        simp only [Spec.isRootPattern, Bool.or_eq_true, beq_iff_eq] at hx
        exact hx
    simp only [h1, h2, hm, if_false, Bool.false_eq_true]
    by_cases h3 : hasSuffix ['/'] (fixedPrefixPath s.root) = true
    · simp only [h3, if_true, regList]
      cases reg t (fixedPrefixPath s.root) .dispatch <;> rfl
    · simp only [h3, if_false, regList, Bool.false_eq_true]
      cases reg t (fixedPrefixPath s.root) .dispatch with
      | error e => rfl
      | ok t' =>
        simp only
        cases reg t' (fixedPrefixPath s.root ++ ['/']) .dispatch <;> rfl

/-! ### sequences of services -/

theorem patsFrom_true (rs : List Str) : Spec.patsFrom rs true = [] := by
  cases rs <;> simp [Spec.patsFrom]

theorem flagFrom_true (rs : List Str) : Spec.flagFrom rs true = true := by
  cases rs <;> simp [Spec.flagFrom]

theorem patsFrom_append (rs : List Str) (r : Str) (b : Bool) :
    Spec.patsFrom (rs ++ [r]) b = Spec.patsFrom rs b ++ (if Spec.flagFrom rs b then [] else Spec.regPatterns r) := by
  induction rs generalizing b with
  | nil => cases b <;> simp [Spec.patsFrom, Spec.flagFrom]
  | cons x xs ih =>
    cases b
    · simp only [List.cons_append, Spec.patsFrom, Spec.flagFrom, Bool.false_eq_true, if_false, ih, List.append_assoc]
    · simp [Spec.patsFrom, Spec.flagFrom]

theorem flagFrom_append (rs : List Str) (r : Str) (b : Bool) :
    Spec.flagFrom (rs ++ [r]) b = (if Spec.flagFrom rs b then true else Spec.isRootPattern r) := by
  induction rs generalizing b with
  | nil => cases b <;> simp [Spec.flagFrom]
  | cons x xs ih =>
    cases b
    · simp only [List.cons_append, Spec.flagFrom, Bool.false_eq_true, if_false, ih]
    · simp [Spec.flagFrom]

/-- registering services in order on a mux, in closed form -/
def regAll (rs : List Str) (t : Mux.Table) (r : Bool) : Except Panic (Mux.Table × Bool) :=
  match regList t (Spec.patsFrom rs r) with
  | .ok t' => .ok (t', Spec.flagFrom rs r)
  | .error e => .error e

theorem regAll_true (rs : List Str) (t : Mux.Table) : regAll rs t true = .ok (t, true) := by
  simp [regAll, patsFrom_true, flagFrom_true, regList]

theorem rebuild_eq (all : List Svc) (root : Str) (l : List Svc) (t : Mux.Table) (r : Bool)
    (hm : ∀ e ∈ l, alreadyMapped all e = false) :
    rebuild all root l t r = regAll (roots (l.filter (fun each => each.root != root))) t r := by
  induction l generalizing t r with
  | nil => cases r <;> simp [rebuild, regAll, roots, Spec.patsFrom, Spec.flagFrom, regList]
  | cons each rest ih =>
    have hrest : ∀ e ∈ rest, alreadyMapped all e = false := fun e he => hm e (List.mem_cons_of_mem _ he)
    simp only [rebuild]
    by_cases hne : (each.root != root) = true
    · simp only [hne, if_true, List.filter_cons]
      cases r with
      | true =>
        simp only [Bool.not_true, Bool.false_eq_true, if_false]
        rw [ih t true hrest, regAll_true, regAll_true]
      | false =>
        simp only [Bool.not_false, if_true]
        rw [addHandler_eq t (hm each List.mem_cons_self)]
        simp only [roots, List.map_cons, regAll, Spec.patsFrom, Spec.flagFrom, Bool.false_eq_true, if_false]
        rw [regList_append]
        cases regList t (Spec.regPatterns each.root) with
        | error e => rfl
        | ok t' =>
          simp only
          rw [ih t' _ hrest]
          rfl
    · simp only [hne, if_false, List.filter_cons, Bool.false_eq_true]
      exact ih t r hrest

end Registry
end Restful
