import Restful.Lemmas.TieImpRegistry
import Restful.Lemmas.TieImpBuild
namespace Restful
namespace TieImp
open Imp
set_option linter.unusedVariables false  -- `hT hq hts` (and `quote`): the "/" template has no tokens, they are not needed

/-- what the registry model tracks of a container: the root paths of its WebServices in order, the patterns
    on its ServeMux, the flag `isRegisteredOnRoot` -/
def contView (c : ImpGen.GoContainer) : List (Option Str) × MuxLog × Bool :=
  (c.webServices.map (fun w => w.map (·.rootPath)), c.ServeMux, c.isRegisteredOnRoot)

namespace T18

theorem tmpl_slash (X : ImpGen.Ext) :
    ∃ t, ImpGen.templateToRegularExpression X ['/'] = some t := ⟨_, rfl⟩

theorem path_slash (X : ImpGen.Ext) (hc : ∀ e : Str, (X.regexp_Compile e).2 = none) (w : ImpGen.GoWebService) :
    ∃ w' : ImpGen.GoWebService, ImpGen.WebService_Path X (some w) ['/'] = some (some w', some w') ∧ w'.rootPath = ['/'] := by
  obtain ⟨t, ht⟩ := tmpl_slash X
  unfold ImpGen.WebService_Path ImpGen.WebService_compilePathExpression ImpGen.newPathExpression
  dsimp only
  have h0 : (len ['/'] == (0:Int)) = false := by decide
  simp only [deref, Option.bind_eq_bind, Option.bind_some, Option.pure_def, h0, Bool.false_eq_true, if_false, ht, hc,
    Option.isSome_none]
  exact ⟨_, rfl, rfl⟩

/-- the duplicate-root search: `if each.RootPath() == service.RootPath() { os.Exit(1) }` -/
theorem dup_loop (g : Registry.Svc → ImpGen.GoWebService) (root : Str)
    (f : Option ImpGen.GoWebService → PUnit.{1} → Option (ForInStep PUnit.{1})) (l : List Registry.Svc)
    (hf : ∀ r u, f (some (g r)) u = if (r.root == root) = true then none else some (.yield ⟨⟩)) :
    forIn (l.map fun r => some (g r)) PUnit.unit f
      = if l.any (fun r => r.root == root) = true then none else some ⟨⟩ := by
  induction l with
  | nil => rfl
  | cons r rs ih =>
    simp only [List.map_cons, List.forIn_cons, hf, List.any_cons]
    by_cases h : (r.root == root) = true
    · simp only [h, if_true, Bool.true_or]; rfl
    · simp only [h, if_false, Bool.false_eq_true, Bool.false_or, Option.bind_eq_bind, Option.bind_some, ih]

/-- `add_handler` for a `*WebService` value that is not `g s` (the one being added is not registered yet) -/
theorem add_handler' (X : ImpGen.Ext)
    (hmux : ∀ (t : Mux.Table) (p : Str), X.mux_HandleFunc (muxRepr t) p =
      (match Mux.register t p .dispatch with
       | .ok t' => some (muxRepr t')
       | .error _ => none))
    (g : Registry.Svc → ImpGen.GoWebService) (hg : ∀ s, (g s).rootPath = s.root)
    (c : Option ImpGen.GoContainer) (registered : List Registry.Svc) (s : Registry.Svc) (t : Mux.Table)
    (w : ImpGen.GoWebService) (hw : w.rootPath = s.root) (hn : s ∉ registered) :
    ImpGen.Container_addHandler X c (some w) (muxRepr t) (registered.map (fun r => some (g r)))
      = (match Registry.addHandler registered s t with
         | .ok (t', b) => some (b, muxRepr t')
         | .error _ => none) := by
  have h := add_handler X hmux (fun x => if x = s then w else g x)
    (by intro x; by_cases hx : x = s <;> simp [hx, hw, hg]) c registered s t
  have e : registered.map (fun r => some ((fun x => if x = s then w else g x) r)) = registered.map (fun r => some (g r)) := by
    apply List.map_congr_left
    intro r hr
    have : r ≠ s := fun h => hn (h ▸ hr)
    simp [this]
  rw [e] at h
  rw [if_pos rfl] at h
  exact h

end T18

/-- container.go `Container.Add` (with the lazy `service.Path("/")`, the duplicate-root exit, `addHandler`):
    as translated on this run IS the `add` step of the registry model — same services, same ServeMux
    patterns, same root flag; `os.Exit` (duplicate root path) and a panic of `ServeMux.HandleFunc` are `none`
    where the model has an error.  `ServeMux.HandleFunc` behaves like the model's `Mux.register` (`hmux`);
    `regexp.Compile` accepts the expression of "/" (`hc`: otherwise the library exits) -/
theorem container_add (X : ImpGen.Ext) (quote : Str → Str) (m : Str → Regexp)
    (hT : X.TrimRightSlashEnabled = true) (hq : X.regexp_QuoteMeta = quote) (hts : X.strings_TrimSpace = Jsr.trimSpace)
    (hc : ∀ e : Str, X.regexp_Compile e = (m e, none))
    (hmux : ∀ (t : Mux.Table) (p : Str), X.mux_HandleFunc (muxRepr t) p =
      (match Mux.register t p .dispatch with
       | .ok t' => some (muxRepr t')
       | .error _ => none))
    (g : Registry.Svc → ImpGen.GoWebService) (hg : ∀ s, (g s).rootPath = s.root)
    (st : Registry.State) (c0 : ImpGen.GoContainer)
    (hc0 : c0.webServices = st.services.map (fun s => some (g s)) ∧ c0.ServeMux = muxRepr st.mux ∧
           c0.isRegisteredOnRoot = st.onRoot)
    (s : Registry.Svc) (w : ImpGen.GoWebService) (hw : w.rootPath = s.svc.root) :
    (ImpGen.Container_Add X (some c0) (some w)).map (fun r => r.1.map contView)
      = (match Registry.step st (.add s) with
         | .ok st' => some (some (st'.services.map (fun x => some x.root), muxRepr st'.mux, st'.onRoot))
         | .error _ => none) := by
  obtain ⟨h1, h2, h3⟩ := hc0
  -- what happens after the lazy `Path("/")`, for the service value `w'` that is registered
  have key : ∀ w' : ImpGen.GoWebService, w'.rootPath = s.root →
      ∀ f : Option ImpGen.GoWebService → PUnit.{1} → Option (ForInStep PUnit.{1}),
      (∀ r u, f (some (g r)) u = if (r.root == s.root) = true then none else some (.yield ⟨⟩)) →
      ((forIn c0.webServices PUnit.unit f).bind fun _ =>
        if (!c0.isRegisteredOnRoot) = true then
          (ImpGen.Container_addHandler X (some c0) (some w') c0.ServeMux c0.webServices).bind fun x =>
            some (some ({ webServices := push c0.webServices (some w'), ServeMux := x.snd, isRegisteredOnRoot := x.fst } : ImpGen.GoContainer),
                  some ({ webServices := push c0.webServices (some w'), ServeMux := x.snd, isRegisteredOnRoot := x.fst } : ImpGen.GoContainer), some w')
        else some (some { webServices := push c0.webServices (some w'), ServeMux := c0.ServeMux, isRegisteredOnRoot := c0.isRegisteredOnRoot },
                   some { webServices := push c0.webServices (some w'), ServeMux := c0.ServeMux, isRegisteredOnRoot := c0.isRegisteredOnRoot }, some w')).map
          (fun r => r.1.map contView)
      = (match Registry.step st (.add s) with
         | .ok st' => some (some (st'.services.map (fun x => some x.root), muxRepr st'.mux, st'.onRoot))
         | .error _ => none) := by
    intro w' hw' f hf
    rw [h1, h2, h3, T18.dup_loop g s.root f st.services hf]
    unfold Registry.step
    by_cases hany : st.services.any (fun each => each.root == s.root) = true
    · simp only [hany, if_true]; rfl
    · have hn : s ∉ st.services := by
        intro hmem
        apply hany
        rw [List.any_eq_true]
        exact ⟨s, hmem, by simp⟩
      simp only [hany, if_false, Bool.false_eq_true, Option.bind_some]
      have hview : (push (st.services.map fun s => some (g s)) (some w')).map (fun w => w.map (·.rootPath))
          = (st.services ++ [s]).map (fun x => some x.root) := by
        simp [push, hg, hw', Function.comp_def]
      cases hr : st.onRoot
      · simp only [Bool.not_false, if_true, Bool.false_eq_true, if_false,
          T18.add_handler' X hmux g hg (some c0) st.services s st.mux w' hw' hn]
        cases Registry.addHandler st.services s st.mux with
        | error e => rfl
        | ok p =>
          simp only [Option.bind_some, Option.map_some, contView, hview]
      · simp only [Bool.not_true, Bool.false_eq_true, if_false, if_true, Option.map_some, contView, hview]
  have hroot : s.root = if s.svc.root.isEmpty then ['/'] else s.svc.root := rfl
  unfold ImpGen.Container_Add
  dsimp only
  simp only [deref, Option.bind_eq_bind, Option.bind_some, Option.pure_def, T16.len_eq_zero, T14.slash_lit]
  by_cases he : w.rootPath.isEmpty = true
  · obtain ⟨w', hp, hr'⟩ := T18.path_slash X (fun e => by rw [hc]) w
    have hw' : w'.rootPath = s.root := by rw [hroot, ← hw, if_pos he, hr']
    simp only [he, if_true, hp, Option.bind_some]
    exact key w' hw' _ (by
      intro r u
      simp only [Option.bind_some, hg, hw']
      by_cases h : (r.root == s.root) = true <;> simp only [h, if_true, if_false, Bool.false_eq_true] <;> rfl)
  · have hw' : w.rootPath = s.root := by rw [hroot, ← hw, if_neg he]
    simp only [he, if_false, Bool.false_eq_true]
    exact key w hw' _ (by
      intro r u
      simp only [Option.bind_some, hg, hw']
      by_cases h : (r.root == s.root) = true <;> simp only [h, if_true, if_false, Bool.false_eq_true] <;> rfl)

#print axioms container_add

end TieImp
end Restful
