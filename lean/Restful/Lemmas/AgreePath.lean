/-
C18, part 1 (A1): on a normal request path the two routers segment the path the same way, and a
template of the common fragment (literals and plain variables) admits the same requests with the
same expected parameters under both readings.
-/
import Restful.Spec.Common
import Restful.Spec.Params
import Restful.Lemmas.SplitOn
import Restful.Lemmas.Tokenize
import Restful.Lemmas.JsrMatch
namespace Restful
open Str

/-! ### `split` and a trailing separator -/
namespace Str

theorem split_snoc (c : Char) : ∀ (s : Str), split c (s ++ [c]) = split c s ++ [[]]
  | [] => by
    show List.splitOn c [c] = List.splitOn c [] ++ [[]]
    rw [List.splitOn_cons_eq_if_modifyHead]
    simp
  | x :: xs => by
    have ih := split_snoc c xs
    show List.splitOn c (x :: (xs ++ [c])) = List.splitOn c (x :: xs) ++ [[]]
    rw [List.splitOn_cons_eq_if_modifyHead, List.splitOn_cons_eq_if_modifyHead]
    have ih' : List.splitOn c (xs ++ [c]) = List.splitOn c xs ++ [[]] := ih
    rw [ih']
    split
    · rfl
    · have hne := List.splitOn_ne_nil c xs
      cases hsp : List.splitOn c xs with
      | nil => exact absurd hsp hne
      | cons h t => rfl

theorem split_getLast_nil (c : Char) : ∀ (s : Str), (split c s).getLast? = some [] →
    s = [] ∨ s.getLast? = some c
  | [], _ => Or.inl rfl
  | x :: xs, h => by
    right
    have hne := List.splitOn_ne_nil c xs
    change (List.splitOn c (x :: xs)).getLast? = some [] at h
    rw [List.splitOn_cons_eq_if_modifyHead] at h
    cases hsp : List.splitOn c xs with
    | nil => exact absurd hsp hne
    | cons hd tl =>
      rw [hsp] at h
      split at h
      · rename_i hxc
        have hxc' : x = c := by simpa using hxc
        subst hxc'
        rw [List.getLast?_cons_cons] at h
        rcases split_getLast_nil x xs (by show (List.splitOn x xs).getLast? = some []; rw [hsp]; exact h) with rfl | h'
        · rfl
        · cases xs with
          | nil => simp at h'
          | cons y ys => rw [List.getLast?_cons_cons]; exact h'
      · simp only [List.modifyHead_cons] at h
        cases tl with
        | nil => simp at h
        | cons t2 tl2 =>
          rw [List.getLast?_cons_cons] at h
          rcases split_getLast_nil c xs (by
            show (List.splitOn c xs).getLast? = some []
            rw [hsp, List.getLast?_cons_cons]; exact h) with rfl | h'
          · simp [List.splitOn_nil] at hsp
          · cases xs with
            | nil => simp at h'
            | cons y ys => rw [List.getLast?_cons_cons]; exact h'

/-- the first segment of a text starting with the separator is empty -/
theorem split_head_of_sep (c : Char) (s : Str) : (split c (c :: s)).head? = some [] := by
  rw [split_eq]
  simp

end Str

/-! ### normal paths -/
namespace Spec

/-- what a normal path is: `/` followed by non-empty, slash-free segments joined by `/`, and
    possibly one trailing `/`; both routers' segmentations, minus the final empty raw segment -/
theorem normalPath_spec {p : Str} (hp : normalPath p = true) :
    ∃ r body, p = '/' :: r ∧ '\n' ∉ r ∧ tokenize p = body ∧ (∀ q ∈ body, q ≠ []) ∧
      (split '/' r = body ∨ split '/' r = body ++ [[]]) := by
  unfold normalPath at hp
  split at hp
  · rename_i r
    simp only [Bool.and_eq_true, Bool.not_eq_true', List.contains_eq_mem, decide_eq_false_iff_not] at hp
    obtain ⟨hnl, hall⟩ := hp
    refine ⟨r, _, rfl, hnl, rfl, ?_⟩
    -- the first raw segment of a text starting with `/` is empty
    have head_ne : ∀ (s : Str), (∀ q ∈ split '/' s, q ≠ []) → s.head? ≠ some '/' := by
      intro s hs hh
      cases s with
      | nil => simp at hh
      | cons x xs =>
        simp only [List.head?_cons, Option.some.injEq] at hh
        subst hh
        have := split_head_of_sep '/' xs
        have hm : ([] : Str) ∈ split '/' ('/' :: xs) := List.mem_of_head? this
        exact hs _ hm rfl
    by_cases hlast : (split '/' r).getLast? = some []
    · -- a trailing slash (or the root path `/`)
      simp only [hlast, beq_self_eq_true, if_true, List.all_eq_true, Bool.not_eq_true',
        List.isEmpty_eq_false_iff] at hall
      rcases split_getLast_nil '/' r hlast with rfl | hr
      · refine ⟨by simp [tokenize], Or.inr ?_⟩
        simp [tokenize, split, List.splitOn_nil]
      · obtain ⟨r0, rfl⟩ : ∃ r0, r = r0 ++ ['/'] := by
          have := getLast?_dropLast_eq hr
          exact ⟨_, this⟩
        rw [split_snoc] at hall ⊢
        simp only [List.dropLast_concat] at hall
        have h0 : r0.head? ≠ some '/' := head_ne r0 hall
        have h0ne : r0 ≠ [] := by
          rintro rfl
          have : ([] : Str) ∈ split '/' [] := by simp [split, List.splitOn_nil]
          exact hall _ this rfl
        have h0last : r0.getLast? ≠ some '/' := by
          intro hl
          obtain ⟨r1, rfl⟩ : ∃ r1, r0 = r1 ++ ['/'] := ⟨_, getLast?_dropLast_eq hl⟩
          rw [split_snoc] at hall
          exact hall [] (by simp) rfl
        have hex : ∃ c ∈ '/' :: r0, c ≠ '/' := by
          cases r0 with
          | nil => exact absurd rfl h0ne
          | cons x xs =>
            refine ⟨x, by simp, ?_⟩
            rintro rfl
            exact h0 rfl
        have htok : tokenize ('/' :: (r0 ++ ['/'])) = split '/' r0 := by
          have := tokenize_trailing_slash ('/' :: r0) hex
          rw [List.cons_append] at this
          rw [this]
          have hne : '/' :: r0 ≠ ['/'] := by
            intro h; exact h0ne (by simpa using h)
          simp only [tokenize, hne, if_false, trim]
          have : trimLeft '/' ('/' :: r0) = r0 := by
            simp only [trimLeft, List.dropWhile_cons, beq_self_eq_true, if_true]
            exact trimLeft_id h0
          rw [this, trimRight_id h0last]
        rw [htok]
        exact ⟨hall, Or.inr rfl⟩
    · -- no trailing slash
      have hb : ((split '/' r).getLast? == some []) = false := by simpa using hlast
      simp only [hb, Bool.false_eq_true, if_false, List.all_eq_true, Bool.not_eq_true',
        List.isEmpty_eq_false_iff] at hall
      have h0 : r.head? ≠ some '/' := head_ne r hall
      have hrne : r ≠ [] := by
        rintro rfl
        have : ([] : Str) ∈ split '/' [] := by simp [split, List.splitOn_nil]
        exact hall _ this rfl
      have hrlast : r.getLast? ≠ some '/' := by
        intro hl
        obtain ⟨r1, rfl⟩ : ∃ r1, r = r1 ++ ['/'] := ⟨_, getLast?_dropLast_eq hl⟩
        rw [split_snoc] at hall
        exact hall [] (by simp) rfl
      have htok : tokenize ('/' :: r) = split '/' r := by
        have hne : '/' :: r ≠ ['/'] := by
          intro h; exact hrne (by simpa using h)
        simp only [tokenize, hne, if_false, trim]
        have : trimLeft '/' ('/' :: r) = r := by
          simp only [trimLeft, List.dropWhile_cons, beq_self_eq_true, if_true]
          exact trimLeft_id h0
        rw [this, trimRight_id hrlast]
      rw [htok]
      exact ⟨hall, Or.inl rfl⟩
  · simp at hp

variable (E : ReEnv)

/-- on non-empty segments the two readings of a common-fragment template coincide -/
theorem admits_common_eq : ∀ (ts : List TTok) (qs : List Str), (∀ t ∈ ts, tokCommon t = true) →
    (∀ q ∈ qs, q ≠ []) → admits E .jsr ts qs = admits E .curly ts qs
  | [], _, _, _ => rfl
  | _ :: _, [], _, _ => rfl
  | t :: ts, q :: qs, hc, hq => by
    have ih := admits_common_eq ts qs (fun x hx => hc x (List.mem_cons_of_mem _ hx))
      (fun x hx => hq x (List.mem_cons_of_mem _ hx))
    have hct := hc t List.mem_cons_self
    have hqne : q.isEmpty = false := by
      cases q with
      | nil => exact absurd rfl (hq _ List.mem_cons_self)
      | cons _ _ => rfl
    obtain ⟨base, verb⟩ := t
    rw [admits, admits, ih]
    cases base <;> cases verb <;> simp_all [tokCommon, segOK, tokOK, Tok.isWild]

/-- a common-fragment template never admits a segment list that ends in an empty segment
    (RouterJSR311's reading) -/
theorem admits_jsr_snoc_nil : ∀ (ts : List TTok) (qs : List Str), (∀ t ∈ ts, t.wf = true) →
    (∀ t ∈ ts, tokCommon t = true) → admits E .jsr ts (qs ++ [[]]) = false
  | [], qs, _, _ => by simp [admits]
  | t :: ts, [], hw, hc => by
    have hct := hc t List.mem_cons_self
    have hwt := hw t List.mem_cons_self
    obtain ⟨base, verb⟩ := t
    simp only [List.nil_append, admits]
    cases base <;> cases verb <;>
      simp_all [tokCommon, segOK, tokOK, Tok.isWild, TTok.wf, Tok.wf, litOK]
  | t :: ts, q :: qs, hw, hc => by
    have ih := admits_jsr_snoc_nil ts qs (fun x hx => hw x (List.mem_cons_of_mem _ hx))
      (fun x hx => hc x (List.mem_cons_of_mem _ hx))
    have hct := hc t List.mem_cons_self
    obtain ⟨base, verb⟩ := t
    simp only [List.cons_append, admits, ih, Bool.and_false]
    cases base <;> cases verb <;> simp_all [tokCommon, Tok.isWild]

/-- RouterJSR311's admitted segmentation of a normal path, for a common-fragment template, is
    CurlyRouter's token list -/
theorem admittedSegments_jsr_normal (ts : List TTok) (hw : ∀ t ∈ ts, t.wf = true)
    (hc : ∀ t ∈ ts, tokCommon t = true) {p : Str} (hp : normalPath p = true) :
    admittedSegments E .jsr ts p = if admits E .curly ts (tokenize p) = true then some (tokenize p) else none := by
  obtain ⟨r, body, rfl, _, htok, hne, hsplit⟩ := normalPath_spec hp
  rw [htok]
  have heq := admits_common_eq E ts body hc hne
  unfold admittedSegments
  simp only [rawSegments]
  rcases hsplit with hs | hs
  · rw [hs, heq]
    by_cases ha : admits E .curly ts body = true
    · simp [ha]
    · have hl : (body.getLast? == some []) = false := by
        cases hg : body.getLast? with
        | none => rfl
        | some l =>
          have := hne l (List.mem_of_getLast? hg)
          simp only [beq_eq_false_iff_ne, ne_eq, Option.some.injEq]
          exact this
      simp [ha, hl]
  · rw [hs, admits_jsr_snoc_nil E ts body hw hc]
    simp only [Bool.false_eq_true, if_false, List.getLast?_concat, beq_self_eq_true, Bool.true_and,
      List.dropLast_concat, heq]

end Spec

/-- **C18 (A1), candidate sets coincide**: on a normal path a template of the common fragment is
    admitted by CurlyRouter's reading iff by RouterJSR311's, with the same segmentation — hence the
    same expected path parameters -/
theorem C18_admission_agrees (E : ReEnv) (ts : List TTok) (hts : ∀ t ∈ ts, t.wf = true ∧ Spec.tokCommon t = true)
    (p : Str) (hp : Spec.normalPath p = true) :
    Spec.admits E .curly ts (tokenize p) = (Spec.admittedSegments E .jsr ts p).isSome ∧
    ∀ segs, Spec.admittedSegments E .jsr ts p = some segs →
      segs = tokenize p ∧ Spec.expectedParams ts segs = Spec.expectedParams ts (tokenize p) := by
  rw [Spec.admittedSegments_jsr_normal E ts (fun t ht => (hts t ht).1) (fun t ht => (hts t ht).2) hp]
  constructor
  · cases Spec.admits E .curly ts (tokenize p) <;> simp
  · intro segs h
    split at h
    · simp only [Option.some.injEq] at h
      subst h
      exact ⟨rfl, rfl⟩
    · simp at h

end Restful
