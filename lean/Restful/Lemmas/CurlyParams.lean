/-
C04 for CurlyRouter: the path processor (`Params.extractWalk`, path_processor.go:25) binds
every declared variable to exactly the URL text at its position (`Spec.expectedParams`),
exactly the declared names are bound, and substituting the bound values back into the
template gives the URL's segments back.

Main statements: `Params.extractWalk_spec` (and `Params.extractWalk_spec_aux`, the loop started
anywhere with an accumulator), `Spec.expectedParams_names`, `Spec.lookup_expectedParams`,
`Spec.substitute_of_lookup`, `Spec.substitute_expected`.  Helpers of local interest live in
namespace `Restful.CurlyParams`.
-/
import Restful.Lemmas.CurlyMatch
import Restful.Model.Params
import Restful.Spec.Params
namespace Restful
open Str

namespace CurlyParams

/-! ### template shape, one token at a time -/

theorem shapeOK_tail {t : TTok} {ts : List TTok} (h : shapeOK (t :: ts) = true) :
    shapeOK ts = true := by
  cases ts with
  | nil => rfl
  | cons t' ts =>
    simp only [shapeOK, Bool.and_eq_true] at h
    exact h.2

/-- the tail wildcard is the last token -/
theorem shapeOK_wild {t : TTok} {ts : List TTok} (h : shapeOK (t :: ts) = true)
    (hw : t.base.isWild = true) : ts = [] := by
  cases ts with
  | nil => rfl
  | cons t' ts => simp [shapeOK, hw] at h

/-- a verb is on the last token -/
theorem shapeOK_verb {t : TTok} {ts : List TTok} (h : shapeOK (t :: ts) = true)
    (hv : t.verb.isSome = true) : ts = [] := by
  cases ts with
  | nil => rfl
  | cons t' ts =>
    simp only [shapeOK, Bool.and_eq_true] at h
    have := h.1.2
    cases hverb : t.verb <;> simp [hverb] at hv this

theorem lastHasVerb_cons_of_tail {t : TTok} {ts : List TTok} (h : lastHasVerb ts = true) :
    lastHasVerb (t :: ts) = true := by
  cases ts with
  | nil => simp [lastHasVerb] at h
  | cons t' ts => rwa [lastHasVerb_cons_cons]

/-- the route's verb flag is set whenever a token of a well-shaped template carries a verb -/
theorem verb_flag_head {t : TTok} {ts : List TTok} {hv : Bool} (hshape : shapeOK (t :: ts) = true)
    (hhv : lastHasVerb (t :: ts) = true → hv = true) : t.verb.isSome = true → hv = true := by
  intro h
  have := shapeOK_verb hshape h
  subst this
  apply hhv
  simpa [lastHasVerb] using h

theorem varNames_cons (t : TTok) (ts : List TTok) :
    varNames (t :: ts) = (match t.base.name? with | some n => [n] | none => []) ++ varNames ts := by
  simp only [varNames, List.filterMap_cons]
  cases t.base.name? <;> rfl

/-! ### segments with and without their verb -/

/-- put the custom verb of template token `t` back onto a segment -/
def withVerb (t : TTok) (s : Str) : Str :=
  match t.verb with
  | none => s
  | some v => s ++ ':' :: v

theorem stripVerb_append (v pre : Str) : Spec.stripVerb v (pre ++ ':' :: v) = pre := by
  unfold Spec.stripVerb
  apply List.take_left'
  simp

theorem stripVerb_append_verb {v q : Str} (hs : hasSuffix (':' :: v) q = true) :
    Spec.stripVerb v q ++ ':' :: v = q := by
  obtain ⟨pre, rfl⟩ := hasSuffix_iff.mp hs
  rw [stripVerb_append]

/-- an admitted segment is its verb-free text followed by the token's verb -/
theorem withVerb_unverb (E : ReEnv) (k : RouterKind) {t : TTok} {q : Str}
    (h : Spec.segOK E k t q = true) : withVerb t (Spec.unverb t q) = q := by
  unfold withVerb Spec.unverb
  cases hv : t.verb with
  | none => rfl
  | some v =>
    simp only [Spec.segOK, hv, Bool.and_eq_true] at h
    exact stripVerb_append_verb h.1

/-- an admitted segment passes the base token's test once its verb is removed -/
theorem tokOK_unverb (E : ReEnv) (k : RouterKind) {t : TTok} {q : Str}
    (h : Spec.segOK E k t q = true) : Spec.tokOK E k t.base (Spec.unverb t q) = true := by
  unfold Spec.unverb
  cases hv : t.verb with
  | none => simpa [Spec.segOK, hv] using h
  | some v =>
    simp only [Spec.segOK, hv, Bool.and_eq_true] at h
    exact h.2

theorem take_append_of_hasSuffix {p s : Str} (h : hasSuffix p s = true) :
    s.take (s.length - p.length) ++ p = s := by
  obtain ⟨pre, rfl⟩ := hasSuffix_iff.mp h
  have : (pre ++ p).length - p.length = pre.length := by simp
  rw [this, List.take_left' rfl]

/-- admission of a non-empty template, one position at a time -/
theorem admits_cons (E : ReEnv) (k : RouterKind) {t : TTok} {ts : List TTok} {q : Str}
    {qs : List Str} (hw : t.base.isWild = false) :
    Spec.admits E k (t :: ts) (q :: qs) = (Spec.segOK E k t q && Spec.admits E k ts qs) := by
  simp [Spec.admits, hw]

/-! ### association lists, slices, splitting -/

theorem lookup_of_nodup : ∀ (ps : Params), (ps.map (·.1)).Nodup →
    ∀ kv ∈ ps, Spec.lookup ps kv.1 = some kv.2
  | [], _, kv, h => by simp at h
  | (k', v') :: rest, hnd, kv, h => by
    simp only [List.map_cons, List.nodup_cons] at hnd
    simp only [List.mem_cons] at h
    rcases h with rfl | h
    · simp [Spec.lookup]
    · have hne : k' ≠ kv.1 := by
        intro e
        apply hnd.1
        rw [e]
        exact List.mem_map_of_mem h
      simp only [Spec.lookup, hne, if_false]
      exact lookup_of_nodup rest hnd.2 kv h

theorem split_untokenize {qs : List Str} (hne : qs ≠ []) (hslash : ∀ q ∈ qs, '/' ∉ q) :
    split '/' (untokenize qs) = qs := by
  simp only [split, untokenize, join]
  exact List.splitOn_intercalate '/' hslash hne

theorem setParam_of_not_mem : ∀ (ps : Params) (k v : Str), k ∉ ps.map (·.1) →
    setParam ps k v = ps ++ [(k, v)]
  | [], _, _, _ => rfl
  | (k', v') :: rest, k, v, h => by
    simp only [List.map_cons, List.mem_cons, not_or] at h
    have hne : k' ≠ k := fun e => h.1 e.symm
    simp only [setParam, hne, if_false, List.cons_append, setParam_of_not_mem rest k v h.2]

theorem slice?_zero_take (s : Str) (j : Nat) (h : j ≤ s.length) :
    slice? s (0 : Nat) (j : Int) = some (s.take j) := by
  unfold slice?
  rw [if_pos (by omega)]
  simp

/-- `s[1 : 1 + len n]` of `"{" ++ n ++ rest` is `n` -/
theorem slice?_name (n rest : Str) :
    slice? ('{' :: (n ++ rest)) ((0 + 1 : Nat) : Int) ((n.length + 1 : Nat) : Int) = some n := by
  unfold slice?
  rw [if_pos (by simp only [List.length_cons, List.length_append]; omega)]
  have h1 : ((0 + 1 : Nat) : Int).toNat = 1 := by omega
  have h2 : ((n.length + 1 : Nat) : Int).toNat - 1 = n.length := by omega
  rw [h1, h2]
  simp

theorem index_lbrace_cons (s : Str) : index '{' ('{' :: s) = some 0 := by
  simp [index, List.idxOf?_cons]

end CurlyParams
open CurlyParams

/-! ### exactly the declared names are bound -/

/-- exactly the declared names are bound -/
theorem Spec.expectedParams_names (E : ReEnv) (k : RouterKind) (ts : List TTok) (hshape : shapeOK ts = true)
    (qs : List Str) (hadm : Spec.admits E k ts qs = true) :
    (Spec.expectedParams ts qs).map (·.1) = varNames ts := by
  induction ts generalizing qs with
  | nil => simp [Spec.expectedParams, varNames]
  | cons t ts ih =>
    cases qs with
    | nil => simp [Spec.admits] at hadm
    | cons q qs =>
      cases hw : t.base.isWild with
      | true =>
        have hts := shapeOK_wild hshape hw
        subst hts
        cases hb : t.base <;> simp [hb, Tok.isWild] at hw
        simp [Spec.expectedParams, hb, varNames, Tok.name?]
      | false =>
        rw [admits_cons E k hw, Bool.and_eq_true] at hadm
        have ih' := ih (shapeOK_tail hshape) qs hadm.2
        rw [varNames_cons]
        cases hb : t.base <;> simp [hb, Tok.isWild] at hw <;>
          simp [Spec.expectedParams, hb, Tok.name?, ih']

/-! ### substitution -/

/-- Substitution gives the URL's segments back from ANY parameter list in which every expected
    binding is found (the form `Spec.c04Holds` tests). -/
theorem Spec.substitute_of_lookup (E : ReEnv) (k : RouterKind) (ps : Params) :
    ∀ (ts : List TTok), shapeOK ts = true → ∀ (qs : List Str), (∀ q ∈ qs, '/' ∉ q) →
      Spec.admits E k ts qs = true →
      (∀ kv ∈ Spec.expectedParams ts qs, Spec.lookup ps kv.1 = some kv.2) →
      Spec.substitute ps ts = some qs
  | [], _, qs, _, hadm, _ => by
    cases qs with
    | nil => rfl
    | cons q qs => simp [Spec.admits] at hadm
  | t :: ts, _, [], _, hadm, _ => by simp [Spec.admits] at hadm
  | t :: ts, hshape, q :: qs, hslash, hadm, hlk => by
    cases hw : t.base.isWild with
    | true =>
      have hts := shapeOK_wild hshape hw
      subst hts
      cases hb : t.base <;> simp [hb, Tok.isWild] at hw
      rename_i n
      have := hlk (n, untokenize (q :: qs)) (by simp [Spec.expectedParams, hb])
      simp only at this
      simp only [Spec.substitute, hb, this]
      rw [split_untokenize (by simp) hslash]
    | false =>
      rw [admits_cons E k hw, Bool.and_eq_true] at hadm
      obtain ⟨hseg, hadm'⟩ := hadm
      have hwv := withVerb_unverb E k hseg
      have hok := tokOK_unverb E k hseg
      have hsub : (∀ kv ∈ Spec.expectedParams ts qs, Spec.lookup ps kv.1 = some kv.2) →
          Spec.substitute ps ts = some qs :=
        Spec.substitute_of_lookup E k ps ts (shapeOK_tail hshape) qs
          (fun x hx => hslash x (by simp [hx])) hadm'
      cases hb : t.base with
      | lit s =>
        have hrest := hsub (fun kv hkv => hlk kv (by simpa [Spec.expectedParams, hb] using hkv))
        have hq : Spec.unverb t q = s := by simpa [hb, Spec.tokOK] using hok
        simp only [Spec.substitute, hb, hrest, Option.map_some, ← hq]
        exact congrArg (fun x => some (x :: qs)) hwv
      | var n =>
        have hrest := hsub (fun kv hkv => hlk kv (by simp [Spec.expectedParams, hb, hkv]))
        have := hlk (n, Spec.unverb t q) (by simp [Spec.expectedParams, hb])
        simp only at this
        simp only [Spec.substitute, hb, this, hrest, Option.map_some]
        exact congrArg (fun x => some (x :: qs)) hwv
      | re n e =>
        have hrest := hsub (fun kv hkv => hlk kv (by simp [Spec.expectedParams, hb, hkv]))
        have := hlk (n, Spec.unverb t q) (by simp [Spec.expectedParams, hb])
        simp only at this
        simp only [Spec.substitute, hb, this, hrest, Option.map_some]
        exact congrArg (fun x => some (x :: qs)) hwv
      | suf n suffix =>
        have hrest := hsub (fun kv hkv => hlk kv (by simp [Spec.expectedParams, hb, hkv]))
        have := hlk (n, (Spec.unverb t q).take ((Spec.unverb t q).length - suffix.length))
          (by simp [Spec.expectedParams, hb])
        simp only at this
        have hsuf : hasSuffix suffix (Spec.unverb t q) = true := by
          simpa [hb, Spec.tokOK] using hok
        simp only [Spec.substitute, hb, this, hrest, Option.map_some,
          take_append_of_hasSuffix hsuf]
        exact congrArg (fun x => some (x :: qs)) hwv
      | wild n => simp [hb, Tok.isWild] at hw

/-- with distinct names, `lookup` finds every expected binding (the middle clause of `c04Holds`) -/
theorem Spec.lookup_expectedParams (E : ReEnv) (k : RouterKind) (ts : List TTok)
    (hshape : shapeOK ts = true) (hnd : (varNames ts).Nodup) (qs : List Str)
    (hadm : Spec.admits E k ts qs = true) :
    ∀ kv ∈ Spec.expectedParams ts qs, Spec.lookup (Spec.expectedParams ts qs) kv.1 = some kv.2 := by
  apply lookup_of_nodup
  rw [Spec.expectedParams_names E k ts hshape qs hadm]
  exact hnd

/-- substituting the bound values back into the template reproduces the URL's segments -/
theorem Spec.substitute_expected (E : ReEnv) (k : RouterKind) (ts : List TTok) (hwf : ∀ t ∈ ts, t.wf = true)
    (hshape : shapeOK ts = true) (hnd : (varNames ts).Nodup) (qs : List Str)
    (hslash : ∀ q ∈ qs, '/' ∉ q) (hadm : Spec.admits E k ts qs = true) :
    Spec.substitute (Spec.expectedParams ts qs) ts = some qs := by
  have _ := hwf
  exact Spec.substitute_of_lookup E k _ ts hshape qs hslash hadm
    (Spec.lookup_expectedParams E k ts hshape hnd qs hadm)

/-! ### the path processor -/

namespace Params
variable (E : ReEnv)

/-- the part of one loop iteration after the custom verb has been dealt with: `key`, `value`
    are the route token / URL segment without their verbs, `url` is `urlParts[i:]` -/
def stepBody (hv : Bool) (keys url : List Str) (key value : Str) (ps : Params) : Option Params :=
  match index '{' key with
  | none => extractWalk hv keys url.tail ps
  | some startIndex =>
    match index ':' key with
    | some colon =>
      match slice? key (colon + 1 : Nat) ((key.length : Int) - 1), slice? key 1 colon with
      | some regPart, some keyPart =>
        if regPart = ['*'] then some (setParam ps keyPart (untokenize url))
        else extractWalk hv keys url.tail (setParam ps keyPart value)
      | _, _ => none
    | none =>
      let endKeyIndex : Int := match index '}' key with
        | some i => i
        | none => -1
      let suffixLength : Int := key.length - endKeyIndex - 1
      let endValueIndex : Int := value.length - suffixLength
      match slice? key (startIndex + 1 : Nat) endKeyIndex, slice? value startIndex endValueIndex with
      | some name, some v => extractWalk hv keys url.tail (setParam ps name v)
      | _, _ => none

/-- what one iteration on the rendering of base token `b` comes to, `value` being the URL
    segment `q` without its verb -/
def stepOf (hv : Bool) (keys : List Str) (q : Str) (qs : List Str) (ps : Params) (value : Str) :
    Tok → Option Params
  | .lit _ => extractWalk hv keys qs ps
  | .var n => extractWalk hv keys qs (setParam ps n value)
  | .re n _ => extractWalk hv keys qs (setParam ps n value)
  | .suf n suffix =>
    extractWalk hv keys qs (setParam ps n (value.take (value.length - suffix.length)))
  | .wild n => some (setParam ps n (untokenize (q :: qs)))

theorem extractWalk_cons (hv : Bool) (key : Str) (keys url : List Str) (ps : Params) :
    extractWalk hv (key :: keys) url ps =
      stepBody hv keys url
        (if (hv && hasCustomVerb key) = true then removeCustomVerb key else key)
        (if (hv && hasCustomVerb key) = true then removeCustomVerb (url.headD []) else url.headD [])
        ps := by
  rw [extractWalk]
  rfl

/-- the verb-free part of an iteration, read off the structured token -/
theorem stepBody_render {b : Tok} (hb : b.wf = true) (hv : Bool) (keys : List Str) (q : Str)
    (qs : List Str) (value : Str) (ps : Params) (hok : Spec.tokOK E .curly b value = true) :
    stepBody hv keys (q :: qs) b.render value ps =
      stepOf hv keys q qs ps value b := by
  cases b with
  | lit s =>
    have hno : '{' ∉ s := (litOK_not_mem (s := s) (by simpa [Tok.wf] using hb)).2.2.1
    simp only [stepBody, stepOf, Tok.render, index_eq_none hno, List.tail_cons]
  | var n =>
    have hcolon := Tok.index_colon_render_var hb
    have hbrace := Tok.index_rbrace_render_var hb
    have hname : slice? (Tok.var n).render ((0 + 1 : Nat) : Int) ((n.length + 1 : Nat) : Int) = some n := by
      simpa [Tok.render] using slice?_name n ['}']
    have hlen : (((Tok.var n).render.length : Nat) : Int) - ((n.length + 1 : Nat) : Int) - 1 = 0 := by
      simp only [Tok.render, List.length_cons, List.length_append, List.length_nil]; omega
    have hval : slice? value ((0 : Nat) : Int) ((value.length : Int) - 0) = some value := by
      have := slice?_zero_take value value.length (Nat.le_refl _)
      simpa using this
    have hidx : index '{' (Tok.var n).render = some 0 := index_lbrace_cons _
    simp only [stepBody, stepOf, hidx, hcolon, hbrace, hname, hlen, hval, List.tail_cons]
  | re n e =>
    have hne : e ≠ ['*'] := by
      simp only [Tok.wf, reOK, Bool.and_eq_true] at hb
      simpa using hb.2.1.1.1.1
    have hcolon := Tok.index_colon_render_re hb
    have hreg := Tok.regPart_render_re n e
    unfold Curly.regPart at hreg
    have hname : slice? (Tok.re n e).render (1 : Int) ((n.length + 1 : Nat) : Int) = some n := by
      simpa [Tok.render] using slice?_name n (':' :: e ++ ['}'])
    have hidx : index '{' (Tok.re n e).render = some 0 := index_lbrace_cons _
    simp only [stepBody, stepOf, hidx, hcolon, hreg, hname, hne, if_false, List.tail_cons]
  | suf n suffix =>
    have hcolon := Tok.index_colon_render_suf hb
    have hbrace := Tok.index_rbrace_render_suf hb
    have hname : slice? (Tok.suf n suffix).render ((0 + 1 : Nat) : Int) ((n.length + 1 : Nat) : Int) = some n := by
      simpa [Tok.render] using slice?_name n ('}' :: suffix)
    have hlen : (((Tok.suf n suffix).render.length : Nat) : Int) - ((n.length + 1 : Nat) : Int) - 1 =
        (suffix.length : Int) := by
      simp only [Tok.render, List.length_cons, List.length_append]; omega
    have hsuf : hasSuffix suffix value = true := by simpa [Spec.tokOK] using hok
    have hle : suffix.length ≤ value.length := by
      obtain ⟨pre, rfl⟩ := hasSuffix_iff.mp hsuf
      simp
    have hval : slice? value ((0 : Nat) : Int) ((value.length : Int) - (suffix.length : Int)) =
        some (value.take (value.length - suffix.length)) := by
      have := slice?_zero_take value (value.length - suffix.length) (by omega)
      rwa [Int.ofNat_sub hle] at this
    have hidx : index '{' (Tok.suf n suffix).render = some 0 := index_lbrace_cons _
    simp only [stepBody, stepOf, hidx, hcolon, hbrace, hname, hlen, hval, List.tail_cons]
  | wild n =>
    have hcolon := Tok.index_colon_render_wild hb
    have hreg := Tok.regPart_render_wild n
    unfold Curly.regPart at hreg
    have hname : slice? (Tok.wild n).render (1 : Int) ((n.length + 1 : Nat) : Int) = some n := by
      simpa [Tok.render] using slice?_name n [':', '*', '}']
    have hidx : index '{' (Tok.wild n).render = some 0 := index_lbrace_cons _
    simp only [stepBody, stepOf, hidx, hcolon, hreg, hname, if_true]

/-- one full iteration on an admitted segment, read off the structured token -/
theorem extractWalk_cons_render {t : TTok} (ht : t.wf = true) {hv : Bool}
    (hhv : t.verb.isSome = true → hv = true) (keys : List Str) (q : Str) (qs : List Str)
    (ps : Params) (hseg : Spec.segOK E .curly t q = true) :
    extractWalk hv (t.render :: keys) (q :: qs) ps =
      stepOf hv keys q qs ps (Spec.unverb t q) t.base := by
  have hb := TTok.wf_base ht
  have hok := tokOK_unverb E .curly hseg
  rw [extractWalk_cons]
  cases hverb : t.verb with
  | none =>
    have h : (hv && hasCustomVerb t.render) = false := by
      simp [TTok.hasCustomVerb_render ht, hverb]
    have hu : Spec.unverb t q = q := by simp [Spec.unverb, hverb]
    rw [hu] at hok
    simp only [h, Bool.false_eq_true, if_false, List.headD_cons]
    rw [TTok.render_of_verb_none hverb, stepBody_render E hb hv keys q qs q ps hok, hu]
  | some v =>
    obtain ⟨hvo, _⟩ := TTok.wf_verb ht hverb
    have hhv' : hv = true := hhv (by simp [hverb])
    have h : (hv && hasCustomVerb t.render) = true := by
      simp [TTok.hasCustomVerb_render ht, hverb, hhv']
    have hs : hasSuffix (':' :: v) q = true := by
      simp only [Spec.segOK, hverb, Bool.and_eq_true] at hseg
      exact hseg.1
    have hu : Spec.unverb t q = Spec.stripVerb v q := by simp [Spec.unverb, hverb]
    simp only [h, if_true, List.headD_cons, TTok.removeCustomVerb_render ht,
      removeCustomVerb_eq_stripVerb hvo hs, ← hu]
    rw [stepBody_render E hb hv keys q qs (Spec.unverb t q) ps hok]

/-- The loop, started anywhere inside a template: `ts` is the part of the template still to be
    read, `ps` the bindings made so far (none of them for a name still to come).  `hv` is the
    route's (fixed) verb flag; all that is needed of it is that it is set when the last token
    carries a verb. -/
theorem extractWalk_spec_aux (hv : Bool) :
    ∀ (ts : List TTok), (∀ t ∈ ts, t.wf = true) → shapeOK ts = true →
      (lastHasVerb ts = true → hv = true) → (varNames ts).Nodup →
      ∀ (qs : List Str) (ps : Params), (∀ n ∈ varNames ts, n ∉ ps.map (·.1)) →
      Spec.admits E .curly ts qs = true →
      extractWalk hv (ts.map TTok.render) qs ps = some (ps ++ Spec.expectedParams ts qs)
  | [], _, _, _, _, qs, ps, _, _ => by
    simp [extractWalk, Spec.expectedParams]
  | t :: ts, _, _, _, _, [], ps, _, hadm => by simp [Spec.admits] at hadm
  | t :: ts, hwf, hshape, hhv, hnd, q :: qs, ps, hdisj, hadm => by
    have ht : t.wf = true := hwf t (by simp)
    have hhv' := verb_flag_head hshape hhv
    rw [varNames_cons] at hnd hdisj
    cases hw : t.base.isWild with
    | true =>
      have hts := shapeOK_wild hshape hw
      subst hts
      have hverb := TTok.wf_wild_verb ht hw
      cases hb : t.base <;> simp [hb, Tok.isWild] at hw
      rename_i n
      have hseg : Spec.segOK E .curly t q = true := by simp [Spec.segOK, hverb, hb, Spec.tokOK]
      have hn : n ∉ ps.map (·.1) := hdisj n (by simp [hb, Tok.name?])
      rw [List.map_cons, extractWalk_cons_render E ht hhv' _ q qs ps hseg]
      simp only [hb, stepOf, Spec.expectedParams, setParam_of_not_mem ps n _ hn]
    | false =>
      rw [admits_cons E .curly hw, Bool.and_eq_true] at hadm
      obtain ⟨hseg, hadm'⟩ := hadm
      have ih := extractWalk_spec_aux hv ts (fun x hx => hwf x (by simp [hx]))
        (shapeOK_tail hshape) (fun h => hhv (lastHasVerb_cons_of_tail h))
        (List.Nodup.sublist (List.sublist_append_right _ _) hnd) qs
      rw [List.map_cons, extractWalk_cons_render E ht hhv' _ q qs ps hseg]
      -- a token binding `n`: the accumulator grows by one new key
      have hvar : ∀ (n val : Str), t.base.name? = some n →
          extractWalk hv (ts.map TTok.render) qs (setParam ps n val) =
            some (ps ++ (n, val) :: Spec.expectedParams ts qs) := by
        intro n val hn
        simp only [hn, List.singleton_append, List.nodup_cons, List.mem_cons, forall_eq_or_imp]
          at hnd hdisj
        rw [setParam_of_not_mem ps n val hdisj.1, ih (ps ++ [(n, val)]) ?_ hadm']
        · simp
        · intro m hm
          simp only [List.map_append, List.map_cons, List.map_nil, List.mem_append,
            List.mem_singleton, not_or]
          exact ⟨hdisj.2 m hm, fun e => hnd.1 (e ▸ hm)⟩
      cases hb : t.base with
      | lit s =>
        simp only [hb, Tok.name?, List.nil_append] at hdisj
        simp only [Spec.expectedParams, hb, stepOf]
        exact ih ps hdisj hadm'
      | var n =>
        simp only [Spec.expectedParams, hb, stepOf]
        exact hvar n _ (by simp [hb, Tok.name?])
      | re n e =>
        simp only [Spec.expectedParams, hb, stepOf]
        exact hvar n _ (by simp [hb, Tok.name?])
      | suf n suffix =>
        simp only [Spec.expectedParams, hb, stepOf]
        exact hvar n _ (by simp [hb, Tok.name?])
      | wild n => simp [hb, Tok.isWild] at hw

/-- the path processor binds every declared variable to exactly the URL text at its position -/
theorem extractWalk_spec (E : ReEnv) (ts : List TTok) (hwf : ∀ t ∈ ts, t.wf = true)
    (hshape : shapeOK ts = true) (hnd : (varNames ts).Nodup) (qs : List Str)
    (hadm : Spec.admits E .curly ts qs = true) :
    Params.extractWalk (lastHasVerb ts) (ts.map TTok.render) qs [] = some (Spec.expectedParams ts qs) := by
  have := extractWalk_spec_aux E (lastHasVerb ts) ts hwf hshape id hnd qs [] (by simp) hadm
  simpa using this

end Params

/-- non-vacuity: `/users/{id}/{file}.json:export` on `/users/u1/report.json:export` -/
example :
    let ts : List TTok :=
      [ { base := .lit "users".toList },
        { base := .var "id".toList },
        { base := .suf "file".toList ".json".toList, verb := some "export".toList } ]
    let E : ReEnv := ⟨fun _ _ => true, fun _ _ => true⟩
    let qs : List Str := ["users", "u1", "report.json:export"].map String.toList
    let ps : Params := [("id".toList, "u1".toList), ("file".toList, "report".toList)]
    (∀ t ∈ ts, t.wf = true) ∧ shapeOK ts = true ∧ (varNames ts).Nodup ∧ lastHasVerb ts = true ∧
      (∀ q ∈ qs, '/' ∉ q) ∧ Spec.admits E .curly ts qs = true ∧
      Params.extractWalk (lastHasVerb ts) (ts.map TTok.render) qs [] = some ps ∧
      Spec.expectedParams ts qs = ps ∧ ps.map (·.1) = varNames ts ∧
      Spec.substitute ps ts = some qs := by
  decide

/-- non-vacuity: `/static/{rest:*}` on `/static/css/site.css` -/
example :
    let ts : List TTok :=
      [ { base := .lit "static".toList },
        { base := .wild "rest".toList } ]
    let E : ReEnv := ⟨fun _ _ => true, fun _ _ => true⟩
    let qs : List Str := ["static", "css", "site.css"].map String.toList
    let ps : Params := [("rest".toList, "css/site.css".toList)]
    (∀ t ∈ ts, t.wf = true) ∧ shapeOK ts = true ∧ (varNames ts).Nodup ∧ lastHasVerb ts = false ∧
      (∀ q ∈ qs, '/' ∉ q) ∧ Spec.admits E .curly ts qs = true ∧
      Params.extractWalk (lastHasVerb ts) (ts.map TTok.render) qs [] = some ps ∧
      Spec.expectedParams ts qs = ps ∧ ps.map (·.1) = varNames ts ∧
      Spec.substitute ps ts = some qs := by
  decide

end Restful
