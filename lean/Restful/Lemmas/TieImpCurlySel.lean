import Restful.Lemmas.TieImpVocab
import Restful.Lemmas.TieImpTactic
import Restful.Lemmas.TieImpScore
import Restful.Lemmas.TieImpMatch
namespace Restful
namespace TieImp
open Imp

/-! helpers of the two ties (sub-namespace `T8`) -/
namespace T8

abbrev DwState := Option ImpGen.GoWebService × Int

/-- the body of the loop of `detectWebService`, written by hand (matched against the generated body by `rfl`) -/
def dwBody (X : ImpGen.Ext) (qs : List Str) (each : Option ImpGen.GoWebService) (st : DwState) :
    Option (ForInStep DwState) := do
  let ws ← deref each
  let pe ← deref ws.pathExpr
  let r ← ImpGen.CurlyRouter_computeWebserviceScore X qs pe.tokens
  if (r.1 && decide (r.2 > st.2)) = true then pure (ForInStep.yield (each, r.2))
  else pure (ForInStep.yield (st.1, st.2))

/-- the accumulator of the code against the accumulator of the model -/
def DwInv (g : Service → ImpGen.GoWebService) : Option (Service × Nat) → DwState → Prop
  | none, st => st = (none, -1)
  | some (s, n), st => st = (some (g s), ((n : Nat) : Int))

theorem score_cases (rx : Str → Str → Bool × GoErr) (full : Str → Str → Bool) (join : Str → Str → Str)
    (qs toks : List Str) :
    match Curly.wsScoreE (envOf rx full) qs toks with
    | .panic => ImpGen.CurlyRouter_computeWebserviceScore (extOf rx join) qs toks = none
    | .no => ∃ n, ImpGen.CurlyRouter_computeWebserviceScore (extOf rx join) qs toks = some (false, n)
    | .yes sc => ImpGen.CurlyRouter_computeWebserviceScore (extOf rx join) qs toks = some (true, ((sc : Nat) : Int)) := by
  have h := T2.webservice_score rx full join qs toks
  cases hm : Curly.wsScoreE (envOf rx full) qs toks <;> rw [hm] at h <;>
    cases hc : ImpGen.CurlyRouter_computeWebserviceScore (extOf rx join) qs toks <;> rw [hc] at h
  all_goals simp [ofScore, scoreProj] at h ⊢
  · rename_i v; exact ⟨v.2, Prod.ext h rfl⟩
  · exact Prod.ext h.1 h.2

theorem dw_loop (rx : Str → Str → Bool × GoErr) (full : Str → Str → Bool) (join : Str → Str → Str)
    (g : Service → ImpGen.GoWebService)
    (hg : ∀ s, ∃ pe, (g s).pathExpr = some pe ∧ pe.tokens = tokenize s.rootPath)
    (qs : List Str)
    (f : Option ImpGen.GoWebService → DwState → Option (ForInStep DwState))
    (hf : ∀ e st, f e st = dwBody (extOf rx join) qs e st) :
    ∀ (svcs : List Service) (best : Option (Service × Nat)) (st : DwState), DwInv g best st →
      (forIn (svcs.map (fun s => some (g s))) st f).map (fun st => st.1)
        = (Curly.detectWebService (envOf rx full) qs svcs best).map (fun o => o.map (fun p => g p.1)) := by
  intro svcs
  induction svcs with
  | nil =>
    intro best st hinv
    rcases best with _ | ⟨b, n⟩ <;> simp only [DwInv] at hinv <;> subst hinv <;> rfl
  | cons s ss ih =>
    intro best st hinv
    obtain ⟨pe, hpe, htok⟩ := hg s
    have hsc := score_cases rx full join qs (tokenize s.rootPath)
    rw [List.map_cons, List.forIn_cons, hf]
    simp only [dwBody, deref, hpe, htok, Option.bind_eq_bind, Option.bind_some]
    cases hm : Curly.wsScoreE (envOf rx full) qs (tokenize s.rootPath) <;> rw [hm] at hsc <;> simp only at hsc
    · obtain ⟨n, hn⟩ := hsc
      simp only [hn, Option.bind_some, Bool.false_and, Bool.false_eq_true, if_false, Option.pure_def]
      rw [show Curly.detectWebService (envOf rx full) qs (s :: ss) best = Curly.detectWebService (envOf rx full) qs ss best by
        rw [Curly.detectWebService.eq_def]; simp only [hm]]
      exact ih best _ hinv
    · rename_i sc
      simp only [hsc, Option.bind_some, Bool.true_and, Option.pure_def]
      rcases best with _ | ⟨b, n⟩ <;> simp only [DwInv] at hinv <;> subst hinv
      · have hgt : ((sc : Nat) : Int) > (-1 : Int) := by omega
        rw [show Curly.detectWebService (envOf rx full) qs (s :: ss) none
              = Curly.detectWebService (envOf rx full) qs ss (some (s, sc)) by
          rw [Curly.detectWebService.eq_def]; simp only [hm]]
        rw [if_pos (decide_eq_true hgt)]
        exact ih (some (s, sc)) _ rfl
      · rw [show Curly.detectWebService (envOf rx full) qs (s :: ss) (some (b, n))
              = if sc > n then Curly.detectWebService (envOf rx full) qs ss (some (s, sc))
                else Curly.detectWebService (envOf rx full) qs ss (some (b, n)) by
          rw [Curly.detectWebService.eq_def]; simp only [hm]]
        by_cases hgt : sc > n
        · have hgt' : ((sc : Nat) : Int) > ((n : Nat) : Int) := by omega
          rw [if_pos (decide_eq_true hgt'), if_pos hgt]
          exact ih (some (s, sc)) _ rfl
        · have hgt' : ¬ ((sc : Nat) : Int) > ((n : Nat) : Int) := by omega
          rw [if_neg (by rw [decide_eq_false hgt']; exact Bool.false_ne_true), if_neg hgt]
          exact ih (some (b, n)) _ rfl
    · simp only [hsc, Option.bind_none]
      rw [show Curly.detectWebService (envOf rx full) qs (s :: ss) best = none by
        rw [Curly.detectWebService.eq_def]; simp only [hm]]
      rfl

theorem dw_post_eq (x : Option DwState) (k : DwState → Option (Option ImpGen.GoWebService))
    (hk : ∀ s, k s = some s.1) : (x >>= k) = x.map (fun st => st.1) := by
  cases x with
  | none => rfl
  | some s => exact hk s

end T8

/-- curly.go `CurlyRouter.detectWebService`: the first service with the strictly greatest score -/
theorem detect_web_service (rx : Str → Str → Bool × GoErr) (full : Str → Str → Bool) (join : Str → Str → Str)
    (g : Service → ImpGen.GoWebService)
    (hg : ∀ s, ∃ pe, (g s).pathExpr = some pe ∧ pe.tokens = tokenize s.rootPath)
    (qs : List Str) (svcs : List Service) :
    ImpGen.CurlyRouter_detectWebService (extOf rx join) qs (svcs.map (fun s => some (g s)))
      = (Curly.detectWebService (envOf rx full) qs svcs none).map (fun o => o.map (fun p => g p.1)) := by
  unfold ImpGen.CurlyRouter_detectWebService
  have key := fun f hf => T8.dw_loop rx full join g hg qs f hf svcs none (none, -1) rfl
  refine (T8.dw_post_eq _ _ ?_).trans (key _ (fun _ _ => by tie_step [T8.dwBody]))
  intro s
  rfl
#print axioms detect_web_service

namespace T8

/-- the body of the loop of `selectRoutes`, written by hand -/
def srBody (X : ImpGen.Ext) (qs : List Str) (each : ImpGen.GoRoute) (acc : List ImpGen.GoCurlyRoute) :
    Option (ForInStep (List ImpGen.GoCurlyRoute)) := do
  let r ← ImpGen.CurlyRouter_matchesRouteByPathTokens X each.pathParts qs each.hasCustomVerb
  if r.1 = true then
    pure (ForInStep.yield (push acc ({ route := each, paramCount := r.2.1, staticCount := r.2.2 } : ImpGen.GoCurlyRoute)))
  else pure (ForInStep.yield acc)

def genCand (g : Route → ImpGen.GoRoute) (c : Curly.Cand) : ImpGen.GoCurlyRoute :=
  { route := g c.route, paramCount := ((c.paramCount : Nat) : Int), staticCount := ((c.staticCount : Nat) : Int) }

/-- `matchesRouteByPathTokens` does not read the `sort.Sort` field of `Ext` -/
theorem match_tokens_srt (rx : Str → Str → Bool × GoErr) (full : Str → Str → Bool) (join : Str → Str → Str)
    (srt : List ImpGen.GoCurlyRoute → List ImpGen.GoCurlyRoute) (rts qs : List Str) (hv : Bool) :
    ImpGen.CurlyRouter_matchesRouteByPathTokens { extOf rx join with sort_Sort_sortableCurlyRoutes := srt } rts qs hv
      = ofMatch (Curly.matchTokens (envOf rx full) rts qs hv) :=
  (rfl : _ = ImpGen.CurlyRouter_matchesRouteByPathTokens (extOf rx join) rts qs hv).trans
    (match_tokens rx full join rts qs hv)

theorem sr_loop (rx : Str → Str → Bool × GoErr) (full : Str → Str → Bool) (join : Str → Str → Str)
    (srt : List ImpGen.GoCurlyRoute → List ImpGen.GoCurlyRoute)
    (g : Route → ImpGen.GoRoute)
    (hg : ∀ r, (g r).pathParts = r.pathParts ∧ (g r).hasCustomVerb = r.hasCustomVerb)
    (qs : List Str)
    (f : ImpGen.GoRoute → List ImpGen.GoCurlyRoute → Option (ForInStep (List ImpGen.GoCurlyRoute)))
    (hf : ∀ e acc, f e acc = srBody { extOf rx join with sort_Sort_sortableCurlyRoutes := srt } qs e acc) :
    ∀ (routes : List Route) (acc : List ImpGen.GoCurlyRoute),
      forIn (routes.map g) acc f
        = (Curly.candidates (envOf rx full) routes qs).map (fun cs => acc ++ cs.map (genCand g)) := by
  intro routes
  induction routes with
  | nil => intro acc; simp [Curly.candidates]
  | cons r rs ih =>
    intro acc
    rw [List.map_cons, List.forIn_cons, hf]
    simp only [srBody, (hg r).1, (hg r).2, match_tokens_srt rx full join srt]
    rw [Curly.candidates.eq_def]
    simp only []
    cases hm : Curly.matchTokens (envOf rx full) r.pathParts qs r.hasCustomVerb
    · simp only [ofMatch, Option.bind_eq_bind, Option.bind_some, Bool.false_eq_true, if_false, Option.pure_def]
      exact ih acc
    · rename_i p s
      simp only [ofMatch, Option.bind_eq_bind, Option.bind_some, if_true, Option.pure_def]
      rw [ih]
      cases Curly.candidates (envOf rx full) rs qs with
      | none => rfl
      | some cs => simp [push, genCand]
    · rfl

theorem sr_post_eq (srt : List ImpGen.GoCurlyRoute → List ImpGen.GoCurlyRoute)
    (x : Option (List ImpGen.GoCurlyRoute)) (k : List ImpGen.GoCurlyRoute → Option (List ImpGen.GoCurlyRoute))
    (hk : ∀ s, k s = some (srt s)) : (x >>= k) = x.map srt := by
  cases x with
  | none => rfl
  | some s => exact hk s

end T8

/-- curly.go `CurlyRouter.selectRoutes`: the matching routes with their counts, in table order, handed
    to `sort.Sort` (uninterpreted here: `srt`; the model applies Go's insertion sort with `candLess`,
    `Tie.curly_less` ties that comparison) -/
theorem select_routes (rx : Str → Str → Bool × GoErr) (full : Str → Str → Bool) (join : Str → Str → Str)
    (srt : List ImpGen.GoCurlyRoute → List ImpGen.GoCurlyRoute)
    (g : Route → ImpGen.GoRoute)
    (hg : ∀ r, (g r).pathParts = r.pathParts ∧ (g r).hasCustomVerb = r.hasCustomVerb)
    (ws0 : ImpGen.GoWebService) (pe : Option ImpGen.GoPathExpression) (routes : List Route) (qs : List Str) :
    ImpGen.CurlyRouter_selectRoutes { extOf rx join with sort_Sort_sortableCurlyRoutes := srt }
        (some { ws0 with pathExpr := pe, routes := routes.map g }) qs
      = (Curly.candidates (envOf rx full) routes qs).map (fun cs =>
          srt (cs.map (fun c => ({ route := g c.route, paramCount := ((c.paramCount : Nat) : Int), staticCount := ((c.staticCount : Nat) : Int) } : ImpGen.GoCurlyRoute)))) := by
  unfold ImpGen.CurlyRouter_selectRoutes
  have key := fun f hf => T8.sr_loop rx full join srt g hg qs f hf routes []
  simp only [deref, Option.bind_eq_bind, Option.bind_some]
  refine (T8.sr_post_eq srt _ _ (fun _ => rfl)).trans
    ((congrArg (Option.map srt) (key _ (fun _ _ => by tie_step [T8.srBody]))).trans ?_)
  cases Curly.candidates (envOf rx full) routes qs with
  | none => rfl
  | some cs => simp only [Option.map_some, List.nil_append]; rfl
#print axioms select_routes
end TieImp
end Restful
