/-
C18 — CurlyRouter and RouterJSR311 agree wherever both are specified.

On route tables of the common fragment (`Spec.wfCommon`: literal WebService roots, route segments
that are literals or plain variables), with pairwise different, clean roots, distinct route ids
per WebService, and a normal request path, the two routers give every request the same outcome —
up to the one thing their different ranking keys leave open (`Spec.ranksAgree`, F17).

  * (A1) admission and expected parameters coincide      — `Restful.Lemmas.AgreePath`
  * per-route agreement, `detectRoute` under permutation  — `Restful.Lemmas.AgreeRoutes`
  * (A2) the same WebService is chosen                    — `Restful.Lemmas.AgreeSvc`
-/
import Restful.Lemmas.AgreePath
import Restful.Lemmas.AgreeRoutes
import Restful.Lemmas.AgreeSvc
import Restful.Spec.Classify
namespace Restful
open Str
variable (E : ReEnv)

/-! ### inside the chosen WebService -/

/-- inside one WebService of the common fragment whose root matched: either both routers reach a
    route — each an eligible route whose template admits the path, with the expected parameters —
    or both answer the same error -/
theorem afterSvc_agree {cfg : Config} (hwf : Spec.wfCommon cfg = true) {svc : Service} (hsvc : svc ∈ cfg.services)
    (req : Req) (hp : Spec.normalPath req.path = true)
    {wex : Jsr.Expr} {wc : List Str} {final : Str} (hwex : Jsr.compile svc.rootPath = some wex)
    (hwm : Jsr.matchExpr E wex.toks req.path = some (wc, final)) :
    (∃ rc ∈ svc.built, ∃ rj ∈ svc.built, ∃ tsc tsj,
        readTemplate rc.path = some tsc ∧ readTemplate rj.path = some tsj ∧
        Spec.admits E .curly tsc (tokenize req.path) = true ∧ Spec.admits E .curly tsj (tokenize req.path) = true ∧
        Spec.eligible rc req = true ∧ Spec.eligible rj req = true ∧
        curlyAfterSvc E svc.built req = .selected rc.svc rc.id (Spec.expectedParams tsc (tokenize req.path)) ∧
        jsrAfterSvc E svc svc.built final req = .selected rj.svc rj.id (Spec.expectedParams tsj (tokenize req.path))) ∨
    (Spec.sameOutcome (curlyAfterSvc E svc.built req) (jsrAfterSvc E svc svc.built final req) ∧
      ∀ s r ps, curlyAfterSvc E svc.built req ≠ .selected s r ps) := by
  have hn : '\n' ∉ req.path := by
    obtain ⟨r, _, hpr, hnl, _⟩ := Spec.normalPath_spec hp
    rw [hpr]
    simp only [List.mem_cons, not_or]
    exact ⟨by decide, hnl⟩
  -- per-route facts
  have hC : ∀ rt ∈ svc.built, ∃ ts, readTemplate rt.path = some ts ∧
      Curly.panics E (tokenize req.path) rt = false ∧
      (Curly.candOf E (tokenize req.path) rt).isSome = Spec.admits E .curly ts (tokenize req.path) ∧
      (Spec.admits E .curly ts (tokenize req.path) = true →
        Params.extract rt req.path = some (Spec.expectedParams ts (tokenize req.path))) ∧
      Jsr.rfails rt = false ∧
      (Jsr.rcandOf E final rt).isSome = Spec.admits E .curly ts (tokenize req.path) ∧
      (Spec.admits E .curly ts (tokenize req.path) = true →
        Jsr.extract E svc rt req.path = some (Spec.expectedParams ts (tokenize req.path))) := by
    intro rt hrt
    obtain ⟨ts, hts, htsj, hcommon⟩ := wfCommon_route hwf hsvc hrt
    obtain ⟨c1, c2, c3⟩ := curly_route_facts E svc hrt hts req.path
    obtain ⟨j1, j2, _, j4⟩ := jsr_route_facts E svc htsj hn hwex hwm
    obtain ⟨a1, a2⟩ := C18_admission_agrees E ts hcommon req.path hp
    refine ⟨ts, hts, c1, c2, c3, j1, by rw [j2, a1], ?_⟩
    intro hadm
    rw [a1] at hadm
    obtain ⟨segs, hseg⟩ := Option.isSome_iff_exists.mp hadm
    rw [j4 segs hseg, (a2 segs hseg).2]
  -- the candidate loops
  have hcandC : Curly.candidates E svc.built (tokenize req.path) =
      some (svc.built.filterMap (Curly.candOf E (tokenize req.path))) := by
    rw [Curly.candidates_eq, if_neg]
    rw [List.any_eq_true]
    rintro ⟨rt, hrt, hpan⟩
    obtain ⟨_, _, hnp, _⟩ := hC rt hrt
    rw [hnp] at hpan
    cases hpan
  have hcandJ : Jsr.routeCandidates E svc.built final =
      some (svc.built.filterMap (Jsr.rcandOf E final)) := by
    rw [Jsr.routeCandidates_eq, if_neg]
    rw [List.any_eq_true]
    rintro ⟨rt, hrt, hpan⟩
    obtain ⟨_, _, _, _, _, hnf, _⟩ := hC rt hrt
    rw [hnf] at hpan
    cases hpan
  -- both candidate route lists are permutations of the admitted routes
  have hfiltC : (svc.built.filterMap (Curly.candOf E (tokenize req.path))).map (·.route) =
      svc.built.filter (fun rt => (Curly.candOf E (tokenize req.path) rt).isSome) :=
    filterMap_map_eq_filter _ _ _ (fun x _ c hc => (Curly.candOf_some E hc).1)
  have hfiltJ : (svc.built.filterMap (Jsr.rcandOf E final)).map (·.route) =
      svc.built.filter (fun rt => (Jsr.rcandOf E final rt).isSome) :=
    filterMap_map_eq_filter _ _ _ (fun x _ c hc => (Jsr.rcandOf_some E hc).1)
  have hfeq : svc.built.filter (fun rt => (Curly.candOf E (tokenize req.path) rt).isSome) =
      svc.built.filter (fun rt => (Jsr.rcandOf E final rt).isSome) := by
    apply List.filter_congr
    intro rt hrt
    obtain ⟨_, _, _, h2, _, _, h5, _⟩ := hC rt hrt
    rw [h2, h5]
  have hpermC := ((Sort.insertionSort_perm Curly.candLess
    (svc.built.filterMap (Curly.candOf E (tokenize req.path)))).map (·.route))
  have hpermJ := ((Sort.insertionSort_perm Jsr.routeCandLess
    (svc.built.filterMap (Jsr.rcandOf E final))).map (·.route))
  rw [hfiltC] at hpermC
  rw [hfiltJ, ← hfeq] at hpermJ
  have hmp := hpermC.trans hpermJ.symm
  rw [curlyAfterSvc_eq, hcandC]
  unfold jsrAfterSvc
  rw [hcandJ]
  simp only
  rcases finishWith_perm_weak (fun r => Params.extract r req.path) (fun r => Jsr.extract E svc r req.path)
    hmp req with ⟨rc, hrc, rj, hrj, hec, hej, hfc, hfj⟩ | hsame
  · left
    have hrc' := hpermC.subset hrc
    have hrj' := hpermJ.subset hrj
    rw [List.mem_filter] at hrc' hrj'
    obtain ⟨tsc, htsc, _, c2, c3, _, _, _⟩ := hC rc hrc'.1
    obtain ⟨tsj, htsj, _, j2, _, _, _, j7⟩ := hC rj hrj'.1
    have hac : Spec.admits E .curly tsc (tokenize req.path) = true := by rw [← c2]; exact hrc'.2
    have haj : Spec.admits E .curly tsj (tokenize req.path) = true := by rw [← j2]; exact hrj'.2
    refine ⟨rc, hrc'.1, rj, hrj'.1, tsc, tsj, htsc, htsj, hac, haj, hec, hej, ?_, ?_⟩
    · rw [hfc, finOf, c3 hac]
    · rw [hfj, finOf, j7 haj]
  · right
    exact hsame

/-! ### the whole request -/

/-- the outcomes of the two routers on a table and request inside C18's hypotheses: either both
    select — a route of the WebService CurlyRouter detects, eligible, admitting the path, with the
    expected parameters — or both answer the same error -/
theorem agree_core (cfg : Config) (hwf : Spec.wfCommon cfg = true) (hroots : Spec.rootsDistinct cfg = true)
    (hclean : Spec.rootsClean cfg = true) (req : Req) (hp : Spec.normalPath req.path = true) :
    (∃ svc sc, Curly.detectWebService E (tokenize req.path) cfg.services none = some (some (svc, sc)) ∧ svc ∈ cfg.services ∧
      ∃ rc ∈ svc.built, ∃ rj ∈ svc.built, ∃ tsc tsj,
        readTemplate rc.path = some tsc ∧ readTemplate rj.path = some tsj ∧
        Spec.admits E .curly tsc (tokenize req.path) = true ∧ Spec.admits E .curly tsj (tokenize req.path) = true ∧
        Spec.eligible rc req = true ∧ Spec.eligible rj req = true ∧
        (routeCurly E cfg req).1 = .selected rc.svc rc.id (Spec.expectedParams tsc (tokenize req.path)) ∧
        (routeJsr E cfg req).1 = .selected rj.svc rj.id (Spec.expectedParams tsj (tokenize req.path))) ∨
    (Spec.sameOutcome (routeCurly E cfg req).1 (routeJsr E cfg req).1 ∧
      ∀ s r ps, (routeCurly E cfg req).1 ≠ .selected s r ps) := by
  have hsvc := C18_service_agrees E cfg hwf hroots hclean req.path hp
  rw [routeCurly_fst, routeJsr_fst]
  cases h1 : Curly.detectWebService E (tokenize req.path) cfg.services none with
  | none =>
    rw [h1] at hsvc
    cases h2 : Jsr.detectDispatcher E cfg.services req.path <;> simp [h2] at hsvc
  | some d1 =>
  cases d1 with
  | none =>
    rw [h1] at hsvc
    cases h2 : Jsr.detectDispatcher E cfg.services req.path with
    | none => simp [h2] at hsvc
    | some d =>
      cases d with
      | none => right; simp [Spec.sameOutcome]
      | some x => simp [h2] at hsvc
  | some x =>
    obtain ⟨s, sc⟩ := x
    rw [h1] at hsvc
    cases h2 : Jsr.detectDispatcher E cfg.services req.path with
    | none => simp [h2] at hsvc
    | some d =>
      cases d with
      | none => simp [h2] at hsvc
      | some x' =>
        obtain ⟨s', final⟩ := x'
        simp only [h2] at hsvc
        subst hsvc
        simp only
        obtain ⟨hmem, wex, wc, hwex, hwm⟩ := Jsr.detectDispatcher_mem E h2
        rcases afterSvc_agree E hwf hmem req hp hwex hwm with
          ⟨rc, hrc, rj, hrj, tsc, tsj, h⟩ | h
        · left
          exact ⟨s, sc, rfl, hmem, rc, hrc, rj, hrj, tsc, tsj, h⟩
        · right
          exact h

theorem route_withRouter_curly (cfg : Config) (req : Req) :
    route E (Spec.withRouter cfg .curly) req = (routeCurly E cfg req).1 := rfl

theorem route_withRouter_jsr (cfg : Config) (req : Req) :
    route E (Spec.withRouter cfg .jsr) req = (routeJsr E cfg req).1 := rfl

/-- a built route is determined by its id when the declared ids are distinct -/
theorem built_eq_of_id {svc : Service} (hids : (svc.routes.map (·.id)).Nodup) {a b : Route}
    (ha : a ∈ svc.built) (hb : b ∈ svc.built) (h : a.id = b.id) : a = b := by
  unfold Service.built at ha hb
  rw [List.mem_map] at ha hb
  obtain ⟨x, hx, rfl⟩ := ha
  obtain ⟨y, hy, rfl⟩ := hb
  have hxy : x.id = y.id := h
  have : x = y := by
    have hpw : svc.routes.Pairwise (fun u v => u.id ≠ v.id) := by
      rw [List.Nodup, List.pairwise_map] at hids
      exact hids
    exact pairwise_eq_of_not hpw hx hy (fun hn => hn hxy) (fun hn => hn hxy.symm)
  rw [this]

/-- **C18 (A3)**: on the common fragment the two routers give every request with a normal path
    the same outcome.  Beyond the hypotheses of the property's wording (`wfCommon`,
    `rootsDistinct`, `normalPath`) and the explicit exclusion of the ranking difference
    (`ranksAgree`, F17), two more are needed, each with a `decide`d counterexample below:
    `rootsClean` (no empty root token) and `routeIdsDistinct`. -/
theorem C18_agree_partial (E : ReEnv) (cfg : Config) (hwf : Spec.wfCommon cfg = true)
    (hroots : Spec.rootsDistinct cfg = true) (hclean : Spec.rootsClean cfg = true)
    (hids : Spec.routeIdsDistinct cfg = true)
    (req : Req) (hp : Spec.normalPath req.path = true) (hr : Spec.ranksAgree E cfg req = true) :
    Spec.sameOutcome (route E (Spec.withRouter cfg .curly) req) (route E (Spec.withRouter cfg .jsr) req) := by
  rw [route_withRouter_curly, route_withRouter_jsr]
  unfold Spec.ranksAgree at hr
  rw [route_withRouter_curly, route_withRouter_jsr] at hr
  rcases agree_core E cfg hwf hroots hclean req hp with
    ⟨svc, sc, _, hmem, rc, hrc, rj, hrj, tsc, tsj, htsc, htsj, _, _, _, _, hoc, hoj⟩ | h
  · rw [hoc, hoj] at hr ⊢
    simp only [Bool.and_eq_true, beq_iff_eq] at hr
    have hidn : (svc.routes.map (·.id)).Nodup := by
      unfold Spec.routeIdsDistinct at hids
      simp only [List.all_eq_true, decide_eq_true_eq] at hids
      exact hids svc hmem
    have := built_eq_of_id hidn hrc hrj hr.2
    subst this
    rw [htsc] at htsj
    cases htsj
    exact ⟨rfl, rfl, rfl⟩
  · exact h.1

/-! ### (A4) a structural condition under which the ranking difference cannot show -/

/-- **C18 (A4)**: if, in the WebService CurlyRouter detects, at most one route both admits the path
    and is eligible for the request, then the two routers cannot select different routes -/
theorem C18_ranksAgree_of_unique_eligible (E : ReEnv) (cfg : Config) (hwf : Spec.wfCommon cfg = true)
    (hroots : Spec.rootsDistinct cfg = true) (hclean : Spec.rootsClean cfg = true)
    (req : Req) (hp : Spec.normalPath req.path = true)
    (huniq : ∀ svc sc, Curly.detectWebService E (tokenize req.path) cfg.services none = some (some (svc, sc)) →
      ∀ r1 ∈ svc.built, ∀ r2 ∈ svc.built,
        Spec.pathAdmits E .curly r1 req.path = true → Spec.pathAdmits E .curly r2 req.path = true →
        Spec.eligible r1 req = true → Spec.eligible r2 req = true → r1 = r2) :
    Spec.ranksAgree E cfg req = true := by
  unfold Spec.ranksAgree
  rw [route_withRouter_curly, route_withRouter_jsr]
  rcases agree_core E cfg hwf hroots hclean req hp with
    ⟨svc, sc, hdet, _, rc, hrc, rj, hrj, tsc, tsj, htsc, htsj, hac, haj, hec, hej, hoc, hoj⟩ | h
  · have hpa : ∀ (r : Route) (ts : List TTok), readTemplate r.path = some ts →
        Spec.admits E .curly ts (tokenize req.path) = true → Spec.pathAdmits E .curly r req.path = true := by
      intro r ts hts ha
      simp [Spec.pathAdmits, Spec.templateOf, hts, Spec.admittedSegments, ha]
    have := huniq svc sc hdet rc hrc rj hrj (hpa rc tsc htsc hac) (hpa rj tsj htsj haj) hec hej
    subst this
    rw [hoc, hoj]
    simp
  · cases hc : (routeCurly E cfg req).1 with
    | selected s r ps => exact absurd hc (h.2 s r ps)
    | error c a => rfl
    | panic w => rfl

end Restful

/-! ### witnesses -/
namespace Restful.C18Witness

def E0 : ReEnv := ⟨fun _ _ => true, fun _ _ => true⟩

def rGet (id : Nat) (p : String) : RouteDecl :=
  { id := id, method := "GET".toList, relPath := p.toList, consumes := [], produces := [], conds := [], noct := [] }

def get (p : String) : Req := { method := "GET".toList, path := p.toList }

/-! non-vacuity of `C18_agree_partial`: two services, three routes, every hypothesis decided -/

def cfg : Config :=
  { router := .curly,
    services := [
      { id := 1, root := "/users".toList,
        routes := [rGet 10 "/{id}", rGet 11 "/me", { rGet 12 "/{id}" with method := "POST".toList }] },
      { id := 2, root := "/users/admin".toList, routes := [rGet 20 "/{thing}/log"] }] }

example : Spec.wfCommon cfg = true ∧ Spec.rootsDistinct cfg = true ∧ Spec.rootsClean cfg = true ∧
    Spec.routeIdsDistinct cfg = true ∧ Spec.normalPath (get "/users/admin/x/log/").path = true ∧
    Spec.ranksAgree E0 cfg (get "/users/admin/x/log/") = true ∧
    route E0 (Spec.withRouter cfg .curly) (get "/users/admin/x/log/") = .selected 2 20 [("thing".toList, "x".toList)] ∧
    route E0 (Spec.withRouter cfg .jsr) (get "/users/admin/x/log/") = .selected 2 20 [("thing".toList, "x".toList)] := by
  decide

example : Spec.sameOutcome (route E0 (Spec.withRouter cfg .curly) (get "/users/me"))
    (route E0 (Spec.withRouter cfg .jsr) (get "/users/me")) :=
  C18_agree_partial E0 cfg (by decide) (by decide) (by decide) (by decide) _ (by decide) (by decide)

/-- … and an error outcome with an Allow set: `DELETE /users/me` → 405 from both -/
example : route E0 (Spec.withRouter cfg .curly) { get "/users/me" with method := "DELETE".toList } =
      .error 405 (some ["GET".toList, "POST".toList]) ∧
    Spec.sameOutcome (route E0 (Spec.withRouter cfg .curly) { get "/users/me" with method := "DELETE".toList })
      (route E0 (Spec.withRouter cfg .jsr) { get "/users/me" with method := "DELETE".toList }) :=
  ⟨by decide, C18_agree_partial E0 cfg (by decide) (by decide) (by decide) (by decide) _ (by decide) (by decide)⟩

/-- **F17** (different ranking keys): `GET /abcdef/{x}/{y}` (id 0) and `GET /{x}/b/c` (id 1) under
    root `/w`, request `GET /w/abcdef/b/c`: CurlyRouter selects route 1 (two literal segments),
    RouterJSR311 route 0 (six literal characters).  Every hypothesis of `C18_agree_partial` holds
    except `ranksAgree`. -/
theorem C18_F17_witness :
    let cfg : Config := { router := .curly, services :=
      [{ id := 0, root := "/w".toList, routes := [rGet 0 "/abcdef/{x}/{y}", rGet 1 "/{x}/b/c"] }] }
    let req := get "/w/abcdef/b/c"
    Spec.wfCommon cfg = true ∧ Spec.rootsDistinct cfg = true ∧ Spec.rootsClean cfg = true ∧
      Spec.routeIdsDistinct cfg = true ∧ Spec.normalPath req.path = true ∧ Spec.ranksAgree E0 cfg req = false ∧
      route E0 (Spec.withRouter cfg .curly) req = .selected 0 1 [("x".toList, "abcdef".toList)] ∧
      route E0 (Spec.withRouter cfg .jsr) req = .selected 0 0 [("x".toList, "b".toList), ("y".toList, "c".toList)] := by
  decide

/-- **F15** (empty segment): root `/w` with `GET /{x}/b`, request `GET /w//b`: CurlyRouter binds
    `x` to the empty segment and selects, RouterJSR311 answers 404.  Only `normalPath` fails. -/
theorem C18_F15_witness :
    let cfg : Config := { router := .curly, services := [{ id := 0, root := "/w".toList, routes := [rGet 0 "/{x}/b"] }] }
    let req := get "/w//b"
    Spec.wfCommon cfg = true ∧ Spec.rootsDistinct cfg = true ∧ Spec.rootsClean cfg = true ∧
      Spec.routeIdsDistinct cfg = true ∧ Spec.normalPath req.path = false ∧ Spec.ranksAgree E0 cfg req = true ∧
      route E0 (Spec.withRouter cfg .curly) req = .selected 0 0 [("x".toList, [])] ∧
      route E0 (Spec.withRouter cfg .jsr) req = .error 404 none := by
  decide

/-- **F16** (newline inside a variable segment): root `/w` with `GET /{x}/b`, request
    `GET /w/a⏎b/b`: CurlyRouter selects, RouterJSR311 answers 404 (the root expression's final
    group cannot cross the newline).  Only `normalPath` fails. -/
theorem C18_F16_witness :
    let cfg : Config := { router := .curly, services := [{ id := 0, root := "/w".toList, routes := [rGet 0 "/{x}/b"] }] }
    let req := get "/w/a\nb/b"
    Spec.wfCommon cfg = true ∧ Spec.rootsDistinct cfg = true ∧ Spec.rootsClean cfg = true ∧
      Spec.routeIdsDistinct cfg = true ∧ Spec.normalPath req.path = false ∧ Spec.ranksAgree E0 cfg req = true ∧
      route E0 (Spec.withRouter cfg .curly) req = .selected 0 0 [("x".toList, "a\nb".toList)] ∧
      route E0 (Spec.withRouter cfg .jsr) req = .error 404 none := by
  decide

/-- why `rootsClean` is needed: root `//` (one empty token) with `GET /x`, request `GET /x`:
    CurlyRouter keeps the empty root token and finds no service (404), RouterJSR311 drops it and
    selects.  Every other hypothesis of `C18_agree_partial` holds. -/
theorem C18_emptyRootToken_witness :
    let cfg : Config := { router := .curly, services := [{ id := 0, root := "//".toList, routes := [rGet 0 "/x"] }] }
    let req := get "/x"
    Spec.wfCommon cfg = true ∧ Spec.rootsDistinct cfg = true ∧ Spec.rootsClean cfg = false ∧
      Spec.routeIdsDistinct cfg = true ∧ Spec.normalPath req.path = true ∧ Spec.ranksAgree E0 cfg req = true ∧
      route E0 (Spec.withRouter cfg .curly) req = .error 404 none ∧
      route E0 (Spec.withRouter cfg .jsr) req = .selected 0 0 [] := by
  decide

/-- the same with routes on the other side: root `/a//b` (no routes) and root `/a` with
    `GET /b/c`, request `GET /a/b/c`: CurlyRouter selects, RouterJSR311 dispatches to `/a//b`
    (read as `/a/b`) and answers 404 -/
theorem C18_emptyRootToken_witness' :
    let cfg : Config := { router := .curly, services := [{ id := 0, root := "/a//b".toList, routes := [] },
      { id := 1, root := "/a".toList, routes := [rGet 0 "/b/c"] }] }
    let req := get "/a/b/c"
    Spec.wfCommon cfg = true ∧ Spec.rootsDistinct cfg = true ∧ Spec.rootsClean cfg = false ∧
      Spec.routeIdsDistinct cfg = true ∧ Spec.normalPath req.path = true ∧ Spec.ranksAgree E0 cfg req = true ∧
      route E0 (Spec.withRouter cfg .curly) req = .selected 1 0 [] ∧
      route E0 (Spec.withRouter cfg .jsr) req = .error 404 none := by
  decide

/-- why `routeIdsDistinct` is needed: the F17 table with both routes given id 0: `ranksAgree`
    (which compares ids) holds, yet the two routers run different routes with different parameters -/
theorem C18_duplicateIds_witness :
    let cfg : Config := { router := .curly, services :=
      [{ id := 0, root := "/w".toList, routes := [rGet 0 "/abcdef/{x}/{y}", rGet 0 "/{x}/b/c"] }] }
    let req := get "/w/abcdef/b/c"
    Spec.wfCommon cfg = true ∧ Spec.rootsDistinct cfg = true ∧ Spec.rootsClean cfg = true ∧
      Spec.routeIdsDistinct cfg = false ∧ Spec.normalPath req.path = true ∧ Spec.ranksAgree E0 cfg req = true ∧
      route E0 (Spec.withRouter cfg .curly) req = .selected 0 0 [("x".toList, "abcdef".toList)] ∧
      route E0 (Spec.withRouter cfg .jsr) req = .selected 0 0 [("x".toList, "b".toList), ("y".toList, "c".toList)] := by
  decide

end Restful.C18Witness
