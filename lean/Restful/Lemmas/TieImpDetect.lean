import Restful.Lemmas.TieImpVocab
import Restful.Lemmas.TieImpMedia
import Restful.Lemmas.TieImpBridge
namespace Restful
namespace TieImp
open Imp

namespace T7

/-- the generic FILTER loop over a list of images `g r` (`for each in previous do if c then candidates :=
    push candidates each`): the body is abstract, characterised by what one iteration does -/
theorem filter_loop {α β : Type} (g : β → α) (p : β → Bool)
    (f : α → List α → Option (ForInStep (List α))) (rs : List β) (acc : List α)
    (hf : ∀ r acc, f (g r) acc = some (.yield (if p r then acc ++ [g r] else acc))) :
    forIn (rs.map g) acc f = some (acc ++ (rs.filter p).map g) := by
  induction rs generalizing acc with
  | nil => simp
  | cons r rs ih =>
    rw [List.map_cons, List.forIn_cons, hf]
    simp only [Option.bind_eq_bind, Option.bind_some]
    rw [ih]
    cases h : p r <;> simp [h]

/-- the first loop, over `for i, each := range routes` re-reading `routes[i]` -/
theorem enum_filter_loop {α β : Type} (g : β → α) (p : β → Bool)
    (f : Int × α → List (Option α) → Option (ForInStep (List (Option α)))) (rs : List β)
    (hf : ∀ (k : Nat) r acc, rs[k]? = some r →
      f ((k : Int), g r) acc = some (.yield (if p r then acc ++ [some (g r)] else acc))) :
    forIn (enum (rs.map g)) [] f = some ((rs.filter p).map (fun r => some (g r))) := by
  have key : ∀ (l : List β) (k : Nat) (acc : List (Option α)), rs.drop k = l →
      forIn (enumFrom k (l.map g)) acc f = some (acc ++ (l.filter p).map (fun r => some (g r))) := by
    intro l
    induction l with
    | nil => intro k acc _; simp [enumFrom_nil]
    | cons r l ih =>
      intro k acc hk
      have hr : rs[k]? = some r := by
        rw [List.getElem?_eq_some_iff]
        have : k < rs.length := by
          rcases Nat.lt_or_ge k rs.length with h | h
          · exact h
          · rw [List.drop_eq_nil_of_le h] at hk; cases hk
        refine ⟨this, ?_⟩
        rw [List.drop_eq_getElem_cons this] at hk
        exact (List.cons.inj hk).1
      have hl : rs.drop (k + 1) = l := by
        rw [← List.drop_drop, hk]; rfl
      rw [List.map_cons, enumFrom_cons, List.forIn_cons, hf k r acc hr]
      simp only [Option.bind_eq_bind, Option.bind_some]
      rw [ih (k + 1) _ hl]
      cases h : p r <;> simp [h]
  rw [enum_eq, key rs 0 [] rfl]
  simp

/-- the inner loop over the If-conditions with its `break` -/
theorem all_loop {α : Type} (t : α → Bool) (f : α → Bool → Option (ForInStep Bool)) (l : List α) (b : Bool)
    (hf : ∀ x b, f x b = if (!t x) = true then pure (ForInStep.done false) else pure (ForInStep.yield b)) :
    forIn l b f = some (b && l.all t) := by
  induction l with
  | nil => simp
  | cons x l ih =>
    rw [List.forIn_cons, hf]
    cases h : t x <;> simp [ih, h]

/-- the same loop with an arbitrary state: "every element passes the test" whether the code keeps a flag and
    breaks or returns from a helper — a failing element ends the loop with the state `d` (the same for all) -/
theorem all_loop_gen {α σ : Type} (t : α → Bool) (f : α → σ → Option (ForInStep σ)) (l : List α) (init d : σ)
    (hf : ∀ x, f x init = some (if t x = true then ForInStep.yield init else ForInStep.done d)) :
    forIn l init f = some (if l.all t = true then init else d) := by
  induction l with
  | nil => simp
  | cons x l ih =>
    rw [List.forIn_cons, hf]
    cases h : t x <;> simp [ih, h]

/-- the inner loop of `allowedLoop` setting the labelled-continue flag -/
theorem any_flag_loop {α : Type} (t : α → Bool) (f : α → Bool → Option (ForInStep Bool)) (l : List α) (b : Bool)
    (hf : ∀ x b, f x b = if t x = true then pure (ForInStep.done true) else pure (ForInStep.yield b)) :
    forIn l b f = some (b || l.any t) := by
  induction l with
  | nil => simp
  | cons x l ih =>
    rw [List.forIn_cons, hf]
    cases h : t x <;> simp [ih, h]

/-- a loop that ends at the first element passing the test `t`, with an abstract body and an arbitrary state:
    such an element ends the loop with the state `d`, the others leave the state as it is -/
theorem any_loop_gen {α σ : Type} (t : α → Bool) (f : α → σ → Option (ForInStep σ)) (l : List α) (init d : σ)
    (hf : ∀ x, f x init = some (if t x = true then ForInStep.done d else ForInStep.yield init)) :
    forIn l init f = some (if l.any t = true then d else init) := by
  induction l with
  | nil => simp
  | cons x l ih =>
    rw [List.forIn_cons, hf]
    cases h : t x <;> simp [ih, h]

/-- the Allow loop: methods in order of first appearance (the model accumulates in reverse) -/
theorem allowed_loop {α : Type} (g : Route → α)
    (f : α → List Str → Option (ForInStep (List Str))) (rs : List Route) (acc : List Str)
    (hf : ∀ r acc, f (g r) acc = some (.yield (if acc.contains r.method then acc else acc ++ [r.method]))) :
    forIn (rs.map g) acc.reverse f = some (allowedMethods rs acc) := by
  induction rs generalizing acc with
  | nil => simp [allowedMethods]
  | cons r rs ih =>
    rw [List.map_cons, List.forIn_cons, hf, allowedMethods, List.contains_reverse]
    simp only [Option.bind_eq_bind, Option.bind_some]
    cases h : acc.contains r.method
    · simp only [Bool.false_eq_true, if_false]
      rw [← List.reverse_cons, ih]
    · simp only [if_true]
      rw [ih]

/-- a loop that only accumulates never panics (the `available` list of the 406 / 415 message) -/
theorem total_loop {α β σ : Type} (g : β → α) (f : α → σ → Option (ForInStep σ)) (rs : List β) (acc : σ)
    (hf : ∀ r acc, ∃ acc', f (g r) acc = some (.yield acc')) :
    ∃ res, forIn (rs.map g) acc f = some res := by
  induction rs generalizing acc with
  | nil => exact ⟨acc, by simp⟩
  | cons r rs ih =>
    obtain ⟨acc', h⟩ := hf r acc
    obtain ⟨res, h'⟩ := ih acc'
    exact ⟨res, by rw [List.map_cons, List.forIn_cons, h]; simpa using h'⟩

/-- `httpRequest.Header.Get(key)` of a model request -/
theorem header_eq (req : Req) (k : Str) :
    (genReq req).header k = if k = "Content-Type".toList then req.contentType
      else if k = "Accept".toList then req.accept
      else if k = "Content-Length".toList then req.clenHeader
      else [] := rfl

theorem allowed_loop0 {α : Type} (g : Route → α)
    (f : α → List Str → Option (ForInStep (List Str))) (rs : List Route)
    (hf : ∀ r acc, f (g r) acc = some (.yield (if acc.contains r.method then acc else acc ++ [r.method]))) :
    forIn (rs.map g) [] f = some (allowedMethods rs []) :=
  allowed_loop g f rs [] hf

/-- `total_loop` in the shape the translation produces, when the continuation's visible result does not
    depend on what the loop computed -/
theorem total_loop_map {α β σ γ δ : Type} (g : β → α) (f : α → σ → Option (ForInStep σ)) (rs : List β) (acc : σ)
    (k : σ → Option γ) (view : γ → δ) (v : Option δ)
    (hf : ∀ r acc, ∃ acc', f (g r) acc = some (.yield acc'))
    (hk : ∀ res, (k res).map view = v) :
    ((forIn (rs.map g) acc f).bind k).map view = v := by
  obtain ⟨res, h⟩ := total_loop g f rs acc hf
  rw [h]; exact hk res

end T7

/-- jsr311.go `RouterJSR311.detectRoute` (shared by both routers): the elimination by If-conditions,
    method, Content-Type and Accept, with the status codes 404 / 405 + Allow / 415 / 406, as translated on
    this run IS the model's `detectRoute`, for all route lists and requests -/
theorem detect_route (X : ImpGen.Ext) (routes : List Route) (req : Req) :
    (ImpGen.RouterJSR311_detectRoute X (routes.map (genRoute req)) (genReq req)).map (fun p => (p.1, errView p.2))
      = some (ofDetect req (detectRoute routes req)) := by
  have hCT : (genReq req).header "Content-Type".toList = req.contentType := by
    rw [T7.header_eq, if_pos rfl]
  have hAc : (genReq req).header "Accept".toList = req.accept := by
    rw [T7.header_eq, if_neg (by decide), if_pos rfl]
  have hmc : ∀ r ct, ImpGen.Route_matchesContentType X ct (genRoute req r).Consumes (genRoute req r).Method
      (genRoute req r).allowedMethodsWithoutContentType = some (matchesContentType r ct) :=
    fun r ct => T5.matches_content_type X r ct
  have hma : ∀ r a, ImpGen.Route_matchesAccept X a (genRoute req r).Produces = some (matchesAccept r a) :=
    fun r a => T5.matches_accept X r a
  have hme : ∀ r, ((genReq req).method == (genRoute req r).Method) = decide (req.method = r.method) := by
    intro r; show (req.method == r.method) = decide _
    by_cases h : req.method = r.method <;> simp [h]
  unfold ImpGen.RouterJSR311_detectRoute
  unfold_gen_helpers keeping ImpGen.Route_matchesContentType ImpGen.Route_matchesAccept
  dsimp only
  rw [T7.enum_filter_loop (genRoute req) (passesConds · req)]
  case hf =>
    intro k r acc hk
    dsimp only
    have hp : (genRoute req r).If.all (fun fn => fn (genReq req)) = passesConds r req := by
      simp only [genRoute, passesConds, List.all_map]; rfl
    -- the If-conditions: all of them must hold (a flag and `break`, or a helper returning early)
    rw [T7.all_loop_gen (fun (fn : HttpRequest → Bool) => fn (genReq req))]
    case hf =>
      intro fn
      cases fn (genReq req) <;> rfl
    simp only [hp, at?_nat, List.getElem?_map, hk, Option.map_some, Option.bind_eq_bind, Option.bind_some]
    cases passesConds r req <;> rfl
  simp only [Option.bind_eq_bind, Option.bind_some]
  rw [T7.filter_loop (fun r => some (genRoute req r)) (fun r => decide (req.method = r.method))]
  case hf =>
    intro r acc
    simp only [deref, Option.bind_some, hme]
    cases decide (req.method = r.method) <;> rfl
  simp only [Option.bind_some, List.nil_append]
  rw [T7.allowed_loop0 (fun r => some (genRoute req r))]
  case hf =>
    intro r acc
    have hM : (genRoute req r).Method = r.method := rfl
    simp only [deref, Option.bind_some, hM]
    -- "the method is listed already": a flag set in an inner loop, in whatever form the body sets it
    rw [T7.any_loop_gen (fun m => m == r.method)]
    case hf =>
      intro m
      cases (m == r.method) <;> rfl
    simp only [List.any_beq', Option.bind_some]
    cases acc.contains r.method <;> rfl
  rw [T7.filter_loop (fun r => some (genRoute req r)) (matchesContentType · req.contentType)]
  case hf =>
    intro r acc
    simp only [deref, Option.bind_some, hCT, hmc]
    cases matchesContentType r req.contentType <;> rfl
  simp only [Option.bind_some, List.nil_append, hAc, T5.len_beq_zero, List.isEmpty_map]
  unfold detectRoute
  dsimp only
  generalize routes.filter (fun x => passesConds x req) = c1
  generalize c1.filter (fun r => decide (req.method = r.method)) = c2
  generalize c2.filter (fun x => matchesContentType x req.contentType) = c3
  have hcl : (genReq req).contentLength = req.contentLength := rfl
  have hm : (genReq req).method = req.method := rfl
  have hss : "*/*".toList = starStar := rfl
  simp only [hcl, hm, hss]
  have hne : (req.contentLength != 0) = decide (req.contentLength ≠ 0) := by
    by_cases h : req.contentLength = 0 <;> simp [h]
  have hb : (bodylessMethods.contains req.method && decide (req.contentLength = 0)) =
      ((req.method == "POST".toList || req.method == "PUT".toList || req.method == "PATCH".toList) &&
        req.contentLength == 0) := by
    simp only [bodylessMethods, List.map_cons, List.map_nil, List.contains_cons, List.contains_nil,
      Bool.or_false, Bool.or_assoc]
    rfl
  cases ha : req.accept.isEmpty <;> simp only [if_true, Bool.false_eq_true, if_false]
  case' false => generalize req.accept = a
  case' true => generalize starStar = a
  all_goals
    rw [T7.filter_loop (fun r => some (genRoute req r)) (matchesAccept · a)]
    case hf =>
      intro r acc
      simp only [deref, Option.bind_some, hma]
      cases matchesAccept r a <;> rfl
    simp only [Option.bind_some, List.nil_append, List.isEmpty_map,
      apply_ite (Option.map (fun (p : Option ImpGen.GoRoute × GoErr) => (p.1, errView p.2)))]
    generalize c3.filter (fun x => matchesAccept x a) = c4
    rw [T7.total_loop_map (fun r => some (genRoute req r)) _ c3 [] _
      (fun (p : Option ImpGen.GoRoute × GoErr) => (p.1, errView p.2))
      (some (none, some (if (bodylessMethods.contains req.method && decide (req.contentLength = 0)) = true
        then (415, []) else (406, []))))]
    case hf => intro r acc; exact ⟨_, rfl⟩
    case hk =>
      intro res
      rw [hb]
      cases ((req.method == "POST".toList || req.method == "PUT".toList || req.method == "PATCH".toList) &&
        req.contentLength == 0) <;> rfl
    rw [hne]
    generalize (bodylessMethods.contains req.method && decide (req.contentLength = 0)) = bb
    generalize decide (req.contentLength ≠ 0) = nz
    generalize c1.isEmpty = e1
    generalize c2.isEmpty = e2
    generalize c3.isEmpty = e3
    cases e1 <;> cases e2 <;> cases e3 <;> cases nz <;> cases c4 <;> cases bb <;> rfl

end TieImp
end Restful
