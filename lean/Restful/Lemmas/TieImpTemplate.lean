import Restful.Lemmas.TieImp
import Restful.Lemmas.TieImpTactic
namespace Restful
namespace TieImp
open Imp
set_option linter.unusedSimpArgs false

namespace T6

/-! ### bridging facts for the prelude -/

theorem indexSub_singleton (c : Char) (s : Str) : Str.indexSub [c] s = s.idxOf? c := by
  induction s with
  | nil => simp [Str.indexSub]
  | cons a s ih =>
    rw [Str.indexSub, ih, List.idxOf?_cons]
    by_cases h : a = c
    · subst h; simp
    · have h' : ¬ c = a := fun e => h e.symm
      simp [h, h']

theorem index_char (s : Str) (c : Char) :
    Imp.index s [c] = match Str.index c s with | some k => ((k : Nat) : Int) | none => -1 := by
  unfold Imp.index Str.index
  rw [indexSub_singleton]
  cases List.idxOf? c s <;> rfl

theorem slice_eq (s : Str) (i j : Int) : Imp.slice s i j = Str.slice? s i j := rfl

/-! ### one iteration of the loop, as the model sees it -/

abbrev St := Int × List Str × Int × List Char

/-- the state after the token `j` has been written -/
def stepTok (quote : Str → Str) (j : Jsr.JTok) (s : St) : St :=
  (s.1 + ((Jsr.litLen j : Nat) : Int), s.2.1 ++ (Jsr.varNameOf j).toList,
   s.2.2.1 + (((Jsr.varNameOf j).toList.length : Nat) : Int), s.2.2.2 ++ '/' :: tokText quote j)

/- `simp [tokText]` / `unfold tokText` are very slow (generating the equation lemmas of `tokText` reduces
   the string literals); these `rfl` equations are instantaneous -/
theorem tokText_lit (quote : Str → Str) (e : Str) : tokText quote (.lit e) = quote e := rfl
theorem tokText_var (quote : Str → Str) (e : Str) : tokText quote (.var e) = "([^/]+?)".toList := rfl
theorem tokText_wild (quote : Str → Str) (e : Str) : tokText quote (.wild e) = "(.*)".toList := rfl
theorem tokText_re (quote : Str → Str) (n e : Str) :
    tokText quote (.re n e) = "(".toList ++ e ++ ")".toList := rfl

theorem stepTok_lit (quote : Str → Str) (e : Str) (lc : Int) (vn : List Str) (vc : Int) (buf : Str) :
    stepTok quote (.lit e) (lc, vn, vc, buf) = (lc + len e, vn, vc, buf ++ ['/'] ++ quote e) := by
  simp [stepTok, tokText_lit, Jsr.litLen, Jsr.varNameOf, len]

theorem stepTok_var (quote : Str → Str) (n : Str) (lc : Int) (vn : List Str) (vc : Int) (buf : Str) :
    stepTok quote (.var n) (lc, vn, vc, buf) = (lc, push vn n, vc + 1, buf ++ ['/'] ++ "([^/]+?)".toList) := by
  simp [stepTok, tokText_var, Jsr.litLen, Jsr.varNameOf, push]

theorem stepTok_wild (quote : Str → Str) (n : Str) (lc : Int) (vn : List Str) (vc : Int) (buf : Str) :
    stepTok quote (.wild n) (lc, vn, vc, buf) = (lc, push vn n, vc + 1, buf ++ ['/'] ++ "(.*)".toList) := by
  simp [stepTok, tokText_wild, Jsr.litLen, Jsr.varNameOf, push]

theorem stepTok_re (quote : Str → Str) (n e : Str) (lc : Int) (vn : List Str) (vc : Int) (buf : Str) :
    stepTok quote (.re n e) (lc, vn, vc, buf)
      = (lc, push vn n, vc + 1, buf ++ ['/'] ++ ("(".toList ++ e ++ ")".toList)) := by
  simp [stepTok, tokText_re, Jsr.litLen, Jsr.varNameOf, push]

/-- one iteration: empty tokens are skipped, a slice panic is `none` -/
def stepModel (quote : Str → Str) (each : Str) (s : St) : Option (ForInStep St) :=
  if each.isEmpty then some (.yield s)
  else match Jsr.parseTok each with
    | none => none
    | some j => some (.yield (stepTok quote j s))

/-- the state after all tokens have been written -/
def finTok (quote : Str → Str) (js : List Jsr.JTok) (s : St) : St :=
  (s.1 + (((js.map Jsr.litLen).sum : Nat) : Int), s.2.1 ++ js.filterMap Jsr.varNameOf,
   s.2.2.1 + (((js.filterMap Jsr.varNameOf).length : Nat) : Int),
   s.2.2.2 ++ (js.map (fun t => '/' :: tokText quote t)).flatten)

theorem finTok_cons (quote : Str → Str) (j : Jsr.JTok) (js : List Jsr.JTok) (s : St) :
    finTok quote (j :: js) s = finTok quote js (stepTok quote j s) := by
  rcases s with ⟨lc, vn, vc, buf⟩
  cases h : Jsr.varNameOf j <;>
    simp [finTok, stepTok, h, Int.add_assoc, List.append_assoc] <;> omega

/-- the loop with an ABSTRACT body that behaves like `stepModel` -/
theorem loop_tie (quote : Str → Str) (f : Str → St → Option (ForInStep St))
    (hstep : ∀ each s, f each s = stepModel quote each s) :
    ∀ (ts : List Str) (s : St),
      forIn ts s f = (Jsr.parseToks ts).map (fun js => finTok quote js s) := by
  intro ts
  induction ts with
  | nil => intro s; simp [Jsr.parseToks, finTok]
  | cons t ts ih =>
    intro s
    rw [List.forIn_cons, hstep, Jsr.parseToks, stepModel]
    by_cases he : t.isEmpty = true
    · simp only [he, if_true]
      exact ih s
    · simp only [he, Bool.false_eq_true, if_false]
      cases hp : Jsr.parseTok t with
      | none => simp
      | some j =>
        simp only []
        show forIn ts (stepTok quote j s) f = _
        rw [ih]
        cases Jsr.parseToks ts with
        | none => rfl
        | some js => simp [finTok_cons]

theorem tokenize_tie (rx : Str → Str → Bool × GoErr) (join : Str → Str → Str) (quote : Str → Str) (p : Str) :
    ImpGen.tokenizePath (extOfQ rx join quote) p = some (tokenize p) := by
  unfold ImpGen.tokenizePath tokenize
  have e : "/".toList = ['/'] := rfl
  by_cases h : p = ['/']
  · subst h; rfl
  · have h' : (['/'] == p) = false := by
      rw [beq_eq_false_iff_ne]; exact fun e => h e.symm
    simp only [e, h', h, extOfQ, Bool.false_eq_true, if_false, if_true]
    rfl

end T6

/-- path_expression.go `templateToRegularExpression`: the regex TEXT, the literal count, the variable
    names and their number, and the tokens are what the model's `Jsr.compile` says, for every template;
    a slice-bounds panic exactly where the model has `none` -/
theorem template_to_regex (rx : Str → Str → Bool × GoErr) (join : Str → Str → Str) (quote : Str → Str) (tmpl : Str) :
    ImpGen.templateToRegularExpression (extOfQ rx join quote) tmpl
      = (Jsr.compile tmpl).map (fun e =>
          (exprText quote e.toks, ((e.literalCount : Nat) : Int), e.varNames, ((e.varCount : Nat) : Int), tokenize tmpl)) := by
  unfold ImpGen.templateToRegularExpression
  dsimp only
  rw [T6.tokenize_tie]
  simp only [Option.bind_eq_bind, Option.bind_some]
  rw [T6.loop_tie quote _ ?hstep]
  case hstep =>
    intro each s
    rcases s with ⟨lc, vn, vc, buf⟩
    unfold T6.stepModel
    have l0 : "".toList = ([] : Str) := rfl
    have l1 : "{".toList = ['{'] := rfl
    have l2 : ":".toList = [':'] := rfl
    have l3 : "/".toList = ['/'] := rfl
    have l4 : "*".toList = ['*'] := rfl
    have x1 : (extOfQ rx join quote).strings_TrimSpace = Jsr.trimSpace := rfl
    have x2 : (extOfQ rx join quote).regexp_QuoteMeta = quote := rfl
    simp only [l0, l1, l2, l3, l4, x1, x2, T6.index_char, T6.slice_eq, Option.pure_def]
    by_cases he : each = []
    · subst he; rfl
    · have he1 : (each == []) = false := by rw [beq_eq_false_iff_ne]; exact he
      have he2 : each.isEmpty = false := by cases each with | nil => exact absurd rfl he | cons _ _ => rfl
      simp only [he1, he2, Bool.false_eq_true, if_false]
      unfold Jsr.parseTok
      rcases Bool.eq_false_or_eq_true (Str.hasPrefix ['{'] each) with hp | hp
      · simp only [hp, if_true]
        rcases Option.eq_none_or_eq_some (Str.index ':' each) with hi | ⟨colon, hi⟩
        · simp only [hi]
          -- "there is no colon" in whichever polarity the code tests it (`colon != -1` / `colon == -1`)
          have hb : ((-1 : Int) != -1) = false := by decide
          have hb' : ((-1 : Int) == -1) = true := by decide
          simp only [hb, hb', Bool.false_eq_true, if_false, if_true]
          have hl : len each = ((each.length : Nat) : Int) := rfl
          rw [hl]
          rcases Option.eq_none_or_eq_some (each.slice? 1 (↑(List.length each) - 1)) with h | ⟨n, h⟩
          · simp only [h]; rfl
          · simp only [h, Option.bind_some, T6.stepTok_var, str_add]
        · simp only [hi]
          have hb : ((colon : Int) != -1) = true := by rw [bne_iff_ne]; omega
          have hb' : ((colon : Int) == -1) = false := by rw [beq_eq_false_iff_ne]; omega
          simp only [hb, hb', Bool.false_eq_true, if_false, if_true]
          have hl : len each = ((each.length : Nat) : Int) := rfl
          have hc : ((colon : Int) + 1) = ((colon + 1 : Nat) : Int) := by omega
          rw [hl, hc]
          cases each.slice? 1 ↑colon with
          | none => rfl
          | some n =>
            cases each.slice? (↑(colon + 1)) (↑(List.length each) - 1) with
            | none => rfl
            | some e =>
              simp only [Option.bind_some]
              by_cases hw : Jsr.trimSpace e = ['*']
              · have hw' : (Jsr.trimSpace e == ['*']) = true := by rw [beq_iff_eq]; exact hw
                rw [if_pos hw, if_pos hw']
                simp only [T6.stepTok_wild, str_add]
              · have hw' : (Jsr.trimSpace e == ['*']) = false := by rw [beq_eq_false_iff_ne]; exact hw
                rw [if_neg hw, if_neg (by rw [hw']; exact Bool.false_ne_true)]
                simp only [T6.stepTok_re, str_add]
      · simp only [hp]
        rw [if_neg Bool.false_ne_true, if_neg Bool.false_ne_true]
        simp only [T6.stepTok_lit, str_add]
  unfold Jsr.compile
  cases Jsr.parseToks (tokenize tmpl) with
  | none => rfl
  | some js =>
    have l5 : "^".toList = ['^'] := rfl
    simp only [T6.finTok, exprText, l5, Option.map_some, Option.bind_some, Option.pure_def, List.nil_append,
      List.cons_append, Int.zero_add]
    rfl

#print axioms template_to_regex

end TieImp
end Restful
