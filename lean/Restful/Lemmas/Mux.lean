/-
The ServeMux model answers by the SET of registered (pattern, target) pairs: when no pattern is
registered twice (which `register` guarantees), `lookup` is invariant under permutation of the table.
-/
import Restful.Model.Mux
namespace Restful
namespace Mux
open List

/-- no pattern occurs twice -/
def Keys (t : Table) : Prop := (t.map (·.1)).Nodup

theorem Keys.perm {t t' : Table} (h : t.Perm t') (hk : Keys t) : Keys t' :=
  (List.Perm.nodup_iff (h.map (fun e : Entry => e.1))).mp hk

theorem key_inj {t : Table} (hk : Keys t) {a b : Entry} (ha : a ∈ t) (hb : b ∈ t) (h : a.1 = b.1) : a = b := by
  induction t with
  | nil => cases ha
  | cons x xs ih =>
    have hk' : x.1 ∉ xs.map (·.1) ∧ Keys xs := by
      simpa [Keys] using hk
    rcases List.mem_cons.mp ha with rfl | ha'
    · rcases List.mem_cons.mp hb with rfl | hb'
      · rfl
      · exact absurd (h ▸ List.mem_map_of_mem (f := (·.1)) hb') hk'.1
    · rcases List.mem_cons.mp hb with rfl | hb'
      · exact absurd (h ▸ List.mem_map_of_mem (f := (·.1)) ha') hk'.1
      · exact ih hk'.2 ha' hb'

theorem has_eq_true {t : Table} {p : Str} : has t p = true ↔ p ∈ t.map (·.1) := by
  simp [has, List.any_eq_true]

theorem has_perm {t t' : Table} (h : t.Perm t') (p : Str) : has t p = has t' p := by
  rw [Bool.eq_iff_iff, has_eq_true, has_eq_true]
  exact (h.map (·.1)).mem_iff

theorem exact_some {t : Table} {path : Str} {e : Entry} (h : exact t path = some e) : e ∈ t ∧ e.1 = path := by
  unfold exact at h
  exact ⟨List.mem_of_find?_eq_some h, by simpa using List.find?_some h⟩

theorem exact_of_mem {t : Table} (hk : Keys t) {path : Str} {e : Entry} (he : e ∈ t) (hp : e.1 = path) :
    exact t path = some e := by
  cases hx : exact t path with
  | none =>
    unfold exact at hx
    have := List.find?_eq_none.mp hx e he
    simp [hp] at this
  | some x =>
    obtain ⟨hxm, hxp⟩ := exact_some hx
    rw [key_inj hk hxm he (hxp.trans hp.symm)]

theorem exact_perm {t t' : Table} (h : t.Perm t') (hk : Keys t) (path : Str) : exact t path = exact t' path := by
  cases hx : exact t path with
  | none =>
    cases hy : exact t' path with
    | none => rfl
    | some y =>
      obtain ⟨hym, hyp⟩ := exact_some hy
      rw [exact_of_mem hk (h.mem_iff.mpr hym) hyp] at hx
      cases hx
  | some x =>
    obtain ⟨hxm, hxp⟩ := exact_some hx
    exact (exact_of_mem (hk.perm h) (h.mem_iff.mp hxm) hxp).symm

theorem pickMax_none {l : List Entry} (h : pickMax l = none) : l = [] := by
  cases l with
  | nil => rfl
  | cons e rest =>
    simp only [pickMax] at h
    split at h
    · cases h
    · split at h <;> cases h

theorem pickMax_some {l : List Entry} {b : Entry} (h : pickMax l = some b) :
    b ∈ l ∧ ∀ x ∈ l, x.1.length ≤ b.1.length := by
  induction l generalizing b with
  | nil => cases h
  | cons e rest ih =>
    simp only [pickMax] at h
    split at h
    · rename_i hr
      cases h
      have := pickMax_none hr
      subst this
      simp
    · rename_i b' hr
      obtain ⟨hm, hmax⟩ := ih hr
      split at h
      · rename_i hlt
        cases h
        refine ⟨List.mem_cons_of_mem _ hm, ?_⟩
        intro x hx
        rcases List.mem_cons.mp hx with rfl | hx'
        · exact Nat.le_of_lt hlt
        · exact hmax x hx'
      · rename_i hlt
        cases h
        refine ⟨List.mem_cons_self, ?_⟩
        intro x hx
        rcases List.mem_cons.mp hx with rfl | hx'
        · exact Nat.le_refl _
        · exact Nat.le_trans (hmax x hx') (Nat.le_of_not_lt hlt)

theorem longest_perm {t t' : Table} (h : t.Perm t') (hk : Keys t) (path : Str) : longest t path = longest t' path := by
  unfold longest
  have hf : (t.filter (eligible path)).Perm (t'.filter (eligible path)) := h.filter _
  cases hx : pickMax (t.filter (eligible path)) with
  | none =>
    have := pickMax_none hx
    rw [this] at hf
    have : t'.filter (eligible path) = [] := List.Perm.eq_nil hf.symm
    rw [this]; rfl
  | some b =>
    cases hy : pickMax (t'.filter (eligible path)) with
    | none =>
      have := pickMax_none hy
      rw [this] at hf
      have : t.filter (eligible path) = [] := List.Perm.eq_nil hf
      rw [this] at hx
      cases hx
    | some b' =>
      obtain ⟨hbm, hbmax⟩ := pickMax_some hx
      obtain ⟨hbm', hbmax'⟩ := pickMax_some hy
      have h1 : b'.1.length ≤ b.1.length := hbmax b' (hf.mem_iff.mpr hbm')
      have h2 : b.1.length ≤ b'.1.length := hbmax' b (hf.mem_iff.mp hbm)
      obtain ⟨hbt, hbe⟩ := List.mem_filter.mp hbm
      obtain ⟨hbt', hbe'⟩ := List.mem_filter.mp hbm'
      have hp : b.1 <+: path := by
        simp only [eligible, Bool.and_eq_true] at hbe
        exact List.isPrefixOf_iff_prefix.mp hbe.2
      have hp' : b'.1 <+: path := by
        simp only [eligible, Bool.and_eq_true] at hbe'
        exact List.isPrefixOf_iff_prefix.mp hbe'.2
      have hpre : b.1 <+: b'.1 := List.prefix_of_prefix_length_le hp hp' h2
      have heq : b.1 = b'.1 := hpre.eq_of_length (Nat.le_antisymm h2 h1)
      rw [key_inj hk hbt (h.mem_iff.mpr hbt') heq]

theorem handler_perm {t t' : Table} (h : t.Perm t') (hk : Keys t) (path : Str) : handler t path = handler t' path := by
  unfold handler
  rw [exact_perm h hk, longest_perm h hk]

theorem shouldRedirect_perm {t t' : Table} (h : t.Perm t') (path : Str) : shouldRedirect t path = shouldRedirect t' path := by
  unfold shouldRedirect
  rw [has_perm h, has_perm h]

/-- the mux answers by the set of registrations -/
theorem lookup_perm {t t' : Table} (h : t.Perm t') (hk : Keys t) (method path : Str) :
    lookup t method path = lookup t' method path := by
  unfold lookup
  simp only [shouldRedirect_perm h, handler_perm h hk]

end Mux
end Restful
