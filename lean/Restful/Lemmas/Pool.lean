/-
C13: the bounded compressor cache (`NewBoundedCachedCompressors`) never hands one object to two
requests and never makes a request wait.

The cache is a buffered Go channel.  Every provider call is ONE atomic step on the channel:

  acquire:  `select { case o = <-chan: default: o = new() }`
  release:  `select { case chan <- o: default: }`

so an execution of any number of goroutines is exactly a finite list of such steps (a *schedule*),
taken by arbitrary threads in arbitrary order.  Nothing below bounds the capacity, the number of
threads or the length of the schedule.

Self-contained: core library only.
-/
namespace Restful.Pool

abbrev Obj := Nat
abbrev Tid := Nat

/-- channel content (oldest first), objects in use by some request, and the supply of fresh objects
    (`next`, `next+1`, … have never been handed out) -/
structure St where
  cap  : Nat
  chan : List Obj
  held : List (Tid × Obj)
  next : Obj
  deriving Repr, DecidableEq

/-- the atomic steps; any thread may attempt any of them at any time -/
inductive Step where
  | acquire (t : Tid)
  | release (t : Tid) (o : Obj)
  deriving Repr, DecidableEq

/-- `select { case o = <-chan: default: o = new() }`: the new state and the object returned -/
def acquire (σ : St) (t : Tid) : St × Obj :=
  match σ.chan with
  | o :: rest => ({ σ with chan := rest, held := (t, o) :: σ.held }, o)
  | [] => ({ σ with held := (t, σ.next) :: σ.held, next := σ.next + 1 }, σ.next)

/-- `select { case chan <- o: default: }`: append when there is room, otherwise drop -/
def release (σ : St) (t : Tid) (o : Obj) : St :=
  if σ.chan.length < σ.cap then { σ with chan := σ.chan ++ [o], held := σ.held.erase (t, o) }
  else { σ with held := σ.held.erase (t, o) }

/-- one step; `none` = not enabled.  The only side condition is that a thread can release only
    what it holds – a condition on the *caller*, not something a thread can wait for. -/
def step (σ : St) : Step → Option St
  | .acquire t => some (acquire σ t).1
  | .release t o => if (t, o) ∈ σ.held then some (release σ t o) else none

/-- run a schedule; steps that are not enabled are skipped -/
def run (σ : St) : List Step → St
  | [] => σ
  | s :: rest => run ((step σ s).getD σ) rest

/-- `NewBoundedCachedCompressors`: the channel is filled with `cap` distinct objects -/
def init (cap : Nat) : St := { cap := cap, chan := List.range cap, held := [], next := cap }

inductive Reachable (cap : Nat) : St → Prop
  | init : Reachable cap (init cap)
  | step {σ σ' : St} (s : Step) : Reachable cap σ → step σ s = some σ' → Reachable cap σ'

def Inv (σ : St) : Prop :=
  σ.chan.length ≤ σ.cap ∧ (σ.chan ++ σ.held.map (·.2)).Nodup ∧
    ∀ o ∈ σ.chan ++ σ.held.map (·.2), o < σ.next

/-! ### the invariant -/

theorem init_inv (cap : Nat) : Inv (init cap) := by
  refine ⟨by simp [init], by simp [init, List.nodup_range], ?_⟩
  intro o ho
  simpa [init] using ho

theorem acquire_inv (σ : St) (t : Tid) (h : Inv σ) : Inv (acquire σ t).1 := by
  obtain ⟨hc, hn, hl⟩ := h
  unfold acquire
  split
  · rename_i o rest heq
    rw [heq] at hc hn hl
    refine ⟨?_, ?_, ?_⟩
    · simp only [List.length_cons] at hc; simp only; omega
    · simp only [List.map_cons]
      have hp : (o :: rest ++ σ.held.map (·.2)).Perm (rest ++ o :: σ.held.map (·.2)) := by
        simpa using (List.perm_middle (a := o) (l₁ := rest) (l₂ := σ.held.map (·.2))).symm
      exact hp.nodup_iff.mp hn
    · intro x hx
      apply hl x
      simp only [List.map_cons, List.mem_append, List.mem_cons] at hx ⊢
      rcases hx with hx | rfl | hx
      · exact Or.inl (Or.inr hx)
      · exact Or.inl (Or.inl rfl)
      · exact Or.inr hx
  · rename_i heq
    rw [heq] at hn hl
    have hn' : (σ.held.map (·.2)).Nodup := by simpa using hn
    have hl' : ∀ o ∈ σ.held.map (·.2), o < σ.next := by intro o ho; exact hl o (by simpa using ho)
    refine ⟨hc, ?_, ?_⟩
    · show (σ.chan ++ List.map (·.2) ((t, σ.next) :: σ.held)).Nodup
      rw [heq]
      simp only [List.nil_append, List.map_cons, List.nodup_cons]
      exact ⟨fun hm => Nat.lt_irrefl _ (hl' _ hm), hn'⟩
    · intro x hx
      show x < σ.next + 1
      have hx' : x ∈ σ.chan ++ List.map (·.2) ((t, σ.next) :: σ.held) := hx
      rw [heq] at hx'
      simp only [List.nil_append, List.map_cons, List.mem_cons] at hx'
      rcases hx' with rfl | hx'
      · exact Nat.lt_succ_self _
      · exact Nat.lt_succ_of_lt (hl' x hx')

theorem release_inv (σ : St) (t : Tid) (o : Obj) (hm : (t, o) ∈ σ.held) (h : Inv σ) :
    Inv (release σ t o) := by
  obtain ⟨hc, hn, hl⟩ := h
  have hp : σ.held.Perm ((t, o) :: σ.held.erase (t, o)) := List.perm_cons_erase hm
  have hp2 : (σ.held.map (·.2)).Perm (o :: (σ.held.erase (t, o)).map (·.2)) := by
    simpa using hp.map (·.2)
  have hsub : ((σ.held.erase (t, o)).map (·.2)).Sublist (σ.held.map (·.2)) :=
    (List.erase_sublist).map _
  unfold release
  split
  · rename_i hlt
    have hp3 : (σ.chan ++ σ.held.map (·.2)).Perm
        ((σ.chan ++ [o]) ++ (σ.held.erase (t, o)).map (·.2)) := by
      have := hp2.append_left σ.chan
      simpa [List.append_assoc] using this
    refine ⟨?_, hp3.nodup_iff.mp hn, ?_⟩
    · simp only [List.length_append, List.length_cons, List.length_nil]; omega
    · intro x hx
      exact hl x (hp3.mem_iff.mpr hx)
  · refine ⟨hc, ?_, ?_⟩
    · exact hn.sublist ((List.Sublist.refl _).append hsub)
    · intro x hx
      apply hl x
      simp only [List.mem_append] at hx ⊢
      rcases hx with hx | hx
      · exact Or.inl hx
      · exact Or.inr (hsub.subset hx)

theorem step_inv {σ σ' : St} (s : Step) (h : Inv σ) (hs : step σ s = some σ') : Inv σ' := by
  cases s with
  | acquire t =>
    simp only [step, Option.some.injEq] at hs
    subst hs; exact acquire_inv σ t h
  | release t o =>
    simp only [step] at hs
    split at hs
    · rename_i hm
      simp only [Option.some.injEq] at hs
      subst hs; exact release_inv σ t o hm h
    · cases hs

theorem run_inv (σ : St) (sched : List Step) (h : Inv σ) : Inv (run σ sched) := by
  induction sched generalizing σ with
  | nil => exact h
  | cons s rest ih =>
    apply ih
    cases hs : step σ s with
    | none => simpa using h
    | some σ' => simpa using step_inv s h hs

/-- **C13, exclusivity.**  After every schedule – any capacity (0 and 1 included), any number of
    threads, any interleaving – the objects in the channel and the objects in use are pairwise
    distinct, the channel is within its capacity, and all of them are older than the fresh supply. -/
theorem C13_exclusive (cap : Nat) : ∀ sched : List Step, Inv (run (init cap) sched) :=
  fun sched => run_inv _ sched (init_inv cap)

theorem reachable_inv {cap : Nat} {σ : St} (h : Reachable cap σ) : Inv σ := by
  induction h with
  | init => exact init_inv cap
  | step s _ hs ih => exact step_inv s ih hs

/-- schedules and `Reachable` describe the same states -/
theorem reachable_iff_run (cap : Nat) (σ : St) :
    Reachable cap σ ↔ ∃ sched, run (init cap) sched = σ := by
  constructor
  · intro h
    induction h with
    | init => exact ⟨[], rfl⟩
    | @step σ₁ σ₂ s _ hs ih =>
      obtain ⟨sched, rfl⟩ := ih
      refine ⟨sched ++ [s], ?_⟩
      have hrun : ∀ (τ : St) (l₁ l₂ : List Step), run τ (l₁ ++ l₂) = run (run τ l₁) l₂ := by
        intro τ l₁
        induction l₁ generalizing τ with
        | nil => intro l₂; rfl
        | cons a l₁ ih => intro l₂; exact ih _ l₂
      rw [hrun]
      simp [run, hs]
  · rintro ⟨sched, rfl⟩
    have : ∀ (τ : St), Reachable cap τ → Reachable cap (run τ sched) := by
      induction sched with
      | nil => intro τ h; exact h
      | cons s rest ih =>
        intro τ h
        apply ih
        cases hs : step τ s with
        | none => simpa using h
        | some τ' => simpa using Reachable.step s h hs
    exact this _ Reachable.init

/-- in a list of pairs whose second components are pairwise distinct, the second component
    determines the first -/
theorem snd_unique {t t' : Tid} {o : Obj} (l : List (Tid × Obj)) :
    (l.map (·.2)).Nodup → (t, o) ∈ l → (t', o) ∈ l → t = t' := by
  induction l with
  | nil => intro _ h; cases h
  | cons a l ih =>
    intro hn h1 h2
    simp only [List.map_cons, List.nodup_cons, List.mem_map, not_exists, not_and] at hn
    simp only [List.mem_cons] at h1 h2
    rcases h1 with h1 | h1 <;> rcases h2 with h2 | h2
    · rw [← h2] at h1; exact (Prod.mk.inj h1).1
    · subst h1; exact absurd rfl (hn.1 (t', o) h2)
    · subst h2; exact absurd rfl (hn.1 (t, o) h1)
    · exact ih hn.2 h1 h2

/-- an object is never in use by two entries at once: in particular never by two threads -/
theorem held_unique {σ : St} (h : Inv σ) {t t' : Tid} {o : Obj}
    (h1 : (t, o) ∈ σ.held) (h2 : (t', o) ∈ σ.held) : t = t' := by
  have hn : (σ.held.map (·.2)).Nodup := (List.nodup_append.mp h.2.1).2.1
  exact snd_unique _ hn h1 h2

/-- … and the list of objects in use has no duplicate at all (not even for one thread) -/
theorem held_nodup {σ : St} (h : Inv σ) : (σ.held.map (·.2)).Nodup :=
  (List.nodup_append.mp h.2.1).2.1

/-- an object in use is not simultaneously waiting in the channel -/
theorem held_not_cached {σ : St} (h : Inv σ) {t : Tid} {o : Obj} (h1 : (t, o) ∈ σ.held) :
    o ∉ σ.chan := by
  intro hc
  exact (List.nodup_append.mp h.2.1).2.2 o hc o (List.mem_map.mpr ⟨(t, o), h1, rfl⟩) rfl

/-- **C13, what `acquire` returns.**  The returned object is either the oldest cached one (it left
    the channel and does not occur in it any more) or a fresh one (no smaller than the old supply
    counter, hence different from everything ever handed out); it is never an object that is in use,
    and afterwards the acquiring thread – and only it – holds it. -/
theorem C13_acquire_fresh_or_cached {σ : St} (h : Inv σ) (t : Tid) :
    let σ' := (acquire σ t).1
    let o := (acquire σ t).2
    ((σ.chan = o :: σ'.chan ∧ o ∉ σ'.chan ∧ σ'.next = σ.next) ∨
      (σ.chan = [] ∧ σ'.chan = [] ∧ σ.next ≤ o ∧ σ'.next = o + 1)) ∧
    o ∉ σ.held.map (·.2) ∧
    σ'.held = (t, o) :: σ.held ∧
    (∀ t', (t', o) ∈ σ'.held → t' = t) := by
  have hi' := acquire_inv σ t h
  obtain ⟨_, hn, hl⟩ := h
  have hheld : (acquire σ t).1.held = (t, (acquire σ t).2) :: σ.held := by
    unfold acquire; split <;> rfl
  have hmain : ((σ.chan = (acquire σ t).2 :: (acquire σ t).1.chan ∧
        (acquire σ t).2 ∉ (acquire σ t).1.chan ∧ (acquire σ t).1.next = σ.next) ∨
      (σ.chan = [] ∧ (acquire σ t).1.chan = [] ∧ σ.next ≤ (acquire σ t).2 ∧
        (acquire σ t).1.next = (acquire σ t).2 + 1)) ∧
      (acquire σ t).2 ∉ σ.held.map (·.2) := by
    unfold acquire
    split
    · rename_i o rest heq
      rw [heq] at hn
      simp only [List.cons_append, List.nodup_cons, List.mem_append, not_or] at hn
      exact ⟨Or.inl ⟨heq, hn.1.1, rfl⟩, hn.1.2⟩
    · rename_i heq
      refine ⟨Or.inr ⟨heq, heq, Nat.le_refl _, rfl⟩, ?_⟩
      intro hm
      exact Nat.lt_irrefl _ (hl _ (List.mem_append_right _ hm))
  refine ⟨hmain.1, hmain.2, hheld, ?_⟩
  intro t' ht'
  exact held_unique hi' ht' (by rw [hheld]; exact List.mem_cons_self)

/-- **C13, nobody ever waits.**  In every reachable state every thread can acquire, and every
    thread holding an object can release it: each provider call is a single, always enabled step
    (`select` with a `default` branch), so no schedule can leave a thread blocked inside the
    provider.  (The statement holds in every state; reachability is kept for the record.) -/
theorem C13_nonblocking (cap : Nat) (σ : St) (_hreach : Reachable cap σ) :
    (∀ t, ∃ σ', step σ (.acquire t) = some σ') ∧
    (∀ t o, (t, o) ∈ σ.held → ∃ σ', step σ (.release t o) = some σ') := by
  refine ⟨fun t => ⟨_, rfl⟩, fun t o hm => ⟨release σ t o, ?_⟩⟩
  simp [step, hm]

/-- after a release the thread no longer holds the object, and nobody else does -/
theorem release_not_held {σ : St} (h : Inv σ) {t : Tid} {o : Obj} (hm : (t, o) ∈ σ.held) :
    ∀ t', (t', o) ∉ (release σ t o).held := by
  intro t' hm'
  have hheld : (release σ t o).held = σ.held.erase (t, o) := by
    unfold release; split <;> rfl
  rw [hheld] at hm'
  have hp : σ.held.Perm ((t, o) :: σ.held.erase (t, o)) := List.perm_cons_erase hm
  have hn : (((t, o) :: σ.held.erase (t, o)).map (·.2)).Nodup :=
    (hp.map (·.2)).nodup_iff.mp (held_nodup h)
  simp only [List.map_cons, List.nodup_cons, List.mem_map, not_exists, not_and] at hn
  exact hn.1 _ hm' rfl

/-! ### the provider contract (covers `sync.Pool` and custom providers)

Any provider – whatever its internal state `S` – whose `acquire` returns an object that is not in
use and whose `release` only takes objects out of use (caching or dropping them) keeps "no object
is in use twice".  `held` is the ghost list of objects in use. -/

inductive RTC {S : Type} (R : S → S → Prop) : S → S → Prop
  | refl (σ : S) : RTC R σ σ
  | tail {σ σ' σ'' : S} : RTC R σ σ' → R σ' σ'' → RTC R σ σ''

theorem sync_pool_contract {S : Type} (held : S → List (Tid × Obj)) (R : S → S → Prop)
    (hstep : ∀ σ σ', R σ σ' →
      (∃ t o, o ∉ (held σ).map (·.2) ∧ (held σ').Perm ((t, o) :: held σ)) ∨   -- acquire
      (held σ').Sublist (held σ))                                               -- release
    (σ σ' : S) (hreach : RTC R σ σ') (h : ((held σ).map (·.2)).Nodup) :
    ((held σ').map (·.2)).Nodup ∧
      ∀ t t' o, (t, o) ∈ held σ' → (t', o) ∈ held σ' → t = t' := by
  have hnd : ((held σ').map (·.2)).Nodup := by
    induction hreach with
    | refl => exact h
    | tail _ hR ih =>
      rcases hstep _ _ hR with ⟨t, o, hfresh, hp⟩ | hsub
      · have := (hp.map (·.2)).nodup_iff.mpr
        apply this
        simp only [List.map_cons, List.nodup_cons]
        exact ⟨hfresh, ih⟩
      · exact ih.sublist (hsub.map _)
  refine ⟨hnd, ?_⟩
  intro t t' o h1 h2
  exact snd_unique _ hnd h1 h2

/-- the bounded cache itself satisfies the contract -/
theorem bounded_cache_meets_contract (σ σ' : St) (hi : Inv σ) (hs : ∃ s, step σ s = some σ') :
    (∃ t o, o ∉ σ.held.map (·.2) ∧ σ'.held.Perm ((t, o) :: σ.held)) ∨ σ'.held.Sublist σ.held := by
  obtain ⟨s, hs⟩ := hs
  cases s with
  | acquire t =>
    simp only [step, Option.some.injEq] at hs
    subst hs
    have := C13_acquire_fresh_or_cached hi t
    exact Or.inl ⟨t, (acquire σ t).2, this.2.1, by rw [this.2.2.1]⟩
  | release t o =>
    simp only [step] at hs
    split at hs
    · simp only [Option.some.injEq] at hs
      subst hs
      have hheld : (release σ t o).held = σ.held.erase (t, o) := by
        unfold release; split <;> rfl
      exact Or.inr (by rw [hheld]; exact List.erase_sublist)
    · cases hs

/-! ### payloads: every response is written through its own object only

The objects are buffers now.  A request (thread) `t` has a payload `pay t`; after acquiring an
object it `Reset`s it (compress.go:125/130, request.go:82: the buffer starts empty) and writes its
payload through it byte by byte — any number of other threads doing the same in between, in any
order —; at `Close` the content of the buffer is what `t`'s client receives (`out`), and the object
goes back to the provider.  `sent t o` is the thread's own view: the bytes it has handed to `o`
since it acquired it.  `buf o` is what is really in the object.  That the two agree — no byte of
another request ever shows up in `t`'s object, none of `t`'s bytes is lost — is not a property of
the buffers: it holds because no object is ever held twice (`C13_exclusive`); `own_payload_needs_exclusive`
below shows what happens otherwise. -/

abbrev Byte := Nat

structure BSt where
  core : St
  /-- content of each object since its last `Reset` -/
  buf  : Obj → List Byte
  /-- ghost: what thread `t` has written through `o` since it acquired it -/
  sent : Tid → Obj → List Byte
  /-- responses delivered, newest first: at `Close` the buffer is what `t`'s client gets -/
  out  : List (Tid × List Byte)

inductive BStep where
  | acquire (t : Tid)               -- provider call + `Reset`
  | write (t : Tid) (o : Obj)       -- `t` writes the next byte of its payload through `o`
  | release (t : Tid) (o : Obj)     -- `Close`: deliver, then the provider call
  deriving Repr, DecidableEq

def upd {β : Type} (f : Obj → β) (o : Obj) (v : β) : Obj → β := fun x => if x = o then v else f x

def upd2 {β : Type} (f : Tid → Obj → β) (t : Tid) (o : Obj) (v : β) : Tid → Obj → β :=
  fun t' x => if t' = t ∧ x = o then v else f t' x

/-- one step; `none` = not enabled (a thread can write through and release only what it holds) -/
def bstep (pay : Tid → List Byte) (σ : BSt) : BStep → Option BSt
  | .acquire t =>
    let r := acquire σ.core t
    some { σ with core := r.1, buf := upd σ.buf r.2 [], sent := upd2 σ.sent t r.2 [] }
  | .write t o =>
    if (t, o) ∈ σ.core.held then
      match (pay t)[(σ.sent t o).length]? with
      | none => some σ                                   -- payload complete: nothing left to write
      | some b => some { σ with buf := upd σ.buf o (σ.buf o ++ [b]), sent := upd2 σ.sent t o (σ.sent t o ++ [b]) }
    else none
  | .release t o =>
    if (t, o) ∈ σ.core.held then
      some { σ with core := release σ.core t o, out := (t, σ.buf o) :: σ.out }
    else none

def brun (pay : Tid → List Byte) (σ : BSt) : List BStep → BSt
  | [] => σ
  | s :: rest => brun pay ((bstep pay σ s).getD σ) rest

def binit (cap : Nat) : BSt := { core := init cap, buf := fun _ => [], sent := fun _ _ => [], out := [] }

inductive BReachable (pay : Tid → List Byte) (cap : Nat) : BSt → Prop
  | init : BReachable pay cap (binit cap)
  | step {σ σ' : BSt} (s : BStep) : BReachable pay cap σ → bstep pay σ s = some σ' → BReachable pay cap σ'

/-- the provider's part of a step (a write is none) -/
def BStep.toStep : BStep → Option Step
  | .acquire t => some (.acquire t)
  | .write _ _ => none
  | .release t o => some (.release t o)

/-- the provider underneath does exactly what the protocol model says: writes do not touch it -/
theorem bstep_core {pay : Tid → List Byte} {σ σ' : BSt} (s : BStep) (h : bstep pay σ s = some σ') :
    (match s.toStep with
     | none => σ'.core = σ.core
     | some s' => step σ.core s' = some σ'.core) := by
  cases s with
  | acquire t =>
    simp only [bstep, Option.some.injEq] at h
    subst h; rfl
  | write t o =>
    simp only [bstep] at h
    split at h
    · split at h <;> (simp only [Option.some.injEq] at h; subst h; rfl)
    · cases h
  | release t o =>
    simp only [bstep] at h
    split at h
    · rename_i hm
      simp only [Option.some.injEq] at h
      subst h
      simp [BStep.toStep, step, hm]
    · cases h

theorem breachable_core {pay : Tid → List Byte} {cap : Nat} {σ : BSt} (h : BReachable pay cap σ) :
    Reachable cap σ.core := by
  induction h with
  | init => exact Reachable.init
  | @step σ₁ σ₂ s _ hs ih =>
    have := bstep_core s hs
    cases hts : s.toStep with
    | none => rw [hts] at this; rw [this]; exact ih
    | some s' => rw [hts] at this; exact Reachable.step s' ih this

/-- exclusivity in every reachable state of the buffer model: literally `C13_exclusive`, for the
    schedule of provider calls that led there -/
theorem breachable_exclusive {pay : Tid → List Byte} {cap : Nat} {σ : BSt} (h : BReachable pay cap σ) :
    Inv σ.core := by
  obtain ⟨sched, hs⟩ := (reachable_iff_run cap σ.core).mp (breachable_core h)
  rw [← hs]
  exact C13_exclusive cap sched

/-- what `C13_own_payload` claims of a state -/
def Own (pay : Tid → List Byte) (σ : BSt) : Prop :=
  (∀ p ∈ σ.core.held, σ.buf p.2 = σ.sent p.1 p.2 ∧ σ.buf p.2 <+: pay p.1) ∧
  (∀ d ∈ σ.out, d.2 <+: pay d.1)

theorem prefix_snoc_getElem? {l p : List Byte} {b : Byte} (h : l <+: p) (hb : p[l.length]? = some b) :
    l ++ [b] <+: p := by
  obtain ⟨r, rfl⟩ := h
  cases r with
  | nil => simp at hb
  | cons x r =>
    have : x = b := by simpa using hb
    subst this
    exact ⟨r, by simp⟩

/-- one step keeps `Own` — GIVEN that the state before it is exclusive (`hex`) -/
theorem bstep_own {pay : Tid → List Byte} {σ σ' : BSt} (s : BStep) (hex : Inv σ.core) (h : Own pay σ)
    (hs : bstep pay σ s = some σ') : Own pay σ' := by
  obtain ⟨hh, ho⟩ := h
  cases s with
  | acquire t =>
    simp only [bstep, Option.some.injEq] at hs
    subst hs
    have hacq := C13_acquire_fresh_or_cached hex t
    simp only at hacq
    obtain ⟨_, hfresh, hheld, _⟩ := hacq
    refine ⟨?_, ho⟩
    intro p hp
    simp only [hheld, List.mem_cons] at hp
    rcases hp with rfl | hp
    · simp [upd, upd2]
    · -- an object somebody else holds is not the one just handed out: its buffer is not reset
      have hne : p.2 ≠ (acquire σ.core t).2 := by
        intro he
        exact hfresh (List.mem_map.mpr ⟨p, hp, he⟩)
      have := hh p hp
      simp only [upd, upd2, hne, if_false, and_false]
      exact this
  | write t o =>
    simp only [bstep] at hs
    split at hs
    · rename_i hm
      split at hs
      · simp only [Option.some.injEq] at hs; subst hs; exact ⟨hh, ho⟩
      · rename_i b hb
        simp only [Option.some.injEq] at hs
        subst hs
        refine ⟨?_, ho⟩
        intro p hp
        have hp' : p ∈ σ.core.held := hp
        by_cases hpo : p.2 = o
        · -- the same object: then the same holder (exclusivity), and the byte is its own next byte
          have hpt : p.1 = t := held_unique hex (t := p.1) (t' := t) (o := o) (by rw [← hpo]; exact hp') hm
          obtain ⟨h1, h2⟩ := hh (t, o) hm
          simp only at h1 h2
          simp only [upd, upd2, hpo, hpt, if_true, and_self, h1, true_and]
          rw [h1] at h2
          exact prefix_snoc_getElem? h2 hb
        · have := hh p hp'
          simp only [upd, upd2, hpo, if_false, and_false]
          exact this
    · cases hs
  | release t o =>
    simp only [bstep] at hs
    split at hs
    · rename_i hm
      simp only [Option.some.injEq] at hs
      subst hs
      have hheld : (release σ.core t o).held = σ.core.held.erase (t, o) := by
        unfold release; split <;> rfl
      refine ⟨?_, ?_⟩
      · intro p hp
        simp only [hheld] at hp
        exact hh p (List.mem_of_mem_erase hp)
      · intro d hd
        simp only [List.mem_cons] at hd
        rcases hd with rfl | hd
        · exact (hh (t, o) hm).2
        · exact ho d hd
    · cases hs

/-- **C13, concurrent responses carry their own payload.**  In every reachable state — any capacity
    (0 and 1 included), any number of requests in flight, every interleaving of acquisitions,
    single-byte writes and releases —: the buffer of an object a request holds contains exactly the
    bytes that request has written through it, a prefix of its own payload (no foreign byte, none
    lost), and every response delivered so far is a prefix of the payload of the request it was
    delivered to (all of it, when the request had written all of it: `own_payload_complete`).
    A consequence of `C13_exclusive` (`breachable_exclusive`) and of the `Reset` at acquisition. -/
theorem C13_own_payload (pay : Tid → List Byte) (cap : Nat) (σ : BSt) (h : BReachable pay cap σ) :
    (∀ t o, (t, o) ∈ σ.core.held → σ.buf o = σ.sent t o ∧ σ.buf o <+: pay t) ∧
    (∀ t b, (t, b) ∈ σ.out → b <+: pay t) := by
  have hown : Own pay σ := by
    induction h with
    | init => exact ⟨fun p hp => (by cases hp), fun d hd => (by cases hd)⟩
    | step s hprev hs ih => exact bstep_own s (breachable_exclusive hprev) ih hs
  exact ⟨fun t o hm => hown.1 (t, o) hm, fun t b hm => hown.2 (t, b) hm⟩

theorem breachable_brun (pay : Tid → List Byte) (cap : Nat) (sched : List BStep) :
    BReachable pay cap (brun pay (binit cap) sched) := by
  have : ∀ (τ : BSt), BReachable pay cap τ → BReachable pay cap (brun pay τ sched) := by
    induction sched with
    | nil => intro τ h; exact h
    | cons s rest ih =>
      intro τ h
      apply ih
      cases hs : bstep pay τ s with
      | none => simpa using h
      | some τ' => simpa using BReachable.step s h hs
  exact this _ BReachable.init

/-- the same for schedules -/
theorem C13_own_payload_run (pay : Tid → List Byte) (cap : Nat) (sched : List BStep) :
    let σ := brun pay (binit cap) sched
    (∀ t o, (t, o) ∈ σ.core.held → σ.buf o = σ.sent t o ∧ σ.buf o <+: pay t) ∧
    (∀ t b, (t, b) ∈ σ.out → b <+: pay t) :=
  C13_own_payload pay cap _ (breachable_brun pay cap sched)

/-- a delivered response that is as long as the payload IS the payload -/
theorem own_payload_complete {pay : Tid → List Byte} {cap : Nat} {σ : BSt} (h : BReachable pay cap σ)
    {t : Tid} {b : List Byte} (hm : (t, b) ∈ σ.out) (hl : b.length = (pay t).length) : b = pay t := by
  obtain ⟨r, hr⟩ := (C13_own_payload pay cap σ h).2 t b hm
  have : r = [] := by
    have := congrArg List.length hr
    simp only [List.length_append] at this
    exact List.eq_nil_of_length_eq_zero (by omega)
  simpa [this] using hr

/-- why exclusivity is the hypothesis: from a state in which two requests hold the SAME object (what
    a provider handing out an object in use produces) one write of each leaves a foreign byte in
    front of request 1's bytes and the buffer is not what either of them sent -/
theorem own_payload_needs_exclusive :
    let pay : Tid → List Byte := fun t => if t = 0 then [10, 11] else [20, 21]
    let bad : BSt := { core := { cap := 1, chan := [], held := [(0, 0), (1, 0)], next := 1 },
                       buf := fun _ => [], sent := fun _ _ => [], out := [] }
    let σ := brun pay bad [.write 0 0, .write 1 0, .release 1 0]
    ¬ Inv bad.core ∧ σ.out = [(1, [10, 20])] ∧ ¬ ([10, 20] <+: pay 1) := by
  refine ⟨?_, by decide, by decide⟩
  unfold Inv
  decide

/-! ### F13: the OLD release protocol could block

**This is NOT the current code.**  Before the repair, `Release` was

    if len(chan) < cap { chan <- o }

i.e. two atomic steps: the capacity check (`relCheck`), then an unconditional – hence BLOCKING –
channel send (`relSend`, enabled only while the buffer has room).  Between the two steps another
thread can fill the last slot.  The model below is that old protocol; `F13_witness` exhibits, for
capacity 1 and two threads, a schedule after which one thread sits at `relSend` with the send
disabled: it waits until some later request happens to drain the channel (forever, if none comes).
`C13_nonblocking` above shows that the repaired, single-step `select/default` release cannot do
this. -/
namespace Old

inductive PC where
  | idle
  | relChecked (o : Obj)   -- passed `len(chan) < cap`, about to execute `chan <- o`
  deriving DecidableEq, Repr

structure OSt where
  cap  : Nat
  chan : List Obj
  held : List (Tid × Obj)
  pcs  : List (Tid × PC)      -- threads that are in the middle of `Release`
  next : Obj
  deriving Repr, DecidableEq

def acquire (σ : OSt) (t : Tid) : OSt :=
  match σ.chan with
  | o :: rest => { σ with chan := rest, held := (t, o) :: σ.held }
  | [] => { σ with held := (t, σ.next) :: σ.held, next := σ.next + 1 }

/-- first half of the old `Release`: `if len(chan) < cap` -/
def relCheck (σ : OSt) (t : Tid) (o : Obj) : OSt :=
  if σ.chan.length < σ.cap then
    { σ with pcs := (t, .relChecked o) :: σ.pcs, held := σ.held.erase (t, o) }
  else { σ with held := σ.held.erase (t, o) }

/-- `chan <- o` is enabled only when the buffer has room -/
def sendEnabled (σ : OSt) : Bool := σ.chan.length < σ.cap

/-- second half of the old `Release`: the blocking send -/
def relSend (σ : OSt) (t : Tid) (o : Obj) : Option OSt :=
  if sendEnabled σ ∧ (t, PC.relChecked o) ∈ σ.pcs then
    some { σ with chan := σ.chan ++ [o], pcs := σ.pcs.erase (t, .relChecked o) }
  else none

def init1 : OSt := { cap := 1, chan := [0], held := [], pcs := [], next := 1 }

/-- capacity 1, threads 1 and 2: thread 1 takes the cached object, thread 2 gets a fresh one, both
    pass the capacity check, thread 1's send fills the only slot -/
def blocked : Option OSt :=
  let σ1 := acquire init1 1
  let σ2 := acquire σ1 2
  let σ3 := relCheck σ2 1 0
  let σ4 := relCheck σ3 2 1
  relSend σ4 1 0

end Old

/-- **F13 (OLD protocol only – not the current code).**  The schedule is executable; afterwards
    thread 2 is at its `relSend`, the send is not enabled, and no step of thread 2 is possible. -/
theorem F13_witness :
    ∃ σ, Old.blocked = some σ ∧ σ.pcs = [(2, .relChecked 1)] ∧ Old.sendEnabled σ = false ∧
      Old.relSend σ 2 1 = none := by
  refine ⟨{ cap := 1, chan := [0], held := [], pcs := [(2, .relChecked 1)], next := 2 }, ?_⟩
  decide

end Restful.Pool
