/- `tokenizePath` ignores one trailing slash (C14's key lemma) -/
import Restful.Model.Path
namespace Restful
open Str

theorem Str.trimRight_snoc (sep : Char) (s : Str) : trimRight sep (s ++ [sep]) = trimRight sep s := by
  simp [trimRight]

theorem Str.trimLeft_append_of_exists (sep : Char) (s t : Str) (h : ∃ c ∈ s, c ≠ sep) :
    trimLeft sep (s ++ t) = trimLeft sep s ++ t := by
  induction s with
  | nil => simp at h
  | cons a s ih =>
    unfold trimLeft
    by_cases ha : a = sep
    · subst ha
      simp only [List.cons_append, List.dropWhile_cons, beq_self_eq_true, if_true]
      have : ∃ c ∈ s, c ≠ a := by
        obtain ⟨c, hc, hne⟩ := h
        simp only [List.mem_cons] at hc
        rcases hc with rfl | hc
        · exact absurd rfl hne
        · exact ⟨c, hc, hne⟩
      exact ih this
    · have : (a == sep) = false := by simpa using ha
      simp [List.dropWhile_cons, this]

/-- a path with at least one character other than `/` tokenises the same with an extra trailing slash -/
theorem tokenize_trailing_slash (p : Str) (h : ∃ c ∈ p, c ≠ '/') : tokenize (p ++ ['/']) = tokenize p := by
  have h1 : p ++ ['/'] ≠ ['/'] := by
    intro hp
    obtain ⟨c, hc, _⟩ := h
    have : p = [] := by
      cases p with
      | nil => rfl
      | cons a t => simp at hp
    subst this; simp at hc
  have h2 : p ≠ ['/'] := by
    intro hp; subst hp
    obtain ⟨c, hc, hne⟩ := h
    simp only [List.mem_singleton] at hc
    exact hne hc
  simp only [tokenize, h1, h2, if_false, trim]
  rw [Str.trimLeft_append_of_exists _ _ _ h, Str.trimRight_snoc]

end Restful
