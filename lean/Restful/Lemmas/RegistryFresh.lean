/-
What a NEW container holds after `Add`ing services in order and `Handle`ing plain handlers, in closed
form; and the bookkeeping fact that without a `Handle` before a `Remove` no plain handler is lost.
-/
import Restful.Lemmas.RegistryInv
namespace Restful
namespace Registry
open List Str

theorem runFrom_append (st : State) (a b : List Op) :
    runFrom st (a ++ b) = match runFrom st a with
      | .ok st' => runFrom st' b
      | .error e => .error e := by
  induction a generalizing st with
  | nil => rfl
  | cons op ops ih =>
    simp only [List.cons_append, runFrom]
    cases step st op with
    | ok s1 => exact ih s1
    | error e => rfl

/-- `Add` when nothing can clash -/
theorem step_add_of {st : State} {s : Svc} (hnew : s.root ∉ roots st.services)
    (hn : (keys st.mux ++ (if st.onRoot then [] else Spec.newPatterns (mapped st.services) s.root)).Nodup) :
    step st (.add s) = .ok { st with
      mux := st.mux ++ (if st.onRoot then [] else Spec.newPatterns (mapped st.services) s.root).map dispE,
      onRoot := if st.onRoot then true else Spec.isRootPattern s.root,
      services := st.services ++ [s] } := by
  have hd : (st.services.any fun each => each.root == s.root) = false := by
    cases hx : (st.services.any fun each => each.root == s.root) with
    | false => rfl
    | true =>
      simp only [List.any_eq_true, beq_iff_eq] at hx
      obtain ⟨each, he, hr⟩ := hx
      exact absurd (hr ▸ List.mem_map_of_mem (f := (·.root)) he) hnew
  simp only [step, hd, Bool.false_eq_true, if_false]
  cases ho : st.onRoot with
  | true => simp
  | false =>
    simp only [ho, Bool.false_eq_true, if_false] at hn ⊢
    rw [addHandler_eq st.services s st.mux, regList_of hn (newPatterns_ne_nil)]

theorem roots_append' (a b : List Svc) : roots (a ++ b) = roots a ++ roots b := by simp [roots]

/-- the services of a new container, one `Add` after the other: whatever their root paths are, as
    long as they are pairwise different -/
theorem runFrom_adds (svcs : List Svc) (s0 : State)
    (hmux : s0.mux = (Spec.regFrom (roots s0.services) [] false).map dispE)
    (hflag : s0.onRoot = Spec.flagFrom (roots s0.services) false)
    (hroots : (roots (s0.services ++ svcs)).Nodup) :
    runFrom s0 (svcs.map .add) = .ok { s0 with
      services := s0.services ++ svcs,
      mux := (Spec.regFrom (roots (s0.services ++ svcs)) [] false).map dispE,
      onRoot := Spec.flagFrom (roots (s0.services ++ svcs)) false } := by
  induction svcs generalizing s0 with
  | nil =>
    simp only [List.map_nil, runFrom, List.append_nil, ← hmux, ← hflag]
  | cons s rest ih =>
    have hassoc : s0.services ++ s :: rest = (s0.services ++ [s]) ++ rest := by simp
    rw [hassoc] at hroots
    have hroots1 : (roots (s0.services ++ [s])).Nodup := by
      rw [roots_append'] at hroots
      exact (List.nodup_append.mp hroots).1
    have hnew : s.root ∉ roots s0.services := by
      rw [roots_append] at hroots1
      intro hm
      exact (List.nodup_append.mp hroots1).2.2 _ hm _ (List.mem_singleton.mpr rfl) rfl
    have hpats1 : (Spec.regFrom (roots (s0.services ++ [s])) [] false).Nodup := regFrom_nodup' _
    have hstep := step_add_of (st := s0) (s := s) hnew (by
      rw [hmux, keys_dispE, hflag]
      rw [roots_append, regFrom_append, List.nil_append, ← mapped_eq] at hpats1
      cases hf : Spec.flagFrom (roots s0.services) false <;> simpa [hf] using hpats1)
    simp only [List.map_cons, runFrom, hstep]
    have := ih { s0 with
        mux := s0.mux ++ (if s0.onRoot then [] else Spec.newPatterns (mapped s0.services) s.root).map dispE,
        onRoot := if s0.onRoot then true else Spec.isRootPattern s.root,
        services := s0.services ++ [s] }
      (by
        simp only [roots_append, regFrom_append, hmux, hflag, List.map_append, List.nil_append, ← mapped_eq])
      (by
        simp only [roots_append, flagFrom_append, hflag])
      hroots
    rw [this, hassoc]

/-- the plain handlers of a new container, one `Handle` after the other -/
theorem runFrom_handles (hs : List (Str × Nat)) (s1 : State)
    (hn : (keys s1.mux ++ hs.map (·.1)).Nodup) (hne : ∀ h ∈ hs, h.1 ≠ []) :
    runFrom s1 (hs.map fun h => .handle h.1 h.2) = .ok { s1 with
      mux := s1.mux ++ hs.map plainE, live := s1.live ++ hs, handlers := s1.handlers ++ hs } := by
  induction hs generalizing s1 with
  | nil => simp [runFrom]
  | cons h rest ih =>
    have hp : h.1 ∉ keys s1.mux := by
      intro hm
      exact (List.nodup_append.mp hn).2.2 _ hm _ (by simp) rfl
    have hstep : step s1 (.handle h.1 h.2) = .ok { s1 with
        mux := s1.mux ++ [plainE h], live := s1.live ++ [h], handlers := s1.handlers ++ [h] } := by
      simp only [step, reg_of (.plain h.2) (hne h List.mem_cons_self) hp]
      rfl
    simp only [List.map_cons, runFrom, hstep]
    rw [ih _ (by
        show (keys (s1.mux ++ [plainE h]) ++ rest.map (·.1)).Nodup
        rw [keys_append]
        simpa [keys, plainE, List.append_assoc] using hn)
      (fun x hx => hne x (List.mem_cons_of_mem _ hx))]
    simp [List.append_assoc]

/-- the state of the fresh container, when every plain handler is still registered -/
def freshState (st : State) : State :=
  { router := st.router, services := st.services,
    mux := (Spec.regFrom (roots st.services) [] false).map dispE ++ st.handlers.map plainE,
    onRoot := Spec.flagFrom (roots st.services) false,
    live := st.handlers, handlers := st.handlers }

theorem fresh_ok {st : State} (inv : Inv st) (hl : st.live = st.handlers) :
    fresh (content st) = .ok (freshState st) := by
  have hk : (keys ((Spec.regFrom (roots st.services) [] false).map dispE ++ st.live.map plainE)).Nodup :=
    (keys_nodup_iff _).mp (inv.keys.perm inv.perm)
  rw [keys_append, keys_dispE, keys_plainE, hl] at hk
  unfold fresh run Content.ops content
  simp only
  rw [runFrom_append]
  rw [runFrom_adds st.services (init st.router) (by simp [init, roots, Spec.regFrom]) (by simp [init, roots, Spec.flagFrom])
    (by simpa [init] using inv.rootsNodup)]
  simp only
  rw [runFrom_handles st.handlers _ (by simpa [init, keys_dispE] using hk) (by rw [← hl]; exact inv.liveNe)]
  simp [freshState, init]

/-- services only: the fresh container always builds and has the same services -/
theorem fresh_services_ok {st : State} (inv : Inv st) :
    fresh ⟨st.router, st.services, []⟩ = .ok { freshState st with
      mux := (Spec.regFrom (roots st.services) [] false).map dispE, live := [], handlers := [] } := by
  unfold fresh run Content.ops
  simp only [List.map_nil, List.append_nil]
  rw [runFrom_adds st.services (init st.router) (by simp [init, roots, Spec.regFrom]) (by simp [init, roots, Spec.flagFrom])
    (by simpa [init] using inv.rootsNodup)]
  simp [freshState, init]

/-! ### nothing is lost without a `Handle` before a `Remove` -/

theorem live_eq_handlers {ops : List Op} {st0 st : State} {seen : Bool} (h : runFrom st0 ops = .ok st)
    (h0 : st0.live = st0.handlers) (hs : seen = false → st0.handlers = [])
    (hno : Spec.noHandleBeforeRemove ops seen = true) : st.live = st.handlers := by
  induction ops generalizing st0 seen with
  | nil => simp only [runFrom, Except.ok.injEq] at h; subst h; exact h0
  | cons op ops ih =>
    simp only [runFrom] at h
    cases hstep : step st0 op with
    | error e => rw [hstep] at h; cases h
    | ok s1 =>
      rw [hstep] at h
      cases op with
      | add s =>
        simp only [Spec.noHandleBeforeRemove] at hno
        obtain ⟨_, hc⟩ := step_add_cases hstep
        rcases hc with ⟨_, rfl⟩ | ⟨_, t, _, rfl⟩
        · exact ih h h0 hs hno
        · exact ih h h0 hs hno
      | remove root =>
        simp only [Spec.noHandleBeforeRemove, Bool.and_eq_true, Bool.not_eq_true'] at hno
        have he := hs hno.1
        simp only [step] at hstep
        split at hstep
        · simp only [Except.ok.injEq] at hstep
          subst hstep
          exact ih h (by simp [he]) (fun _ => he) hno.2
        · cases hstep
      | route root r =>
        simp only [Spec.noHandleBeforeRemove] at hno
        simp only [step, Except.ok.injEq] at hstep
        subst hstep
        exact ih h h0 hs hno
      | removeRoute root p m =>
        simp only [Spec.noHandleBeforeRemove] at hno
        simp only [step, Except.ok.injEq] at hstep
        subst hstep
        exact ih h h0 hs hno
      | handle p id =>
        simp only [Spec.noHandleBeforeRemove] at hno
        obtain ⟨_, _, rfl⟩ := step_handle_cases hstep
        exact ih h (by simp [h0]) (fun hf => by cases hf) hno

/-! ### the services of a container built by `Add`s then `Handle`s -/

theorem services_of_adds {svcs : List Svc} {s0 s1 : State} (h : runFrom s0 (svcs.map .add) = .ok s1) :
    s1.services = s0.services ++ svcs := by
  induction svcs generalizing s0 with
  | nil => simp only [List.map_nil, runFrom, Except.ok.injEq] at h; subst h; simp
  | cons s rest ih =>
    simp only [List.map_cons, runFrom] at h
    cases hs : step s0 (.add s) with
    | error e => rw [hs] at h; cases h
    | ok s' =>
      rw [hs] at h
      obtain ⟨_, hc⟩ := step_add_cases hs
      have : s'.services = s0.services ++ [s] := by
        rcases hc with ⟨_, rfl⟩ | ⟨_, t, _, rfl⟩ <;> rfl
      rw [ih h, this]; simp

theorem services_of_handles {hs : List (Str × Nat)} {s1 s2 : State}
    (h : runFrom s1 (hs.map fun x => .handle x.1 x.2) = .ok s2) : s2.services = s1.services := by
  induction hs generalizing s1 with
  | nil => simp only [List.map_nil, runFrom, Except.ok.injEq] at h; subst h; rfl
  | cons x rest ih =>
    simp only [List.map_cons, runFrom] at h
    cases hs' : step s1 (.handle x.1 x.2) with
    | error e => rw [hs'] at h; cases h
    | ok s' =>
      rw [hs'] at h
      obtain ⟨_, _, hs2⟩ := step_handle_cases hs'
      rw [ih h, hs2]

theorem distinctB_iff (l : List Str) : Spec.distinctB l = true ↔ l.Nodup := by
  induction l with
  | nil => simp [Spec.distinctB]
  | cons x xs ih => simp [Spec.distinctB, ih]

end Registry
end Restful
