import Restful.Lemmas.TieImpVocab
import Restful.Lemmas.TieImpPrefix
import Restful.Model.Registry
namespace Restful
namespace TieImp
open Imp
set_option linter.unusedSimpArgs false

namespace T14

theorem filter_loop {α β : Type} (g : α → β) (p : α → Bool)
    (f : β → List β → Option (ForInStep (List β))) (rs : List α) (acc : List β)
    (hf : ∀ r acc, f (g r) acc = some (.yield (if p r then acc ++ [g r] else acc))) :
    forIn (rs.map g) acc f = some (acc ++ (rs.filter p).map g) := by
  induction rs generalizing acc with
  | nil => simp
  | cons r rs ih =>
    simp only [List.map_cons, List.forIn_cons, hf, Option.bind_eq_bind, Option.bind_some, ih, List.filter_cons]
    cases p r <;> simp


theorem hadd_eq (a b : Str) : a + b = a ++ b := rfl

theorem slash_lit : ("/".toList : Str) = ['/'] := by decide
theorem empty_lit : ("".toList : Str) = [] := by decide

theorem mem_setAdd (s : List Str) (a k : Str) : k ∈ setAdd s a ↔ k ∈ s ∨ k = a := by
  unfold setAdd
  split
  · rename_i h
    have : a ∈ s := by simpa using h
    constructor
    · exact Or.inl
    · rintro (h | rfl) <;> assumption
  · simp

/-- one iteration of the loop building `mapped` (container.go:126-132) -/
def mappedStep (acc : List Str) (root : Str) : List Str :=
  if Str.hasSuffix ['/'] (Registry.fixedPrefixPath root) then setAdd acc (Registry.fixedPrefixPath root)
  else setAdd (setAdd acc (Registry.fixedPrefixPath root)) (Registry.fixedPrefixPath root ++ ['/'])

/-- the Go set `mapped` after the loop -/
def mappedSet (registered : List Registry.Svc) (acc : List Str) : List Str :=
  registered.foldl (fun acc r => mappedStep acc r.root) acc

/-- the loop building the set `mapped` never panics -/
theorem mapped_loop (g : Registry.Svc → ImpGen.GoWebService)
    (f : Option ImpGen.GoWebService → List Str → Option (ForInStep (List Str)))
    (registered : List Registry.Svc) (acc : List Str)
    (hf : ∀ r acc, f (some (g r)) acc = some (.yield (mappedStep acc r.root))) :
    forIn (registered.map fun r => some (g r)) acc f = some (mappedSet registered acc) := by
  induction registered generalizing acc with
  | nil => simp [mappedSet]
  | cons r rs ih =>
    simp only [List.map_cons, List.forIn_cons, hf, Option.bind_eq_bind, Option.bind_some, ih]
    rfl

/-- the set has the members of the model's list (which may hold duplicates) -/
theorem mem_mappedSet (registered : List Registry.Svc) (acc : List Str) (k : Str) :
    k ∈ mappedSet registered acc ↔ k ∈ acc ∨ k ∈ Registry.mapped registered := by
  induction registered generalizing acc with
  | nil => simp [mappedSet, Registry.mapped]
  | cons r rs ih =>
    show k ∈ mappedSet rs (mappedStep acc r.root) ↔ _
    rw [ih]
    simp only [Registry.mapped, List.flatMap_cons, List.mem_append, Registry.mappedOf, mappedStep]
    split <;> simp [mem_setAdd, or_assoc]

theorem contains_mappedSet (registered : List Registry.Svc) (k : Str) :
    (mappedSet registered []).contains k = (Registry.mapped registered).contains k := by
  rw [Bool.eq_iff_iff]
  simpa using mem_mappedSet registered [] k

end T14

/-- a ServeMux table of the model as the log of registered patterns -/
def muxRepr (t : Mux.Table) : MuxLog := t.map (·.1)

/-- container.go `Container.addHandler` (the pattern bookkeeping repaired by 093fa53): which of the two
    ServeMux patterns of a WebService are registered, given the services registered on this ServeMux
    before — as translated on this run IS the model's `Registry.addHandler`.  `ServeMux.HandleFunc` is
    uninterpreted in the translation; the hypothesis says it behaves like the model's `Mux.register`
    (net/http panics on an empty or already registered pattern) -/
theorem add_handler (X : ImpGen.Ext)
    (hmux : ∀ (t : Mux.Table) (p : Str), X.mux_HandleFunc (muxRepr t) p =
      (match Mux.register t p .dispatch with
       | .ok t' => some (muxRepr t')
       | .error _ => none))
    (g : Registry.Svc → ImpGen.GoWebService) (hg : ∀ s, (g s).rootPath = s.root)
    (c : Option ImpGen.GoContainer) (registered : List Registry.Svc) (s : Registry.Svc) (t : Mux.Table) :
    ImpGen.Container_addHandler X c (some (g s)) (muxRepr t) (registered.map (fun r => some (g r)))
      = (match Registry.addHandler registered s t with
         | .ok (t', b) => some (b, muxRepr t')
         | .error _ => none) := by
  unfold ImpGen.Container_addHandler Registry.addHandler
  dsimp only
  simp only [deref, Option.bind_eq_bind, Option.bind_some, T2.fixed_prefix_path, hg, T14.slash_lit, T14.empty_lit, T14.hadd_eq]
  generalize Registry.fixedPrefixPath s.root = pattern
  -- the test "is this the root pattern" in whatever form the code writes it (`"/" == pattern || "" == pattern`,
  -- a `switch pattern { case "/", "": … }`, the operands swapped) is normalised to the model's proposition
  have e1 : (['/'] = pattern) = (pattern = ['/']) := propext eq_comm
  have e2 : ([] = pattern) = (pattern = []) := propext eq_comm
  simp only [beq_iff_eq, Bool.or_eq_true, e1, e2]
  by_cases hroot : pattern = ['/'] ∨ pattern = []
  · simp only [if_pos hroot, hmux]
    unfold Registry.reg
    cases Mux.register t ['/'] .dispatch <;> rfl
  · simp only [if_neg hroot]
    rw [T14.mapped_loop g]
    case hf =>
      intro r acc
      simp only [Option.bind_some, hg, T14.mappedStep]
      cases Str.hasSuffix ['/'] (Registry.fixedPrefixPath r.root) <;> rfl
    simp only [Option.bind_some, T14.contains_mappedSet, hmux]
    unfold Registry.reg
    generalize (Registry.mapped registered).contains pattern = b1
    generalize (!Str.hasSuffix ['/'] pattern && !(Registry.mapped registered).contains (pattern ++ ['/'])) = b2
    cases b1 <;> cases b2 <;> simp only [Bool.not_true, Bool.not_false, if_true, if_false, Bool.false_eq_true]
    · cases Mux.register t pattern .dispatch <;> rfl
    · cases Mux.register t pattern .dispatch with
      | error e => rfl
      | ok t' =>
        simp only [Option.bind_some, hmux]
        cases Mux.register t' (pattern ++ ['/']) .dispatch <;> rfl
    · rfl
    · cases Mux.register t (pattern ++ ['/']) .dispatch <;> rfl

/-- web_service.go `WebService.RemoveRoute`: refused (an error, nothing changed) unless dynamic routes are
    enabled; otherwise exactly the routes with that method AND that full path are dropped, the others keep
    their order — as translated on this run IS the model's `Svc.dropRoute` -/
theorem remove_route (X : ImpGen.Ext) (s : Registry.Svc) (gr : RouteDecl → ImpGen.GoRoute)
    (hgr : ∀ r, (gr r).Method = r.method ∧ (gr r).Path = concatPath s.svc.rootPath r.relPath)
    (w0 : ImpGen.GoWebService) (path method : Str) :
    (ImpGen.WebService_RemoveRoute X (some { w0 with routes := s.svc.routes.map gr, dynamicRoutes := s.dynamic }) path method).map
        (fun p => (p.1.isSome, p.2.map (·.routes)))
      = some (!s.dynamic, some ((s.dropRoute path method).svc.routes.map gr)) := by
  unfold ImpGen.WebService_RemoveRoute Registry.Svc.dropRoute
  dsimp only
  cases hd : s.dynamic
  · simp only [deref, Option.bind_eq_bind, Option.bind_some, Bool.not_false, if_true, Option.pure_def,
      Option.map_some, Option.isSome_some]
  · simp only [deref, Option.bind_eq_bind, Option.bind_some, Bool.not_true, Bool.false_eq_true, if_false]
    rw [T14.filter_loop gr (fun r => !(r.method == method && concatPath s.svc.rootPath r.relPath == path))]
    · simp
    · intro r acc
      simp only [(hgr r).1, (hgr r).2, bne]
      cases (r.method == method) <;> cases (concatPath s.svc.rootPath r.relPath == path) <;> rfl

end TieImp
end Restful
