/-
"The route with these ids" is "the route that ran".

`Spec.c01Holds`, `Spec.c03Holds`, `Spec.c04Holds` name the route of a `.selected s r ps` outcome by
the pair (service id, route id) and are satisfied as soon as SOME declaration with that pair
satisfies their clauses.  Here:

  * under `Spec.idsDistinct cfg` exactly one declaration carries a pair of ids (`Spec.service_unique`,
    `Spec.route_unique`, `Spec.routeOfIds_of_mem`), so every predicate of that form is the clause
    evaluated at THAT declaration (`Spec.anyIds_eq`, `Spec.anyIds_of_mem`);
  * the ids in the model's outcome are the ids of the route OBJECT the router returned — the
    element of the sorted candidate list of the detected service that `detectRoute` picked
    (`RouteRan`, `route_selected_ran`, `route_of_ran`);
  * two outcomes the C03 order theorems call "the same" are, when the left one is not a panic, the
    same selected route with the same parameters or the same error status (`Spec.sameOutcome_cases`).
-/
import Restful.Lemmas.RouteSelected
import Restful.Spec.Common
import Restful.Spec.Params
namespace Restful
open Str

/-- a function that is injective on a list (its image has no duplicates) identifies the elements -/
theorem eq_of_nodup_map {α β : Type} (f : α → β) : ∀ {l : List α}, (l.map f).Nodup →
    ∀ {a b : α}, a ∈ l → b ∈ l → f a = f b → a = b
  | [], _, _, _, ha, _, _ => by cases ha
  | x :: xs, h, a, b, ha, hb, hab => by
    rw [List.map_cons, List.nodup_cons] at h
    rcases List.mem_cons.mp ha with rfl | ha'
    · rcases List.mem_cons.mp hb with rfl | hb'
      · rfl
      · exact absurd (hab ▸ List.mem_map_of_mem (f := f) hb') h.1
    · rcases List.mem_cons.mp hb with rfl | hb'
      · exact absurd (hab ▸ List.mem_map_of_mem (f := f) ha') h.1
      · exact eq_of_nodup_map f h.2 ha' hb' hab

theorem find?_of_unique {α : Type} (p : α → Bool) {l : List α} {a : α} (ha : a ∈ l) (hp : p a = true)
    (hu : ∀ b ∈ l, p b = true → b = a) : l.find? p = some a := by
  cases h : l.find? p with
  | none => exact absurd hp (by simpa using List.find?_eq_none.mp h a ha)
  | some b => rw [hu b (List.mem_of_find?_eq_some h) (List.find?_some h)]

theorem Service.built_id_mem (svc : Service) {rt : Route} (h : rt ∈ svc.built) :
    ∃ rd ∈ svc.routes, rt = svc.build rd ∧ rt.id = rd.id := by
  unfold Service.built at h
  simp only [List.mem_map] at h
  obtain ⟨rd, hrd, rfl⟩ := h
  exact ⟨rd, hrd, rfl, rfl⟩

namespace Spec

theorem idsDistinct_iff (cfg : Config) :
    idsDistinct cfg = true ↔
      (cfg.services.map (·.id)).Nodup ∧ ∀ s ∈ cfg.services, (s.routes.map (·.id)).Nodup := by
  unfold idsDistinct
  simp only [Bool.and_eq_true, decide_eq_true_eq, List.all_eq_true]

/-- under `idsDistinct` a service id names one WebService -/
theorem service_unique {cfg : Config} (h : idsDistinct cfg = true) {a b : Service}
    (ha : a ∈ cfg.services) (hb : b ∈ cfg.services) (hab : a.id = b.id) : a = b :=
  eq_of_nodup_map (·.id) ((idsDistinct_iff cfg).mp h).1 ha hb hab

/-- under `idsDistinct` a route id names one built route of its WebService -/
theorem route_unique {cfg : Config} (h : idsDistinct cfg = true) {svc : Service} (hsvc : svc ∈ cfg.services)
    {a b : Route} (ha : a ∈ svc.built) (hb : b ∈ svc.built) (hab : a.id = b.id) : a = b := by
  obtain ⟨ra, hra, rfl, ea⟩ := svc.built_id_mem ha
  obtain ⟨rb, hrb, rfl, eb⟩ := svc.built_id_mem hb
  rw [ea, eb] at hab
  rw [eq_of_nodup_map (·.id) (((idsDistinct_iff cfg).mp h).2 svc hsvc) hra hrb hab]

/-- what `routeOfIds` returns is a built route of a declared WebService, with these ids
    (no hypothesis on the table) -/
theorem routeOfIds_some {cfg : Config} {s r : Nat} {svc : Service} {rt : Route}
    (h : routeOfIds cfg s r = some (svc, rt)) :
    svc ∈ cfg.services ∧ rt ∈ svc.built ∧ svc.id = s ∧ rt.id = r := by
  unfold routeOfIds at h
  split at h
  · rename_i svc' hs
    cases hr : svc'.built.find? (fun rt => rt.id == r) with
    | none => rw [hr] at h; cases h
    | some rt' =>
      rw [hr] at h
      simp only [Option.map_some, Option.some.injEq, Prod.mk.injEq] at h
      obtain ⟨rfl, rfl⟩ := h
      exact ⟨List.mem_of_find?_eq_some hs, List.mem_of_find?_eq_some hr,
        by simpa using List.find?_some hs, by simpa using List.find?_some hr⟩
  · cases h

/-- under `idsDistinct`, the pair of ids of a built route of a declared WebService stands for that
    route and no other -/
theorem routeOfIds_of_mem {cfg : Config} (h : idsDistinct cfg = true) {svc : Service} (hsvc : svc ∈ cfg.services)
    {rt : Route} (hrt : rt ∈ svc.built) : routeOfIds cfg svc.id rt.id = some (svc, rt) := by
  unfold routeOfIds
  rw [find?_of_unique (fun s' => s'.id == svc.id) hsvc (by simp)
    (fun b hb hp => service_unique h hb hsvc (by simpa using hp))]
  simp only
  rw [find?_of_unique (fun r' => r'.id == rt.id) hrt (by simp)
    (fun b hb hp => route_unique h hsvc hb hrt (by simpa using hp))]
  rfl

/-- **the shape shared by `c01Holds`, `c03Holds`, `c04Holds`**: under `idsDistinct`, "some declaration
    with ids (s, r) satisfies `P`" is "THE declaration with ids (s, r) satisfies `P`" -/
theorem anyIds_eq {cfg : Config} (h : idsDistinct cfg = true) (P : Service → Route → Bool) (s r : Nat) :
    cfg.services.any (fun svc => svc.id == s && svc.built.any (fun rt => rt.id == r && P svc rt)) =
      (match routeOfIds cfg s r with
       | some (svc, rt) => P svc rt
       | none => false) := by
  rw [Bool.eq_iff_iff]
  simp only [List.any_eq_true, Bool.and_eq_true, beq_iff_eq]
  constructor
  · rintro ⟨svc, hsvc, rfl, rt, hrt, rfl, hP⟩
    rw [routeOfIds_of_mem h hsvc hrt]
    exact hP
  · intro hP
    cases hr : routeOfIds cfg s r with
    | none => rw [hr] at hP; cases hP
    | some p =>
      obtain ⟨svc, rt⟩ := p
      rw [hr] at hP
      obtain ⟨hsvc, hrt, hs, hr'⟩ := routeOfIds_some hr
      exact ⟨svc, hsvc, hs, rt, hrt, hr', hP⟩

/-- the same, for the ids of a given declaration: no OTHER declaration can satisfy the predicate
    in its place -/
theorem anyIds_of_mem {cfg : Config} (h : idsDistinct cfg = true) (P : Service → Route → Bool)
    {svc : Service} (hsvc : svc ∈ cfg.services) {rt : Route} (hrt : rt ∈ svc.built) :
    cfg.services.any (fun svc' => svc'.id == svc.id && svc'.built.any (fun rt' => rt'.id == rt.id && P svc' rt')) =
      P svc rt := by
  rw [anyIds_eq h, routeOfIds_of_mem h hsvc hrt]

/-! ### the three predicates, at the declaration their ids stand for -/

/-- what `c01Holds` says about one declaration -/
def c01At (E : ReEnv) (cfg : Config) (req : Req) (_svc : Service) (rt : Route) : Bool :=
  admitsRequest E cfg.router rt req

/-- what `c03Holds` says about one declaration -/
def c03At (E : ReEnv) (cfg : Config) (req : Req) (svc : Service) (rt : Route) : Bool :=
  match cfg.router with
  | .curly => curlyRouteOK E svc rt req && curlyRootOK E cfg svc req
  | .jsr => jsrRouteOK E svc rt req && jsrRootOK E cfg svc req

/-- what `c04Holds` says about one declaration and the parameters observed -/
def c04At (E : ReEnv) (cfg : Config) (req : Req) (ps : Params) (_svc : Service) (rt : Route) : Bool :=
  match templateOf cfg.router rt with
  | some ts =>
    (match admittedSegments E cfg.router ts req.path with
     | some segs =>
       (ps.map (·.1)).Perm (varNames ts) && (expectedParams ts segs).all (fun kv => lookup ps kv.1 == some kv.2) &&
         substitute ps ts == some segs
     | none => false)
  | none => false

theorem c01Holds_selected (E : ReEnv) (cfg : Config) (req : Req) (s r : Nat) (ps : Params) :
    c01Holds E cfg req (.selected s r ps) =
      cfg.services.any (fun svc => svc.id == s && svc.built.any (fun rt => rt.id == r && c01At E cfg req svc rt)) := rfl

theorem c03Holds_selected (E : ReEnv) (cfg : Config) (req : Req) (s r : Nat) (ps : Params) :
    c03Holds E cfg req (.selected s r ps) =
      cfg.services.any (fun svc => svc.id == s && svc.built.any (fun rt => rt.id == r && c03At E cfg req svc rt)) := rfl

theorem c04Holds_selected (E : ReEnv) (cfg : Config) (req : Req) (s r : Nat) (ps : Params) :
    c04Holds E cfg req (.selected s r ps) =
      cfg.services.any (fun svc => svc.id == s && svc.built.any (fun rt => rt.id == r && c04At E cfg req ps svc rt)) := rfl

/-! ### "the same outcome" without panics -/

/-- when the left outcome is not a panic, `sameOutcome` says: the same route with the same
    parameters, or the same error status (405: with the same Allow set); in particular the right
    outcome is not a panic either -/
theorem sameOutcome_cases {a b : Outcome} (h : sameOutcome a b) (ha : ∀ w, a ≠ .panic w) :
    (∃ s r ps, a = .selected s r ps ∧ b = .selected s r ps) ∨
    (∃ c, a = .error c none ∧ b = .error c none) ∨
    (∃ c al al', a = .error c (some al) ∧ b = .error c (some al') ∧ ∀ m, m ∈ al ↔ m ∈ al') := by
  cases a with
  | panic w => exact absurd rfl (ha w)
  | selected s r ps =>
    cases b with
    | selected s' r' ps' =>
      obtain ⟨rfl, rfl, rfl⟩ := h
      exact .inl ⟨s, r, ps, rfl, rfl⟩
    | error c al => exact absurd h (by simp [sameOutcome])
    | panic w => exact absurd h (by simp [sameOutcome])
  | error c al =>
    cases b with
    | selected s' r' ps' => exact absurd h (by simp [sameOutcome])
    | panic w => exact absurd h (by simp [sameOutcome])
    | error c' al' =>
      cases al with
      | none =>
        cases al' with
        | none => have : c = c' := h; subst this; exact .inr (.inl ⟨c, rfl, rfl⟩)
        | some x => exact absurd h (by simp [sameOutcome])
      | some x =>
        cases al' with
        | none => exact absurd h (by simp [sameOutcome])
        | some y =>
          obtain ⟨rfl, hal⟩ := (h : c = c' ∧ ∀ m, m ∈ x ↔ m ∈ y)
          exact .inr (.inr ⟨c, x, y, rfl, rfl, hal⟩)

theorem sameOutcome_not_panic_right {a b : Outcome} (h : sameOutcome a b) (ha : ∀ w, a ≠ .panic w) :
    ∀ w, b ≠ .panic w := by
  intro w hb
  rcases sameOutcome_cases h ha with ⟨_, _, _, _, h2⟩ | ⟨_, _, h2⟩ | ⟨_, _, _, _, h2, _⟩ <;>
    rw [hb] at h2 <;> cases h2

end Spec

/-! ### the route object the router returned -/

variable (E : ReEnv)

/-- `rt` is the route OBJECT the model's router hands over for the request: `svc` is the WebService
    the router detected, and `rt` the element of its sorted candidate list that `detectRoute`
    returned (curly.go:19 / jsr311.go:23 `SelectRoute`) -/
def RouteRan (cfg : Config) (req : Req) (svc : Service) (rt : Route) : Prop :=
  match cfg.router with
  | .curly => ∃ sc cands, Curly.detectWebService E (tokenize req.path) cfg.services none = some (some (svc, sc)) ∧
      Curly.selectRoutes E svc.built (tokenize req.path) = some cands ∧ detectRoute cands req = .ok rt
  | .jsr => ∃ final cands, Jsr.detectDispatcher E cfg.services req.path = some (some (svc, final)) ∧
      Jsr.selectRoutes E svc.built final = some cands ∧ detectRoute cands req = .ok rt

/-- the parameters the path processor of the router in use extracts for a route object -/
def paramsOf (cfg : Config) (req : Req) (svc : Service) (rt : Route) : Option Params :=
  match cfg.router with
  | .curly => Params.extract rt req.path
  | .jsr => Jsr.extract E svc rt req.path

/-- the router returns at most one object per request -/
theorem RouteRan_unique {cfg : Config} {req : Req} {svc svc' : Service} {rt rt' : Route}
    (h : RouteRan E cfg req svc rt) (h' : RouteRan E cfg req svc' rt') : svc = svc' ∧ rt = rt' := by
  unfold RouteRan at h h'
  cases hk : cfg.router with
  | curly =>
    rw [hk] at h h'
    obtain ⟨sc, cands, h1, h2, h3⟩ := h
    obtain ⟨sc', cands', h1', h2', h3'⟩ := h'
    rw [h1] at h1'
    simp only [Option.some.injEq, Prod.mk.injEq] at h1'
    obtain ⟨rfl, rfl⟩ := h1'
    rw [h2] at h2'
    cases h2'
    rw [h3] at h3'
    cases h3'
    exact ⟨rfl, rfl⟩
  | jsr =>
    rw [hk] at h h'
    obtain ⟨f, cands, h1, h2, h3⟩ := h
    obtain ⟨f', cands', h1', h2', h3'⟩ := h'
    rw [h1] at h1'
    simp only [Option.some.injEq, Prod.mk.injEq] at h1'
    obtain ⟨rfl, rfl⟩ := h1'
    rw [h2] at h2'
    cases h2'
    rw [h3] at h3'
    cases h3'
    exact ⟨rfl, rfl⟩

/-- the object the router returned is a built route of a declared WebService that passed every
    stage of `detectRoute` for the request -/
theorem RouteRan.stages {cfg : Config} {req : Req} {svc : Service} {rt : Route} (h : RouteRan E cfg req svc rt) :
    svc ∈ cfg.services ∧ rt ∈ svc.built ∧ passesConds rt req = true ∧ req.method = rt.method ∧
      matchesContentType rt req.contentType = true ∧
      matchesAccept rt (if req.accept.isEmpty then starStar else req.accept) = true := by
  unfold RouteRan at h
  cases hk : cfg.router with
  | curly =>
    rw [hk] at h
    obtain ⟨sc, cands, h1, h2, h3⟩ := h
    obtain ⟨hmem, hc, hm, hct, hacc⟩ := detectRoute_ok h3
    exact ⟨Curly.detectWebService_mem_none E h1, (Curly.selectRoutes_mem E h2 hmem).1, hc, hm, hct, hacc⟩
  | jsr =>
    rw [hk] at h
    obtain ⟨final, cands, h1, h2, h3⟩ := h
    obtain ⟨hmem, hc, hm, hct, hacc⟩ := detectRoute_ok h3
    exact ⟨(Jsr.detectDispatcher_mem E h1).1, (Jsr.selectRoutes_mem E h2 hmem).1, hc, hm, hct, hacc⟩

/-- route_builder.go:248 `Build`: the path of a built route is its service's root path joined with
    its own relative path -/
theorem Service.built_path (svc : Service) {rt : Route} (h : rt ∈ svc.built) :
    rt.path = concatPath svc.rootPath rt.relPath := by
  obtain ⟨rd, _, rfl, _⟩ := svc.built_id_mem h
  rfl

/-- **the ids in the outcome are those of the object that ran**: a `.selected s r ps` outcome of
    the model comes from a built route `rt` of a declared WebService `svc` which IS the object the
    router returned; `s`, `r` are read off that object, and `ps` is what the path processor extracts
    for that object -/
theorem route_selected_ran {cfg : Config} {req : Req} {s r : Nat} {ps : Params}
    (h : route E cfg req = .selected s r ps) :
    ∃ svc ∈ cfg.services, ∃ rt ∈ svc.built, RouteRan E cfg req svc rt ∧ svc.id = s ∧ rt.id = r ∧ rt.svc = s ∧
      paramsOf E cfg req svc rt = some ps := by
  unfold route routeTagged at h
  unfold RouteRan paramsOf
  cases hk : cfg.router with
  | curly =>
    rw [hk] at h
    simp only at h ⊢
    unfold routeCurly at h
    simp only at h
    split at h
    · simp at h
    · simp at h
    · rename_i svc sc hsvc
      split at h
      · simp at h
      · simp at h
      · rename_i cands _ hsel
        split at h
        · simp at h
        · rename_i rt hdet
          split at h
          · simp at h
          · rename_i ps' hext
            simp only [Outcome.selected.injEq] at h
            obtain ⟨h1, h2, h3⟩ := h
            subst h3
            have hsvcmem : svc ∈ cfg.services := Curly.detectWebService_mem_none E hsvc
            obtain ⟨hmem, _⟩ := detectRoute_ok hdet
            obtain ⟨hbuilt, _⟩ := Curly.selectRoutes_mem E hsel hmem
            refine ⟨svc, hsvcmem, rt, hbuilt, ⟨sc, cands, hsvc, hsel, hdet⟩, ?_, h2, h1, hext⟩
            rw [← Service.built_svc svc hbuilt]; exact h1
  | jsr =>
    rw [hk] at h
    simp only at h ⊢
    unfold routeJsr at h
    split at h
    · simp at h
    · simp at h
    · rename_i svc final hdisp
      split at h
      · simp at h
      · simp at h
      · rename_i cands _ hsel
        split at h
        · simp at h
        · rename_i rt hdet
          split at h
          · simp at h
          · rename_i ps' hext
            simp only [Outcome.selected.injEq] at h
            obtain ⟨h1, h2, h3⟩ := h
            subst h3
            obtain ⟨hsvcmem, _⟩ := Jsr.detectDispatcher_mem E hdisp
            obtain ⟨hmem, _⟩ := detectRoute_ok hdet
            obtain ⟨hbuilt, _⟩ := Jsr.selectRoutes_mem E hsel hmem
            refine ⟨svc, hsvcmem, rt, hbuilt, ⟨final, cands, hdisp, hsel, hdet⟩, ?_, h2, h1, hext⟩
            rw [← Service.built_svc svc hbuilt]; exact h1

/-- conversely, the object the router returned determines the outcome: its ids with the parameters
    extracted for it (or the parameter processor's panic) -/
theorem route_of_ran {cfg : Config} {req : Req} {svc : Service} {rt : Route}
    (h : RouteRan E cfg req svc rt) :
    route E cfg req =
      (match paramsOf E cfg req svc rt with
       | some ps => .selected rt.svc rt.id ps
       | none => .panic "params") := by
  unfold RouteRan at h
  unfold route routeTagged paramsOf
  cases hk : cfg.router with
  | curly =>
    rw [hk] at h
    obtain ⟨sc, cands, h1, h2, h3⟩ := h
    have hne : cands ≠ [] := by
      rintro rfl
      simp [detectRoute] at h3
    simp only
    unfold routeCurly
    simp only [h1, h2]
    cases cands with
    | nil => exact absurd rfl hne
    | cons c cs =>
      simp only [h3]
      cases Params.extract rt req.path <;> rfl
  | jsr =>
    rw [hk] at h
    obtain ⟨final, cands, h1, h2, h3⟩ := h
    have hne : cands ≠ [] := by
      rintro rfl
      simp [detectRoute] at h3
    simp only
    unfold routeJsr
    simp only [h1, h2]
    cases cands with
    | nil => exact absurd rfl hne
    | cons c cs =>
      simp only [h3]
      cases Jsr.extract E svc rt req.path <;> rfl

/-- **uniqueness of the witness**: when the model selects `(s, r)` on a table with distinct ids,
    the object that ran is the only declaration with these ids -/
theorem route_selected_unique {cfg : Config} (hids : Spec.idsDistinct cfg = true) {req : Req} {s r : Nat} {ps : Params}
    (h : route E cfg req = .selected s r ps) :
    ∃ svc ∈ cfg.services, ∃ rt ∈ svc.built, RouteRan E cfg req svc rt ∧ svc.id = s ∧ rt.id = r ∧
      paramsOf E cfg req svc rt = some ps ∧
      Spec.routeOfIds cfg s r = some (svc, rt) ∧
      (∀ svc' ∈ cfg.services, svc'.id = s → svc' = svc) ∧
      (∀ svc' ∈ cfg.services, ∀ rt' ∈ svc'.built, svc'.id = s → rt'.id = r → rt' = rt) := by
  obtain ⟨svc, hsvc, rt, hrt, hran, hs, hr, _, hps⟩ := route_selected_ran E h
  refine ⟨svc, hsvc, rt, hrt, hran, hs, hr, hps, ?_, ?_, ?_⟩
  · rw [← hs, ← hr]; exact Spec.routeOfIds_of_mem hids hsvc hrt
  · intro svc' hsvc' hs'
    exact Spec.service_unique hids hsvc' hsvc (hs'.trans hs.symm)
  · intro svc' hsvc' rt' hrt' hs' hr'
    have := Spec.service_unique hids hsvc' hsvc (hs'.trans hs.symm)
    subst this
    exact Spec.route_unique hids hsvc' hrt' hrt (hr'.trans hr.symm)

/-! ### the same route under another registration order -/

theorem Spec.Forall2.mem_right {α β : Type} {R : α → β → Prop} : ∀ {as : List α} {bs : List β},
    Spec.Forall2 R as bs → ∀ b ∈ bs, ∃ a ∈ as, R a b
  | _, _, .nil, _, hb => by cases hb
  | _, _, .cons hab hrest, b, hb => by
    rcases List.mem_cons.mp hb with rfl | hb'
    · exact ⟨_, List.mem_cons_self .., hab⟩
    · obtain ⟨a, ha, hr⟩ := Spec.Forall2.mem_right hrest b hb'
      exact ⟨a, List.mem_cons_of_mem _ ha, hr⟩

/-- a built route of the permuted table is a built route (the same object) of the WebService with
    the same id in the original table -/
theorem Spec.CfgPerm.built_mem {cfg cfg' : Config} (hperm : Spec.CfgPerm cfg cfg') {svc' : Service}
    (hsvc' : svc' ∈ cfg'.services) {rt : Route} (hrt : rt ∈ svc'.built) :
    ∃ svc ∈ cfg.services, svc.id = svc'.id ∧ rt ∈ svc.built := by
  obtain ⟨_, svcs, hp, hf⟩ := hperm
  obtain ⟨svc, hsvc, hid, hroot, hcons, hprod, hroutes⟩ := Spec.Forall2.mem_right hf svc' hsvc'
  refine ⟨svc, hp.mem_iff.mp hsvc, hid, ?_⟩
  unfold Service.built at hrt ⊢
  simp only [List.mem_map] at hrt ⊢
  obtain ⟨rd, hrd, rfl⟩ := hrt
  refine ⟨rd, hroutes.mem_iff.mpr hrd, ?_⟩
  unfold Service.build Service.rootPath Service.consumesOf Service.producesOf
  rw [hid, hroot, hcons, hprod]

/-- when two registrations of the same table (ids identify) select the same pair of ids, the same
    route OBJECT ran under both: "the same outcome" of the order theorems is "the same route" -/
theorem route_same_object_of_perm {cfg cfg' : Config} (hperm : Spec.CfgPerm cfg cfg')
    (hids : Spec.idsDistinct cfg = true) {req : Req} {s r : Nat} {ps ps' : Params}
    (h : route E cfg req = .selected s r ps) (h' : route E cfg' req = .selected s r ps') :
    ∃ svc ∈ cfg.services, ∃ svc' ∈ cfg'.services, ∃ rt, rt ∈ svc.built ∧ rt ∈ svc'.built ∧ svc.id = s ∧ svc'.id = s ∧
      rt.id = r ∧ RouteRan E cfg req svc rt ∧ RouteRan E cfg' req svc' rt := by
  obtain ⟨svc, hsvc, rt, hrt, hran, hs, hr, _, _, _, hu⟩ := route_selected_unique E hids h
  obtain ⟨svc', hsvc', rt', hrt', hran', hs', hr', _⟩ := route_selected_ran E h'
  obtain ⟨svc0, hsvc0, hid0, hrt0⟩ := hperm.built_mem hsvc' hrt'
  have : rt' = rt := hu svc0 hsvc0 rt' hrt0 (hid0.trans hs') hr'
  subst this
  exact ⟨svc, hsvc, svc', hsvc', rt', hrt, hrt', hs, hs', hr, hran, hran'⟩

end Restful
