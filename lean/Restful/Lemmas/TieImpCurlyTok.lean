/- curly.go `isTailWildcard`, `regularMatchesPathToken` as translated on this run ARE the model's -/
import Restful.Lemmas.TieImpBase
namespace Restful
namespace TieImp
namespace T2
open Imp

theorem is_tail_wildcard (X : ImpGen.Ext) (rt : Str) :
    ImpGen.isTailWildcard X rt = some (Curly.isTailWildcard rt) := by
  unfold ImpGen.isTailWildcard Curly.isTailWildcard
  simp only [String.reduceToList, index_single]
  cases hi : Str.index ':' rt with
  | none => simp
  | some k =>
    have := idxOf?_lt hi
    have h1 : 0 ≤ (k : Int) + 1 ∧ (k : Int) + 1 ≤ ((rt.length : Nat) : Int) := by omega
    have h2 : List.take (rt.length - (k + 1)) (List.drop (k + 1) rt) = List.drop (k + 1) rt :=
      List.take_of_length_le (by simp)
    cases hp : Str.hasPrefix ['{'] rt <;> simp [sliceFrom, slice, len, h1, h2]

theorem regular_matches (rx : Str → Str → Bool × GoErr) (full : Str → Str → Bool) (join : Str → Str → Str)
    (rt : Str) (colon : Nat) (q : Str) :
    ImpGen.CurlyRouter_regularMatchesPathToken (extOf rx join) rt ((colon : Nat) : Int) q
      = ofStep (Curly.regularMatches (envOf rx full) rt colon q) := by
  unfold ImpGen.CurlyRouter_regularMatchesPathToken Curly.regularMatches Curly.regPart
  simp only [String.reduceToList, slice_eq, len]
  have : (((colon + 1 : Nat)) : Int) = (colon : Int) + 1 := by omega
  rw [this]
  cases rt.slice? ((colon : Int) + 1) (((rt.length : Nat) : Int) - 1) with
  | none => simp [ofStep]
  | some rp =>
    by_cases h1 : rp = ['*']
    · simp [h1, ofStep]
    · simp only [bind, Option.bind, beq_iff_eq, h1, if_false, extOf, envOf]
      have key : ∀ b : Bool, (pure (b, false) : Option (Bool × Bool)) =
          ofStep (if b = true then Curly.Step.next else Curly.Step.fail) := by
        intro b; cases b <;> rfl
      exact key _

end T2
end TieImp
end Restful
