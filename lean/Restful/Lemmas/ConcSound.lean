/-
Soundness of the analysis of Model/Conc.lean w.r.t. the execution semantics of the facts
(Lemmas/ConcSem.lean), for ARBITRARY facts:

  `analysis_sound`        report.unguarded = [] ∧ report.reentrant = [] ∧ fixpoint ∧ bracketed
                          ⇒ every complete trace of every entry point is `Lockset.Disciplined guardOf`
  `analysis_sound_order`  … ∧ every reported acquired-while-holding edge goes up in `rank`
                          ⇒ … is `Lockset.Ordered rank`
  `analysis_no_unguarded_access`, `analysis_no_deadlock`
                          the compositions with `Lockset.lockset_sound` / `Lockset.no_deadlock` for
                          the derived system (any number of threads, each running any trace of any
                          entry point)
  `check_alone_not_sound` the hypothesis `bracketed` (Model/Conc.lean; `check` never looks at
                          releases) cannot be dropped
  `genTrace_traces`       the executable trace generator produces traces (non-vacuity)

The proof covers the whole analysis, not a lexical fragment:
* `check_items`: a report of `check` (a fold that only ever adds findings) without unguarded access
  and re-entrant acquisition says, item by item, what `check` tested (`itemOK`);
* `propagate_call` / `propagateMay_call` + the fixpoint flags: the must-context of a callee is
  weaker than (context of the caller ∪ locks held at the call site), the may-context contains it —
  for every call edge, so for call chains of every length (`rounds` plays no role);
* `exec_sound`: induction over an execution; the invariant is that the real held-set is exactly
  `pairs hs ++ H₀` — `hs` the lexical held-set `annotate` computes, `H₀` the held-set at function
  entry, which satisfies the function's must-context and is covered by its may-context.
  `bracketed` is what makes `annotate`'s bookkeeping (drop at the end of a func literal, erase on
  release) the truth about deferred and explicit releases.
-/
import Restful.Lemmas.ConcSem
namespace Restful.Conc
open Gen
open Lockset (Action okNow ordNow after Disciplined Ordered)

/-! ### running a trace against a held-set -/

/-- run `tr` from the held-set `H`, checking `okNow` and an order condition `ord` (`ordNow rank`, or
    nothing) at every event -/
def runOK (guard : Nat → Nat) (ord : Lockset.Held → Action → Bool) : Lockset.Held → List Action → Option Lockset.Held
  | H, [] => some H
  | H, a :: tr => if okNow guard H a && ord H a then runOK guard ord (after H a) tr else none

theorem runOK_append (guard : Nat → Nat) (ord : Lockset.Held → Action → Bool) (t₁ t₂ : List Action) (H : Lockset.Held) :
    runOK guard ord H (t₁ ++ t₂) = (runOK guard ord H t₁).bind (fun H' => runOK guard ord H' t₂) := by
  induction t₁ generalizing H with
  | nil => rfl
  | cons a t ih =>
    simp only [List.cons_append, runOK]
    split
    · exact ih _
    · rfl

theorem runOK_seq {guard : Nat → Nat} {ord : Lockset.Held → Action → Bool} {t₁ t₂ : List Action} {H H₁ H₂ : Lockset.Held}
    (h₁ : runOK guard ord H t₁ = some H₁) (h₂ : runOK guard ord H₁ t₂ = some H₂) :
    runOK guard ord H (t₁ ++ t₂) = some H₂ := by
  rw [runOK_append, h₁]; exact h₂

theorem runOK_disciplined {guard : Nat → Nat} {ord : Lockset.Held → Action → Bool} {tr : List Action} {H : Lockset.Held}
    (h : runOK guard ord H tr = some []) : Disciplined guard H tr = true := by
  induction tr generalizing H with
  | nil =>
    simp only [runOK, Option.some.injEq] at h
    subst h
    rfl
  | cons a t ih =>
    simp only [runOK] at h
    split at h
    · rename_i hc
      simp only [Bool.and_eq_true] at hc
      simp [Disciplined, hc.1, ih h]
    · cases h

theorem runOK_ordered {guard rank : Nat → Nat} {tr : List Action} {H H' : Lockset.Held}
    (h : runOK guard (ordNow rank) H tr = some H') : Ordered rank H tr = true := by
  induction tr generalizing H with
  | nil => rfl
  | cons a t ih =>
    simp only [runOK] at h
    split at h
    · rename_i hc
      simp only [Bool.and_eq_true] at hc
      simp [Ordered, hc.2, ih h]
    · cases h

/-- what the proof needs of the order condition: an acquisition of `l` is fine when every held lock
    has an edge to `l` in the acquired-while-holding relation `E`; nothing else is constrained -/
structure OrdSpec (E : List (Nat × Nat)) (ord : Lockset.Held → Action → Bool) : Prop where
  acq : ∀ (H : Lockset.Held) l m, (∀ q ∈ H, (q.1, l) ∈ E) → ord H (.acq l m) = true
  rel : ∀ H l m, ord H (.rel l m) = true
  read : ∀ H x, ord H (.read x) = true
  write : ∀ H x, ord H (.write x) = true
  other : ∀ H, ord H .other = true

theorem ordSpec_none (E : List (Nat × Nat)) : OrdSpec E (fun _ _ => true) :=
  ⟨fun _ _ _ _ => rfl, fun _ _ _ => rfl, fun _ _ => rfl, fun _ _ => rfl, fun _ => rfl⟩

theorem ordSpec_rank (E : List (Nat × Nat)) (rank : Nat → Nat) (hrank : ∀ e ∈ E, rank e.1 < rank e.2) :
    OrdSpec E (ordNow rank) :=
  ⟨fun H l m h => by
      simp only [ordNow, List.all_eq_true, decide_eq_true_eq]
      exact fun q hq => hrank _ (h q hq),
    fun _ _ _ => rfl, fun _ _ => rfl, fun _ _ => rfl, fun _ => rfl⟩

def pairs (hs : List Held) : Lockset.Held := hs.map (fun h => (h.lock, toL h.mode))

/-- the deferred releases of `L` give back exactly `L` -/
theorem runOK_rels (guard : Nat → Nat) {E : List (Nat × Nat)} {ord : Lockset.Held → Action → Bool}
    (hord : OrdSpec E ord) (L : List Held) (K : Lockset.Held) :
    runOK guard ord (pairs L ++ K) (relsOf L) = some K := by
  induction L with
  | nil => rfl
  | cons h L ih =>
    simp only [relsOf, List.map_cons, runOK, pairs, List.cons_append, okNow, hord.rel, after,
      List.mem_cons, true_or, decide_true, Bool.and_true, if_true, List.erase_cons_head]
    exact ih

/-! ### what a context guarantees -/

/-- the held-set `H` gives lock `p.1` in mode `p.2` at least (holding W gives R) -/
def covers (H : Lockset.Held) (p : Nat × Mode) : Prop :=
  (p.1, Lockset.Mode.W) ∈ H ∨ (p.2 = .R ∧ (p.1, Lockset.Mode.R) ∈ H)

def sat (H : Lockset.Held) (ls : List (Nat × Mode)) : Prop := ∀ p ∈ ls, covers H p

theorem covers_mono {H H' : Lockset.Held} (hsub : ∀ q ∈ H, q ∈ H') {p : Nat × Mode}
    (h : covers H p) : covers H' p := by
  rcases h with h | ⟨hm, h⟩
  · exact .inl (hsub _ h)
  · exact .inr ⟨hm, hsub _ h⟩

theorem sat_mono {H H' : Lockset.Held} (hsub : ∀ q ∈ H, q ∈ H') {ls : List (Nat × Mode)}
    (h : sat H ls) : sat H' ls := fun p hp => covers_mono hsub (h p hp)

theorem covers_meetMode_left {H : Lockset.Held} {l : Nat} {m m' : Mode} (h : covers H (l, m)) :
    covers H (l, meetMode m m') := by
  rcases h with h | ⟨hm, h⟩
  · exact .inl h
  · simp only at hm; subst hm; exact .inr ⟨by simp [meetMode], h⟩

theorem covers_meetMode_right {H : Lockset.Held} {l : Nat} {m m' : Mode} (h : covers H (l, m')) :
    covers H (l, meetMode m m') := by
  rcases h with h | ⟨hm, h⟩
  · exact .inl h
  · simp only at hm; subst hm; exact .inr ⟨by cases m <;> simp [meetMode], h⟩

theorem mem_meet {a b : List (Nat × Mode)} {p : Nat × Mode} (h : p ∈ meet a b) :
    ∃ l m m', (l, m) ∈ a ∧ (l, m') ∈ b ∧ p = (l, meetMode m m') := by
  simp only [meet, List.mem_filterMap, Option.map_eq_some_iff] at h
  obtain ⟨⟨l, m⟩, ha, ⟨l', m'⟩, hf, rfl⟩ := h
  have hl : l' = l := by simpa using List.find?_some hf
  subst hl
  exact ⟨l', m, m', ha, List.mem_of_find?_eq_some hf, rfl⟩

theorem sat_meet_left {H : Lockset.Held} {a b : List (Nat × Mode)} (h : sat H a) : sat H (meet a b) := by
  intro p hp
  obtain ⟨l, m, m', ha, _, rfl⟩ := mem_meet hp
  exact covers_meetMode_left (h _ ha)

theorem sat_meet_right {H : Lockset.Held} {a b : List (Nat × Mode)} (h : sat H b) : sat H (meet a b) := by
  intro p hp
  obtain ⟨l, m, m', _, hb, rfl⟩ := mem_meet hp
  exact covers_meetMode_right (h _ hb)

/-! ### the must-contexts only get weaker; at the fixpoint every call edge is accounted for -/

/-- `x` guarantees no more than `y` (`none` = unreachable = ⊤) -/
def optLe (x y : Option (List (Nat × Mode))) : Prop :=
  match x, y with
  | _, none => True
  | some a, some b => ∀ H, sat H b → sat H a
  | none, some _ => False

theorem optLe_refl (x : Option (List (Nat × Mode))) : optLe x x := by
  cases x with
  | none => trivial
  | some a => exact fun _ h => h

theorem optLe_trans {x y z : Option (List (Nat × Mode))} (h₁ : optLe x y) (h₂ : optLe y z) : optLe x z := by
  cases z with
  | none => cases x <;> trivial
  | some c =>
    cases y with
    | none => cases h₂
    | some b =>
      cases x with
      | none => cases h₁
      | some a => exact fun H h => h₁ H (h₂ H h)

def ctxLe (c₁ c₂ : Ctx) : Prop := ∀ f, optLe (ctxGet c₁ f) (ctxGet c₂ f)

theorem ctxLe_refl (c : Ctx) : ctxLe c c := fun _ => optLe_refl _
theorem ctxLe_trans {a b c : Ctx} (h₁ : ctxLe a b) (h₂ : ctxLe b c) : ctxLe a c :=
  fun f => optLe_trans (h₁ f) (h₂ f)

theorem ctxGet_nil (f : Nat) : ctxGet [] f = none := by simp [ctxGet]
theorem ctxGet_cons_zero (x : Option (List (Nat × Mode))) (xs : Ctx) : ctxGet (x :: xs) 0 = x := by
  simp [ctxGet]
theorem ctxGet_cons_succ (x : Option (List (Nat × Mode))) (xs : Ctx) (f : Nat) :
    ctxGet (x :: xs) (f + 1) = ctxGet xs f := by simp [ctxGet]

theorem ctxMeetAt_length (c : Ctx) (g : Nat) (ls : List (Nat × Mode)) :
    (ctxMeetAt c g ls).length = c.length := by
  induction c generalizing g with
  | nil => rfl
  | cons x xs ih => cases g <;> simp [ctxMeetAt, ih]

theorem ctxMeetAt_le (c : Ctx) (g : Nat) (ls : List (Nat × Mode)) : ctxLe (ctxMeetAt c g ls) c := by
  induction c generalizing g with
  | nil => exact fun _ => optLe_refl _
  | cons x xs ih =>
    cases g with
    | zero =>
      intro f
      cases f with
      | zero =>
        simp only [ctxMeetAt, ctxGet_cons_zero]
        cases x with
        | none => trivial
        | some old => exact fun H h => sat_meet_left h
      | succ f => simp only [ctxMeetAt, ctxGet_cons_succ]; exact optLe_refl _
    | succ g =>
      intro f
      cases f with
      | zero => simp only [ctxMeetAt, ctxGet_cons_zero]; exact optLe_refl _
      | succ f => simp only [ctxMeetAt, ctxGet_cons_succ]; exact ih g f

theorem ctxMeetAt_at (c : Ctx) (g : Nat) (ls : List (Nat × Mode)) (hg : g < c.length) :
    optLe (ctxGet (ctxMeetAt c g ls) g) (some ls) := by
  induction c generalizing g with
  | nil => cases hg
  | cons x xs ih =>
    cases g with
    | zero =>
      simp only [ctxMeetAt, ctxGet_cons_zero]
      cases x with
      | none => exact fun _ h => h
      | some old => exact fun H h => sat_meet_right h
    | succ g =>
      simp only [ctxMeetAt, ctxGet_cons_succ]
      exact ih g (by simpa using hg)

/-- a fold of weakening steps: the result is weaker than the start, and has every downward closed
    property that some step establishes -/
theorem foldl_ctxLe {α : Type} (step : Ctx → α → Ctx) (hdec : ∀ acc x, ctxLe (step acc x) acc)
    (xs : List α) (acc : Ctx) : ctxLe (xs.foldl step acc) acc := by
  induction xs generalizing acc with
  | nil => exact ctxLe_refl _
  | cons x xs ih => exact ctxLe_trans (ih _) (hdec acc x)

theorem foldl_length {α : Type} (step : Ctx → α → Ctx) (hlen : ∀ acc x, (step acc x).length = acc.length)
    (xs : List α) (acc : Ctx) : (xs.foldl step acc).length = acc.length := by
  induction xs generalizing acc with
  | nil => rfl
  | cons x xs ih => rw [List.foldl_cons, ih, hlen]

theorem foldl_ctxLe_at {α : Type} (step : Ctx → α → Ctx) (hdec : ∀ acc x, ctxLe (step acc x) acc)
    (hlen : ∀ acc x, (step acc x).length = acc.length) (n : Nat) (g : Nat) (y : Option (List (Nat × Mode)))
    (x : α) (hx : ∀ acc, acc.length = n → optLe (ctxGet (step acc x) g) y)
    (xs : List α) (hmem : x ∈ xs) (acc : Ctx) (hacc : acc.length = n) :
    optLe (ctxGet (xs.foldl step acc) g) y := by
  induction xs generalizing acc with
  | nil => cases hmem
  | cons x' xs ih =>
    rcases List.mem_cons.mp hmem with rfl | hmem
    · exact optLe_trans (foldl_ctxLe step hdec xs _ g) (hx acc hacc)
    · exact ih hmem _ (by rw [hlen, hacc])

/-- the step of `propagate` for one annotated item (`c` = the contexts of the previous round) -/
def propStep (c : Ctx) (acc : Ctx) (x : Item × List Held) : Ctx :=
  match x.1.op, ctxGet c x.1.fn with
  | .call fns, some ctx => fns.foldl (fun acc2 g => ctxMeetAt acc2 g (joinCtx ctx x.2)) acc
  | _, _ => acc

theorem propagate_eq (ann : List (Item × List Held)) (c : Ctx) :
    propagate ann c = ann.foldl (propStep c) c := rfl

theorem propStep_le (c acc : Ctx) (x : Item × List Held) : ctxLe (propStep c acc x) acc := by
  unfold propStep
  split
  · exact foldl_ctxLe _ (fun a g => ctxMeetAt_le a g _) _ _
  · exact ctxLe_refl _

theorem propStep_length (c acc : Ctx) (x : Item × List Held) : (propStep c acc x).length = acc.length := by
  unfold propStep
  split
  · exact foldl_length _ (fun a g => ctxMeetAt_length a g _) _ _
  · rfl

theorem propagate_le (ann : List (Item × List Held)) (c : Ctx) : ctxLe (propagate ann c) c :=
  foldl_ctxLe _ (propStep_le c) ann c

theorem propagate_length (ann : List (Item × List Held)) (c : Ctx) : (propagate ann c).length = c.length :=
  foldl_length _ (propStep_length c) ann c

/-- after one round, the context of a callee is weaker than (context of the caller ∪ locks held at
    the call site), for every call item of a reachable caller -/
theorem propagate_call (ann : List (Item × List Held)) (c : Ctx) (it : Item) (hs : List Held)
    (hmem : (it, hs) ∈ ann) (fns : List Nat) (hop : it.op = .call fns) (ctx : List (Nat × Mode))
    (hctx : ctxGet c it.fn = some ctx) (g : Nat) (hg : g ∈ fns) (hlt : g < c.length) :
    optLe (ctxGet (propagate ann c) g) (some (joinCtx ctx hs)) := by
  rw [propagate_eq]
  refine foldl_ctxLe_at (propStep c) (propStep_le c) (propStep_length c) c.length g _ (it, hs) ?_ ann hmem c rfl
  intro acc hacc
  simp only [propStep, hop, hctx]
  exact foldl_ctxLe_at (fun acc2 g => ctxMeetAt acc2 g (joinCtx ctx hs)) (fun a g => ctxMeetAt_le a g _)
    (fun a g => ctxMeetAt_length a g _) c.length g _ g
    (fun a ha => ctxMeetAt_at a g _ (by rw [ha]; exact hlt)) fns hg acc hacc

theorem iterate_le (ann : List (Item × List Held)) (n : Nat) (c : Ctx) : ctxLe (iterate ann n c) c := by
  induction n generalizing c with
  | zero => exact ctxLe_refl _
  | succ n ih => exact ctxLe_trans (ih _) (propagate_le ann c)

theorem iterate_length (ann : List (Item × List Held)) (n : Nat) (c : Ctx) : (iterate ann n c).length = c.length := by
  induction n generalizing c with
  | zero => rfl
  | succ n ih => simp only [iterate]; rw [ih, propagate_length]

/-! ### the may-contexts only grow; at the fixpoint every call edge is accounted for -/

/-- `x` contains at least the pairs of `y` (`none` = unreachable = ⊥ here) -/
def optGe (x y : Option (List (Nat × Mode))) : Prop :=
  match x, y with
  | _, none => True
  | some a, some b => ∀ p ∈ b, p ∈ a
  | none, some _ => False

theorem optGe_refl (x : Option (List (Nat × Mode))) : optGe x x := by
  cases x with
  | none => trivial
  | some a => exact fun _ h => h

theorem optGe_trans {x y z : Option (List (Nat × Mode))} (h₁ : optGe x y) (h₂ : optGe y z) : optGe x z := by
  cases z with
  | none => cases x <;> trivial
  | some c =>
    cases y with
    | none => cases h₂
    | some b =>
      cases x with
      | none => cases h₁
      | some a => exact fun p h => h₁ p (h₂ p h)

def ctxGe (c₁ c₂ : Ctx) : Prop := ∀ f, optGe (ctxGet c₁ f) (ctxGet c₂ f)

theorem ctxGe_refl (c : Ctx) : ctxGe c c := fun _ => optGe_refl _
theorem ctxGe_trans {a b c : Ctx} (h₁ : ctxGe a b) (h₂ : ctxGe b c) : ctxGe a c :=
  fun f => optGe_trans (h₁ f) (h₂ f)

theorem ctxJoinAt_length (c : Ctx) (g : Nat) (ls : List (Nat × Mode)) :
    (ctxJoinAt c g ls).length = c.length := by
  induction c generalizing g with
  | nil => rfl
  | cons x xs ih => cases g <;> simp [ctxJoinAt, ih]

theorem ctxJoinAt_ge (c : Ctx) (g : Nat) (ls : List (Nat × Mode)) : ctxGe (ctxJoinAt c g ls) c := by
  induction c generalizing g with
  | nil => exact fun _ => optGe_refl _
  | cons x xs ih =>
    cases g with
    | zero =>
      intro f
      cases f with
      | zero =>
        simp only [ctxJoinAt, ctxGet_cons_zero]
        cases x with
        | none => trivial
        | some old => exact fun p h => List.mem_eraseDups.mpr (List.mem_append_left _ h)
      | succ f => simp only [ctxJoinAt, ctxGet_cons_succ]; exact optGe_refl _
    | succ g =>
      intro f
      cases f with
      | zero => simp only [ctxJoinAt, ctxGet_cons_zero]; exact optGe_refl _
      | succ f => simp only [ctxJoinAt, ctxGet_cons_succ]; exact ih g f

theorem ctxJoinAt_at (c : Ctx) (g : Nat) (ls : List (Nat × Mode)) (hg : g < c.length) :
    optGe (ctxGet (ctxJoinAt c g ls) g) (some ls) := by
  induction c generalizing g with
  | nil => cases hg
  | cons x xs ih =>
    cases g with
    | zero =>
      simp only [ctxJoinAt, ctxGet_cons_zero]
      cases x with
      | none => exact fun p h => List.mem_eraseDups.mpr h
      | some old => exact fun p h => List.mem_eraseDups.mpr (List.mem_append_right _ h)
    | succ g =>
      simp only [ctxJoinAt, ctxGet_cons_succ]
      exact ih g (by simpa using hg)

theorem foldl_ctxGe {α : Type} (step : Ctx → α → Ctx) (hinc : ∀ acc x, ctxGe (step acc x) acc)
    (xs : List α) (acc : Ctx) : ctxGe (xs.foldl step acc) acc := by
  induction xs generalizing acc with
  | nil => exact ctxGe_refl _
  | cons x xs ih => exact ctxGe_trans (ih _) (hinc acc x)

theorem foldl_ctxGe_at {α : Type} (step : Ctx → α → Ctx) (hinc : ∀ acc x, ctxGe (step acc x) acc)
    (hlen : ∀ acc x, (step acc x).length = acc.length) (n : Nat) (g : Nat) (y : Option (List (Nat × Mode)))
    (x : α) (hx : ∀ acc, acc.length = n → optGe (ctxGet (step acc x) g) y)
    (xs : List α) (hmem : x ∈ xs) (acc : Ctx) (hacc : acc.length = n) :
    optGe (ctxGet (xs.foldl step acc) g) y := by
  induction xs generalizing acc with
  | nil => cases hmem
  | cons x' xs ih =>
    rcases List.mem_cons.mp hmem with rfl | hmem
    · exact optGe_trans (foldl_ctxGe step hinc xs _ g) (hx acc hacc)
    · exact ih hmem _ (by rw [hlen, hacc])

def propMayStep (c : Ctx) (acc : Ctx) (x : Item × List Held) : Ctx :=
  match x.1.op, ctxGet c x.1.fn with
  | .call fns, some ctx => fns.foldl (fun acc2 g => ctxJoinAt acc2 g (joinCtx ctx x.2)) acc
  | _, _ => acc

theorem propagateMay_eq (ann : List (Item × List Held)) (c : Ctx) :
    propagateMay ann c = ann.foldl (propMayStep c) c := rfl

theorem propMayStep_ge (c acc : Ctx) (x : Item × List Held) : ctxGe (propMayStep c acc x) acc := by
  unfold propMayStep
  split
  · exact foldl_ctxGe _ (fun a g => ctxJoinAt_ge a g _) _ _
  · exact ctxGe_refl _

theorem propMayStep_length (c acc : Ctx) (x : Item × List Held) : (propMayStep c acc x).length = acc.length := by
  unfold propMayStep
  split
  · exact foldl_length _ (fun a g => ctxJoinAt_length a g _) _ _
  · rfl

theorem propagateMay_ge (ann : List (Item × List Held)) (c : Ctx) : ctxGe (propagateMay ann c) c :=
  foldl_ctxGe _ (propMayStep_ge c) ann c

theorem propagateMay_length (ann : List (Item × List Held)) (c : Ctx) : (propagateMay ann c).length = c.length :=
  foldl_length _ (propMayStep_length c) ann c

theorem propagateMay_call (ann : List (Item × List Held)) (c : Ctx) (it : Item) (hs : List Held)
    (hmem : (it, hs) ∈ ann) (fns : List Nat) (hop : it.op = .call fns) (ctx : List (Nat × Mode))
    (hctx : ctxGet c it.fn = some ctx) (g : Nat) (hg : g ∈ fns) (hlt : g < c.length) :
    optGe (ctxGet (propagateMay ann c) g) (some (joinCtx ctx hs)) := by
  rw [propagateMay_eq]
  refine foldl_ctxGe_at (propMayStep c) (propMayStep_ge c) (propMayStep_length c) c.length g _ (it, hs) ?_ ann hmem c rfl
  intro acc hacc
  simp only [propMayStep, hop, hctx]
  exact foldl_ctxGe_at (fun acc2 g => ctxJoinAt acc2 g (joinCtx ctx hs)) (fun a g => ctxJoinAt_ge a g _)
    (fun a g => ctxJoinAt_length a g _) c.length g _ g
    (fun a ha => ctxJoinAt_at a g _ (by rw [ha]; exact hlt)) fns hg acc hacc

theorem iterateMay_ge (ann : List (Item × List Held)) (n : Nat) (c : Ctx) : ctxGe (iterateMay ann n c) c := by
  induction n generalizing c with
  | zero => exact ctxGe_refl _
  | succ n ih => exact ctxGe_trans (ih _) (propagateMay_ge ann c)

theorem iterateMay_length (ann : List (Item × List Held)) (n : Nat) (c : Ctx) : (iterateMay ann n c).length = c.length := by
  induction n generalizing c with
  | zero => rfl
  | succ n ih => simp only [iterateMay]; rw [ih, propagateMay_length]

/-! ### the initial contexts -/

theorem initCtx_length (n : Nat) (entries : List Nat) : (initCtx n entries).length = n := by
  simp [initCtx]

theorem initCtx_entry (n : Nat) (entries : List Nat) (e : Nat) (he : e ∈ entries) (hlt : e < n) :
    ctxGet (initCtx n entries) e = some [] := by
  simp [ctxGet, initCtx, List.getD, hlt, he]

/-! ### what a clean report says about every single item -/

def hasLock (all : List (Nat × Mode)) (l : Nat) (w : Bool) : Bool :=
  all.any (fun (l', m) => l' == l && (!w || m == .W))

/-- the step of `check` -/
def checkStep (c cMay : Ctx) (r : Report) : Item × List Held → Report
  | (it, hs) =>
    match ctxGet c it.fn with
    | none => r
    | some ctx =>
      let all := joinCtx ctx hs
      let may := joinCtx ((ctxGet cMay it.fn).getD []) hs
      let has (l : Nat) (w : Bool) : Bool := all.any (fun (l', m) => l' == l && (!w || m == .W))
      match it.op with
      | .unknown _ => { r with unknowns := it :: r.unknowns }
      | .goStmt _ => { r with unknowns := it :: r.unknowns }
      | .read f => if it.nonDynamic || has (guardOf f) false then r else { r with unguarded := it :: r.unguarded }
      | .write f => if has (guardOf f) true then r else { r with unguarded := it :: r.unguarded }
      | .acq l _ =>
        let r := if may.any (fun (l', _) => l' == l) then { r with reentrant := it :: r.reentrant } else r
        { r with orderEdges := ((may.map (fun (l', _) => (l', l))).eraseDups).filter (fun e => !r.orderEdges.contains e) ++ r.orderEdges }
      | _ => r

theorem check_eq (ann : List (Item × List Held)) (c cMay : Ctx) :
    check ann c cMay = ann.foldl (checkStep c cMay) {} := rfl

/-- the verdict of `check` on one item of a reachable function -/
def itemOK (E : List (Nat × Nat)) (ctx cm : List (Nat × Mode)) (it : Item) (hs : List Held) : Prop :=
  match it.op with
  | .read f => it.nonDynamic = true ∨ hasLock (joinCtx ctx hs) (guardOf f) false = true
  | .write f => hasLock (joinCtx ctx hs) (guardOf f) true = true
  | .acq l _ => (∀ p ∈ joinCtx cm hs, p.1 ≠ l) ∧ ∀ p ∈ joinCtx cm hs, (p.1, l) ∈ E
  | _ => True

theorem itemOK_mono {E E' : List (Nat × Nat)} (hsub : ∀ e ∈ E, e ∈ E') {ctx cm : List (Nat × Mode)}
    {it : Item} {hs : List Held} (h : itemOK E ctx cm it hs) : itemOK E' ctx cm it hs := by
  unfold itemOK at *
  split <;> try trivial
  · rename_i l m hop
    simp only [hop] at h
    exact h
  · rename_i l m hop
    simp only [hop] at h
    exact h
  · rename_i l m hop
    simp only [hop] at h
    exact ⟨h.1, fun p hp => hsub _ (h.2 p hp)⟩


theorem checkStep_unguarded (c cMay : Ctx) (r : Report) (x : Item × List Held)
    (h : (checkStep c cMay r x).unguarded = []) : r.unguarded = [] := by
  obtain ⟨it, hs⟩ := x
  simp only [checkStep] at h
  cases hc : ctxGet c it.fn with
  | none => simpa [hc] using h
  | some ctx =>
    simp only [hc] at h
    cases hop : it.op <;> simp only [hop] at h <;> try exact h
    all_goals (split at h <;> first | exact h | simp at h)

theorem checkStep_reentrant (c cMay : Ctx) (r : Report) (x : Item × List Held)
    (h : (checkStep c cMay r x).reentrant = []) : r.reentrant = [] := by
  obtain ⟨it, hs⟩ := x
  simp only [checkStep] at h
  cases hc : ctxGet c it.fn with
  | none => simpa [hc] using h
  | some ctx =>
    simp only [hc] at h
    cases hop : it.op <;> simp only [hop] at h <;> try exact h
    all_goals (split at h <;> first | exact h | simp at h)

theorem checkStep_edges (c cMay : Ctx) (r : Report) (x : Item × List Held) (e : Nat × Nat)
    (h : e ∈ r.orderEdges) : e ∈ (checkStep c cMay r x).orderEdges := by
  obtain ⟨it, hs⟩ := x
  simp only [checkStep]
  cases ctxGet c it.fn with
  | none => exact h
  | some ctx =>
    dsimp only
    cases it.op <;> dsimp only <;> try exact h
    all_goals (split <;> first | exact h | exact List.mem_append_right _ h)

theorem checkStep_item (c cMay : Ctx) (r : Report) (it : Item) (hs : List Held) (ctx : List (Nat × Mode))
    (hc : ctxGet c it.fn = some ctx)
    (hu : (checkStep c cMay r (it, hs)).unguarded = [])
    (hr : (checkStep c cMay r (it, hs)).reentrant = []) :
    itemOK (checkStep c cMay r (it, hs)).orderEdges ctx ((ctxGet cMay it.fn).getD []) it hs := by
  simp only [checkStep, hc] at hu hr ⊢
  unfold itemOK
  cases hop : it.op <;> simp only [hop] at hu hr ⊢
  case read f =>
    split at hu
    · rename_i hcond
      simpa [hasLock] using hcond
    · simp at hu
  case write f =>
    split at hu
    · rename_i hcond
      simpa [hasLock] using hcond
    · simp at hu
  case acq l m =>
    split at hr
    · simp at hr
    · rename_i hcond
      refine ⟨?_, ?_⟩
      · intro p hp he
        apply hcond
        simp only [List.any_eq_true]
        exact ⟨p, hp, by simp [he]⟩
      · intro p hp
        simp only [hcond]
        by_cases hin : (p.1, l) ∈ r.orderEdges
        · exact List.mem_append_right _ hin
        · apply List.mem_append_left
          simp only [List.mem_filter, List.mem_eraseDups, List.mem_map]
          exact ⟨⟨p, hp, rfl⟩, by simpa using hin⟩

theorem foldl_checkStep (c cMay : Ctx) (xs : List (Item × List Held)) (r : Report)
    (hu : (xs.foldl (checkStep c cMay) r).unguarded = [])
    (hr : (xs.foldl (checkStep c cMay) r).reentrant = []) :
    r.unguarded = [] ∧ r.reentrant = [] ∧
    (∀ e ∈ r.orderEdges, e ∈ (xs.foldl (checkStep c cMay) r).orderEdges) ∧
    ∀ it hs, (it, hs) ∈ xs → ∀ ctx, ctxGet c it.fn = some ctx →
      itemOK (xs.foldl (checkStep c cMay) r).orderEdges ctx ((ctxGet cMay it.fn).getD []) it hs := by
  induction xs generalizing r with
  | nil => exact ⟨hu, hr, fun _ h => h, fun _ _ h => by cases h⟩
  | cons x xs ih =>
    simp only [List.foldl_cons] at hu hr ⊢
    obtain ⟨hu', hr', hE, hI⟩ := ih _ hu hr
    refine ⟨checkStep_unguarded _ _ _ _ hu', checkStep_reentrant _ _ _ _ hr',
      fun e he => hE _ (checkStep_edges _ _ _ _ _ he), ?_⟩
    intro it hs hmem ctx hctx
    rcases List.mem_cons.mp hmem with rfl | hmem
    · exact itemOK_mono hE (checkStep_item c cMay r it hs ctx hctx hu' hr')
    · exact hI it hs hmem ctx hctx

/-- a report without unguarded accesses and re-entrant acquisitions: the verdict holds item by item -/
theorem check_items (ann : List (Item × List Held)) (c cMay : Ctx)
    (hu : (check ann c cMay).unguarded = []) (hr : (check ann c cMay).reentrant = [])
    (it : Item) (hs : List Held) (hmem : (it, hs) ∈ ann) (ctx : List (Nat × Mode))
    (hctx : ctxGet c it.fn = some ctx) :
    itemOK (check ann c cMay).orderEdges ctx ((ctxGet cMay it.fn).getD []) it hs := by
  rw [check_eq] at hu hr ⊢
  exact (foldl_checkStep c cMay ann {} hu hr).2.2.2 it hs hmem ctx hctx

/-! ### the lexical walk -/

theorem annotate_cons (hs : List Held) (it : Item) (rest : List Item) (hd : detached it = false) :
    annotate hs (it :: rest) =
      (it, hs.filter (fun h => h.depth ≤ it.depth)) :: annotate (stepHeld hs it) rest := by
  simp only [detached] at hd
  simp only [annotate, hd]
  rfl

theorem mem_annotateAll {n : Nat} {items : List Item} {g : Nat} (hg : g < n) {x : Item × List Held}
    (hx : x ∈ annotate [] (itemsOf items g)) : x ∈ annotateAll n items := by
  simp only [annotateAll, List.mem_flatMap, List.mem_range]
  exact ⟨g, hg, hx⟩

theorem itemsOf_fn {items : List Item} {f : Nat} {it : Item} (h : it ∈ itemsOf items f) : it.fn = f := by
  simp only [itemsOf, List.mem_filter, beq_iff_eq] at h
  exact h.2

theorem bracketed_fn {n : Nat} {items : List Item} {must : Ctx} (h : bracketed n items must = true)
    {g : Nat} (hg : g < n) {c : List (Nat × Mode)} (hc : ctxGet must g = some c) :
    bracketedFrom [] [] (itemsOf items g) = true := by
  simp only [bracketed, List.all_eq_true, List.mem_range, Bool.or_eq_true] at h
  rcases h g hg with h | h
  · simp [hc] at h
  · exact h

theorem pairs_append (a b : List Held) : pairs (a ++ b) = pairs a ++ pairs b := by simp [pairs]

/-- the func literals that ended give back their locks through their deferred releases -/
theorem exit_ok (guard : Nat → Nat) {E : List (Nat × Nat)} {ord : Lockset.Held → Action → Bool}
    (hord : OrdSpec E ord) (hs ds : List Held) (it : Item) (H₀ : Lockset.Held)
    (h : hs = ds.filter (fun h => it.depth < h.depth) ++ hs.filter (fun h => h.depth ≤ it.depth)) :
    runOK guard ord (pairs hs ++ H₀) (exitRels ds it) =
      some (pairs (hs.filter (fun h => h.depth ≤ it.depth)) ++ H₀) := by
  generalize hs.filter (fun h => h.depth ≤ it.depth) = cur at h ⊢
  subst h
  rw [pairs_append, List.append_assoc]
  exact runOK_rels guard hord _ _

/-- an explicit release of a lexically held lock in its mode -/
theorem pairs_erase (cur : List Held) (l : Nat) (m : Mode) (h : Held)
    (hf : cur.find? (fun h => h.lock == l) = some h) (hm : h.mode = m) (K : Lockset.Held) :
    (l, toL m) ∈ pairs cur ++ K ∧
    (pairs cur ++ K).erase (l, toL m) = pairs (cur.eraseP (fun h => h.lock == l)) ++ K := by
  induction cur with
  | nil => cases hf
  | cons x xs ih =>
    by_cases hx : x.lock = l
    · have : x = h := by simpa [List.find?_cons, hx] using hf
      subst this
      subst hm
      subst hx
      simp [pairs]
    · have hf' : xs.find? (fun h => h.lock == l) = some h := by simpa [List.find?_cons, hx] using hf
      obtain ⟨h1, h2⟩ := ih hf'
      refine ⟨?_, ?_⟩
      · simp only [pairs, List.map_cons, List.cons_append, List.mem_cons]
        exact .inr h1
      · have hne : ((x.lock, toL x.mode) == (l, toL m)) = false := by simp [hx]
        simp only [pairs, List.map_cons, List.cons_append, List.erase_cons, hne]
        simp only [pairs] at h2
        simp [hx, h2]

/-! ### one item -/

theorem toL_W {m : Mode} : toL m = Lockset.Mode.W ↔ m = .W := by cases m <;> simp [toL]

theorem mem_pairs_of_mem {cur : List Held} {h : Held} (hm : h ∈ cur) : (h.lock, toL h.mode) ∈ pairs cur :=
  List.mem_map.mpr ⟨h, hm, rfl⟩

theorem sat_join {H₀ : Lockset.Held} {ctx : List (Nat × Mode)} (h : sat H₀ ctx) (cur : List Held) :
    sat (pairs cur ++ H₀) (joinCtx ctx cur) := by
  intro p hp
  simp only [joinCtx, List.mem_append, List.mem_map] at hp
  rcases hp with ⟨x, hx, rfl⟩ | hp
  · have := List.mem_append_left H₀ (mem_pairs_of_mem hx)
    cases hm : x.mode with
    | R => exact .inr ⟨by simp, by simpa [hm, toL] using this⟩
    | W => exact .inl (by simpa [hm, toL] using this)
  · exact covers_mono (fun q hq => List.mem_append_right _ hq) (h p hp)

theorem may_join {H₀ : Lockset.Held} {cm : List (Nat × Mode)} (h : ∀ q ∈ H₀, ∃ m, (q.1, m) ∈ cm)
    (cur : List Held) : ∀ q ∈ pairs cur ++ H₀, ∃ m, (q.1, m) ∈ joinCtx cm cur := by
  intro q hq
  simp only [List.mem_append, pairs, List.mem_map] at hq
  rcases hq with ⟨x, hx, rfl⟩ | hq
  · exact ⟨x.mode, by simp only [joinCtx, List.mem_append, List.mem_map]; exact .inl ⟨x, hx, rfl⟩⟩
  · obtain ⟨m, hm⟩ := h q hq
    exact ⟨m, by simp only [joinCtx, List.mem_append]; exact .inr hm⟩

theorem hasLock_covers {H : Lockset.Held} {all : List (Nat × Mode)} (hsat : sat H all) {l : Nat} {w : Bool}
    (h : hasLock all l w = true) :
    (l, Lockset.Mode.W) ∈ H ∨ (w = false ∧ (l, Lockset.Mode.R) ∈ H) := by
  simp only [hasLock, List.any_eq_true, Bool.and_eq_true, beq_iff_eq, Bool.or_eq_true,
    Bool.not_eq_true'] at h
  obtain ⟨⟨l', m⟩, hmem, hl, hw⟩ := h
  simp only at hl hw
  subst hl
  rcases hsat _ hmem with hc | ⟨hm, hc⟩
  · exact .inl hc
  · simp only at hm hc
    subst hm
    rcases hw with hw | hw
    · exact .inr ⟨hw, hc⟩
    · simp at hw

theorem runOK_single {guard : Nat → Nat} {ord : Lockset.Held → Action → Bool} {H : Lockset.Held} {a : Action}
    (h₁ : okNow guard H a = true) (h₂ : ord H a = true) :
    runOK guard ord H [a] = some (after H a) := by
  simp [runOK, h₁, h₂]

/-- the events of an item that executes are allowed, and move the held-set as `stepHeld` says -/
theorem prim_ok {E : List (Nat × Nat)} {ord : Lockset.Held → Action → Bool} (hord : OrdSpec E ord)
    (hs : List Held) (it : Item) (ctx cm : List (Nat × Mode)) (H₀ : Lockset.Held)
    (hd : detached it = false)
    (hok : itemOK E ctx cm it (hs.filter (fun h => h.depth ≤ it.depth)))
    (hrel : (match it.op with
      | .rel l m =>
        (match (hs.filter (fun h => h.depth ≤ it.depth)).find? (fun h => h.lock == l) with
          | some h => h.mode == m
          | none => false)
      | _ => true) = true)
    (hsat : sat H₀ ctx) (hmay : ∀ q ∈ H₀, ∃ m, (q.1, m) ∈ cm) :
    runOK guardOf ord (pairs (hs.filter (fun h => h.depth ≤ it.depth)) ++ H₀) (primEv it) =
      some (pairs (stepHeld hs it) ++ H₀) := by
  have hstep : stepHeld hs it = (match it.op with
      | .acq l m => ⟨l, m, it.depth⟩ :: hs.filter (fun h => h.depth ≤ it.depth)
      | .rel l _ => (hs.filter (fun h => h.depth ≤ it.depth)).eraseP (fun h => h.lock == l)
      | _ => hs.filter (fun h => h.depth ≤ it.depth)) := rfl
  rw [hstep]
  generalize hs.filter (fun h => h.depth ≤ it.depth) = cur at hok hrel ⊢
  have hS := sat_join hsat cur
  have hM := may_join hmay cur
  simp only [primEv, hd, Bool.false_eq_true, ↓reduceIte]
  unfold itemOK at hok
  cases hop : it.op <;> simp only [hop] at hok hrel ⊢ <;>
    try (first | rfl | exact runOK_single (a := .other) rfl (hord.other _))
  case acq l m =>
    have h1 : ∀ m', (l, m') ∉ pairs cur ++ H₀ := by
      intro m' hin
      obtain ⟨m'', hm''⟩ := hM _ hin
      exact hok.1 _ hm'' rfl
    have h2 : ord (pairs cur ++ H₀) (.acq l (toL m)) = true := by
      apply hord.acq
      intro q hq
      obtain ⟨m'', hm''⟩ := hM _ hq
      exact hok.2 _ hm''
    rw [runOK_single (guard := guardOf) (ord := ord) (H := pairs cur ++ H₀) (a := .acq l (toL m))
      (by simp only [okNow, h1, decide_false, Bool.not_false, Bool.and_self]) h2]
    rfl
  case rel l m =>
    split at hrel
    · rename_i h hf
      have hm : h.mode = m := by simpa using hrel
      obtain ⟨e1, e2⟩ := pairs_erase cur l m h hf hm H₀
      rw [runOK_single (guard := guardOf) (ord := ord) (H := pairs cur ++ H₀) (a := .rel l (toL m))
        (by simp only [okNow, e1, decide_true]) (hord.rel _ _ _)]
      simp only [after, e2]
    · cases hrel
  case read x =>
    by_cases hnd : it.nonDynamic = true
    · simp only [hnd, if_true]; exact runOK_single (a := .other) rfl (hord.other _)
    · have := hasLock_covers hS (hok.resolve_left hnd)
      simp only [hnd, Bool.false_eq_true, ↓reduceIte]
      rw [runOK_single (guard := guardOf) (ord := ord) (H := pairs cur ++ H₀) (a := .read x) (by
        simp only [okNow, Bool.or_eq_true, decide_eq_true_eq]
        rcases this with h | ⟨_, h⟩
        · exact .inr h
        · exact .inl h) (hord.read _ _)]
      rfl
  case write x =>
    have := hasLock_covers hS hok
    rw [runOK_single (guard := guardOf) (ord := ord) (H := pairs cur ++ H₀) (a := .write x) (by
      simp only [okNow, decide_eq_true_eq]
      rcases this with h | ⟨h, _⟩
      · exact h
      · cases h) (hord.write _ _)]
    rfl

/-! ### executions -/

/-- what the soundness proof uses of an analysis result -/
structure Certified (n : Nat) (items : List Item) (must may : Ctx) (E : List (Nat × Nat)) : Prop where
  lenMust : must.length = n
  lenMay : may.length = n
  fixMust : propagate (annotateAll n items) must = must
  fixMay : propagateMay (annotateAll n items) may = may
  itemsOK : ∀ it hs, (it, hs) ∈ annotateAll n items → ∀ ctx, ctxGet must it.fn = some ctx →
    itemOK E ctx ((ctxGet may it.fn).getD []) it hs
  brack : bracketed n items must = true

theorem stepHeld_pairs_of_not_lock (hs : List Held) (it : Item) (h : isLockOp it.op = false) :
    stepHeld hs it = hs.filter (fun h => h.depth ≤ it.depth) := by
  simp only [stepHeld]
  cases hop : it.op <;> simp_all [isLockOp]

/-! ### loops: a stretch of non-lock items of one depth leaves the lexical state where it is -/

/-- nothing in `hs` is deeper than `d` -/
def closedAt (d : Nat) (hs : List Held) : Prop := hs.filter (fun h => h.depth ≤ d) = hs

theorem closedAt_filter (d : Nat) (hs : List Held) : closedAt d (hs.filter (fun h => h.depth ≤ d)) := by
  simp [closedAt, List.filter_filter]

theorem closedAt_deeper {d : Nat} {hs : List Held} (h : closedAt d hs) :
    hs.filter (fun h => d < h.depth) = [] := by
  rw [List.filter_eq_nil_iff]
  intro x hx
  have := (List.filter_eq_self.mp h) x hx
  simp only [decide_eq_true_eq] at this ⊢
  omega

theorem deferNext_of_not_lock (ds : List Held) (it : Item) (h : isLockOp it.op = false) :
    deferNext ds it = ds.filter (fun h => h.depth ≤ it.depth) := by
  simp only [deferNext]
  split
  · rfl
  · cases hop : it.op <;> simp_all [isLockOp]

/-- the annotation of an item, as a function of the filtered held-set -/
def effOf (cur : List Held) (it : Item) : List Held :=
  if it.depth > 0 && !it.inline then cur.filter (fun h => h.depth ≥ it.depth) else cur

theorem annotate_cons' (hs : List Held) (it : Item) (rest : List Item) :
    annotate hs (it :: rest) =
      (it, effOf (hs.filter (fun h => h.depth ≤ it.depth)) it) :: annotate (stepHeld hs it) rest := rfl

theorem annotate_block (d : Nat) (hs : List Held) (blk r : List Item) (hc : closedAt d hs)
    (hblk : ∀ it ∈ blk, isLockOp it.op = false ∧ it.depth = d) :
    annotate hs (blk ++ r) = blk.map (fun it => (it, effOf hs it)) ++ annotate hs r := by
  induction blk with
  | nil => rfl
  | cons it bs ih =>
    obtain ⟨hnl, hd⟩ := hblk it List.mem_cons_self
    rw [List.cons_append, annotate_cons', stepHeld_pairs_of_not_lock hs it hnl, hd, hc,
      ih (fun i hi => hblk i (List.mem_cons_of_mem _ hi))]
    rfl

theorem bracketed_block (d : Nat) (hs ds : List Held) (blk r : List Item) (hc : closedAt d hs)
    (hcd : closedAt d ds) (hblk : ∀ it ∈ blk, isLockOp it.op = false ∧ it.depth = d) :
    bracketedFrom hs ds (blk ++ r) = (blk.all (fun it => !detached it) && bracketedFrom hs ds r) := by
  induction blk with
  | nil => simp
  | cons it bs ih =>
    obtain ⟨hnl, hd⟩ := hblk it List.mem_cons_self
    have hself : (hs == hs) = true := by simp
    rw [List.cons_append, bracketedFrom, stepHeld_pairs_of_not_lock hs it hnl,
      deferNext_of_not_lock ds it hnl, hd, hc, hcd, closedAt_deeper hcd,
      ih (fun i hi => hblk i (List.mem_cons_of_mem _ hi)), List.nil_append, hself]
    cases hop : it.op <;> simp_all [isLockOp, Bool.and_assoc]

/-- the hypotheses of the soundness proof carry over from a body to the body with a stretch repeated -/
theorem loop_hyps (hs ds : List Held) (blk rest : List Item) (d : Nat)
    (hblk : ∀ it ∈ blk, isLockOp it.op = false ∧ it.depth = d)
    (hb : bracketedFrom hs ds (blk ++ rest) = true) :
    bracketedFrom hs ds (blk ++ (blk ++ rest)) = true ∧
    ∀ x ∈ annotate hs (blk ++ (blk ++ rest)), x ∈ annotate hs (blk ++ rest) := by
  cases blk with
  | nil => exact ⟨hb, fun _ h => h⟩
  | cons b bs =>
    obtain ⟨hnl, hd⟩ := hblk b List.mem_cons_self
    have hbs : ∀ it ∈ bs, isLockOp it.op = false ∧ it.depth = d := fun i hi => hblk i (List.mem_cons_of_mem _ hi)
    have hc := closedAt_filter d hs
    have hcd := closedAt_filter d ds
    constructor
    · rw [List.cons_append, bracketedFrom, stepHeld_pairs_of_not_lock hs b hnl,
        deferNext_of_not_lock ds b hnl, hd] at hb ⊢
      rw [bracketed_block d _ _ bs _ hc hcd hbs] at hb ⊢
      rw [bracketed_block d _ _ (b :: bs) _ hc hcd hblk]
      simp only [Bool.and_eq_true, List.all_cons] at hb ⊢
      obtain ⟨⟨⟨h1, h2⟩, h3⟩, h4, h5⟩ := hb
      exact ⟨⟨⟨h1, h2⟩, h3⟩, h4, ⟨h1, h4⟩, h5⟩
    · intro x hx
      rw [List.cons_append, annotate_cons', stepHeld_pairs_of_not_lock hs b hnl, hd] at hx ⊢
      rw [annotate_block d _ bs _ hc hbs] at hx ⊢
      rw [annotate_block d _ (b :: bs) _ hc hblk] at hx
      simp only [List.mem_cons, List.mem_append, List.map_cons] at hx ⊢
      rcases hx with hx | hx | (hx | hx) | hx
      · exact .inl hx
      · exact .inr (.inl hx)
      · exact .inl hx
      · exact .inr (.inl hx)
      · exact .inr (.inr hx)

theorem exec_sound {n : Nat} {items : List Item} {must may : Ctx} {E : List (Nat × Nat)}
    (S : Certified n items must may E) {ord : Lockset.Held → Action → Bool} (hord : OrdSpec E ord)
    {ds : List Held} {its : List Item} {tr : List Action} (hex : Exec n items ds its tr) :
    ∀ (hs : List Held) (f : Nat) (c cm : List (Nat × Mode)) (H₀ : Lockset.Held),
      (∀ x ∈ annotate hs its, x ∈ annotateAll n items) →
      bracketedFrom hs ds its = true →
      (∀ it ∈ its, it.fn = f) →
      ctxGet must f = some c → ctxGet may f = some cm →
      sat H₀ c → (∀ q ∈ H₀, ∃ m, (q.1, m) ∈ cm) →
      runOK guardOf ord (pairs hs ++ H₀) tr = some H₀ := by
  induction hex with
  | nil ds =>
    intro hs f c cm H₀ _ hb _ _ _ _ _
    have : hs = ds := by simpa [bracketedFrom] using hb
    subst this
    exact runOK_rels _ hord _ _
  | prim ds it rest tr _ ih =>
    intro hs f c cm H₀ hann hb hfn hc hcm hsat hmay
    simp only [bracketedFrom, Bool.and_eq_true, Bool.not_eq_true', beq_iff_eq] at hb
    obtain ⟨⟨⟨hd, hsplit⟩, hrel⟩, hb'⟩ := hb
    rw [annotate_cons hs it rest hd] at hann
    have hitfn : it.fn = f := hfn it List.mem_cons_self
    have hok := S.itemsOK it _ (hann _ List.mem_cons_self) c (by rw [hitfn]; exact hc)
    rw [hitfn, hcm] at hok
    refine runOK_seq (exit_ok guardOf hord hs ds it H₀ hsplit) (runOK_seq
      (prim_ok hord hs it c cm H₀ hd hok hrel hsat hmay) ?_)
    exact ih (stepHeld hs it) f c cm H₀ (fun x hx => hann x (List.mem_cons_of_mem _ hx)) hb'
      (fun i hi => hfn i (List.mem_cons_of_mem _ hi)) hc hcm hsat hmay
  | skip ds it rest tr hnl _ ih =>
    intro hs f c cm H₀ hann hb hfn hc hcm hsat hmay
    simp only [bracketedFrom, Bool.and_eq_true, Bool.not_eq_true', beq_iff_eq] at hb
    obtain ⟨⟨⟨hd, hsplit⟩, _⟩, hb'⟩ := hb
    rw [annotate_cons hs it rest hd] at hann
    refine runOK_seq (exit_ok guardOf hord hs ds it H₀ hsplit) ?_
    rw [← stepHeld_pairs_of_not_lock hs it hnl]
    exact ih (stepHeld hs it) f c cm H₀ (fun x hx => hann x (List.mem_cons_of_mem _ hx)) hb'
      (fun i hi => hfn i (List.mem_cons_of_mem _ hi)) hc hcm hsat hmay
  | call ds it rest fns g tr₁ tr₂ hop hd hg hlt _ _ ih₁ ih₂ =>
    intro hs f c cm H₀ hann hb hfn hc hcm hsat hmay
    simp only [bracketedFrom, Bool.and_eq_true, Bool.not_eq_true', beq_iff_eq] at hb
    obtain ⟨⟨⟨_, hsplit⟩, _⟩, hb'⟩ := hb
    rw [annotate_cons hs it rest hd] at hann
    have hitfn : it.fn = f := hfn it List.mem_cons_self
    have hmem := hann _ List.mem_cons_self
    have hnl : isLockOp it.op = false := by rw [hop]; rfl
    -- the callee's contexts, from the two fixpoints
    have h1 := propagate_call _ must it _ hmem fns hop c (by rw [hitfn]; exact hc) g hg (by rw [S.lenMust]; exact hlt)
    have h2 := propagateMay_call _ may it _ hmem fns hop cm (by rw [hitfn]; exact hcm) g hg (by rw [S.lenMay]; exact hlt)
    rw [S.fixMust] at h1
    rw [S.fixMay] at h2
    cases hcg : ctxGet must g with
    | none => rw [hcg] at h1; cases h1
    | some cg =>
    cases hcmg : ctxGet may g with
    | none => rw [hcmg] at h2; cases h2
    | some cmg =>
    rw [hcg] at h1
    rw [hcmg] at h2
    refine runOK_seq (exit_ok guardOf hord hs ds it H₀ hsplit) (runOK_seq (H₁ := pairs (hs.filter (fun h => h.depth ≤ it.depth)) ++ H₀) ?_ ?_)
    · exact ih₁ [] g cg cmg _ (fun x hx => mem_annotateAll hlt hx) (bracketed_fn S.brack hlt hcg)
        (fun i hi => itemsOf_fn hi) hcg hcmg (h1 _ (sat_join hsat _))
        (fun q hq => by
          obtain ⟨m, hm⟩ := may_join hmay _ q hq
          exact ⟨m, h2 _ hm⟩)
    · rw [← stepHeld_pairs_of_not_lock hs it hnl]
      exact ih₂ (stepHeld hs it) f c cm H₀ (fun x hx => hann x (List.mem_cons_of_mem _ hx)) hb'
        (fun i hi => hfn i (List.mem_cons_of_mem _ hi)) hc hcm hsat hmay
  | loop ds blk rest d tr hblk _ ih =>
    intro hs f c cm H₀ hann hb hfn hc hcm hsat hmay
    obtain ⟨hb', hsub⟩ := loop_hyps hs ds blk rest d hblk hb
    exact ih hs f c cm H₀ (fun x hx => hann x (hsub x hx)) hb'
      (fun i hi => hfn i (by
        simp only [List.mem_append] at hi ⊢
        rcases hi with hi | hi | hi
        · exact .inl hi
        · exact .inl hi
        · exact .inr hi)) hc hcm hsat hmay


/-! ### from the verdicts of the analysis to the certificate -/

theorem fnId_lt {names : List String} {e : String} (h : e ∈ names) : fnId names e < names.length := by
  unfold fnId
  cases hi : names.idxOf? e with
  | none => exact absurd h (List.idxOf?_eq_none_iff.mp hi)
  | some i =>
    obtain ⟨hlt, _⟩ := List.idxOf?_eq_some_iff.mp hi
    exact hlt

theorem certified_of_analysis (names : List String) (items : List Item) (entries : List String)
    (hu : (analysis names items entries).report.unguarded = [])
    (hr : (analysis names items entries).report.reentrant = [])
    (hfix : (analysis names items entries).fixpoint = true)
    (hbr : (analysis names items entries).bracketed names items = true) :
    Certified names.length items (analysis names items entries).must (analysis names items entries).may
      (analysis names items entries).report.orderEdges := by
  simp only [Analysis.fixpoint, stable, stableMay, Bool.and_eq_true, beq_iff_eq] at hfix
  refine ⟨?_, ?_, hfix.1, hfix.2, ?_, hbr⟩
  · simp only [analysis]; rw [iterate_length, initCtx_length]
  · simp only [analysis]; rw [iterateMay_length, initCtx_length]
  · intro it hs hmem ctx hctx
    exact check_items _ _ _ hu hr it hs hmem ctx hctx

/-- an entry point starts with the empty context, in both data-flows -/
theorem entry_ctx (names : List String) (items : List Item) (entries : List String) (e : String)
    (he : e ∈ entries) (hn : e ∈ names) :
    (∃ c, ctxGet (analysis names items entries).must (fnId names e) = some c ∧ sat [] c) ∧
    (∃ cm, ctxGet (analysis names items entries).may (fnId names e) = some cm) := by
  have hinit := initCtx_entry names.length (entries.map (fnId names)) (fnId names e)
    (List.mem_map.mpr ⟨e, he, rfl⟩) (fnId_lt hn)
  constructor
  · have h := iterate_le (annotateAll names.length items) rounds (initCtx names.length (entries.map (fnId names))) (fnId names e)
    rw [hinit] at h
    simp only [analysis]
    cases hc : ctxGet (iterate (annotateAll names.length items) rounds (initCtx names.length (entries.map (fnId names)))) (fnId names e) with
    | none => rw [hc] at h; cases h
    | some c =>
      rw [hc] at h
      exact ⟨c, rfl, h [] (fun _ hp => by cases hp)⟩
  · have h := iterateMay_ge (annotateAll names.length items) rounds (initCtx names.length (entries.map (fnId names))) (fnId names e)
    rw [hinit] at h
    simp only [analysis]
    cases hc : ctxGet (iterateMay (annotateAll names.length items) rounds (initCtx names.length (entries.map (fnId names)))) (fnId names e) with
    | none => rw [hc] at h; cases h
    | some c => exact ⟨c, rfl⟩

/-- every complete trace of an entry point runs, from the empty held-set back to the empty held-set,
    through `okNow` and the order condition -/
theorem entry_runOK (names : List String) (items : List Item) (entries : List String)
    {ord : Lockset.Held → Action → Bool}
    (hu : (analysis names items entries).report.unguarded = [])
    (hr : (analysis names items entries).report.reentrant = [])
    (hord : OrdSpec (analysis names items entries).report.orderEdges ord)
    (hfix : (analysis names items entries).fixpoint = true)
    (hbr : (analysis names items entries).bracketed names items = true)
    (p : Lockset.Prog) (hp : EntryProg names items entries p) :
    runOK guardOf ord [] p = some [] := by
  obtain ⟨e, he, hn, htr⟩ := hp
  have S := certified_of_analysis names items entries hu hr hfix hbr
  obtain ⟨⟨c, hc, hsat⟩, ⟨cm, hcm⟩⟩ := entry_ctx names items entries e he hn
  exact exec_sound S hord htr [] (fnId names e) c cm [] (fun x hx => mem_annotateAll (fnId_lt hn) hx)
    (bracketed_fn S.brack (fnId_lt hn) hc) (fun i hi => itemsOf_fn hi) hc hcm hsat (fun _ hq => by cases hq)

/-- **Soundness of the analysis, lock discipline.**  For ARBITRARY facts: if the report of `check`
    has no unguarded access and no re-entrant acquisition, both data-flows are at their fixpoint,
    and the reachable functions are bracketed (`Conc.bracketed`: releases match acquisitions; it
    cannot be dropped — `check_alone_not_sound`), then every complete trace of every entry point keeps
    the lock discipline w.r.t. `guardOf`: every read of a tracked field happens with its guard held,
    every write with the guard held exclusively, no lock is re-acquired while held, only held locks
    are released, and nothing is held at the end. -/
theorem analysis_sound (names : List String) (items : List Item) (entries : List String)
    (hu : (analysis names items entries).report.unguarded = [])
    (hr : (analysis names items entries).report.reentrant = [])
    (hfix : (analysis names items entries).fixpoint = true)
    (hbr : (analysis names items entries).bracketed names items = true)
    (p : Lockset.Prog) (hp : EntryProg names items entries p) :
    Disciplined guardOf [] p = true :=
  runOK_disciplined (entry_runOK names items entries hu hr (ordSpec_none _) hfix hbr p hp)

/-- **Soundness of the analysis, lock order.**  If moreover every edge of the reported
    acquired-while-holding relation goes up in `rank`, every trace acquires locks in strictly
    increasing rank. -/
theorem analysis_sound_order (names : List String) (items : List Item) (entries : List String)
    (rank : Nat → Nat)
    (hu : (analysis names items entries).report.unguarded = [])
    (hr : (analysis names items entries).report.reentrant = [])
    (hrank : ∀ e ∈ (analysis names items entries).report.orderEdges, rank e.1 < rank e.2)
    (hfix : (analysis names items entries).fixpoint = true)
    (hbr : (analysis names items entries).bracketed names items = true)
    (p : Lockset.Prog) (hp : EntryProg names items entries p) :
    Ordered rank [] p = true :=
  runOK_ordered (entry_runOK names items entries hu hr (ordSpec_rank _ rank hrank) hfix hbr p hp)

/-! ### the generated traces are traces -/

theorem genBody_exec (n : Nat) (items : List Item) (callee : Nat → List Action)
    (hcal : ∀ g, g < n → callee g = [] ∨ Exec n items [] (itemsOf items g) (callee g))
    (its : List Item) : ∀ ds, Exec n items ds its (genBody n callee ds its) := by
  induction its with
  | nil => exact fun ds => .nil ds
  | cons it rest ih =>
    intro ds
    have hprim : Exec n items ds (it :: rest) (exitRels ds it ++ (primEv it ++ genBody n callee (deferNext ds it) rest)) :=
      .prim ds it rest _ (ih _)
    simp only [genBody]
    split
    · rename_i g gs hop
      have hpe : primEv it = [] := by
        simp only [primEv, hop]; split <;> rfl
      rw [hpe] at hprim
      split
      · rename_i hcond
        rcases hcal g hcond.2 with h0 | hex
        · rw [h0]; exact hprim
        · exact .call ds it rest (g :: gs) g _ _ hop hcond.1 List.mem_cons_self hcond.2 hex (ih _)
      · exact hprim
    · exact hprim

theorem genTrace_exec (n : Nat) (items : List Item) (fuel : Nat) :
    ∀ f, Exec n items [] (itemsOf items f) (genTrace n items (fuel + 1) f) := by
  induction fuel with
  | zero => exact fun f => genBody_exec n items _ (fun _ _ => .inl rfl) _ _
  | succ k ih => exact fun f => genBody_exec n items _ (fun g _ => .inr (ih g)) _ _

theorem genTrace_traces (names : List String) (items : List Item) (fuel f : Nat) :
    Traces names items f (genTrace names.length items (fuel + 1) f) :=
  genTrace_exec _ _ _ _

/-- every entry point that exists has a trace: the derived system is never empty for a vacuous reason -/
theorem entryProg_exists (names : List String) (items : List Item) (entries : List String) (e : String)
    (he : e ∈ entries) (hn : e ∈ names) : ∃ p, EntryProg names items entries p :=
  ⟨_, e, he, hn, genTrace_traces names items 0 _⟩

/-! ### the derived system -/

/-- any number of threads, each running a complete trace of one of the entry points -/
def EntrySystem (names : List String) (items : List Item) (entries : List String) (progs : List Lockset.Prog) : Prop :=
  ∀ p ∈ progs, EntryProg names items entries p

/-- composition with `Lockset.lockset_sound`: in no reachable state of the derived system — any
    number of threads, each running any complete trace of any entry point, interleaved in any way —
    do two different threads have conflicting accesses to a tracked field (same field, at least one
    write) as their next events -/
theorem analysis_no_unguarded_access (names : List String) (items : List Item) (entries : List String)
    (hu : (analysis names items entries).report.unguarded = [])
    (hr : (analysis names items entries).report.reentrant = [])
    (hfix : (analysis names items entries).fixpoint = true)
    (hbr : (analysis names items entries).bracketed names items = true)
    (progs : List Lockset.Prog) (hsys : EntrySystem names items entries progs)
    (σ : Lockset.State) (hreach : Lockset.Reachable (Lockset.init progs) σ) (k k' : Lockset.Kind) :
    ¬ ∃ t t' x, t ≠ t' ∧ Lockset.nextIs σ t (Lockset.access x k) ∧ Lockset.nextIs σ t' (Lockset.access x k') ∧
        (k = Lockset.Kind.write ∨ k' = Lockset.Kind.write) :=
  Lockset.lockset_sound guardOf progs
    (fun p hp => analysis_sound names items entries hu hr hfix hbr p (hsys p hp)) σ hreach k k'

/-- composition with `Lockset.no_deadlock`: in every reachable state of the derived system in which
    some thread has not finished, some thread can move -/
theorem analysis_no_deadlock (names : List String) (items : List Item) (entries : List String)
    (rank : Nat → Nat)
    (hu : (analysis names items entries).report.unguarded = [])
    (hr : (analysis names items entries).report.reentrant = [])
    (hrank : ∀ e ∈ (analysis names items entries).report.orderEdges, rank e.1 < rank e.2)
    (hfix : (analysis names items entries).fixpoint = true)
    (hbr : (analysis names items entries).bracketed names items = true)
    (progs : List Lockset.Prog) (hsys : EntrySystem names items entries progs)
    (σ : Lockset.State) (hreach : Lockset.Reachable (Lockset.init progs) σ)
    (hunfinished : ∃ (t : Nat) (a : Action) (rest : Lockset.Prog), σ.threads[t]? = some (a :: rest)) :
    ∃ t σ', Lockset.step σ t = some σ' :=
  Lockset.no_deadlock guardOf rank progs
    (fun p hp => analysis_sound names items entries hu hr hfix hbr p (hsys p hp))
    (fun p hp => analysis_sound_order names items entries rank hu hr hrank hfix hbr p (hsys p hp))
    σ hreach hunfinished

/-- a Bool test for the premise of `Lockset.no_deadlock` -/
def unfinishedAt (σ : Lockset.State) (t : Nat) : Bool :=
  match σ.threads[t]? with
  | some (_ :: _) => true
  | _ => false

theorem unfinished_of {σ : Lockset.State} {t : Nat} (h : unfinishedAt σ t = true) :
    ∃ (t : Nat) (a : Action) (rest : Lockset.Prog), σ.threads[t]? = some (a :: rest) := by
  unfold unfinishedAt at h
  split at h
  · rename_i a rest heq; exact ⟨t, a, rest, heq⟩
  · cases h

/-! ### `check` alone is not enough

The verdicts of `check` and the two fixpoint flags do not imply the discipline: `check` never looks
at how a lock is given back.  Two fact lists with a clean report at the fixpoint, and a complete
trace of the entry point that is not disciplined: (1) the lock is never released; (2) `Lock()` is
paired with `defer RUnlock()` — `panicSafe` accepts that one too (it compares the lock, not the
mode); in Go it is the fatal error "sync: RUnlock of unlocked RWMutex".  `bracketed` rejects both. -/

def unreleasedFacts : List Item := [⟨0, .acq 0 .W, 0, false, false⟩, ⟨0, .write 0, 0, false, false⟩]
def mismatchedFacts : List Item :=
  [⟨0, .acq 0 .W, 0, false, false⟩, ⟨0, .deferRel 0 .R, 0, false, false⟩, ⟨0, .write 0, 0, false, false⟩]

theorem check_alone_not_sound :
    (∃ p, (analysis ["f"] unreleasedFacts ["f"]).report = {} ∧
      (analysis ["f"] unreleasedFacts ["f"]).fixpoint = true ∧
      EntryProg ["f"] unreleasedFacts ["f"] p ∧ Disciplined guardOf [] p = false ∧
      (analysis ["f"] unreleasedFacts ["f"]).bracketed ["f"] unreleasedFacts = false) ∧
    (∃ p, (analysis ["f"] mismatchedFacts ["f"]).report = {} ∧
      (analysis ["f"] mismatchedFacts ["f"]).fixpoint = true ∧
      panicSafe 1 mismatchedFacts = true ∧
      EntryProg ["f"] mismatchedFacts ["f"] p ∧ Disciplined guardOf [] p = false ∧
      (analysis ["f"] mismatchedFacts ["f"]).bracketed ["f"] mismatchedFacts = false) :=
  ⟨⟨genTrace 1 unreleasedFacts 1 0, by decide, by decide,
      ⟨"f", by decide, by decide, genTrace_traces ["f"] unreleasedFacts 0 0⟩, by decide, by decide⟩,
   ⟨genTrace 1 mismatchedFacts 1 0, by decide, by decide, by decide,
      ⟨"f", by decide, by decide, genTrace_traces ["f"] mismatchedFacts 0 0⟩, by decide, by decide⟩⟩

/-- the semantics and the must-hold data-flow at work on a toy table: `g` writes field 0 without
    taking a lock, its only caller `f` holds the lock exclusively around the call.  The report is
    clean BECAUSE OF the callers' context, and the trace of `f` through `g` is disciplined … -/
def toyFacts : List Item :=
  [⟨0, .acq 0 .W, 0, false, false⟩, ⟨0, .deferRel 0 .W, 0, false, false⟩, ⟨0, .call [1], 0, false, false⟩,
   ⟨1, .write 0, 0, false, false⟩]

example : genTrace 2 toyFacts 2 0 = [.acq 0 .W, .write 0, .rel 0 .W] := by decide
example : (analysis ["f", "g"] toyFacts ["f"]).lexicallyGuarded = false := by decide
example : ∀ p, EntryProg ["f", "g"] toyFacts ["f"] p → Disciplined guardOf [] p = true :=
  analysis_sound ["f", "g"] toyFacts ["f"] (by decide) (by decide) (by decide) (by decide)
/-- … while with `g` as an entry point of its own the report is not clean, and `g`'s trace is not
    disciplined -/
example : (analysis ["f", "g"] toyFacts ["f", "g"]).report.unguarded ≠ [] ∧
    EntryProg ["f", "g"] toyFacts ["f", "g"] (genTrace 2 toyFacts 1 1) ∧
    Disciplined guardOf [] (genTrace 2 toyFacts 1 1) = false :=
  ⟨by decide, ⟨"g", by decide, by decide, genTrace_traces ["f", "g"] toyFacts 0 1⟩, by decide⟩

/-- a loop around the call: `g` runs twice inside `f`'s critical section -/
example : Traces ["f", "g"] toyFacts 0 [.acq 0 .W, .write 0, .write 0, .rel 0 .W] := by
  have hg : Exec 2 toyFacts [] (itemsOf toyFacts 1) [.write 0] := genTrace_exec 2 toyFacts 0 1
  have h2 : Exec 2 toyFacts [⟨0, .W, 0⟩] ([⟨0, .call [1], 0, false, false⟩] ++ ([⟨0, .call [1], 0, false, false⟩] ++ []))
      [.write 0, .write 0, .rel 0 .W] :=
    .call _ _ _ [1] 1 [.write 0] _ rfl rfl (by decide) (by decide) hg
      (.call _ _ _ [1] 1 [.write 0] _ rfl rfl (by decide) (by decide) hg (.nil _))
  have h1 := Exec.loop (n := 2) (items := toyFacts) _ _ _ 0 _ (by decide) h2
  exact .prim _ _ _ _ (.prim _ _ _ _ h1)

end Restful.Conc
